(* Relay model: the timer protocol and the completion obligations.
   TInv (with Inv) holds in every reachable state of fresh-id runs:
   - every item has its own, unreleased timer; timers follow
       armed -> (stopped | fired -> ran), released only after stopped/ran;
   - no Go panic of the timer pool is ever reached (C09_timer_protocol);
   - every live item is still armed, or its OnTimer goroutine is pending, or its timer is
     stopped and some goroutine still owes the Entomb/Delete of it (=> when nothing is left
     to run, nothing is left in the tables: C09_end_exactly_once, C09_forgotten). *)
From Coq Require Import ZArith List Bool Lia.
From Verif Require Import Base.Wrap Gen.GenConsts Gen.GenFrame Model.RelayItems
  Proofs.RelayAssocP Proofs.RelayCoreP Proofs.RelayInv9P.
Import ListNotations.
Local Open Scope Z_scope.

Notation zlookup := (lookup Z.eqb).
Notation zinsert := (insert Z.eqb).

(* ---------------------------------------------------------------- definitions *)

(* keys whose timer the instruction knows to be stopped: it will Entomb or Delete them *)
Definition sk (i : instr) : list key :=
  match i with
  | INcChk _ f _ own (Some (it, true)) => if fin_of f && negb (it_tomb it) then [own] else []
  | IRcvGet r => if fin_of (r_f r) then [r_own r] else []
  | IRcvChk r rk g =>
      (if fin_of (r_f r) then [r_own r] else []) ++
      match g with
      | Some (it, true) => if fin_of (r_f r) && negb (it_tomb it) then [rk] else []
      | _ => []
      end
  | IRcvEnq r rk _ => if fin_of (r_f r) then [r_own r; rk] else []
  | IEntomb t (FromFail _) => [t]
  | IDelete t _ => [t]
  | _ => []
  end.

(* keys the instruction will Entomb/Delete provided their timer is stopped when it gets there *)
Definition owes (i : instr) : list key :=
  sk i ++ match i with IFailGet t _ => [t] | _ => [] end.

Definition is_trun (i : instr) : bool := match i with ITimerRun _ => true | _ => false end.
Definition is_tent (i : instr) : bool := match i with IEntomb _ (FromTimeout _) => true | _ => false end.

Definition phase_ok (ths : list (tid * list instr)) (tm : Z) (x : timer) : Prop :=
  (tm_armed x = true -> tm_active x = true /\ tm_stopped x = false /\ tm_released x = false) /\
  (tm_stopped x = true -> tm_active x = false /\ tm_armed x = false) /\
  (tm_released x = true -> tm_active x = false) /\
  (tm_active x = true -> tm_armed x = false -> lookup tid_eqb (TT tm) ths = Some [ITimerRun tm]).

Definition tcode_ok (tms : list (Z * timer)) (th : tid) (code : list instr) : Prop :=
  match code with
  | [] => True
  | i :: rest =>
      (forall j, In j rest -> is_trun j = false /\ is_tent j = false) /\
      match i with
      | ITimerRun tm =>
          th = TT tm /\ rest = [] /\
          exists x, zlookup tm tms = Some x /\ tm_active x = true /\ tm_armed x = false /\ tm_released x = false
      | IEntomb t (FromTimeout _) =>
          exists tm x, th = TT tm /\ zlookup tm tms = Some x /\ tm_key x = t /\
                       tm_active x = false /\ tm_stopped x = false /\ tm_armed x = false
      | _ => True
      end
  end.

Definition tt_pending (code : list instr) (tm : Z) (t : key) : Prop :=
  code = [ITimerRun tm] \/ exists o rest, code = IEntomb t (FromTimeout o) :: rest.

Definition oblig (tms : list (Z * timer)) (ths : list (tid * list instr)) (t : key) (it : item) : Prop :=
  exists x, zlookup (it_tm it) tms = Some x /\
    (tm_armed x = true \/
     (exists code, In (TT (it_tm it), code) ths /\ tt_pending code (it_tm it) t) \/
     (tm_stopped x = true /\ exists th code j, In (th, code) ths /\ In j code /\ In t (owes j))).

Record TInv (st : state) : Prop := {
  t_item : forall t it, In (t, it) (items st) ->
             exists x, zlookup (it_tm it) (timers st) = Some x /\ tm_key x = t /\ tm_released x = false;
  t_uniq : forall tm1 tm2 x1 x2, zlookup tm1 (timers st) = Some x1 -> zlookup tm2 (timers st) = Some x2 ->
             tm_key x1 = tm_key x2 -> tm1 = tm2;
  t_alloc : forall tm x, zlookup tm (timers st) = Some x ->
             tm < next_tm st /\
             ((key_dir (tm_key x) = 0 /\ In (key_conn (tm_key x), key_id (tm_key x)) (seen st)) \/
              (key_dir (tm_key x) = 1 /\ key_id (tm_key x) < c_nextid (getc (conns st) (key_conn (tm_key x)))));
  t_adm : forall th code i k f, In (th, code) (threads st) -> In i code -> adm_kf i = Some (k, f) ->
             forall tm x, zlookup tm (timers st) = Some x -> tm_key x <> (k, 0, f_id f);
  t_phase : forall tm x, zlookup tm (timers st) = Some x -> phase_ok (threads st) tm x;
  t_code : forall th code, In (th, code) (threads st) -> tcode_ok (timers st) th code;
  t_sk : forall th code j t, In (th, code) (threads st) -> In j code -> In t (sk j) ->
             exists tm x, zlookup tm (timers st) = Some x /\ tm_key x = t /\ tm_stopped x = true;
  t_tomb : forall t it, In (t, it) (items st) -> it_tomb it = true ->
             In t (gcs st) /\ exists x, zlookup (it_tm it) (timers st) = Some x /\ tm_active x = false;
  t_ncget : forall th code k f, In (th, code) (threads st) -> In (INcGet k f) code -> frameTypeFor (f_mt f) <> None;
  t_oblig : forall t it, In (t, it) (items st) -> it_tomb it = false -> oblig (timers st) (threads st) t it;
  t_nopanic : panicked st = 0
}.

(* ---------------------------------------------------------------- timer operations *)

Definition stopped_timer (x : timer) : timer :=
  {| tm_armed := false; tm_active := false; tm_stopped := true; tm_released := false;
     tm_key := tm_key x; tm_orig := tm_orig x |}.
Definition released_timer (x : timer) : timer :=
  {| tm_armed := tm_armed x; tm_active := false; tm_stopped := tm_stopped x; tm_released := true;
     tm_key := tm_key x; tm_orig := tm_orig x |}.

Lemma timer_stop_spec : forall st tm x st' b, zlookup tm (timers st) = Some x -> tm_released x = false ->
  timer_stop st tm = (st', b) ->
  panicked st' = panicked st /\ next_tm st' = next_tm st /\ core_eq st' st /\
  ((b = true /\ tm_stopped x = true /\ timers st' = timers st) \/
   (b = true /\ tm_stopped x = false /\ tm_armed x = true /\ timers st' = zinsert tm (stopped_timer x) (timers st)) \/
   (b = false /\ tm_stopped x = false /\ tm_armed x = false /\ timers st' = timers st)).
Proof.
  intros st tm x st' b Hl Hr H. unfold timer_stop in H. rewrite Hl, Hr in H.
  destruct (tm_stopped x) eqn:Es.
  - inversion H. subst. repeat split; try reflexivity. left. repeat split; reflexivity.
  - destruct (tm_armed x) eqn:Ea; inversion H; subst.
    + repeat split; try reflexivity. right. left. repeat split; reflexivity.
    + repeat split; try reflexivity. right. right. repeat split; reflexivity.
Qed.

Lemma timer_release_spec : forall st tm x, zlookup tm (timers st) = Some x -> tm_released x = false -> tm_active x = false ->
  panicked (timer_release st tm) = panicked st /\ next_tm (timer_release st tm) = next_tm st /\
  timers (timer_release st tm) = zinsert tm (released_timer x) (timers st).
Proof.
  intros st tm x Hl Hr Ha. unfold timer_release. rewrite Hl, Hr, Ha. repeat split; reflexivity.
Qed.

(* in-place update of one timer that keeps its key *)
Lemma zl_insert : forall tms tm (y : timer) tm', zlookup tm' (zinsert tm y tms) = if tm' =? tm then Some y else zlookup tm' tms.
Proof.
  intros tms tm y tm'. destruct (tm' =? tm) eqn:E.
  - apply Z.eqb_eq in E. subst. apply (lookup_insert_eq Z.eqb zeqb_ok).
  - apply Z.eqb_neq in E. apply (lookup_insert_neq Z.eqb zeqb_ok). exact E.
Qed.

Section TimerUpdate.
  Variables (tms : list (Z * timer)) (tm : Z) (x y : timer).
  Hypothesis Hl : zlookup tm tms = Some x.
  Hypothesis Hk : tm_key y = tm_key x.

  Lemma upd_lookup : forall tm' z, zlookup tm' (zinsert tm y tms) = Some z ->
    (tm' = tm /\ z = y) \/ (tm' <> tm /\ zlookup tm' tms = Some z).
  Proof.
    intros tm' z H. rewrite zl_insert in H. destruct (tm' =? tm) eqn:E.
    - apply Z.eqb_eq in E. inversion H. left. split; [exact E|reflexivity].
    - apply Z.eqb_neq in E. right. split; assumption.
  Qed.

  Lemma upd_key : forall tm' z, zlookup tm' (zinsert tm y tms) = Some z ->
    exists z0, zlookup tm' tms = Some z0 /\ tm_key z0 = tm_key z.
  Proof.
    intros tm' z H. apply upd_lookup in H. destruct H as [[-> ->]|[_ H]].
    - exists x. split; [exact Hl|symmetry; exact Hk].
    - exists z. split; [exact H|reflexivity].
  Qed.

  Lemma upd_uniq : (forall tm1 tm2 x1 x2, zlookup tm1 tms = Some x1 -> zlookup tm2 tms = Some x2 -> tm_key x1 = tm_key x2 -> tm1 = tm2) ->
    forall tm1 tm2 x1 x2, zlookup tm1 (zinsert tm y tms) = Some x1 -> zlookup tm2 (zinsert tm y tms) = Some x2 ->
      tm_key x1 = tm_key x2 -> tm1 = tm2.
  Proof.
    intros Hu tm1 tm2 x1 x2 H1 H2 Heq.
    apply upd_key in H1. apply upd_key in H2. destruct H1 as (z1&H1&K1). destruct H2 as (z2&H2&K2).
    eapply Hu; [exact H1|exact H2|congruence].
  Qed.
End TimerUpdate.

(* ---------------------------------------------------------------- threads after a step *)

Lemma in_set_thread_other : forall st th code th' code', th' <> th ->
  In (th', code') (threads st) -> In (th', code') (threads (set_thread st th code)).
Proof.
  intros st th code th' code' Hne Hin. rewrite set_thread_threads. destruct code.
  - apply (in_remove tid_eqb tid_eqb_ok). split; assumption.
  - apply (in_insert tid_eqb tid_eqb_ok). right. split; assumption.
Qed.

Lemma in_set_thread_self : forall st th code, code <> [] -> In (th, code) (threads (set_thread st th code)).
Proof.
  intros st th code Hne. rewrite set_thread_threads. destruct code; [contradiction|].
  apply (in_insert tid_eqb tid_eqb_ok). left. split; reflexivity.
Qed.

Lemma tlookup_set_thread_other : forall st th code th', th' <> th ->
  lookup tid_eqb th' (threads (set_thread st th code)) = lookup tid_eqb th' (threads st).
Proof.
  intros st th code th' Hne. rewrite set_thread_threads. destruct code.
  - apply (lookup_remove_neq tid_eqb tid_eqb_ok). exact Hne.
  - apply (lookup_insert_neq tid_eqb tid_eqb_ok). exact Hne.
Qed.

(* a step of thread th whose popped instruction is neither ITimerRun nor a timeout Entomb,
   that changes no item, and stops at most one (armed) timer *)
Lemma TInv_get_step : forall st st1 th i rest pushed,
  Inv st -> TInv st ->
  lookup tid_eqb th (threads st) = Some (i :: rest) ->
  items st1 = items st -> gcs st1 = gcs st -> seen st1 = seen st ->
  next_tm st1 = next_tm st -> panicked st1 = panicked st -> threads st1 = threads st ->
  (forall k, c_nextid (getc (conns st) k) <= c_nextid (getc (conns st1) k)) ->
  (timers st1 = timers st \/
   exists tm x t it, zlookup tm (timers st) = Some x /\ tm_armed x = true /\
     timers st1 = zinsert tm (stopped_timer x) (timers st) /\
     In (t, it) (items st) /\ it_tm it = tm /\
     (it_tomb it = false -> exists j, In j pushed /\ In t (owes j))) ->
  is_trun i = false -> is_tent i = false ->
  (forall j, In j pushed -> is_trun j = false /\ is_tent j = false) ->
  (forall j k f, In j pushed -> adm_kf j = Some (k, f) -> adm_kf i = Some (k, f)) ->
  (forall j t, In j pushed -> In t (sk j) ->
     In t (sk i) \/ exists tm x, zlookup tm (timers st1) = Some x /\ tm_key x = t /\ tm_stopped x = true) ->
  (forall t, In t (owes i) ->
     (exists j, In j pushed /\ In t (owes j)) \/
     (forall it x, In (t, it) (items st) -> it_tomb it = false -> zlookup (it_tm it) (timers st1) = Some x -> tm_stopped x = false)) ->
  (forall k f, In (INcGet k f) pushed -> frameTypeFor (f_mt f) <> None) ->
  TInv (set_thread st1 th (pushed ++ rest)).
Proof.
  intros st st1 th i rest pushed HI HT Hl Hit Hg Hsn Hntm Hpan Hth Hcs Htms Hitr Hite Hpt Hpadm Hpsk Hpow Hpnc.
  pose proof (lookup_in tid_eqb tid_eqb_ok _ _ _ Hl) as Hin0.
  (* every timer of st1 comes from a timer of st with the same key; flags change only by a stop *)
  assert (Hback : forall tm' z, zlookup tm' (timers st1) = Some z ->
            exists z0, zlookup tm' (timers st) = Some z0 /\ tm_key z0 = tm_key z /\
                       (z = z0 \/ (tm_armed z0 = true /\ z = stopped_timer z0))).
  { intros tm' z Hz. destruct Htms as [Heq|(tm&x&t&it&Hx&Ha&Heq&_)].
    - rewrite Heq in Hz. exists z. repeat split; [exact Hz|left; reflexivity].
    - rewrite Heq in Hz. apply (upd_lookup _ _ _ ) in Hz. destruct Hz as [[-> ->]|[_ Hz]].
      + exists x. repeat split; [exact Hx|right; split; [exact Ha|reflexivity]].
      + exists z. repeat split; [exact Hz|left; reflexivity]. }
  assert (Hfwd : forall tm' z0, zlookup tm' (timers st) = Some z0 ->
            exists z, zlookup tm' (timers st1) = Some z /\ tm_key z = tm_key z0 /\
                      (z = z0 \/ (tm_armed z0 = true /\ z = stopped_timer z0))).
  { intros tm' z0 Hz. destruct Htms as [Heq|(tm&x&t&it&Hx&Ha&Heq&_)].
    - rewrite Heq. exists z0. repeat split; [exact Hz|left; reflexivity].
    - rewrite Heq, zl_insert. destruct (tm' =? tm) eqn:E.
      + apply Z.eqb_eq in E. subst tm'. rewrite Hx in Hz. inversion Hz. subst z0.
        exists (stopped_timer x). repeat split. right. split; [exact Ha|reflexivity].
      + exists z0. repeat split; [exact Hz|left; reflexivity]. }
  assert (Hthne : forall tm' code', In (TT tm', code') (threads st) -> (code' = [ITimerRun tm'] \/ exists t o r, code' = IEntomb t (FromTimeout o) :: r) -> TT tm' <> th).
  { intros tm' code' Hin' Hsh Heq. subst th.
    pose proof (in_lookup tid_eqb tid_eqb_ok _ _ _ (inv_threads_nd _ HI) Hin') as Hl'. rewrite Hl in Hl'. inversion Hl'. subst code'.
    destruct Hsh as [Hs|(t&o&r&Hs)]; inversion Hs; subst i; discriminate. }
  constructor; cbn [set_thread set_threads items gcs seen conns timers next_tm panicked].
  - (* t_item *)
    intros t it Hin. rewrite Hit in Hin. destruct (t_item _ HT t it Hin) as (x&Hx&Hk&Hr).
    destruct (Hfwd _ _ Hx) as (z&Hz&Hkz&Hfl). exists z. split; [exact Hz|]. split; [congruence|].
    destruct Hfl as [->|[_ ->]]; [exact Hr|reflexivity].
  - (* t_uniq *)
    intros tm1 tm2 x1 x2 H1 H2 Heq. destruct (Hback _ _ H1) as (z1&G1&K1&_). destruct (Hback _ _ H2) as (z2&G2&K2&_).
    eapply (t_uniq _ HT); [exact G1|exact G2|congruence].
  - (* t_alloc *)
    intros tm' z Hz. destruct (Hback _ _ Hz) as (z0&G&K&_). destruct (t_alloc _ HT _ _ G) as [Hlt Hal].
    rewrite Hntm, Hsn, <- K. split; [exact Hlt|]. destruct Hal as [H0|[H1 H2]]; [left; exact H0|right].
    split; [exact H1|]. specialize (Hcs (key_conn (tm_key z0))). lia.
  - (* t_adm *)
    intros th' code' j k f Hin' Hj Hadm tm' z Hz. destruct (Hback _ _ Hz) as (z0&G&K&_). rewrite <- K.
    fold (threads (set_thread st1 th (pushed ++ rest))) in Hin'.
    apply set_thread_in in Hin'. destruct Hin' as [[-> ->]|[Hne Hin']].
    + apply in_app_or in Hj. destruct Hj as [Hj|Hj].
      * eapply (t_adm _ HT th (i :: rest) i k f Hin0 (or_introl eq_refl)); [eapply Hpadm; eassumption|exact G].
      * eapply (t_adm _ HT th (i :: rest) j k f Hin0 (or_intror Hj) Hadm). exact G.
    + rewrite Hth in Hin'. eapply (t_adm _ HT th' code' j k f Hin' Hj Hadm). exact G.
  - (* t_phase *)
    intros tm' z Hz. destruct (Hback _ _ Hz) as (z0&G&K&Hflag).
    destruct (t_phase _ HT _ _ G) as (P1&P2&P3&P4).
    destruct Hflag as [->|[Ha ->]].
    + split; [exact P1|]. split; [exact P2|]. split; [exact P3|].
      intros Hac Har. specialize (P4 Hac Har).
      fold (threads (set_thread st1 th (pushed ++ rest))).
      rewrite tlookup_set_thread_other; [rewrite Hth; exact P4|].
      eapply Hthne; [eapply (lookup_in tid_eqb tid_eqb_ok); exact P4|left; reflexivity].
    + unfold phase_ok. cbn. split; [intro; discriminate|]. split; [intro; split; reflexivity|].
      split; [intro; discriminate|]. intro; discriminate.
  - (* t_code *)
    intros th' code' Hin'. fold (threads (set_thread st1 th (pushed ++ rest))) in Hin'.
    apply set_thread_in in Hin'. destruct Hin' as [[-> ->]|[Hne Hin']].
    + pose proof (t_code _ HT _ _ Hin0) as Hc. cbn [tcode_ok] in Hc. destruct Hc as [Hrest _].
      assert (Hall : forall j, In j (pushed ++ rest) -> is_trun j = false /\ is_tent j = false).
      { intros j Hj. apply in_app_or in Hj. destruct Hj as [Hj|Hj]; [apply Hpt; exact Hj|apply Hrest; exact Hj]. }
      destruct (pushed ++ rest) as [|j r] eqn:Ec; [exact I|]. cbn [tcode_ok].
      split; [intros j' Hj'; apply Hall; right; exact Hj'|].
      destruct (Hall j (or_introl eq_refl)) as [Hj1 Hj2]. destruct j; try exact I; try discriminate.
      destruct s; [exact I|discriminate].
    + rewrite Hth in Hin'. pose proof (t_code _ HT _ _ Hin') as Hc.
      destruct code' as [|j r]; [exact I|]. cbn [tcode_ok] in *. destruct Hc as [Hr Hj]. split; [exact Hr|].
      destruct j; try exact I.
      * destruct s; [exact I|]. destruct Hj as (tm'&z0&He&G&Hk&Hac&Hst&Har).
        destruct (Hfwd _ _ G) as (z&Hz&Hkz&[->|[Ha _]]); [|congruence].
        exists tm', z0. repeat split; assumption.
      * destruct Hj as (He&Hr0&z0&G&Hac&Har&Hre).
        destruct (Hfwd _ _ G) as (z&Hz&Hkz&[->|[Ha _]]); [|congruence].
        split; [exact He|]. split; [exact Hr0|]. exists z0. repeat split; assumption.
  - (* t_sk *)
    intros th' code' j t Hin' Hj Ht. fold (threads (set_thread st1 th (pushed ++ rest))) in Hin'.
    assert (Hold : (exists tm' z0, zlookup tm' (timers st) = Some z0 /\ tm_key z0 = t /\ tm_stopped z0 = true) ->
                   exists tm' z, zlookup tm' (timers st1) = Some z /\ tm_key z = t /\ tm_stopped z = true).
    { intros (tm'&z0&G&K&S). destruct (Hfwd _ _ G) as (z&Hz&Hkz&[->|[_ ->]]).
      - exists tm', z0. repeat split; assumption.
      - exists tm', (stopped_timer z0). repeat split; [exact Hz|exact K]. }
    apply set_thread_in in Hin'. destruct Hin' as [[-> ->]|[Hne Hin']].
    + apply in_app_or in Hj. destruct Hj as [Hj|Hj].
      * destruct (Hpsk j t Hj Ht) as [Hi|Hnew]; [|exact Hnew].
        apply Hold. eapply (t_sk _ HT th (i :: rest) i t Hin0 (or_introl eq_refl) Hi).
      * apply Hold. eapply (t_sk _ HT th (i :: rest) j t Hin0 (or_intror Hj) Ht).
    + rewrite Hth in Hin'. apply Hold. eapply (t_sk _ HT); eassumption.
  - (* t_tomb *)
    intros t it Hin Htomb. rewrite Hit in Hin. rewrite Hg. destruct (t_tomb _ HT t it Hin Htomb) as [Hgc (x&Hx&Hac)].
    split; [exact Hgc|]. destruct (Hfwd _ _ Hx) as (z&Hz&_&Hfl). exists z. split; [exact Hz|].
    destruct Hfl as [->|[_ ->]]; [exact Hac|reflexivity].
  - (* t_ncget *)
    intros th' code' k f Hin' Hj. fold (threads (set_thread st1 th (pushed ++ rest))) in Hin'.
    apply set_thread_in in Hin'. destruct Hin' as [[-> ->]|[Hne Hin']].
    + apply in_app_or in Hj. destruct Hj as [Hj|Hj]; [apply (Hpnc k f); exact Hj|].
      eapply (t_ncget _ HT th (i :: rest) k f); [exact Hin0|right; exact Hj].
    + rewrite Hth in Hin'. eapply (t_ncget _ HT th' code' k f); eassumption.
  - (* t_oblig *)
    intros t it Hin Hnt. rewrite Hit in Hin. fold (threads (set_thread st1 th (pushed ++ rest))).
    destruct (t_oblig _ HT t it Hin Hnt) as (x&Hx&Hob).
    destruct (Hfwd _ _ Hx) as (z&Hz&_&Hflag). exists z. split; [exact Hz|].
    assert (Howed : forall (Hst : tm_stopped z = true),
              (exists th0 code0 j, In (th0, code0) (threads st) /\ In j code0 /\ In t (owes j)) ->
              exists th0 code0 j, In (th0, code0) (threads (set_thread st1 th (pushed ++ rest))) /\ In j code0 /\ In t (owes j)).
    { intros Hst (th0&code0&j&Hin1&Hj&Ht). destruct (tid_eqb th0 th) eqn:Eth.
      - apply tid_eqb_ok in Eth. subst th0.
        pose proof (in_lookup tid_eqb tid_eqb_ok _ _ _ (inv_threads_nd _ HI) Hin1) as Hl1. rewrite Hl in Hl1. inversion Hl1. subst code0.
        destruct Hj as [<-|Hj].
        + destruct (Hpow t Ht) as [(j'&Hj'&Ht')|Hns].
          * exists th, (pushed ++ rest), j'. split; [|split; [apply in_or_app; left; exact Hj'|exact Ht']].
            apply in_set_thread_self. destruct pushed; [contradiction|discriminate].
          * rewrite (Hns it z Hin Hnt Hz) in Hst. discriminate.
        + exists th, (pushed ++ rest), j. split; [|split; [apply in_or_app; right; exact Hj|exact Ht]].
          apply in_set_thread_self. destruct rest; [contradiction|]. destruct pushed; discriminate.
      - exists th0, code0, j. split; [|split; assumption]. apply in_set_thread_other; [|rewrite Hth; exact Hin1].
        intro Heq. subst. rewrite (proj2 (tid_eqb_ok th th) eq_refl) in Eth. discriminate. }
    destruct Hflag as [->|[Harm ->]].
    + destruct Hob as [Ha|[(code0&Hin1&Hpd)|[Hst Hw]]].
      * left. exact Ha.
      * right. left. exists code0. split; [|exact Hpd]. apply in_set_thread_other; [|rewrite Hth; exact Hin1].
        eapply Hthne; [exact Hin1|]. destruct Hpd as [Hp|(o&r&Hp)]; [left; exact Hp|right; exists t, o, r; exact Hp].
      * right. right. split; [exact Hst|]. apply (Howed Hst Hw).
    + (* this item's timer has just been stopped *)
      right. right. split; [reflexivity|].
      destruct Htms as [Heq|(tm&x0&t0&it0&Hx0&Ha0&Heq&Hin00&Htm0&Hnew)].
      * exfalso. rewrite Heq in Hz. rewrite Hx in Hz. inversion Hz as [Hzz].
        assert (Hc : tm_armed x = tm_armed (stopped_timer x)) by (rewrite <- Hzz; reflexivity). cbn in Hc. congruence.
      * assert (Htmeq : it_tm it = tm).
        { destruct (Z.eq_dec (it_tm it) tm) as [E|E]; [exact E|].
          rewrite Heq, zl_insert in Hz. apply Z.eqb_neq in E. rewrite E in Hz. rewrite Hx in Hz. inversion Hz as [Hzz].
          assert (Hc : tm_armed x = tm_armed (stopped_timer x)) by (rewrite <- Hzz; reflexivity). cbn in Hc. congruence. }
        (* the stopped timer belongs to exactly one item *)
        destruct (t_item _ HT t it Hin) as (y&Hy&Hky&_). destruct (t_item _ HT t0 it0 Hin00) as (y0&Hy0&Hky0&_).
        assert (Et : t0 = t).
        { rewrite <- Hky, <- Hky0. rewrite Htm0, <- Htmeq in Hy0. rewrite Hy in Hy0. inversion Hy0. reflexivity. }
        rewrite Et in Hin00, Hnew.
        assert (Eit : it0 = it).
        { pose proof (in_lookup key_eqb key_eqb_ok _ _ _ (inv_items_nd _ HI) Hin) as L1.
          pose proof (in_lookup key_eqb key_eqb_ok _ _ _ (inv_items_nd _ HI) Hin00) as L2. congruence. }
        rewrite Eit in Hnew. destruct (Hnew Hnt) as (j&Hj&Ht).
        exists th, (pushed ++ rest), j. split; [|split; [apply in_or_app; left; exact Hj|exact Ht]].
        apply in_set_thread_self. destruct pushed; [contradiction|discriminate].
  - rewrite Hpan. apply (t_nopanic _ HT).
Qed.

(* ---------------------------------------------------------------- instructions without item/timer effect *)

Definition is_pure (i : instr) : bool :=
  match i with
  | IStart _ _ _ | ICanHandle _ _ _ _ | IGetDest _ _ _ _ | IRemoteCan _ _ _ _ _ | ICb _ _ | IDec _ | ICheck _
  | ISendErr _ _ _ | IConnClose _ | INcChk _ _ _ _ _ | IRcvChk _ _ _ | IRcvEnq _ _ _ => true
  | _ => false
  end.

Lemma nextid_put : forall st k cn k0, c_nextid cn = c_nextid (get_conn st k) ->
  c_nextid (getc (conns st) k0) <= c_nextid (getc (conns (put_conn st k cn)) k0).
Proof.
  intros st k cn k0 H. cbn [put_conn set_conns conns]. rewrite getc_insert.
  destruct (k0 =? k) eqn:E; [|lia]. apply Z.eqb_eq in E. subst. rewrite H, get_conn_getc. lia.
Qed.

Definition sframe (st st1 : state) : Prop :=
  timers st1 = timers st /\ items st1 = items st /\ gcs st1 = gcs st /\ seen st1 = seen st /\
  next_tm st1 = next_tm st /\ panicked st1 = panicked st /\ threads st1 = threads st /\
  (forall k, c_nextid (getc (conns st) k) <= c_nextid (getc (conns st1) k)).

Lemma frame_eqs : forall st st1, timers st1 = timers st -> items st1 = items st -> gcs st1 = gcs st -> seen st1 = seen st ->
  next_tm st1 = next_tm st -> panicked st1 = panicked st -> threads st1 = threads st -> conns st1 = conns st -> sframe st st1.
Proof.
  intros st st1 H1 H2 H3 H4 H5 H6 H7 H8. unfold sframe. rewrite H8.
  split; [exact H1|]. split; [exact H2|]. split; [exact H3|]. split; [exact H4|]. split; [exact H5|].
  split; [exact H6|]. split; [exact H7|]. intro k. lia.
Qed.

Lemma frame_put : forall st k cn, c_nextid cn = c_nextid (get_conn st k) -> sframe st (put_conn st k cn).
Proof.
  intros st k cn H. unfold sframe. repeat (split; [reflexivity|]). intro k0. apply nextid_put. exact H.
Qed.

Lemma exec_pure_frame : forall cf st i room st1 pushed, is_pure i = true -> exec cf st i room = (st1, pushed) -> sframe st st1.
Proof.
  intros cf st i room st1 pushed Hp H.
  assert (Hsame : forall s p, (s, p) = (st1, pushed) -> s = st -> sframe st st1).
  { intros s p Hs He. inversion Hs. subst. apply frame_eqs; reflexivity. }
  assert (Hput : forall k cn p, (put_conn st k cn, p) = (st1, pushed) -> c_nextid cn = c_nextid (get_conn st k) -> sframe st st1).
  { intros k cn p Hs He. inversion Hs. subst. apply frame_put. exact He. }
  destruct i; try discriminate; cbn [exec] in H.
  - destruct (e_start e =? 0); [inversion H; subst; apply frame_eqs; reflexivity|].
    destruct ((e_start e =? 1) || (e_start e =? 3)); inversion H; subst; apply frame_eqs; reflexivity.
  - destruct (c_state (get_conn st k) =? c_connectionActive); [eapply Hput; [exact H|reflexivity]|eapply Hsame; [exact H|reflexivity]].
  - destruct (klookup (k, 0, f_id f) (items st)); [eapply Hsame; [exact H|reflexivity]|].
    destruct (e_dest e =? -1); [eapply Hsame; [exact H|reflexivity]|].
    destruct (e_dest e <? 0); eapply Hsame; try exact H; reflexivity.
  - destruct (c_state (get_conn st d) =? c_connectionActive); [eapply Hput; [exact H|reflexivity]|eapply Hsame; [exact H|reflexivity]].
  - inversion H. subst. apply frame_eqs; reflexivity.
  - eapply Hput; [exact H|reflexivity].
  - match type of H with (if ?b then _ else _) = _ => destruct b end;
      [eapply Hput; [exact H|reflexivity]|eapply Hsame; [exact H|reflexivity]].
  - destruct ((c_state (get_conn st k) =? c_connectionClosed) || negb room); inversion H; subst; apply frame_eqs; reflexivity.
  - destruct (c_state (get_conn st k) =? c_connectionActive); [eapply Hput; [exact H|reflexivity]|eapply Hsame; [exact H|reflexivity]].
  - destruct g as [[it stopped]|]; [|eapply Hsame; [exact H|reflexivity]].
    destruct (it_tomb it || (fin_of f && negb stopped)); eapply Hsame; try exact H; reflexivity.
  - destruct g as [[it stopped]|]; [|eapply Hsame; [exact H|reflexivity]].
    destruct (it_tomb it || (fin_of (r_f r) && negb stopped)); eapply Hsame; try exact H; reflexivity.
  - destruct room; inversion H; subst; apply frame_eqs; reflexivity.
Qed.

Lemma fin_req_frame : forall id more, fin_of (req_frame id true more) = false.
Proof. intros id more. destruct more; reflexivity. Qed.

Lemma fin_with_id : forall f id, fin_of (with_id f id) = fin_of f.
Proof. intros. reflexivity. Qed.

Lemma after_sent_sk : forall r j t, In j (after_sent r) -> In t (sk j) -> fin_of (r_f r) = true /\ t = r_own r.
Proof.
  intros r j t Hj Ht. unfold after_sent in Hj. apply in_app_or in Hj. destruct Hj as [Hj|Hj].
  - destruct (fin_of (r_f r)); [|contradiction]. destruct Hj as [<-|[]]. cbn in Ht. destruct Ht as [<-|[]]. split; reflexivity.
  - destruct (0 <? r_more r); [|contradiction]. destruct Hj as [<-|[<-|[]]]; cbn in Ht; try contradiction;
    destruct (1 <? r_more r); cbn in Ht; contradiction.
Qed.

Lemma after_sent_shape : forall r j, In j (after_sent r) -> is_trun j = false /\ is_tent j = false /\ adm_kf j = None /\ (forall k f, j <> INcGet k f).
Proof.
  intros r j Hj. unfold after_sent in Hj. apply in_app_or in Hj. destruct Hj as [Hj|Hj].
  - destruct (fin_of (r_f r)); [|contradiction]. destruct Hj as [<-|[]]. repeat split; intros; discriminate.
  - destruct (0 <? r_more r); [|contradiction]. destruct Hj as [<-|[<-|[]]]; repeat split; intros; discriminate.
Qed.

Lemma after_sent_owes_own : forall r, fin_of (r_f r) = true -> exists j, In j (after_sent r) /\ In (r_own r) (owes j).
Proof.
  intros r Hf. exists (IDelete (r_own r) (r_d r, f_id (r_f r))). unfold after_sent. rewrite Hf. split; [left; reflexivity|left; reflexivity].
Qed.

Ltac in_cases H :=
  repeat match type of H with
         | In _ (_ ++ _) => apply in_app_or in H; destruct H as [H|H]
         | In _ (if ?b then _ else _) => destruct b eqn:?
         | In _ (_ :: _) => destruct H as [H|H]; [subst|]
         | In _ [] => contradiction
         | In _ (after_unsent _ _) => unfold after_unsent in H
         end.

(* what the pushed code of a pure instruction looks like *)
Lemma conj5 : forall A B C D E : Prop, A -> B -> C -> D -> E -> A /\ B /\ C /\ D /\ E.
Proof. intros. repeat split; assumption. Qed.

Lemma conj5_nil : forall i, owes i = [] ->
  (forall j, In j (@nil instr) -> is_trun j = false /\ is_tent j = false) /\
  (forall j k f, In j (@nil instr) -> adm_kf j = Some (k, f) -> adm_kf i = Some (k, f)) /\
  (forall j t, In j (@nil instr) -> In t (sk j) -> In t (sk i)) /\
  (forall t, In t (owes i) -> exists j, In j (@nil instr) /\ In t (owes j)) /\
  (forall k f, ~ In (INcGet k f) (@nil instr)).
Proof.
  intros i H. apply conj5; try (intros; contradiction).
  - intros t Ht. rewrite H in Ht. contradiction.
  - intros k f Hin. exact Hin.
Qed.

Lemma exec_pure_code : forall cf st i room st1 pushed, is_pure i = true -> exec cf st i room = (st1, pushed) ->
  (forall j, In j pushed -> is_trun j = false /\ is_tent j = false) /\
  (forall j k f, In j pushed -> adm_kf j = Some (k, f) -> adm_kf i = Some (k, f)) /\
  (forall j t, In j pushed -> In t (sk j) -> In t (sk i)) /\
  (forall t, In t (owes i) -> exists j, In j pushed /\ In t (owes j)) /\
  (forall k f, ~ In (INcGet k f) pushed).
Proof.
  intros cf st i room st1 pushed Hp H.
  destruct i; try discriminate; cbn [exec] in H.
  - (* IStart *)
    destruct (e_start e =? 0).
    + inversion H; subst; clear H. apply conj5.
      * intros j Hj. in_cases Hj; split; reflexivity.
      * intros j k0 f0 Hj Ha. in_cases Hj. exact Ha.
      * intros j t Hj Ht. in_cases Hj; contradiction.
      * intros t [].
      * intros k0 f0 Hj. in_cases Hj; discriminate.
    + inversion H; subst. clear H. apply conj5.
      * intros j Hj. in_cases Hj; split; reflexivity.
      * intros j k0 f0 Hj Ha. in_cases Hj; discriminate.
      * intros j t Hj Ht. in_cases Hj; contradiction.
      * intros t [].
      * intros k0 f0 Hj. in_cases Hj; discriminate.
  - (* ICanHandle *)
    destruct (c_state (get_conn st k) =? c_connectionActive); inversion H; subst; clear H; apply conj5.
    + intros j Hj. in_cases Hj; split; reflexivity.
    + intros j k0 f0 Hj Ha. in_cases Hj. exact Ha.
    + intros j t Hj Ht. in_cases Hj; contradiction.
    + intros t [].
    + intros k0 f0 Hj. in_cases Hj; discriminate.
    + intros j Hj. in_cases Hj; split; reflexivity.
    + intros j k0 f0 Hj Ha. in_cases Hj; discriminate.
    + intros j t Hj Ht. in_cases Hj; contradiction.
    + intros t [].
    + intros k0 f0 Hj. in_cases Hj; discriminate.
  - (* IGetDest *)
    assert (Hrej : forall p, (st, p) = (st1, pushed) ->
              (forall j, In j p -> is_trun j = false /\ is_tent j = false /\ adm_kf j = None /\ sk j = [] /\ forall k0 f0, j <> INcGet k0 f0) ->
              (forall j, In j pushed -> is_trun j = false /\ is_tent j = false) /\
              (forall j k0 f0, In j pushed -> adm_kf j = Some (k0, f0) -> adm_kf (IGetDest k f e c) = Some (k0, f0)) /\
              (forall j t, In j pushed -> In t (sk j) -> In t (sk (IGetDest k f e c))) /\
              (forall t, In t (owes (IGetDest k f e c)) -> exists j, In j pushed /\ In t (owes j)) /\
              (forall k0 f0, ~ In (INcGet k0 f0) pushed)).
    { intros p Hs Hall. inversion Hs. subst. apply conj5.
      - intros j Hj. destruct (Hall j Hj) as (A&B&_). split; assumption.
      - intros j k0 f0 Hj Ha. destruct (Hall j Hj) as (_&_&Hn&_). congruence.
      - intros j t Hj Ht. destruct (Hall j Hj) as (_&_&_&Hs0&_). rewrite Hs0 in Ht. contradiction.
      - intros t [].
      - intros k0 f0 Hj. destruct (Hall _ Hj) as (_&_&_&_&Hn). eapply Hn. reflexivity. }
    destruct (klookup (k, 0, f_id f) (items st)).
    { eapply Hrej; [exact H|]. intros j Hj. in_cases Hj; repeat split; intros; discriminate. }
    destruct (e_dest e =? -1).
    { eapply Hrej; [exact H|]. intros j Hj. in_cases Hj; repeat split; intros; discriminate. }
    destruct (e_dest e <? 0).
    { eapply Hrej; [exact H|]. intros j Hj. in_cases Hj; repeat split; intros; discriminate. }
    inversion H; subst; clear H; apply conj5.
    + intros j Hj. in_cases Hj; split; reflexivity.
    + intros j k0 f0 Hj Ha. in_cases Hj. exact Ha.
    + intros j t Hj Ht. in_cases Hj; contradiction.
    + intros t [].
    + intros k0 f0 Hj. in_cases Hj; discriminate.
  - (* IRemoteCan *)
    destruct (c_state (get_conn st d) =? c_connectionActive); inversion H; subst; clear H; apply conj5.
    + intros j Hj. in_cases Hj; split; reflexivity.
    + intros j k0 f0 Hj Ha. in_cases Hj. exact Ha.
    + intros j t Hj Ht. in_cases Hj; contradiction.
    + intros t [].
    + intros k0 f0 Hj. in_cases Hj; discriminate.
    + intros j Hj. in_cases Hj; split; reflexivity.
    + intros j k0 f0 Hj Ha. in_cases Hj; discriminate.
    + intros j t Hj Ht. in_cases Hj; contradiction.
    + intros t [].
    + intros k0 f0 Hj. in_cases Hj; discriminate.
  - inversion H; subst. apply conj5_nil; reflexivity.
  - inversion H; subst; clear H. apply conj5.
    + intros j Hj. in_cases Hj; split; reflexivity.
    + intros j k0 f0 Hj Ha. in_cases Hj; discriminate.
    + intros j t Hj Ht. in_cases Hj; contradiction.
    + intros t [].
    + intros k0 f0 Hj. in_cases Hj; discriminate.
  - match type of H with (if ?b then _ else _) = _ => destruct b end; inversion H; subst; apply conj5_nil; reflexivity.
  - destruct ((c_state (get_conn st k) =? c_connectionClosed) || negb room); inversion H; subst; apply conj5_nil; reflexivity.
  - destruct (c_state (get_conn st k) =? c_connectionActive); inversion H; subst; apply conj5_nil; reflexivity.
  - (* INcChk *)
    destruct g as [[it stopped]|].
    + destruct (it_tomb it || (fin_of f && negb stopped)) eqn:Echk.
      * inversion H; subst. apply conj5; try (intros; contradiction); try (intros ? ? Hn_; exact Hn_).
        intros t Ht. unfold owes in Ht. rewrite app_nil_r in Ht. cbn [sk] in Ht.
        destruct stopped; [|contradiction]. destruct (fin_of f) eqn:Ef, (it_tomb it) eqn:Et; cbn in *; try contradiction; discriminate.
      * apply orb_false_iff in Echk. destruct Echk as [Et Es]. inversion H; subst; clear H. apply conj5.
        -- intros j Hj. in_cases Hj; split; reflexivity.
        -- intros j k0 f0 Hj Ha. in_cases Hj; discriminate.
        -- intros j t Hj Ht. in_cases Hj; try contradiction. cbn [sk r_f r_own] in Ht. rewrite fin_with_id in Ht.
           destruct (fin_of f) eqn:Ef; [|contradiction]. cbn in Es. apply negb_false_iff in Es. subst stopped.
           cbn [sk]. rewrite Ef, Et. exact Ht.
        -- intros t Ht. unfold owes in Ht. rewrite app_nil_r in Ht. cbn [sk] in Ht.
           destruct stopped; [|contradiction]. destruct (fin_of f) eqn:Ef; [|contradiction]. rewrite Et in Ht. cbn in Ht.
           eexists. split; [apply in_or_app; right; right; left; reflexivity|].
           unfold owes. cbn [sk r_f r_own]. rewrite fin_with_id, Ef. apply in_or_app. left. exact Ht.
        -- intros k0 f0 Hj. in_cases Hj; discriminate.
    + inversion H; subst. apply conj5_nil; reflexivity.
  - (* IRcvChk *)
    destruct g as [[it stopped]|].
    + destruct (it_tomb it || (fin_of (r_f r) && negb stopped)) eqn:Echk.
      * inversion H; subst; clear H. apply conj5.
        -- intros j Hj. destruct (after_sent_shape _ _ Hj) as (A&B&_). split; assumption.
        -- intros j k0 f0 Hj Ha. destruct (after_sent_shape _ _ Hj) as (_&_&C&_). congruence.
        -- intros j t Hj Ht. destruct (after_sent_sk _ _ _ Hj Ht) as [Hf ->]. cbn [sk]. rewrite Hf. left. reflexivity.
        -- intros t Ht. unfold owes in Ht. rewrite app_nil_r in Ht. cbn [sk] in Ht. apply in_app_or in Ht.
           destruct Ht as [Ht|Ht].
           ++ destruct (fin_of (r_f r)) eqn:Ef; [|contradiction]. destruct Ht as [<-|[]]. apply after_sent_owes_own. exact Ef.
           ++ destruct stopped; [|contradiction]. destruct (fin_of (r_f r)) eqn:Ef, (it_tomb it) eqn:Et; cbn in *; try contradiction; discriminate.
        -- intros k0 f0 Hj. destruct (after_sent_shape _ _ Hj) as (_&_&_&D). eapply D. reflexivity.
      * apply orb_false_iff in Echk. destruct Echk as [Et Es]. inversion H; subst; clear H.
        assert (Hst : fin_of (r_f r) = true -> stopped = true).
        { intro Hf. rewrite Hf in Es. cbn in Es. apply negb_false_iff in Es. exact Es. }
        apply conj5.
        -- intros j Hj. in_cases Hj; split; reflexivity.
        -- intros j k0 f0 Hj Ha. in_cases Hj; discriminate.
        -- intros j t Hj Ht. in_cases Hj; try contradiction. cbn [sk] in *.
           destruct (fin_of (r_f r)) eqn:Ef; [|contradiction]. rewrite (Hst eq_refl), Et. cbn.
           destruct Ht as [<-|[<-|[]]]; [left; reflexivity|right; left; reflexivity].
        -- intros t Ht. exists (IRcvEnq r rk (it_dest it, it_remap it)). split; [apply in_or_app; right; left; reflexivity|].
           unfold owes in *. rewrite app_nil_r in *. cbn [sk] in *. apply in_app_or in Ht.
           destruct (fin_of (r_f r)) eqn:Ef.
           ++ destruct Ht as [[<-|[]]|Ht]; [left; reflexivity|]. destruct stopped; [|contradiction]. rewrite Et in Ht. cbn in Ht.
              destruct Ht as [<-|[]]. right. left. reflexivity.
           ++ destruct Ht as [[]|Ht]. destruct stopped; contradiction.
        -- intros k0 f0 Hj. in_cases Hj; discriminate.
    + inversion H; subst; clear H. apply conj5.
      * intros j Hj. in_cases Hj; split; reflexivity.
      * intros j k0 f0 Hj Ha. in_cases Hj; discriminate.
      * intros j t Hj Ht. in_cases Hj; contradiction.
      * intros t Ht. unfold owes in Ht. rewrite app_nil_r in Ht. cbn [sk] in Ht. rewrite app_nil_r in Ht.
        destruct (fin_of (r_f r)); [|contradiction]. destruct Ht as [<-|[]].
        exists (IFailGet (r_own r) reason_not_found). split; [left; reflexivity|right; left; reflexivity] || (split; [left; reflexivity|]; unfold owes; cbn; left; reflexivity).
      * intros k0 f0 Hj. in_cases Hj; discriminate.
  - (* IRcvEnq *)
    destruct room; inversion H; subst; clear H; apply conj5.
    + intros j Hj. apply in_app_or in Hj. destruct Hj as [Hj|Hj]; [in_cases Hj; split; reflexivity|].
      destruct (after_sent_shape _ _ Hj) as (A&B&_). split; assumption.
    + intros j k0 f0 Hj Ha. apply in_app_or in Hj. destruct Hj as [Hj|Hj]; [in_cases Hj; discriminate|].
      destruct (after_sent_shape _ _ Hj) as (_&_&C&_). congruence.
    + intros j t Hj Ht. apply in_app_or in Hj. destruct Hj as [Hj|Hj].
      * destruct (fin_of (r_f r)) eqn:Ef; [|contradiction]. destruct Hj as [<-|[]]. cbn [sk] in *. rewrite Ef.
        destruct Ht as [<-|[]]. right. left. reflexivity.
      * destruct (after_sent_sk _ _ _ Hj Ht) as [Hf ->]. cbn [sk]. rewrite Hf. left. reflexivity.
    + intros t Ht. unfold owes in Ht. rewrite app_nil_r in Ht. cbn [sk] in Ht.
      destruct (fin_of (r_f r)) eqn:Ef; [|contradiction]. destruct Ht as [<-|[<-|[]]].
      * destruct (after_sent_owes_own r Ef) as (j&Hj&Ho). exists j. split; [apply in_or_app; right; exact Hj|exact Ho].
      * exists (IDelete rk lk). split; [apply in_or_app; left; left; reflexivity|left; reflexivity].
    + intros k0 f0 Hj. apply in_app_or in Hj. destruct Hj as [Hj|Hj]; [in_cases Hj; discriminate|].
      destruct (after_sent_shape _ _ Hj) as (_&_&_&D). eapply D. reflexivity.
    + intros j Hj. in_cases Hj; split; reflexivity.
    + intros j k0 f0 Hj Ha. in_cases Hj; discriminate.
    + intros j t Hj Ht. in_cases Hj; contradiction.
    + intros t Ht. unfold owes in Ht. rewrite app_nil_r in Ht. cbn [sk] in Ht.
      destruct (fin_of (r_f r)) eqn:Ef; [|contradiction]. destruct Ht as [<-|[<-|[]]].
      * eexists. split; [right; left; reflexivity|]. unfold owes. cbn. left. reflexivity.
      * eexists. split; [left; reflexivity|]. unfold owes. cbn. left. reflexivity.
    + intros k0 f0 Hj. in_cases Hj; discriminate.
Qed.

Lemma TInv_step_pure : forall cf st th i rest room st1 pushed, Inv st -> TInv st ->
  lookup tid_eqb th (threads st) = Some (i :: rest) -> is_pure i = true ->
  exec cf st i room = (st1, pushed) -> TInv (set_thread st1 th (pushed ++ rest)).
Proof.
  intros cf st th i rest room st1 pushed HI HT Hl Hp H.
  destruct (exec_pure_frame _ _ _ _ _ _ Hp H) as (F1&F2&F3&F4&F5&F6&F7&F8).
  destruct (exec_pure_code _ _ _ _ _ _ Hp H) as (C1&C2&C3&C4&C5).
  eapply (TInv_get_step st st1 th i rest pushed); try assumption.
  - left. exact F1.
  - destruct i; try discriminate; reflexivity.
  - destruct i; try discriminate; reflexivity.
  - intros j t Hj Ht. left. eapply C3; eassumption.
  - intros t Ht. left. apply C4. exact Ht.
  - intros k f Hin. exfalso. eapply C5. exact Hin.
Qed.

(* relayItems.Get in terms of the timer protocol *)
Lemma items_get_tspec : forall st t stop st' g, TInv st -> items_get st t stop = (st', g) ->
  panicked st' = panicked st /\ next_tm st' = next_tm st /\ core_eq st' st /\
  match klookup t (items st) with
  | None => g = None /\ timers st' = timers st
  | Some it =>
      exists x, zlookup (it_tm it) (timers st) = Some x /\ tm_key x = t /\
      ((stop = false /\ g = Some (it, false) /\ timers st' = timers st) \/
       (stop = true /\ g = Some (it, true) /\ tm_stopped x = true /\ timers st' = timers st) \/
       (stop = true /\ g = Some (it, true) /\ tm_stopped x = false /\ tm_armed x = true /\
        timers st' = zinsert (it_tm it) (stopped_timer x) (timers st)) \/
       (stop = true /\ g = Some (it, false) /\ tm_stopped x = false /\ tm_armed x = false /\ timers st' = timers st))
  end.
Proof.
  intros st t stop st' g HT H. unfold items_get in H.
  destruct (klookup t (items st)) as [it|] eqn:El.
  - pose proof (lookup_in key_eqb key_eqb_ok _ _ _ El) as Hin.
    destruct (t_item _ HT _ _ Hin) as (x&Hx&Hk&Hr).
    destruct stop.
    + destruct (timer_stop st (it_tm it)) as [st2 b] eqn:E. inversion H. subst st2 g.
      destruct (timer_stop_spec _ _ _ _ _ Hx Hr E) as (P&N&C&Hc).
      split; [exact P|]. split; [exact N|]. split; [exact C|]. exists x. split; [exact Hx|]. split; [exact Hk|].
      destruct Hc as [(->&S&T)|[(->&S&A&T)|(->&S&A&T)]].
      * right. left. repeat split; assumption.
      * right. right. left. repeat split; assumption.
      * right. right. right. repeat split; assumption.
    + inversion H. subst st' g. split; [reflexivity|]. split; [reflexivity|]. split; [apply core_eq_refl|].
      exists x. split; [exact Hx|]. split; [exact Hk|]. left. repeat split; reflexivity.
  - inversion H. subst st' g. split; [reflexivity|]. split; [reflexivity|]. split; [apply core_eq_refl|]. split; reflexivity.
Qed.

Lemma frame_of_core : forall st st', core_eq st' st -> panicked st' = panicked st -> next_tm st' = next_tm st ->
  items st' = items st /\ gcs st' = gcs st /\ seen st' = seen st /\ threads st' = threads st /\
  (forall k, c_nextid (getc (conns st) k) <= c_nextid (getc (conns st') k)).
Proof.
  intros st st' (H1&H2&H3&H4&H5&H6&H7&H8) _ _. rewrite H1. repeat split; try assumption. intro k. lia.
Qed.

(* common shape of the three instructions that start with a Get: the pushed code is one
   instruction [nxt g] *)
Lemma TInv_step_get : forall st th i rest t stop st' g pushed,
  Inv st -> TInv st ->
  lookup tid_eqb th (threads st) = Some (i :: rest) ->
  items_get st t stop = (st', g) ->
  is_trun i = false -> is_tent i = false ->
  (forall j, In j pushed -> is_trun j = false /\ is_tent j = false /\ adm_kf j = None /\ forall k f, j <> INcGet k f) ->
  (* keys newly claimed by the pushed code: only t, and only when the Get reports a stopped timer *)
  (forall j t', In j pushed -> In t' (sk j) -> In t' (sk i) \/ (t' = t /\ exists it, g = Some (it, true))) ->
  (* what the popped instruction owed is passed on, except t when its timer turns out not to be stopped *)
  (forall t', In t' (owes i) -> (exists j, In j pushed /\ In t' (owes j)) \/
                                 (t' = t /\ (g = None \/ exists it, g = Some (it, false) /\ stop = true))) ->
  (* if the Get stopped the timer of a live item, the pushed code owes it *)
  (forall it, g = Some (it, true) -> stop = true -> it_tomb it = false -> exists j, In j pushed /\ In t (owes j)) ->
  TInv (set_thread st' th (pushed ++ rest)).
Proof.
  intros st th i rest t stop st' g pushed HI HT Hl Hg Hitr Hite Hsh Hsk Hpass Hnew.
  destruct (items_get_tspec _ _ _ _ _ HT Hg) as (P&N&C&Hm).
  destruct (frame_of_core _ _ C P N) as (F2&F3&F4&F7&F8).
  eapply (TInv_get_step st st' th i rest pushed); try assumption.
  - (* timers *)
    destruct (klookup t (items st)) as [it|] eqn:El.
    + destruct Hm as (x&Hx&Hk&[(_&_&T)|[(_&_&_&T)|[(Hstop&Hgg&S&A&T)|(_&_&_&_&T)]]]); try (left; exact T).
      right. exists (it_tm it), x, t, it. split; [exact Hx|]. split; [exact A|]. split; [exact T|].
      split; [eapply (lookup_in key_eqb key_eqb_ok); exact El|]. split; [reflexivity|].
      intro Hnt. eapply Hnew; [exact Hgg|exact Hstop|exact Hnt].
    + destruct Hm as [_ T]. left. exact T.
  - intros j Hj. destruct (Hsh j Hj) as (A&B&_). split; assumption.
  - intros j k f Hj Ha. destruct (Hsh j Hj) as (_&_&A&_). congruence.
  - intros j t' Hj Ht'. destruct (Hsk j t' Hj Ht') as [Hi|[-> (it&Hgg)]]; [left; exact Hi|right].
    destruct (klookup t (items st)) as [it0|] eqn:El.
    + destruct Hm as (x&Hx&Hk&[(_&Hg2&_)|[(_&Hg2&S&T)|[(_&Hg2&S&A&T)|(_&Hg2&_)]]]); try congruence.
      * exists (it_tm it0), x. rewrite T. repeat split; assumption.
      * exists (it_tm it0), (stopped_timer x). rewrite T. split; [apply (lookup_insert_eq Z.eqb zeqb_ok)|]. split; [exact Hk|reflexivity].
    + destruct Hm as [Hg2 _]. congruence.
  - intros t' Ht'. destruct (Hpass t' Ht') as [Hj|[-> Hno]]; [left; exact Hj|right].
    intros it x Hin _ Hx. pose proof (in_lookup key_eqb key_eqb_ok _ _ _ (inv_items_nd _ HI) Hin) as El. rewrite El in Hm.
    destruct Hm as (x0&Hx0&Hk&Hc).
    destruct Hno as [Hn|(it1&Hg1&Hs1)]; [destruct Hc as [(_&Hg2&_)|[(_&Hg2&_)|[(_&Hg2&_)|(_&Hg2&_)]]]; congruence|].
    destruct Hc as [(Hs&_)|[(_&Hg2&_)|[(_&Hg2&_)|(_&Hg2&S&A&T)]]]; try congruence.
  - intros k f Hin. destruct (Hsh _ Hin) as (_&_&_&D). exfalso. eapply D. reflexivity.
Qed.

Lemma TInv_step_INcGet : forall cf st th k f rest room st1 pushed, Inv st -> TInv st ->
  lookup tid_eqb th (threads st) = Some (INcGet k f :: rest) ->
  exec cf st (INcGet k f) room = (st1, pushed) -> TInv (set_thread st1 th (pushed ++ rest)).
Proof.
  intros cf st th k f rest room st1 pushed HI HT Hl H. cbn [exec] in H.
  pose proof (lookup_in tid_eqb tid_eqb_ok _ _ _ Hl) as Hin.
  pose proof (t_ncget _ HT th _ k f Hin (or_introl eq_refl)) as Hft.
  destruct (frameTypeFor (f_mt f)) as [ft|]; [|contradiction].
  match type of H with context [items_get ?a ?b ?c] => destruct (items_get a b c) as [st' g] eqn:E end.
  inversion H. subst st1 pushed. clear H.
  eapply TInv_step_get; try eassumption; try reflexivity.
  - intros j [<-|[]]. repeat split; intros; discriminate.
  - intros j t' [<-|[]] Ht'. right. cbn [sk] in Ht'. destruct g as [[it [|]]|]; try contradiction.
    destruct (fin_of f && negb (it_tomb it)); [|contradiction]. destruct Ht' as [<-|[]]. split; [reflexivity|]. exists it. reflexivity.
  - intros t' [].
  - intros it -> Hs Hnt. eexists. split; [left; reflexivity|]. unfold owes. cbn [sk]. rewrite Hs, Hnt. left. reflexivity.
Qed.

Lemma TInv_step_IRcvGet : forall cf st th r rest room st1 pushed, Inv st -> TInv st ->
  lookup tid_eqb th (threads st) = Some (IRcvGet r :: rest) ->
  exec cf st (IRcvGet r) room = (st1, pushed) -> TInv (set_thread st1 th (pushed ++ rest)).
Proof.
  intros cf st th r rest room st1 pushed HI HT Hl H. cbn [exec] in H.
  match type of H with context [items_get ?a ?b ?c] => destruct (items_get a b c) as [st' g] eqn:E end.
  inversion H. subst st1 pushed. clear H.
  eapply TInv_step_get; try eassumption; try reflexivity.
  - intros j [<-|[]]. repeat split; intros; discriminate.
  - intros j t' [<-|[]] Ht'. cbn [sk] in Ht'. apply in_app_or in Ht'. destruct Ht' as [Ht'|Ht'].
    + left. cbn [sk]. exact Ht'.
    + right. destruct g as [[it [|]]|]; try contradiction.
      destruct (fin_of (r_f r) && negb (it_tomb it)); [|contradiction]. destruct Ht' as [<-|[]]. split; [reflexivity|]. exists it. reflexivity.
  - intros t' Ht'. left. eexists. split; [left; reflexivity|]. unfold owes in *. rewrite app_nil_r in *. cbn [sk] in *.
    apply in_or_app. left. exact Ht'.
  - intros it -> Hs Hnt. eexists. split; [left; reflexivity|]. unfold owes. rewrite app_nil_r. cbn [sk].
    apply in_or_app. right. rewrite Hs, Hnt. left. reflexivity.
Qed.

Lemma TInv_step_IFailGet : forall cf st th t reason rest room st1 pushed, Inv st -> TInv st ->
  lookup tid_eqb th (threads st) = Some (IFailGet t reason :: rest) ->
  exec cf st (IFailGet t reason) room = (st1, pushed) -> TInv (set_thread st1 th (pushed ++ rest)).
Proof.
  intros cf st th t reason rest room st1 pushed HI HT Hl H. cbn [exec] in H.
  destruct (items_get st t true) as [st' g] eqn:E.
  assert (Hp : pushed = match g with Some (_, true) => [IEntomb t (FromFail reason)] | _ => [] end /\ st1 = st').
  { destruct g as [[it [|]]|]; inversion H; split; reflexivity. }
  destruct Hp as [-> ->]. clear H.
  eapply TInv_step_get; try eassumption; try reflexivity.
  - intros j Hj. destruct g as [[it [|]]|]; try contradiction. destruct Hj as [<-|[]]. repeat split; intros; discriminate.
  - intros j t' Hj Ht'. right. destruct g as [[it [|]]|]; try contradiction. destruct Hj as [<-|[]].
    destruct Ht' as [<-|[]]. split; [reflexivity|]. exists it. reflexivity.
  - intros t' [<-|[]]. destruct g as [[it [|]]|].
    + left. eexists. split; [left; reflexivity|]. left. reflexivity.
    + right. split; [reflexivity|]. right. exists it. split; reflexivity.
    + right. split; [reflexivity|]. left. reflexivity.
  - intros it -> _ _. eexists. split; [left; reflexivity|]. left. reflexivity.
Qed.

(* ---------------------------------------------------------------- Entomb / Delete steps *)

Definition simple_code (pushed : list instr) : Prop :=
  forall j, In j pushed -> is_trun j = false /\ is_tent j = false /\ adm_kf j = None /\ sk j = [] /\ owes j = [] /\
                            forall k f, j <> INcGet k f.

Definition trel (t : key) (its1 : list (key * item)) (z0 z : timer) : Prop :=
  z = z0 \/ (z = released_timer z0 /\ tm_active z0 = false /\ tm_armed z0 = false /\ tm_key z0 = t /\
             forall it', ~ In (t, it') its1).

Lemma trel_key : forall t its1 z0 z, trel t its1 z0 z -> tm_key z = tm_key z0.
Proof. intros t its1 z0 z [->|(->&_)]; reflexivity. Qed.

Lemma TInv_close_step : forall st st1 th i rest pushed t,
  Inv st -> TInv st ->
  lookup tid_eqb th (threads st) = Some (i :: rest) ->
  ((exists lk, i = IDelete t lk) \/ exists s, i = IEntomb t s) ->
  seen st1 = seen st -> next_tm st1 = next_tm st -> panicked st1 = panicked st ->
  threads st1 = threads st -> conns st1 = conns st ->
  (forall t', In t' (gcs st) -> In t' (gcs st1)) ->
  (forall tm' z, zlookup tm' (timers st1) = Some z -> exists z0, zlookup tm' (timers st) = Some z0 /\ trel t (items st1) z0 z) ->
  (forall tm' z0, zlookup tm' (timers st) = Some z0 -> exists z, zlookup tm' (timers st1) = Some z /\ trel t (items st1) z0 z) ->
  (forall t' it', t' <> t -> (In (t', it') (items st1) <-> In (t', it') (items st))) ->
  (forall it', In (t, it') (items st1) ->
     it_tomb it' = true /\ In t (gcs st1) /\
     exists x, zlookup (it_tm it') (timers st1) = Some x /\ tm_key x = t /\ tm_released x = false /\ tm_active x = false) ->
  simple_code pushed ->
  TInv (set_thread st1 th (pushed ++ rest)).
Proof.
  intros st st1 th i rest pushed t HI HT Hl Hi Hsn Hntm Hpan Hth Hcs Hgcs Hback Hfwd Hio Hit Hps.
  pose proof (lookup_in tid_eqb tid_eqb_ok _ _ _ Hl) as Hin0.
  assert (Hitr : is_trun i = false) by (destruct Hi as [[lk0 ->]|[s ->]]; reflexivity).
  assert (Howes_i : forall t', In t' (owes i) -> t' = t).
  { intros t' Ht'. destruct Hi as [[lk0 ->]|[s ->]]; [destruct Ht' as [<-|[]]; reflexivity|].
    destruct s; cbn in Ht'; [destruct Ht' as [<-|[]]; reflexivity|contradiction]. }
  assert (Hthne : forall tm', lookup tid_eqb (TT tm') (threads st) = Some [ITimerRun tm'] -> TT tm' <> th).
  { intros tm' Hl' Heq. subst th. rewrite Hl in Hl'. inversion Hl'. subst i. discriminate. }
  assert (Hcode_new : forall j, In j (pushed ++ rest) -> (In j pushed /\ is_trun j = false /\ is_tent j = false) \/ (In j rest /\ is_trun j = false /\ is_tent j = false)).
  { intros j Hj. apply in_app_or in Hj. destruct Hj as [Hj|Hj].
    - left. destruct (Hps j Hj) as (A&B&_). repeat split; assumption.
    - right. pose proof (t_code _ HT _ _ Hin0) as Hc. cbn [tcode_ok] in Hc. destruct Hc as [Hr _].
      destruct (Hr j Hj) as [A B]. repeat split; assumption. }
  constructor; cbn [set_thread set_threads items gcs seen conns timers next_tm panicked].
  - (* t_item *)
    intros t' it' Hin. destruct (eqb_dec key_eqb key_eqb_ok t' t) as [->|Hne].
    + destruct (Hit it' Hin) as (_&_&x&Hx&Hk&Hr&_). exists x. repeat split; assumption.
    + apply (Hio t' it' Hne) in Hin. destruct (t_item _ HT _ _ Hin) as (x&Hx&Hk&Hr).
      destruct (Hfwd _ _ Hx) as (z&Hz&[->|(->&_&_&Hkt&_)]).
      * exists x. repeat split; assumption.
      * exfalso. apply Hne. congruence.
  - (* t_uniq *)
    intros tm1 tm2 x1 x2 H1 H2 Heq. destruct (Hback _ _ H1) as (z1&G1&R1). destruct (Hback _ _ H2) as (z2&G2&R2).
    apply trel_key in R1. apply trel_key in R2. eapply (t_uniq _ HT); [exact G1|exact G2|congruence].
  - (* t_alloc *)
    intros tm' z Hz. destruct (Hback _ _ Hz) as (z0&G&R). apply trel_key in R. rewrite Hntm, Hsn, Hcs, R.
    apply (t_alloc _ HT _ _ G).
  - (* t_adm *)
    intros th' code' j k f Hin' Hj Hadm tm' z Hz. destruct (Hback _ _ Hz) as (z0&G&R). apply trel_key in R. rewrite R.
    fold (threads (set_thread st1 th (pushed ++ rest))) in Hin'.
    apply set_thread_in in Hin'. destruct Hin' as [[-> ->]|[Hne Hin']].
    + apply in_app_or in Hj. destruct Hj as [Hj|Hj].
      * destruct (Hps j Hj) as (_&_&A&_). congruence.
      * eapply (t_adm _ HT th (i :: rest) j k f Hin0 (or_intror Hj) Hadm). exact G.
    + rewrite Hth in Hin'. eapply (t_adm _ HT th' code' j k f Hin' Hj Hadm). exact G.
  - (* t_phase *)
    intros tm' z Hz. destruct (Hback _ _ Hz) as (z0&G&R).
    destruct (t_phase _ HT _ _ G) as (P1&P2&P3&P4).
    destruct R as [->|(->&Hac&Har&_)].
    + split; [exact P1|]. split; [exact P2|]. split; [exact P3|].
      intros Ha1 Ha2. specialize (P4 Ha1 Ha2). fold (threads (set_thread st1 th (pushed ++ rest))).
      rewrite tlookup_set_thread_other; [rewrite Hth; exact P4|]. apply Hthne. exact P4.
    + unfold phase_ok. cbn. rewrite Har. split; [intro; discriminate|]. split; [intro; split; reflexivity|].
      split; [intro; reflexivity|]. intro; discriminate.
  - (* t_code *)
    intros th' code' Hin'. fold (threads (set_thread st1 th (pushed ++ rest))) in Hin'.
    apply set_thread_in in Hin'. destruct Hin' as [[-> ->]|[Hne Hin']].
    + destruct (pushed ++ rest) as [|j r] eqn:Ec; [exact I|]. cbn [tcode_ok].
      split.
      * intros j' Hj'. destruct (Hcode_new j' (or_intror Hj')) as [(_&A&B)|(_&A&B)]; split; assumption.
      * destruct (Hcode_new j (or_introl eq_refl)) as [(_&A&B)|(_&A&B)]; destruct j; try exact I; try discriminate;
          destruct s; try exact I; discriminate.
    + rewrite Hth in Hin'. pose proof (t_code _ HT _ _ Hin') as Hc.
      destruct code' as [|j r]; [exact I|]. cbn [tcode_ok] in *. destruct Hc as [Hr Hj]. split; [exact Hr|].
      destruct j; try exact I.
      * destruct s; [exact I|]. destruct Hj as (tm'&z0&He&G&Hk&Hac&Hst&Har).
        destruct (Hfwd _ _ G) as (z&Hz&[->|(->&_)]).
        -- exists tm', z0. repeat split; assumption.
        -- exists tm', (released_timer z0). repeat split; assumption.
      * destruct Hj as (He&Hr0&z0&G&Hac&Har&Hre).
        destruct (Hfwd _ _ G) as (z&Hz&[->|(->&Hac'&_)]); [|congruence].
        split; [exact He|]. split; [exact Hr0|]. exists z0. repeat split; assumption.
  - (* t_sk *)
    intros th' code' j t' Hin' Hj Ht'. fold (threads (set_thread st1 th (pushed ++ rest))) in Hin'.
    assert (Hold : (exists tm' z0, zlookup tm' (timers st) = Some z0 /\ tm_key z0 = t' /\ tm_stopped z0 = true) ->
                   exists tm' z, zlookup tm' (timers st1) = Some z /\ tm_key z = t' /\ tm_stopped z = true).
    { intros (tm'&z0&G&K&S). destruct (Hfwd _ _ G) as (z&Hz&[->|(->&_)]).
      - exists tm', z0. repeat split; assumption.
      - exists tm', (released_timer z0). repeat split; assumption. }
    apply set_thread_in in Hin'. destruct Hin' as [[-> ->]|[Hne Hin']].
    + apply in_app_or in Hj. destruct Hj as [Hj|Hj].
      * destruct (Hps j Hj) as (_&_&_&A&_). rewrite A in Ht'. contradiction.
      * apply Hold. eapply (t_sk _ HT th (i :: rest) j t' Hin0 (or_intror Hj) Ht').
    + rewrite Hth in Hin'. apply Hold. eapply (t_sk _ HT); eassumption.
  - (* t_tomb *)
    intros t' it' Hin Htomb. destruct (eqb_dec key_eqb key_eqb_ok t' t) as [->|Hne].
    + destruct (Hit it' Hin) as (_&Hg&x&Hx&_&_&Hac). split; [exact Hg|]. exists x. split; assumption.
    + apply (Hio t' it' Hne) in Hin. destruct (t_tomb _ HT _ _ Hin Htomb) as [Hg (x&Hx&Hac)].
      split; [apply Hgcs; exact Hg|]. destruct (Hfwd _ _ Hx) as (z&Hz&[->|(->&_)]).
      * exists x. split; assumption.
      * exists (released_timer x). split; [exact Hz|reflexivity].
  - (* t_ncget *)
    intros th' code' k f Hin' Hj. fold (threads (set_thread st1 th (pushed ++ rest))) in Hin'.
    apply set_thread_in in Hin'. destruct Hin' as [[-> ->]|[Hne Hin']].
    + apply in_app_or in Hj. destruct Hj as [Hj|Hj].
      * destruct (Hps _ Hj) as (_&_&_&_&_&D). exfalso. eapply D. reflexivity.
      * eapply (t_ncget _ HT th (i :: rest) k f); [exact Hin0|right; exact Hj].
    + rewrite Hth in Hin'. eapply (t_ncget _ HT th' code' k f); eassumption.
  - (* t_oblig *)
    intros t' it' Hin Hnt. fold (threads (set_thread st1 th (pushed ++ rest))).
    assert (Hne : t' <> t).
    { intro Heq. subst t'. destruct (Hit it' Hin) as (Ht&_). congruence. }
    apply (Hio t' it' Hne) in Hin. destruct (t_oblig _ HT t' it' Hin Hnt) as (x&Hx&Hob).
    destruct (t_item _ HT _ _ Hin) as (x'&Hx'&Hk'&_). rewrite Hx in Hx'. inversion Hx'. subst x'.
    destruct (Hfwd _ _ Hx) as (z&Hz&[->|(->&_&_&Hkt&_)]); [|exfalso; apply Hne; congruence].
    exists x. split; [exact Hz|].
    destruct Hob as [Ha|[(code0&Hin1&Hpd)|[Hst (th0&code0&j&Hin1&Hj&Ht')]]].
    + left. exact Ha.
    + right. left. exists code0. split; [|exact Hpd]. apply in_set_thread_other; [|rewrite Hth; exact Hin1].
      intro Heq. rewrite Heq in Hin1.
      pose proof (in_lookup tid_eqb tid_eqb_ok _ _ _ (inv_threads_nd _ HI) Hin1) as Hl1. rewrite Hl in Hl1. inversion Hl1. subst code0.
      destruct Hpd as [Hp|(o&r&Hp)]; inversion Hp; subst i.
      * discriminate.
      * destruct Hi as [[lk0 Hc]|[s Hc]]; [discriminate|]. inversion Hc. apply Hne. congruence.
    + right. right. split; [exact Hst|]. destruct (tid_eqb th0 th) eqn:Eth.
      * apply tid_eqb_ok in Eth. subst th0.
        pose proof (in_lookup tid_eqb tid_eqb_ok _ _ _ (inv_threads_nd _ HI) Hin1) as Hl1. rewrite Hl in Hl1. inversion Hl1. subst code0.
        destruct Hj as [<-|Hj]; [exfalso; apply Hne; apply Howes_i; exact Ht'|].
        exists th, (pushed ++ rest), j. split; [|split; [apply in_or_app; right; exact Hj|exact Ht']].
        apply in_set_thread_self. destruct rest; [contradiction|]. destruct pushed; discriminate.
      * exists th0, code0, j. split; [|split; assumption]. apply in_set_thread_other; [|rewrite Hth; exact Hin1].
        intro Heq. subst. rewrite (proj2 (tid_eqb_ok th th) eq_refl) in Eth. discriminate.
  - rewrite Hpan. apply (t_nopanic _ HT).
Qed.

Lemma timer_of_key : forall st t it tm x, TInv st -> In (t, it) (items st) ->
  zlookup tm (timers st) = Some x -> tm_key x = t -> tm = it_tm it.
Proof.
  intros st t it tm x HT Hin Hx Hk. destruct (t_item _ HT _ _ Hin) as (y&Hy&Hky&_).
  eapply (t_uniq _ HT); [exact Hx|exact Hy|congruence].
Qed.

(* the instruction at the head of a thread that is about to Entomb/Delete key t: the timer
   with that key is inactive *)
Lemma close_timer : forall st th i rest t, TInv st ->
  In (th, i :: rest) (threads st) -> ((exists lk, i = IDelete t lk) \/ exists s, i = IEntomb t s) ->
  exists tm x, zlookup tm (timers st) = Some x /\ tm_key x = t /\ tm_active x = false /\ tm_armed x = false.
Proof.
  intros st th i rest t HT Hin Hi.
  assert (Hsk : In t (sk i) -> exists tm x, zlookup tm (timers st) = Some x /\ tm_key x = t /\ tm_active x = false /\ tm_armed x = false).
  { intro Hs. destruct (t_sk _ HT th _ i t Hin (or_introl eq_refl) Hs) as (tm&x&Hx&Hk&Hst).
    destruct (t_phase _ HT _ _ Hx) as (_&P2&_). destruct (P2 Hst) as [A B]. exists tm, x. repeat split; assumption. }
  destruct Hi as [[lk0 ->]|[s ->]]; [apply Hsk; left; reflexivity|].
  destruct s as [r|o]; [apply Hsk; left; reflexivity|].
  pose proof (t_code _ HT _ _ Hin) as Hc. cbn [tcode_ok] in Hc. destruct Hc as [_ (tm&x&_&Hx&Hk&Hac&_&Har)].
  exists tm, x. repeat split; assumption.
Qed.

Lemma simple_nil : simple_code [].
Proof. intros j []. Qed.

Lemma simple_tail : forall (b : bool) k id c s k0, simple_code ((if b then orig_tail k id c s else []) ++ [IDec k0]).
Proof.
  intros b k id c s k0 j Hj. apply in_app_or in Hj. destruct Hj as [Hj|[<-|[]]]; [|repeat split; intros; discriminate].
  destruct b; [|contradiction]. unfold orig_tail in Hj. destruct s.
  - apply in_app_or in Hj. destruct Hj as [Hj|Hj].
    + destruct (reason =? reason_source_slow); [contradiction|]. destruct Hj as [<-|[]]. repeat split; intros; discriminate.
    + destruct Hj as [<-|[<-|[]]]; repeat split; intros; discriminate.
  - destruct Hj as [<-|[<-|[<-|[]]]]; repeat split; intros; discriminate.
Qed.

(* deleting the item at t (its timer is inactive) *)
Lemma TInv_delete_step : forall st st1 th i rest pushed t it,
  Inv st -> TInv st ->
  lookup tid_eqb th (threads st) = Some (i :: rest) ->
  ((exists lk, i = IDelete t lk) \/ exists s, i = IEntomb t s) ->
  klookup t (items st) = Some it ->
  st1 = timer_release (set_items st (kremove t (items st))) (it_tm it) ->
  simple_code pushed ->
  TInv (set_thread st1 th (pushed ++ rest)).
Proof.
  intros st st1 th i rest pushed t it HI HT Hl Hi El -> Hps.
  pose proof (lookup_in tid_eqb tid_eqb_ok _ _ _ Hl) as Hin0.
  pose proof (lookup_in key_eqb key_eqb_ok _ _ _ El) as Hin.
  destruct (close_timer _ _ _ _ _ HT Hin0 Hi) as (tm&x&Hx&Hk&Hac&Har).
  pose proof (timer_of_key _ _ _ _ _ HT Hin Hx Hk) as Htm. subst tm.
  destruct (t_item _ HT _ _ Hin) as (x'&Hx'&_&Hrel). rewrite Hx in Hx'. inversion Hx'. subst x'.
  destruct (timer_release_spec (set_items st (kremove t (items st))) (it_tm it) x Hx Hrel Hac) as (P&N&T).
  set (st1 := timer_release (set_items st (kremove t (items st))) (it_tm it)) in *.
  destruct (timer_release_core (set_items st (kremove t (items st))) (it_tm it)) as (C1&C2&C3&C4&C5&C6&C7&C8).
  fold st1 in C1, C2, C3, C4, C5, C6, C7, C8. cbn [set_items conns items gcs threads cblog sent seen next_call] in *.
  assert (Hnone : forall it', ~ In (t, it') (items st1)).
  { intros it' Hc. rewrite C2 in Hc. apply (in_remove key_eqb key_eqb_ok) in Hc. destruct Hc as [_ Hc]. apply Hc. reflexivity. }
  eapply (TInv_close_step st st1 th i rest pushed t); try assumption.
  - intros t' Ht'. rewrite C3. exact Ht'.
  - intros tm' z Hz. rewrite T in Hz. apply (upd_lookup _ _ _) in Hz. destruct Hz as [[-> ->]|[_ Hz]].
    + exists x. split; [exact Hx|]. right. repeat split; assumption.
    + exists z. split; [exact Hz|left; reflexivity].
  - intros tm' z0 Hz. rewrite T, zl_insert. destruct (tm' =? it_tm it) eqn:E.
    + apply Z.eqb_eq in E. subst tm'. rewrite Hx in Hz. inversion Hz. subst z0.
      exists (released_timer x). split; [reflexivity|]. right. repeat split; assumption.
    + exists z0. split; [exact Hz|left; reflexivity].
  - intros t' it' Hne. rewrite C2. rewrite (in_remove key_eqb key_eqb_ok). tauto.
  - intros it' Hc. exfalso. eapply Hnone. exact Hc.
Qed.

(* ---------------------------------------------------------------- looked-up identities

   finishRelayItem deletes the item under the id only if it still belongs to the call the frame
   path looked up (relayItems.deleteCall: same destination relayer, same destination-side id).
   [refs j]: the (key, identity) pairs instruction j carries: the identity of an item it looked
   up under that key.  LInv: a key an instruction refers to has been allocated (a timer with that
   key exists, so no later Add can use the key), and whatever item is found under the key has the
   identity the instruction carries -- in fresh-id schedules the check of deleteCall always
   succeeds and finishRelayItem is the Delete it was before. *)
Definition refs (j : instr) : list (key * (Z * Z)) :=
  match j with
  | INcChk _ _ _ own (Some (it, _)) => [(own, (it_dest it, it_remap it))]
  | IRcvGet r => [(r_own r, (r_d r, f_id (r_f r)))]
  | IRcvChk r rk g =>
      (r_own r, (r_d r, f_id (r_f r))) ::
      match g with Some (it, _) => [(rk, (it_dest it, it_remap it))] | None => [] end
  | IRcvEnq r rk lk => [(r_own r, (r_d r, f_id (r_f r))); (rk, lk)]
  | IDelete t lk => [(t, lk)]
  | _ => []
  end.

Definition ref_ok (tms : list (Z * timer)) (its : list (key * item)) (t : key) (lk : Z * Z) : Prop :=
  (exists tm x, zlookup tm tms = Some x /\ tm_key x = t) /\
  (forall it, klookup t its = Some it -> it_dest it = fst lk /\ it_remap it = snd lk).

Definition LInv (st : state) : Prop :=
  forall th code j t lk, In (th, code) (threads st) -> In j code -> In (t, lk) (refs j) ->
    ref_ok (timers st) (items st) t lk.

Lemma LInv_delete_is_delete : forall st th t lk rest, LInv st ->
  lookup tid_eqb th (threads st) = Some (IDelete t lk :: rest) ->
  items_delete_call st t lk = items_delete st t.
Proof.
  intros st th t lk rest HL Hl. apply items_delete_call_match.
  pose proof (lookup_in tid_eqb tid_eqb_ok _ _ _ Hl) as Hin.
  destruct (HL th _ (IDelete t lk) t lk Hin (or_introl eq_refl) (or_introl eq_refl)) as [_ H]. exact H.
Qed.

Lemma TInv_step_IDelete : forall cf st th t lk rest room st1 pushed, Inv st -> TInv st -> LInv st ->
  lookup tid_eqb th (threads st) = Some (IDelete t lk :: rest) ->
  exec cf st (IDelete t lk) room = (st1, pushed) -> TInv (set_thread st1 th (pushed ++ rest)).
Proof.
  intros cf st th t lk rest room st1 pushed HI HT HL Hl H. cbn [exec] in H.
  rewrite (LInv_delete_is_delete st th t lk rest HL Hl) in H. unfold items_delete in H.
  destruct (klookup t (items st)) as [it|] eqn:El.
  - cbn [fst snd] in H.
    eapply (TInv_delete_step st _ th (IDelete t lk) rest pushed t it); try eassumption.
    + left. exists lk. reflexivity.
    + destruct (negb (it_tomb it)); inversion H; reflexivity.
    + destruct (negb (it_tomb it)); inversion H; [|apply simple_nil].
      intros j Hj. apply in_app_or in Hj. destruct Hj as [Hj|[<-|[]]]; [|repeat split; intros; discriminate].
      destruct (it_orig it); [|contradiction]. destruct Hj as [<-|[]]. repeat split; intros; discriminate.
  - inversion H. subst st1 pushed.
    eapply (TInv_close_step st st th (IDelete t lk) rest [] t); try eassumption; try reflexivity.
    + left. exists lk. reflexivity.
    + intros t' Ht'. exact Ht'.
    + intros tm' z Hz. exists z. split; [exact Hz|left; reflexivity].
    + intros tm' z Hz. exists z. split; [exact Hz|left; reflexivity].
    + intros it' Hc. apply (in_lookup key_eqb key_eqb_ok _ _ _ (inv_items_nd _ HI)) in Hc. congruence.
    + apply simple_nil.
Qed.

Lemma TInv_step_IEntomb : forall cf st th t s rest room st1 pushed, Inv st -> TInv st ->
  lookup tid_eqb th (threads st) = Some (IEntomb t s :: rest) ->
  exec cf st (IEntomb t s) room = (st1, pushed) -> TInv (set_thread st1 th (pushed ++ rest)).
Proof.
  intros cf st th t s rest room st1 pushed HI HT Hl H. cbn [exec] in H. unfold items_entomb, items_delete in H.
  pose proof (lookup_in tid_eqb tid_eqb_ok _ _ _ Hl) as Hin0.
  assert (Hi : (exists lk0, IEntomb t s = IDelete t lk0) \/ exists s0, IEntomb t s = IEntomb t s0) by (right; exists s; reflexivity).
  assert (Hsame : forall it, klookup t (items st) = None \/ (klookup t (items st) = Some it /\ it_tomb it = true) ->
                  TInv (set_thread st th ([] ++ rest))).
  { intros it Hcase.
    eapply (TInv_close_step st st th (IEntomb t s) rest [] t); try eassumption; try reflexivity.
    - intros t' Ht'. exact Ht'.
    - intros tm' z Hz. exists z. split; [exact Hz|left; reflexivity].
    - intros tm' z Hz. exists z. split; [exact Hz|left; reflexivity].
    - intros it' Hc. pose proof (in_lookup key_eqb key_eqb_ok _ _ _ (inv_items_nd _ HI) Hc) as L.
      destruct Hcase as [Hn|[Hs Ht]]; [congruence|]. rewrite Hs in L. inversion L. subst it'.
      destruct (t_tomb _ HT _ _ Hc Ht) as [Hg (x&Hx&Hac)]. destruct (t_item _ HT _ _ Hc) as (x'&Hx'&Hk&Hr).
      rewrite Hx in Hx'. inversion Hx'. subst x'. split; [exact Ht|]. split; [exact Hg|]. exists x. repeat split; assumption.
    - apply simple_nil. }
  destruct (klookup t (items st)) as [it|] eqn:El.
  - destruct (cf_maxtombs cf <? tomb_count st (key_conn t) (key_dir t)).
    + cbn [fst snd] in H.
      eapply (TInv_delete_step st _ th (IEntomb t s) rest pushed t it); try eassumption.
      * destruct (negb (it_tomb it)); inversion H; reflexivity.
      * destruct (negb (it_tomb it)); inversion H; [apply simple_tail|apply simple_nil].
    + destruct (it_tomb it) eqn:Et.
      * inversion H. subst st1 pushed. apply (Hsame it). right. split; [reflexivity|exact Et].
      * inversion H. subst st1 pushed. clear H.
        pose proof (lookup_in key_eqb key_eqb_ok _ _ _ El) as Hin.
        destruct (close_timer _ _ _ _ _ HT Hin0 Hi) as (tm&x&Hx&Hk&Hac&Har).
        pose proof (timer_of_key _ _ _ _ _ HT Hin Hx Hk) as Htm. subst tm.
        destruct (t_item _ HT _ _ Hin) as (x'&Hx'&_&Hrel). rewrite Hx in Hx'. inversion Hx'. subst x'.
        eapply (TInv_close_step st _ th (IEntomb t s) rest _ t); try eassumption; try reflexivity.
        -- intros t' Ht'. right. exact Ht'.
        -- intros tm' z Hz. exists z. split; [exact Hz|left; reflexivity].
        -- intros tm' z Hz. exists z. split; [exact Hz|left; reflexivity].
        -- intros t' it' Hne. cbn [set_gcs set_items items]. rewrite (in_insert key_eqb key_eqb_ok). split.
           ++ intros [[Hc _]|[Hc _]]; [contradiction|exact Hc].
           ++ intro Hc. right. split; assumption.
        -- intros it' Hc. cbn [set_gcs set_items items gcs timers] in *. apply (in_insert key_eqb key_eqb_ok) in Hc.
           destruct Hc as [[_ ->]|[_ Hc]]; [|exfalso; apply Hc; reflexivity].
           split; [reflexivity|]. split; [left; reflexivity|]. exists x. repeat split; assumption.
        -- cbn [entomb_item it_orig it_call]. apply simple_tail.
  - destruct (cf_maxtombs cf <? tomb_count st (key_conn t) (key_dir t)); inversion H; subst st1 pushed;
      apply (Hsame {| it_call := 0; it_remap := 0; it_dest := 0; it_orig := false; it_tomb := false; it_tm := 0 |});
      left; reflexivity.
Qed.

(* ---------------------------------------------------------------- OnTimer *)

Definition ran_timer (x : timer) : timer :=
  {| tm_armed := tm_armed x; tm_active := false; tm_stopped := tm_stopped x; tm_released := false;
     tm_key := tm_key x; tm_orig := tm_orig x |}.

Lemma TInv_step_ITimerRun : forall cf st th tm rest room st1 pushed, Inv st -> TInv st ->
  lookup tid_eqb th (threads st) = Some (ITimerRun tm :: rest) ->
  exec cf st (ITimerRun tm) room = (st1, pushed) -> TInv (set_thread st1 th (pushed ++ rest)).
Proof.
  intros cf st th tm rest room st1 pushed HI HT Hl H. cbn [exec] in H.
  pose proof (lookup_in tid_eqb tid_eqb_ok _ _ _ Hl) as Hin0.
  pose proof (t_code _ HT _ _ Hin0) as Hc. cbn [tcode_ok] in Hc. destruct Hc as [_ (Hth&Hrest&x&Hx&Hac&Har&Hre)].
  subst th rest. rewrite Hx, Hre in H. inversion H. subst st1 pushed. clear H.
  destruct (t_phase _ HT _ _ Hx) as (P1&P2&P3&P4).
  assert (Hst : tm_stopped x = false).
  { destruct (tm_stopped x) eqn:E; [|reflexivity]. destruct (P2 eq_refl) as [A _]. congruence. }
  fold (ran_timer x). rewrite app_nil_r.
  set (code1 := [IEntomb (tm_key x) (FromTimeout (tm_orig x))]).
  set (st1 := set_timers st (zinsert tm (ran_timer x) (timers st))).
  assert (Hback : forall tm' z, zlookup tm' (timers st1) = Some z ->
            (tm' = tm /\ z = ran_timer x) \/ (tm' <> tm /\ zlookup tm' (timers st) = Some z)).
  { intros tm' z Hz. apply (upd_lookup _ _ _) in Hz. exact Hz. }
  assert (Hfwd : forall tm' z0, zlookup tm' (timers st) = Some z0 -> tm' <> tm -> zlookup tm' (timers st1) = Some z0).
  { intros tm' z0 Hz Hne. unfold st1. cbn [set_timers timers]. rewrite zl_insert. apply Z.eqb_neq in Hne. rewrite Hne. exact Hz. }
  assert (Hself : zlookup tm (timers st1) = Some (ran_timer x)).
  { unfold st1. cbn [set_timers timers]. rewrite zl_insert, Z.eqb_refl. reflexivity. }
  assert (Hother : forall th' code', In (th', code') (threads (set_thread st1 (TT tm) code1)) ->
            (th' = TT tm /\ code' = code1) \/ (th' <> TT tm /\ In (th', code') (threads st))).
  { intros th' code' Hin'. apply set_thread_in in Hin'. exact Hin'. }
  constructor; cbn [set_thread set_threads items gcs seen conns timers next_tm panicked];
    fold (threads (set_thread st1 (TT tm) code1)).
  - intros t it Hin. destruct (t_item _ HT _ _ Hin) as (y&Hy&Hk&Hr).
    destruct (Z.eq_dec (it_tm it) tm) as [E|E].
    + rewrite E in *. rewrite Hx in Hy. inversion Hy. subst y. exists (ran_timer x). repeat split; [exact Hself|exact Hk].
    + exists y. split; [apply Hfwd; assumption|split; assumption].
  - intros tm1 tm2 x1 x2 H1 H2 Heq.
    assert (K : forall tm' z, zlookup tm' (timers st1) = Some z -> exists z0, zlookup tm' (timers st) = Some z0 /\ tm_key z0 = tm_key z).
    { intros tm' z Hz. destruct (Hback _ _ Hz) as [[-> ->]|[_ Hz']]; [exists x|exists z]; split; try assumption; reflexivity. }
    destruct (K _ _ H1) as (z1&G1&K1). destruct (K _ _ H2) as (z2&G2&K2).
    eapply (t_uniq _ HT); [exact G1|exact G2|congruence].
  - intros tm' z Hz. destruct (Hback _ _ Hz) as [[-> ->]|[_ Hz']].
    + apply (t_alloc _ HT _ _ Hx).
    + apply (t_alloc _ HT _ _ Hz').
  - intros th' code' j k f Hin' Hj Hadm tm' z Hz.
    destruct (Hother _ _ Hin') as [[-> ->]|[Hne Hin1]].
    + destruct Hj as [<-|[]]. discriminate.
    + destruct (Hback _ _ Hz) as [[-> ->]|[_ Hz']].
      * apply (t_adm _ HT th' code' j k f Hin1 Hj Hadm tm x Hx).
      * apply (t_adm _ HT th' code' j k f Hin1 Hj Hadm tm' z Hz').
  - intros tm' z Hz. destruct (Hback _ _ Hz) as [[-> ->]|[Hne Hz']].
    + unfold phase_ok. cbn. rewrite Har, Hst. split; [intro; discriminate|]. split; [intro; discriminate|].
      split; [intro; reflexivity|]. intro; discriminate.
    + destruct (t_phase _ HT _ _ Hz') as (Q1&Q2&Q3&Q4). split; [exact Q1|]. split; [exact Q2|]. split; [exact Q3|].
      intros A1 A2. rewrite tlookup_set_thread_other; [apply Q4; assumption|]. intro Heq. inversion Heq. contradiction.
  - intros th' code' Hin'. destruct (Hother _ _ Hin') as [[-> ->]|[Hne Hin1]].
    + cbn. split; [intros j []|]. exists tm, (ran_timer x). repeat split; try assumption; reflexivity.
    + pose proof (t_code _ HT _ _ Hin1) as Hc. destruct code' as [|j r]; [exact I|]. cbn [tcode_ok] in *.
      destruct Hc as [Hr Hj]. split; [exact Hr|]. destruct j; try exact I.
      * destruct s; [exact I|]. destruct Hj as (tm'&z0&He&G&Hk&A1&A2&A3). exists tm', z0.
        assert (tm' <> tm) by (intro Heq_; apply Hne; rewrite He, Heq_; reflexivity).
        repeat split; try assumption. apply Hfwd; assumption.
      * destruct Hj as (He&Hr0&z0&G&A1&A2&A3). split; [exact He|]. split; [exact Hr0|]. exists z0.
        assert (tm0 <> tm) by (intro Heq_; apply Hne; rewrite He, Heq_; reflexivity).
        repeat split; try assumption. apply Hfwd; assumption.
  - intros th' code' j t Hin' Hj Ht. destruct (Hother _ _ Hin') as [[-> ->]|[Hne Hin1]].
    + destruct Hj as [<-|[]]. contradiction.
    + destruct (t_sk _ HT _ _ _ _ Hin1 Hj Ht) as (tm'&z&Hz&Hk&Hs). exists tm', z.
      assert (tm' <> tm) by (intro; subst; congruence). repeat split; try assumption. apply Hfwd; assumption.
  - intros t it Hin Htomb. destruct (t_tomb _ HT _ _ Hin Htomb) as [Hg (y&Hy&Hya)]. split; [exact Hg|].
    destruct (Z.eq_dec (it_tm it) tm) as [E|E].
    + exists (ran_timer x). rewrite E. split; [exact Hself|reflexivity].
    + exists y. split; [apply Hfwd; assumption|exact Hya].
  - intros th' code' k f Hin' Hj. destruct (Hother _ _ Hin') as [[-> ->]|[Hne Hin1]].
    + destruct Hj as [Hc|[]]. discriminate.
    + eapply (t_ncget _ HT th' code' k f); eassumption.
  - intros t it Hin Hnt. destruct (t_oblig _ HT _ _ Hin Hnt) as (y&Hy&Hob).
    destruct (t_item _ HT _ _ Hin) as (y'&Hy'&Hk&_). rewrite Hy in Hy'. inversion Hy'. subst y'.
    destruct (Z.eq_dec (it_tm it) tm) as [E|E].
    + unfold oblig. rewrite E in *. rewrite Hx in Hy. inversion Hy. subst y. exists (ran_timer x). split; [exact Hself|].
      right. left. exists code1. split; [apply in_set_thread_self; discriminate|]. right. exists (tm_orig x), []. unfold code1. rewrite Hk. reflexivity.
    + exists y. split; [apply Hfwd; assumption|].
      destruct Hob as [A|[(code0&Hin1&Hpd)|[S (th0&code0&j&Hin1&Hj&Ht)]]].
      * left. exact A.
      * right. left. exists code0. split; [|exact Hpd]. apply in_set_thread_other; [|exact Hin1]. intro Heq. inversion Heq. contradiction.
      * right. right. split; [exact S|]. exists th0, code0, j. split; [|split; assumption].
        apply in_set_thread_other; [|exact Hin1]. intro Heq. subst th0.
        pose proof (in_lookup tid_eqb tid_eqb_ok _ _ _ (inv_threads_nd _ HI) Hin1) as L. rewrite Hl in L. inversion L. subst code0.
        destruct Hj as [<-|[]]. contradiction.
  - apply (t_nopanic _ HT).
Qed.

(* ---------------------------------------------------------------- addRelayItem *)

Definition new_timer (t : key) (o : bool) : timer :=
  {| tm_armed := true; tm_active := true; tm_stopped := false; tm_released := false; tm_key := t; tm_orig := o |}.

Lemma TInv_add_step : forall st st1 th i pushed t o nit,
  Inv st -> TInv st ->
  lookup tid_eqb th (threads st) = Some [i] -> (exists k, th = TR k) ->
  sk i = [] -> owes i = [] -> is_trun i = false -> is_tent i = false ->
  timers st1 = zinsert (next_tm st) (new_timer t o) (timers st) -> next_tm st1 = next_tm st + 1 ->
  items st1 = kinsert t nit (items st) -> klookup t (items st) = None -> it_tm nit = next_tm st -> it_tomb nit = false ->
  gcs st1 = gcs st -> seen st1 = seen st -> panicked st1 = panicked st -> threads st1 = threads st ->
  (forall k, c_nextid (getc (conns st) k) <= c_nextid (getc (conns st1) k)) ->
  (forall tm x, zlookup tm (timers st) = Some x -> tm_key x <> t) ->
  ((key_dir t = 0 /\ In (key_conn t, key_id t) (seen st)) \/
   (key_dir t = 1 /\ key_id t < c_nextid (getc (conns st1) (key_conn t)))) ->
  (forall j, In j pushed -> is_trun j = false /\ is_tent j = false /\ sk j = [] /\ forall k f, j <> INcGet k f) ->
  (forall j k f, In j pushed -> adm_kf j = Some (k, f) -> adm_kf i = Some (k, f) /\ t <> (k, 0, f_id f)) ->
  (forall th' code' j k f, In (th', code') (threads st) -> th' <> th -> In j code' -> adm_kf j = Some (k, f) -> t <> (k, 0, f_id f)) ->
  TInv (set_thread st1 th pushed).
Proof.
  intros st st1 th i pushed t o nit HI HT Hl [k0 Hth0] Hski Howi Hitr Hite Htms Hntm Hits Hnone Hnit Hnt Hg Hsn Hpan Hth Hcs Hnokey Halloc Hps Hpadm Hoadm.
  pose proof (lookup_in tid_eqb tid_eqb_ok _ _ _ Hl) as Hin0.
  set (ntm := next_tm st) in *.
  assert (Hlt : forall tm x, zlookup tm (timers st) = Some x -> tm <> ntm).
  { intros tm x Hx Heq. destruct (t_alloc _ HT _ _ Hx) as [Hl0 _]. unfold ntm in Heq. lia. }
  assert (Hfwd : forall tm x, zlookup tm (timers st) = Some x -> zlookup tm (timers st1) = Some x).
  { intros tm x Hx. rewrite Htms, zl_insert. pose proof (Hlt _ _ Hx) as Hne. apply Z.eqb_neq in Hne. rewrite Hne. exact Hx. }
  assert (Hback : forall tm z, zlookup tm (timers st1) = Some z -> (tm = ntm /\ z = new_timer t o) \/ (tm <> ntm /\ zlookup tm (timers st) = Some z)).
  { intros tm z Hz. rewrite Htms, zl_insert in Hz. destruct (tm =? ntm) eqn:E.
    - apply Z.eqb_eq in E. inversion Hz. left. split; [exact E|reflexivity].
    - apply Z.eqb_neq in E. right. split; assumption. }
  assert (Hself : zlookup ntm (timers st1) = Some (new_timer t o)).
  { rewrite Htms, zl_insert, Z.eqb_refl. reflexivity. }
  assert (Hitems : forall t' it', In (t', it') (items st1) -> (t' = t /\ it' = nit) \/ (In (t', it') (items st) /\ t' <> t)).
  { intros t' it' Hin. rewrite Hits in Hin. apply (in_insert key_eqb key_eqb_ok) in Hin. exact Hin. }
  assert (Hthne : forall tm', TT tm' <> th) by (intros tm' Heq; subst th; discriminate).
  assert (Hother : forall th' code', In (th', code') (threads (set_thread st1 th pushed)) ->
            (th' = th /\ code' = pushed) \/ (th' <> th /\ In (th', code') (threads st))).
  { intros th' code' Hin'. apply set_thread_in in Hin'. rewrite Hth in Hin'. exact Hin'. }
  constructor; cbn [set_thread set_threads items gcs seen conns timers next_tm panicked];
    fold (threads (set_thread st1 th pushed)).
  - intros t' it' Hin. destruct (Hitems _ _ Hin) as [[-> ->]|[Hin1 _]].
    + exists (new_timer t o). rewrite Hnit. repeat split. exact Hself.
    + destruct (t_item _ HT _ _ Hin1) as (x&Hx&Hk&Hr). exists x. split; [apply Hfwd; exact Hx|split; assumption].
  - intros tm1 tm2 x1 x2 H1 H2 Heq.
    destruct (Hback _ _ H1) as [[-> ->]|[N1 G1]]; destruct (Hback _ _ H2) as [[-> ->]|[N2 G2]].
    + reflexivity.
    + exfalso. eapply Hnokey; [exact G2|]. cbn in Heq. congruence.
    + exfalso. eapply Hnokey; [exact G1|]. cbn in Heq. congruence.
    + eapply (t_uniq _ HT); eassumption.
  - intros tm z Hz. rewrite Hntm, Hsn. destruct (Hback _ _ Hz) as [[-> ->]|[N G]].
    + split; [unfold ntm; lia|]. cbn [new_timer tm_key]. exact Halloc.
    + destruct (t_alloc _ HT _ _ G) as [Hl0 Hal]. split; [lia|]. destruct Hal as [H0|[H1 H2]]; [left; exact H0|right].
      split; [exact H1|]. specialize (Hcs (key_conn (tm_key z))). lia.
  - intros th' code' j k f Hin' Hj Hadm tm z Hz. destruct (Hother _ _ Hin') as [[-> ->]|[Hne Hin1]].
    + destruct (Hpadm j k f Hj Hadm) as [Hai Hnk]. destruct (Hback _ _ Hz) as [[-> ->]|[N G]].
      * cbn. exact Hnk.
      * eapply (t_adm _ HT th [i] i k f Hin0 (or_introl eq_refl) Hai). exact G.
    + destruct (Hback _ _ Hz) as [[-> ->]|[N G]].
      * cbn. eapply Hoadm; eassumption.
      * eapply (t_adm _ HT th' code' j k f Hin1 Hj Hadm). exact G.
  - intros tm z Hz. destruct (Hback _ _ Hz) as [[-> ->]|[N G]].
    + unfold phase_ok. cbn. split; [intro; repeat split; reflexivity|]. split; [intro; discriminate|].
      split; [intro; discriminate|]. intros _ Hc. discriminate.
    + destruct (t_phase _ HT _ _ G) as (Q1&Q2&Q3&Q4). split; [exact Q1|]. split; [exact Q2|]. split; [exact Q3|].
      intros A1 A2. rewrite tlookup_set_thread_other; [rewrite Hth; apply Q4; assumption|]. apply Hthne.
  - intros th' code' Hin'. destruct (Hother _ _ Hin') as [[-> ->]|[Hne Hin1]].
    + destruct pushed as [|j r]; [exact I|]. cbn [tcode_ok]. split.
      * intros j' Hj'. destruct (Hps j' (or_intror Hj')) as (A&B&_). split; assumption.
      * destruct (Hps j (or_introl eq_refl)) as (A&B&_). destruct j; try exact I; try discriminate. destruct s; [exact I|discriminate].
    + pose proof (t_code _ HT _ _ Hin1) as Hc. destruct code' as [|j r]; [exact I|]. cbn [tcode_ok] in *.
      destruct Hc as [Hr Hj]. split; [exact Hr|]. destruct j; try exact I.
      * destruct s; [exact I|]. destruct Hj as (tm'&z0&He&G&Hk&A1&A2&A3). exists tm', z0. repeat split; try assumption. apply Hfwd. exact G.
      * destruct Hj as (He&Hr0&z0&G&A1&A2&A3). split; [exact He|]. split; [exact Hr0|]. exists z0. repeat split; try assumption. apply Hfwd. exact G.
  - intros th' code' j t' Hin' Hj Ht'. destruct (Hother _ _ Hin') as [[-> ->]|[Hne Hin1]].
    + destruct (Hps j Hj) as (_&_&A&_). rewrite A in Ht'. contradiction.
    + destruct (t_sk _ HT _ _ _ _ Hin1 Hj Ht') as (tm&z&Hz&Hk&Hs). exists tm, z. repeat split; try assumption. apply Hfwd. exact Hz.
  - intros t' it' Hin Htomb. rewrite Hg. destruct (Hitems _ _ Hin) as [[-> ->]|[Hin1 _]]; [congruence|].
    destruct (t_tomb _ HT _ _ Hin1 Htomb) as [Hgc (x&Hx&Hac)]. split; [exact Hgc|]. exists x. split; [apply Hfwd; exact Hx|exact Hac].
  - intros th' code' k f Hin' Hj. destruct (Hother _ _ Hin') as [[-> ->]|[Hne Hin1]].
    + destruct (Hps _ Hj) as (_&_&_&D). exfalso. eapply D. reflexivity.
    + eapply (t_ncget _ HT th' code' k f); eassumption.
  - intros t' it' Hin Hnt'. destruct (Hitems _ _ Hin) as [[-> ->]|[Hin1 _]].
    + exists (new_timer t o). rewrite Hnit. split; [exact Hself|]. left. reflexivity.
    + destruct (t_oblig _ HT _ _ Hin1 Hnt') as (x&Hx&Hob). exists x. split; [apply Hfwd; exact Hx|].
      destruct Hob as [A|[(code0&Hin2&Hpd)|[S (th0&code0&j&Hin2&Hj&Ht)]]].
      * left. exact A.
      * right. left. exists code0. split; [|exact Hpd]. apply in_set_thread_other; [apply Hthne|rewrite Hth; exact Hin2].
      * right. right. split; [exact S|]. exists th0, code0, j. split; [|split; assumption].
        apply in_set_thread_other; [|rewrite Hth; exact Hin2]. intro Heq. subst th0.
        pose proof (in_lookup tid_eqb tid_eqb_ok _ _ _ (inv_threads_nd _ HI) Hin2) as L. rewrite Hl in L. inversion L. subst code0.
        destruct Hj as [<-|[]]. rewrite Howi in Ht. contradiction.
  - rewrite Hpan. apply (t_nopanic _ HT).
Qed.

Lemma adm_thread : forall st th i rest, Inv st -> lookup tid_eqb th (threads st) = Some (i :: rest) -> is_adm i = true ->
  rest = [] /\ forall k f, adm_kf i = Some (k, f) -> th = TR k /\ key_free (items st) (gcs st) (seen st) k f.
Proof.
  intros st th i rest HI Hl Ha. pose proof (lookup_in tid_eqb tid_eqb_ok _ _ _ Hl) as Hin.
  destruct (inv_code _ HI _ _ Hin) as [Hf Hal]. split.
  - specialize (Hal i (or_introl eq_refl) Ha). inversion Hal. reflexivity.
  - intros k f Hk. inversion Hf as [|? ? Hi _]. subst. eapply iok_adm; eassumption.
Qed.

Lemma fin_req_frame0 : forall id more, fin_of (req_frame id false more) = false.
Proof. intros id more. destruct more; reflexivity. Qed.

Lemma TInv_step_IAddDest : forall cf st th k f e c d rest room st1 pushed, Inv st -> TInv st ->
  lookup tid_eqb th (threads st) = Some (IAddDest k f e c d :: rest) ->
  exec cf st (IAddDest k f e c d) room = (st1, pushed) -> TInv (set_thread st1 th (pushed ++ rest)).
Proof.
  intros cf st th k f e c d rest room st1 pushed HI HT Hl H.
  destruct (adm_thread _ _ _ _ HI Hl eq_refl) as [-> Hadm]. destruct (Hadm k f eq_refl) as [Hth Hkf].
  cbn [exec] in H. unfold timer_new in H. cbn [fst snd] in H. inversion H. subst st1 pushed. clear H. rewrite app_nil_r.
  set (did := c_nextid (get_conn st d)). set (t := (d, 1, did)).
  assert (Hfresh : ~ (In t (map fst (items st)) \/ In t (gcs st))).
  { intro Hin. destruct (inv_keys _ HI t Hin) as [[H0 _]|[_ H1]]; [cbn in H0; discriminate|].
    cbn in H1. unfold did in H1. rewrite get_conn_getc in H1. lia. }
  eapply (TInv_add_step st _ th _ _ t false); try eassumption; try reflexivity.
  - exists k. exact Hth.
  - apply (notin_lookup_none key_eqb key_eqb_ok). intro Hin. apply Hfresh. left. exact Hin.
  - intro k0. cbn [put_conn set_conns set_timers set_next_tm set_items conns]. rewrite getc_insert.
    destruct (k0 =? d) eqn:E; [|lia]. apply Z.eqb_eq in E. subst k0. cbn. unfold did.
    change (get_conn st d) with (getc (conns st) d). lia.
  - intros tm x Hx Hk. destruct (t_alloc _ HT _ _ Hx) as [_ [[H0 _]|[_ H1]]]; rewrite Hk in *; cbn in *; [discriminate|].
    unfold did in H1. rewrite get_conn_getc in H1. lia.
  - right. split; [reflexivity|]. cbn [put_conn set_conns set_timers set_next_tm set_items conns key_conn key_id fst snd t].
    rewrite getc_insert, Z.eqb_refl. cbn. lia.
  - intros j [<-|[]]. repeat split; intros; discriminate.
  - intros j k1 f1 [<-|[]] Ha. inversion Ha. subst. split; [reflexivity|]. intro Hc. inversion Hc.
  - intros th' code' j k1 f1 _ _ _ _ Hc. inversion Hc.
Qed.

Lemma TInv_step_IAddOrig : forall cf st th k f e c d did rest room st1 pushed, Inv st -> TInv st ->
  lookup tid_eqb th (threads st) = Some (IAddOrig k f e c d did :: rest) ->
  exec cf st (IAddOrig k f e c d did) room = (st1, pushed) -> TInv (set_thread st1 th (pushed ++ rest)).
Proof.
  intros cf st th k f e c d did rest room st1 pushed HI HT Hl H.
  destruct (adm_thread _ _ _ _ HI Hl eq_refl) as [-> Hadm]. destruct (Hadm k f eq_refl) as [Hth (Hs&Hn&Hng)].
  pose proof (lookup_in tid_eqb tid_eqb_ok _ _ _ Hl) as Hin0.
  cbn [exec] in H. unfold timer_new in H. cbn [fst snd] in H. inversion H. subst st1 pushed. clear H. rewrite app_nil_r.
  eapply (TInv_add_step st _ th _ _ (k, 0, f_id f) true); try eassumption; try reflexivity.
  - exists k. exact Hth.
  - intros tm x Hx. eapply (t_adm _ HT th _ _ k f Hin0 (or_introl eq_refl) eq_refl). exact Hx.
  - left. split; [reflexivity|exact Hs].
  - intros j Hj. destruct (e_mode e <? 0).
    + destruct Hj as [<-|[]]. repeat split; intros; discriminate.
    + destruct Hj as [<-|[<-|[]]]; repeat split; intros; discriminate.
  - intros j k1 f1 Hj Ha. destruct (e_mode e <? 0); [destruct Hj as [<-|[]]|destruct Hj as [<-|[<-|[]]]]; discriminate.
  - intros th' code' j k1 f1 Hin' Hne Hj Ha Hc. inversion Hc. subst k1.
    destruct (inv_code _ HI _ _ Hin') as [Hf _]. rewrite Forall_forall in Hf.
    destruct (iok_adm _ _ _ _ _ _ _ Ha (Hf j Hj)) as [Hth' _]. apply Hne. congruence.
Qed.

(* ---------------------------------------------------------------- labels other than LStep *)

Lemma TInv_conns : forall st cs', TInv st ->
  (forall k, c_nextid (getc (conns st) k) <= c_nextid (getc cs' k)) -> TInv (set_conns st cs').
Proof.
  intros st cs' HT Hcs. constructor; cbn [set_conns conns items gcs threads seen timers next_tm panicked]; try apply HT.
  intros tm x Hx. destruct (t_alloc _ HT _ _ Hx) as [Hl Hal]. split; [exact Hl|].
  destruct Hal as [H0|[H1 H2]]; [left; exact H0|right]. split; [exact H1|]. specialize (Hcs (key_conn (tm_key x))). lia.
Qed.

Lemma TInv_put_conn_state : forall st k s, TInv st ->
  TInv (put_conn st k {| c_state := s; c_pending := c_pending (get_conn st k); c_nextid := c_nextid (get_conn st k) |}).
Proof.
  intros st k s HT. unfold put_conn. apply TInv_conns; [exact HT|].
  intro k0. rewrite getc_insert. destruct (k0 =? k) eqn:E; [|lia]. apply Z.eqb_eq in E. subst. cbn.
  change (get_conn st k) with (getc (conns st) k). lia.
Qed.

Lemma TInv_new_reader : forall st sn' k code, Inv st -> TInv st ->
  lookup tid_eqb (TR k) (threads st) = None -> incl (seen st) sn' ->
  (forall j, In j code -> is_trun j = false /\ is_tent j = false /\ sk j = [] /\ owes j = []) ->
  (forall j k0 f, In j code -> adm_kf j = Some (k0, f) -> forall tm x, zlookup tm (timers st) = Some x -> tm_key x <> (k0, 0, f_id f)) ->
  (forall k0 f, In (INcGet k0 f) code -> frameTypeFor (f_mt f) <> None) ->
  TInv (set_thread (set_seen st sn') (TR k) code).
Proof.
  intros st sn' k code HI HT Hl Hsn Hc Hadm Hnc.
  assert (Hother : forall th' code', In (th', code') (threads (set_thread (set_seen st sn') (TR k) code)) ->
            (th' = TR k /\ code' = code) \/ (th' <> TR k /\ In (th', code') (threads st))).
  { intros th' code' Hin'. apply set_thread_in in Hin'. exact Hin'. }
  assert (Hkeep : forall th' code', In (th', code') (threads st) -> In (th', code') (threads (set_thread (set_seen st sn') (TR k) code))).
  { intros th' code' Hin'. apply in_set_thread_other; [|exact Hin']. intro Heq. subst th'.
    apply (in_lookup tid_eqb tid_eqb_ok _ _ _ (inv_threads_nd _ HI)) in Hin'. congruence. }
  constructor; cbn [set_thread set_threads set_seen items gcs seen conns timers next_tm panicked];
    fold (threads (set_thread (set_seen st sn') (TR k) code)).
  - apply (t_item _ HT).
  - apply (t_uniq _ HT).
  - intros tm x Hx. destruct (t_alloc _ HT _ _ Hx) as [H0 Hal]. split; [exact H0|].
    destruct Hal as [[A B]|H1]; [left; split; [exact A|apply Hsn; exact B]|right; exact H1].
  - intros th' code' j k0 f Hin' Hj Ha tm x Hx. destruct (Hother _ _ Hin') as [[-> ->]|[_ Hin1]].
    + eapply Hadm; eassumption.
    + eapply (t_adm _ HT); eassumption.
  - intros tm x Hx. destruct (t_phase _ HT _ _ Hx) as (Q1&Q2&Q3&Q4). split; [exact Q1|]. split; [exact Q2|]. split; [exact Q3|].
    intros A1 A2. rewrite tlookup_set_thread_other; [apply Q4; assumption|discriminate].
  - intros th' code' Hin'. destruct (Hother _ _ Hin') as [[-> ->]|[_ Hin1]]; [|apply (t_code _ HT); exact Hin1].
    destruct code as [|j r]; [exact I|]. cbn [tcode_ok]. split.
    + intros j' Hj'. destruct (Hc j' (or_intror Hj')) as (A&B&_). split; assumption.
    + destruct (Hc j (or_introl eq_refl)) as (A&B&_). destruct j; try exact I; try discriminate. destruct s; [exact I|discriminate].
  - intros th' code' j t Hin' Hj Ht. destruct (Hother _ _ Hin') as [[-> ->]|[_ Hin1]].
    + destruct (Hc j Hj) as (_&_&A&_). rewrite A in Ht. contradiction.
    + eapply (t_sk _ HT); eassumption.
  - apply (t_tomb _ HT).
  - intros th' code' k0 f Hin' Hj. destruct (Hother _ _ Hin') as [[-> ->]|[_ Hin1]].
    + apply (Hnc k0 f). exact Hj.
    + eapply (t_ncget _ HT th' code' k0 f); eassumption.
  - intros t it Hin Hnt. destruct (t_oblig _ HT _ _ Hin Hnt) as (x&Hx&Hob). exists x. split; [exact Hx|].
    destruct Hob as [A|[(code0&Hin1&Hpd)|[S (th0&code0&j&Hin1&Hj&Ht)]]].
    + left. exact A.
    + right. left. exists code0. split; [apply Hkeep; exact Hin1|exact Hpd].
    + right. right. split; [exact S|]. exists th0, code0, j. split; [apply Hkeep; exact Hin1|split; assumption].
  - apply (t_nopanic _ HT).
Qed.

Lemma route_ftype : forall mt c, relayRoute mt c = 1 -> frameTypeFor mt <> None.
Proof.
  intros mt c H. unfold relayRoute in H. unfold frameTypeFor.
  destruct ((mt =? c_messageTypeCancel) && negb c); [discriminate|].
  destruct (mt =? c_messageTypeCallReq) eqn:E1, (mt =? c_messageTypeCallReqContinue) eqn:E2,
           (mt =? c_messageTypeCallRes) eqn:E3, (mt =? c_messageTypeCallResContinue) eqn:E4,
           (mt =? c_messageTypeError) eqn:E5, (mt =? c_messageTypeCancel) eqn:E6; cbn in *; try discriminate;
    destruct (mt =? c_messageTypePingRes), (mt =? c_messageTypePingReq); cbn; discriminate.
Qed.

Definition fired_timer (x : timer) : timer :=
  {| tm_armed := false; tm_active := tm_active x; tm_stopped := tm_stopped x; tm_released := tm_released x;
     tm_key := tm_key x; tm_orig := tm_orig x |}.

Lemma TInv_fire : forall st tm x, Inv st -> TInv st ->
  zlookup tm (timers st) = Some x -> tm_armed x = true -> lookup tid_eqb (TT tm) (threads st) = None ->
  TInv (set_thread (set_timers st (zinsert tm (fired_timer x) (timers st))) (TT tm) [ITimerRun tm]).
Proof.
  intros st tm x HI HT Hx Harm Hl.
  destruct (t_phase _ HT _ _ Hx) as (P1&_). destruct (P1 Harm) as (Hac&Hst&Hre).
  set (st1 := set_timers st (zinsert tm (fired_timer x) (timers st))).
  assert (Hback : forall tm' z, zlookup tm' (timers st1) = Some z ->
            (tm' = tm /\ z = fired_timer x) \/ (tm' <> tm /\ zlookup tm' (timers st) = Some z)).
  { intros tm' z Hz. apply (upd_lookup _ _ _) in Hz. exact Hz. }
  assert (Hfwd : forall tm' z0, zlookup tm' (timers st) = Some z0 -> tm' <> tm -> zlookup tm' (timers st1) = Some z0).
  { intros tm' z0 Hz Hne. unfold st1. cbn [set_timers timers]. rewrite zl_insert. apply Z.eqb_neq in Hne. rewrite Hne. exact Hz. }
  assert (Hself : zlookup tm (timers st1) = Some (fired_timer x)).
  { unfold st1. cbn [set_timers timers]. rewrite zl_insert, Z.eqb_refl. reflexivity. }
  assert (Hother : forall th' code', In (th', code') (threads (set_thread st1 (TT tm) [ITimerRun tm])) ->
            (th' = TT tm /\ code' = [ITimerRun tm]) \/ (th' <> TT tm /\ In (th', code') (threads st))).
  { intros th' code' Hin'. apply set_thread_in in Hin'. exact Hin'. }
  assert (Hkeep : forall th' code', In (th', code') (threads st) -> In (th', code') (threads (set_thread st1 (TT tm) [ITimerRun tm]))).
  { intros th' code' Hin'. apply in_set_thread_other; [|exact Hin']. intro Heq. subst th'.
    apply (in_lookup tid_eqb tid_eqb_ok _ _ _ (inv_threads_nd _ HI)) in Hin'. congruence. }
  constructor; cbn [set_thread set_threads items gcs seen conns timers next_tm panicked];
    fold (threads (set_thread st1 (TT tm) [ITimerRun tm])).
  - intros t it Hin. destruct (t_item _ HT _ _ Hin) as (y&Hy&Hk&Hr). destruct (Z.eq_dec (it_tm it) tm) as [E|E].
    + rewrite E in *. rewrite Hx in Hy. inversion Hy. subst y. exists (fired_timer x). repeat split; [exact Hself|exact Hk|exact Hr].
    + exists y. split; [apply Hfwd; assumption|split; assumption].
  - intros tm1 tm2 x1 x2 H1 H2 Heq.
    assert (K : forall tm' z, zlookup tm' (timers st1) = Some z -> exists z0, zlookup tm' (timers st) = Some z0 /\ tm_key z0 = tm_key z).
    { intros tm' z Hz. destruct (Hback _ _ Hz) as [[-> ->]|[_ Hz']]; [exists x|exists z]; split; try assumption; reflexivity. }
    destruct (K _ _ H1) as (z1&G1&K1). destruct (K _ _ H2) as (z2&G2&K2). eapply (t_uniq _ HT); [exact G1|exact G2|congruence].
  - intros tm' z Hz. destruct (Hback _ _ Hz) as [[-> ->]|[_ Hz']]; [apply (t_alloc _ HT _ _ Hx)|apply (t_alloc _ HT _ _ Hz')].
  - intros th' code' j k f Hin' Hj Hadm tm' z Hz. destruct (Hother _ _ Hin') as [[-> ->]|[Hne Hin1]].
    + destruct Hj as [<-|[]]. discriminate.
    + destruct (Hback _ _ Hz) as [[-> ->]|[_ Hz']].
      * apply (t_adm _ HT th' code' j k f Hin1 Hj Hadm tm x Hx).
      * apply (t_adm _ HT th' code' j k f Hin1 Hj Hadm tm' z Hz').
  - intros tm' z Hz. destruct (Hback _ _ Hz) as [[-> ->]|[Hne Hz']].
    + unfold phase_ok. cbn. rewrite Hac, Hst, Hre. split; [intro; discriminate|]. split; [intro; discriminate|].
      split; [intro; discriminate|]. intros _ _. rewrite Z.eqb_refl. reflexivity.
    + destruct (t_phase _ HT _ _ Hz') as (Q1&Q2&Q3&Q4). split; [exact Q1|]. split; [exact Q2|]. split; [exact Q3|].
      intros A1 A2. rewrite tlookup_set_thread_other; [apply Q4; assumption|]. intro Heq. inversion Heq. contradiction.
  - intros th' code' Hin'. destruct (Hother _ _ Hin') as [[-> ->]|[Hne Hin1]].
    + cbn. split; [intros j []|]. split; [reflexivity|]. split; [reflexivity|]. exists (fired_timer x). repeat split; assumption.
    + pose proof (t_code _ HT _ _ Hin1) as Hc. destruct code' as [|j r]; [exact I|]. cbn [tcode_ok] in *.
      destruct Hc as [Hr Hj]. split; [exact Hr|]. destruct j; try exact I.
      * destruct s; [exact I|]. destruct Hj as (tm'&z0&He&G&Hk&A1&A2&A3). exists tm', z0.
        assert (tm' <> tm) by (intro Heq_; subst tm'; congruence).
        repeat split; try assumption. apply Hfwd; assumption.
      * destruct Hj as (He&Hr0&z0&G&A1&A2&A3). split; [exact He|]. split; [exact Hr0|]. exists z0.
        assert (tm0 <> tm) by (intro Heq_; subst tm0; congruence).
        repeat split; try assumption. apply Hfwd; assumption.
  - intros th' code' j t Hin' Hj Ht. destruct (Hother _ _ Hin') as [[-> ->]|[Hne Hin1]].
    + destruct Hj as [<-|[]]. contradiction.
    + destruct (t_sk _ HT _ _ _ _ Hin1 Hj Ht) as (tm'&z&Hz&Hk&Hs). exists tm', z.
      assert (tm' <> tm) by (intro; subst; congruence). repeat split; try assumption. apply Hfwd; assumption.
  - intros t it Hin Htomb. destruct (t_tomb _ HT _ _ Hin Htomb) as [Hg (y&Hy&Hya)]. split; [exact Hg|].
    destruct (Z.eq_dec (it_tm it) tm) as [E|E].
    + rewrite E in *. rewrite Hx in Hy. inversion Hy. subst y. congruence.
    + exists y. split; [apply Hfwd; assumption|exact Hya].
  - intros th' code' k f Hin' Hj. destruct (Hother _ _ Hin') as [[-> ->]|[Hne Hin1]].
    + destruct Hj as [Hc|[]]. discriminate.
    + eapply (t_ncget _ HT th' code' k f); eassumption.
  - intros t it Hin Hnt. destruct (t_oblig _ HT _ _ Hin Hnt) as (y&Hy&Hob). unfold oblig.
    destruct (Z.eq_dec (it_tm it) tm) as [E|E].
    + rewrite E in *. exists (fired_timer x). split; [exact Hself|].
      right. left. exists [ITimerRun tm]. split; [apply in_set_thread_self; discriminate|left; reflexivity].
    + exists y. split; [apply Hfwd; assumption|].
      destruct Hob as [A|[(code0&Hin1&Hpd)|[S (th0&code0&j&Hin1&Hj&Ht)]]].
      * left. exact A.
      * right. left. exists code0. split; [apply Hkeep; exact Hin1|exact Hpd].
      * right. right. split; [exact S|]. exists th0, code0, j. split; [apply Hkeep; exact Hin1|split; assumption].
  - apply (t_nopanic _ HT).
Qed.

Lemma in_remove_one_other : forall t t' l, t' <> t -> In t' l -> In t' (remove_one t l).
Proof.
  intros t t' l Hne. induction l as [|y r IH]; cbn; [tauto|].
  destruct (key_eqb t y) eqn:E.
  - apply key_eqb_ok in E. subst y. intros [Hc|Hc]; [congruence|exact Hc].
  - intros [Hc|Hc]; [left; exact Hc|right; apply IH; exact Hc].
Qed.

Lemma TInv_gc : forall cf st t st', Inv st -> TInv st -> step cf st (LGc t) = Some st' -> TInv st'.
Proof.
  intros cf st t st' HI HT H. unfold step in H. rewrite (t_nopanic _ HT) in H. cbn [Z.eqb negb] in H.
  destruct (mem_key t (gcs st)) eqn:Em; [|discriminate]. inversion H. subst st'. clear H.
  assert (Hint : In t (gcs st)).
  { unfold mem_key in Em. apply existsb_exists in Em. destruct Em as [x [Hx Heq]]. apply key_eqb_ok in Heq. subst. exact Hx. }
  rewrite items_delete_tomb_eq by (cbn [set_gcs items]; intros it0 Hl0; eapply (inv_gcs _ HI); eassumption).
  unfold items_delete. cbn [set_gcs items].
  destruct (klookup t (items st)) as [it|] eqn:El; cbn [fst].
  - pose proof (lookup_in key_eqb key_eqb_ok _ _ _ El) as Hin.
    assert (Htomb : it_tomb it = true) by (eapply (inv_gcs _ HI); eassumption).
    destruct (t_tomb _ HT _ _ Hin Htomb) as [_ (x&Hx&Hac)].
    destruct (t_item _ HT _ _ Hin) as (x'&Hx'&Hk&Hrel). rewrite Hx in Hx'. inversion Hx'. subst x'.
    destruct (t_phase _ HT _ _ Hx) as (P1&_).
    assert (Har : tm_armed x = false).
    { destruct (tm_armed x) eqn:E; [|reflexivity]. destruct (P1 eq_refl) as [A _]. congruence. }
    set (st0 := set_items (set_gcs st (remove_one t (gcs st))) (kremove t (items st))).
    destruct (timer_release_spec st0 (it_tm it) x Hx Hrel Hac) as (P&N&T).
    destruct (timer_release_core st0 (it_tm it)) as (C1&C2&C3&C4&C5&C6&C7&C8).
    set (st1 := timer_release st0 (it_tm it)) in *.
    cbn [st0 set_items set_gcs conns items gcs threads cblog sent seen next_call panicked next_tm timers] in *.
    assert (Hback : forall tm' z, zlookup tm' (timers st1) = Some z ->
              (tm' = it_tm it /\ z = released_timer x) \/ (tm' <> it_tm it /\ zlookup tm' (timers st) = Some z)).
    { intros tm' z Hz. rewrite T in Hz. apply (upd_lookup _ _ _) in Hz. exact Hz. }
    assert (Hfwd : forall tm' z0, zlookup tm' (timers st) = Some z0 -> tm' <> it_tm it -> zlookup tm' (timers st1) = Some z0).
    { intros tm' z0 Hz Hne. rewrite T, zl_insert. apply Z.eqb_neq in Hne. rewrite Hne. exact Hz. }
    assert (Hself : zlookup (it_tm it) (timers st1) = Some (released_timer x)).
    { rewrite T, zl_insert, Z.eqb_refl. reflexivity. }
    assert (Hitems : forall t' it', In (t', it') (items st1) -> In (t', it') (items st) /\ t' <> t).
    { intros t' it' Hc. rewrite C2 in Hc. apply (in_remove key_eqb key_eqb_ok) in Hc. exact Hc. }
    assert (Htmne : forall t' it', In (t', it') (items st) -> t' <> t -> it_tm it' <> it_tm it).
    { intros t' it' Hc Hne Heq. destruct (t_item _ HT _ _ Hc) as (y&Hy&Hky&_). rewrite Heq, Hx in Hy. inversion Hy. subst y. congruence. }
    constructor; rewrite ?C1, ?C4, ?C7, ?N.
    + intros t' it' Hc. destruct (Hitems _ _ Hc) as [Hc1 Hne]. destruct (t_item _ HT _ _ Hc1) as (y&Hy&Hky&Hr).
      exists y. split; [apply Hfwd; [exact Hy|eapply Htmne; eassumption]|split; assumption].
    + intros tm1 tm2 x1 x2 H1 H2 Heq.
      assert (K : forall tm' z, zlookup tm' (timers st1) = Some z -> exists z0, zlookup tm' (timers st) = Some z0 /\ tm_key z0 = tm_key z).
      { intros tm' z Hz. destruct (Hback _ _ Hz) as [[-> ->]|[_ Hz']]; [exists x|exists z]; split; try assumption; reflexivity. }
      destruct (K _ _ H1) as (z1&G1&K1). destruct (K _ _ H2) as (z2&G2&K2). eapply (t_uniq _ HT); [exact G1|exact G2|congruence].
    + intros tm' z Hz. destruct (Hback _ _ Hz) as [[-> ->]|[_ Hz']]; [apply (t_alloc _ HT _ _ Hx)|apply (t_alloc _ HT _ _ Hz')].
    + intros th' code' j k f Hin' Hj Hadm tm' z Hz. destruct (Hback _ _ Hz) as [[-> ->]|[_ Hz']].
      * apply (t_adm _ HT th' code' j k f Hin' Hj Hadm _ x Hx).
      * apply (t_adm _ HT th' code' j k f Hin' Hj Hadm tm' z Hz').
    + intros tm' z Hz. destruct (Hback _ _ Hz) as [[-> ->]|[Hne Hz']]; [|apply (t_phase _ HT _ _ Hz')].
      unfold phase_ok. cbn. rewrite Har. split; [intro; discriminate|]. split; [intro; split; reflexivity|].
      split; [intro; reflexivity|]. intro; discriminate.
    + intros th' code' Hin'. pose proof (t_code _ HT _ _ Hin') as Hc. destruct code' as [|j r]; [exact I|]. cbn [tcode_ok] in *.
      destruct Hc as [Hr Hj]. split; [exact Hr|]. destruct j; try exact I.
      * destruct s; [exact I|]. destruct Hj as (tm'&z0&He&G&Hkz&A1&A2&A3). destruct (Z.eq_dec tm' (it_tm it)) as [E|E].
        -- subst tm'. rewrite Hx in G. inversion G. subst z0. exists (it_tm it), (released_timer x). repeat split; assumption.
        -- exists tm', z0. repeat split; try assumption. apply Hfwd; assumption.
      * destruct Hj as (He&Hr0&z0&G&A1&A2&A3). split; [exact He|]. split; [exact Hr0|]. exists z0.
        assert (tm <> it_tm it) by (intro; subst; congruence). repeat split; try assumption. apply Hfwd; assumption.
    + intros th' code' j t' Hin' Hj Ht'. destruct (t_sk _ HT _ _ _ _ Hin' Hj Ht') as (tm'&z&Hz&Hkz&Hs).
      destruct (Z.eq_dec tm' (it_tm it)) as [E|E].
      * subst tm'. rewrite Hx in Hz. inversion Hz. subst z. exists (it_tm it), (released_timer x). repeat split; assumption.
      * exists tm', z. repeat split; try assumption. apply Hfwd; assumption.
    + intros t' it' Hc Htomb'. destruct (Hitems _ _ Hc) as [Hc1 Hne]. destruct (t_tomb _ HT _ _ Hc1 Htomb') as [Hg (y&Hy&Hya)].
      rewrite C3. split; [apply in_remove_one_other; assumption|]. exists y. split; [apply Hfwd; [exact Hy|eapply Htmne; eassumption]|exact Hya].
    + intros th' code' k f Hin' Hj. eapply (t_ncget _ HT th' code' k f); eassumption.
    + intros t' it' Hc Hnt. destruct (Hitems _ _ Hc) as [Hc1 Hne]. destruct (t_oblig _ HT _ _ Hc1 Hnt) as (y&Hy&Hob).
      exists y. split; [apply Hfwd; [exact Hy|eapply Htmne; eassumption]|exact Hob].
    + rewrite P. apply (t_nopanic _ HT).
  - (* nothing at t: only the GC list shrinks *)
    constructor; cbn [set_gcs conns items gcs threads seen timers next_tm panicked]; try apply HT.
    intros t' it' Hc Htomb'. destruct (t_tomb _ HT _ _ Hc Htomb') as [Hg Hx]. split; [|exact Hx].
    apply in_remove_one_other; [|exact Hg]. intro Heq. subst t'.
    apply (in_lookup key_eqb key_eqb_ok _ _ _ (inv_items_nd _ HI)) in Hc. congruence.
Qed.

(* ---------------------------------------------------------------- all steps *)

Lemma step_tinv : forall cf st l st', Inv st -> TInv st -> LInv st -> fresh_label st l = true -> step cf st l = Some st' -> TInv st'.
Proof.
  intros cf st l st' HI HT HL Hfresh H. destruct l as [k f e|th room|tm|t|k|k|k].
  - (* LArrive *)
    unfold step in H. rewrite (t_nopanic _ HT) in H. cbn [Z.eqb negb] in H.
    destruct (lookup tid_eqb (TR k) (threads st)) eqn:El; [discriminate|].
    destruct (relayRoute (f_mt f) (cf_cancel cf) =? 1) eqn:Er; [|inversion H; subst; exact HT].
    apply Z.eqb_eq in Er.
    destruct (f_mt f =? c_messageTypeCallReq) eqn:Emt.
    + inversion H. subst st'. clear H.
      cbn [fresh_label] in Hfresh. rewrite Emt in Hfresh. cbn [andb] in Hfresh. apply negb_true_iff in Hfresh.
      assert (Hnotseen : ~ In (k, f_id f) (seen st)).
      { intro Hin. assert (Hex : existsb (fun p => (fst p =? k) && (snd p =? f_id f)) (seen st) = true).
        { apply existsb_exists. exists (k, f_id f). split; [exact Hin|]. cbn. rewrite !Z.eqb_refl. reflexivity. }
        congruence. }
      apply TInv_new_reader; try assumption.
      * apply incl_tl. apply incl_refl.
      * intros j [<-|[]]. repeat split; reflexivity.
      * intros j k0 f0 [<-|[]] Ha tm x Hx Hk. inversion Ha. subst k0 f0.
        destruct (t_alloc _ HT _ _ Hx) as [_ [[_ H1]|[H1 _]]]; rewrite Hk in H1; cbn in H1; [contradiction|discriminate].
      * intros k0 f0 [Hc|[]]. discriminate.
    + inversion H. subst st'. clear H.
      assert (Hst : set_thread st (TR k) [INcGet k f] = set_thread (set_seen st (seen st)) (TR k) [INcGet k f]) by (destruct st; reflexivity).
      rewrite Hst. apply TInv_new_reader; try assumption.
      * apply incl_refl.
      * intros j [<-|[]]. repeat split; reflexivity.
      * intros j k0 f0 [<-|[]] Ha. discriminate.
      * intros k0 f0 [Hc|[]]. inversion Hc. subst. eapply route_ftype. exact Er.
  - (* LStep *)
    unfold step in H. rewrite (t_nopanic _ HT) in H. cbn [Z.eqb negb] in H.
    destruct (lookup tid_eqb th (threads st)) as [[|i rest]|] eqn:El; try discriminate.
    destruct (exec cf st i room) as [st1 pushed] eqn:E. inversion H. subst st'. clear H.
    destruct i; try (eapply TInv_step_pure; [exact HI|exact HT|exact El|reflexivity|exact E]).
    + eapply TInv_step_IAddDest; eassumption.
    + eapply TInv_step_IAddOrig; eassumption.
    + eapply TInv_step_INcGet; eassumption.
    + eapply TInv_step_IRcvGet; eassumption.
    + eapply TInv_step_IFailGet; eassumption.
    + eapply TInv_step_IEntomb; eassumption.
    + eapply TInv_step_IDelete; eassumption.
    + eapply TInv_step_ITimerRun; eassumption.
  - (* LFire *)
    unfold step in H. rewrite (t_nopanic _ HT) in H. cbn [Z.eqb negb] in H.
    destruct (zlookup tm (timers st)) as [x|] eqn:Ex; [|discriminate].
    destruct (tm_armed x) eqn:Ea; [|discriminate].
    destruct (lookup tid_eqb (TT tm) (threads st)) eqn:Et; [discriminate|]. cbn [andb] in H. inversion H. subst st'.
    apply (TInv_fire st tm x HI HT Ex Ea Et).
  - eapply TInv_gc; eassumption.
  - unfold step in H. rewrite (t_nopanic _ HT) in H. cbn [Z.eqb negb] in H.
    destruct (c_state (get_conn st k) =? c_connectionActive); [|discriminate]. inversion H. subst.
    apply TInv_put_conn_state. exact HT.
  - unfold step in H. rewrite (t_nopanic _ HT) in H. cbn [Z.eqb negb] in H. inversion H. subst.
    apply TInv_put_conn_state. exact HT.
  - unfold step in H. rewrite (t_nopanic _ HT) in H. cbn [Z.eqb negb] in H.
    match type of H with (if ?b then _ else _) = _ => destruct b end; [|discriminate]. inversion H. subst.
    apply TInv_put_conn_state. exact HT.
Qed.

Lemma TInv_init : TInv init.
Proof.
  constructor; cbn; try (intros; contradiction); try (intros; discriminate). reflexivity.
Qed.

(* ---------------------------------------------------------------- LInv is preserved (by every step, fresh id or not) *)

Definition kmono (a b : list (Z * timer)) : Prop :=
  forall tm x, zlookup tm a = Some x -> exists x', zlookup tm b = Some x' /\ tm_key x' = tm_key x.

Lemma kmono_refl : forall a, kmono a a.
Proof. intros a tm x H. exists x. split; [exact H|reflexivity]. Qed.

Lemma kmono_same : forall a tm x0 y, zlookup tm a = Some x0 -> tm_key y = tm_key x0 -> kmono a (zinsert tm y a).
Proof.
  intros a tm x0 y H Hk tm' x Hx. rewrite zl_insert. destruct (tm' =? tm) eqn:E.
  - apply Z.eqb_eq in E. subst. rewrite H in Hx. inversion Hx. subst. exists y. split; [reflexivity|exact Hk].
  - exists x. split; [exact Hx|reflexivity].
Qed.

Lemma kmono_new : forall a tm y, zlookup tm a = None -> kmono a (zinsert tm y a).
Proof.
  intros a tm y H tm' x Hx. rewrite zl_insert. destruct (tm' =? tm) eqn:E.
  - apply Z.eqb_eq in E. subst. congruence.
  - exists x. split; [exact Hx|reflexivity].
Qed.

Lemma timer_stop_kmono : forall st tm st' b, timer_stop st tm = (st', b) -> kmono (timers st) (timers st').
Proof.
  intros st tm st' b H. unfold timer_stop in H. destruct (zlookup tm (timers st)) as [x|] eqn:E.
  - destruct (tm_released x); [inversion H; apply kmono_refl|].
    destruct (tm_stopped x); [inversion H; apply kmono_refl|].
    destruct (tm_armed x); inversion H; [|apply kmono_refl]. cbn [set_timers timers]. eapply kmono_same; [exact E|reflexivity].
  - inversion H. apply kmono_refl.
Qed.

Lemma timer_release_kmono : forall st tm, kmono (timers st) (timers (timer_release st tm)).
Proof.
  intros st tm. unfold timer_release. destruct (zlookup tm (timers st)) as [x|] eqn:E; [|apply kmono_refl].
  destruct (tm_released x); [apply kmono_refl|]. destruct (tm_active x); [apply kmono_refl|].
  cbn [set_timers timers]. eapply kmono_same; [exact E|reflexivity].
Qed.

Lemma items_get_kmono : forall st t stop st' g, items_get st t stop = (st', g) -> kmono (timers st) (timers st').
Proof.
  intros st t stop st' g H. unfold items_get in H. destruct (klookup t (items st)) as [it|]; [|inversion H; apply kmono_refl].
  destruct stop; [|inversion H; apply kmono_refl].
  destruct (timer_stop st (it_tm it)) as [s b] eqn:E. inversion H. subst. eapply timer_stop_kmono. exact E.
Qed.

Lemma items_delete_kmono : forall st t st' g, items_delete st t = (st', g) -> kmono (timers st) (timers st').
Proof.
  intros st t st' g H. unfold items_delete in H. destruct (klookup t (items st)) as [it|]; [|inversion H; apply kmono_refl].
  inversion H. apply (timer_release_kmono (set_items st (kremove t (items st))) (it_tm it)).
Qed.

Lemma exec_kmono : forall cf st i room st1 pushed,
  (forall tm x, zlookup tm (timers st) = Some x -> tm < next_tm st) ->
  exec cf st i room = (st1, pushed) -> kmono (timers st) (timers st1).
Proof.
  intros cf st i room st1 pushed Hal H.
  assert (Hnew : zlookup (next_tm st) (timers st) = None).
  { destruct (zlookup (next_tm st) (timers st)) as [x|] eqn:E; [|reflexivity]. specialize (Hal _ _ E). lia. }
  destruct (is_pure i) eqn:Ep.
  { destruct (exec_pure_frame _ _ _ _ _ _ Ep H) as (F1&_). rewrite F1. apply kmono_refl. }
  destruct i; try discriminate; cbn [exec] in H.
  - unfold timer_new in H. cbn [fst snd] in H. inversion H. cbn. apply kmono_new. exact Hnew.
  - unfold timer_new in H. cbn [fst snd] in H. inversion H. cbn. apply kmono_new. exact Hnew.
  - destruct (frameTypeFor (f_mt f)); [|inversion H; apply kmono_refl].
    match type of H with context [items_get ?a ?b ?cc] => destruct (items_get a b cc) as [st' g] eqn:E end.
    inversion H. subst. eapply items_get_kmono. exact E.
  - match type of H with context [items_get ?a ?b ?cc] => destruct (items_get a b cc) as [st' g] eqn:E end.
    inversion H. subst. eapply items_get_kmono. exact E.
  - destruct (items_get st t true) as [st' g] eqn:E. apply items_get_kmono in E.
    destruct g as [[it [|]]|]; inversion H; subst; exact E.
  - destruct (items_entomb cf st t) as [st' g] eqn:E.
    assert (K : kmono (timers st) (timers st')).
    { unfold items_entomb in E. destruct (cf_maxtombs cf <? tomb_count st (key_conn t) (key_dir t)); [eapply items_delete_kmono; exact E|].
      destruct (klookup t (items st)) as [it|]; [|inversion E; apply kmono_refl].
      destruct (it_tomb it); inversion E; apply kmono_refl. }
    destruct g as [[it [|]]|]; inversion H; subst; exact K.
  - destruct (items_delete_call st t lk) as [st' g] eqn:E.
    assert (K : kmono (timers st) (timers st')).
    { destruct (items_delete_call_cases st t lk) as [Ec|[Ec _]]; rewrite Ec in E; [eapply items_delete_kmono; exact E|inversion E; apply kmono_refl]. }
    destruct g as [[it [|]]|]; inversion H; subst; exact K.
  - destruct (zlookup tm (timers st)) as [x|] eqn:E; [|inversion H; apply kmono_refl].
    destruct (tm_released x); inversion H; [apply kmono_refl|]. cbn [set_timers timers]. eapply kmono_same; [exact E|reflexivity].
Qed.

Lemma after_sent_refs : forall r j t lk, In j (after_sent r) -> In (t, lk) (refs j) ->
  (t, lk) = (r_own r, (r_d r, f_id (r_f r))).
Proof.
  intros r j t lk Hj Ht. unfold after_sent in Hj. apply in_app_or in Hj. destruct Hj as [Hj|Hj].
  - destruct (fin_of (r_f r)); [|contradiction]. destruct Hj as [<-|[]]. destruct Ht as [Ht|[]]. symmetry. exact Ht.
  - destruct (0 <? r_more r); [|contradiction]. destruct Hj as [<-|[<-|[]]]; [contradiction|].
    destruct Ht as [Ht|[]]. symmetry. exact Ht.
Qed.

(* where the references of a pushed instruction come from *)
Lemma pushed_refs : forall cf st i room st1 pushed j t lk, exec cf st i room = (st1, pushed) ->
  In j pushed -> In (t, lk) (refs j) ->
  In (t, lk) (refs i) \/
  (exists it, klookup t (items st) = Some it /\ lk = (it_dest it, it_remap it) /\ items st1 = items st) \/
  (exists k f e c d did, i = IAddOrig k f e c d did /\ t = (k, 0, f_id f) /\ lk = (d, did)).
Proof.
  intros cf st i room st1 pushed j t lk H Hj Ht. destruct i; cbn [exec] in H.
  - destruct (e_start e =? 0); inversion H; subst; clear H; in_cases Hj; contradiction.
  - destruct (c_state (get_conn st k) =? c_connectionActive); inversion H; subst; clear H; in_cases Hj; contradiction.
  - destruct (klookup (k, 0, f_id f) (items st)); [|destruct (e_dest e =? -1); [|destruct (e_dest e <? 0)]];
      inversion H; subst; clear H; in_cases Hj; contradiction.
  - destruct (c_state (get_conn st d) =? c_connectionActive); inversion H; subst; clear H; in_cases Hj; contradiction.
  - unfold timer_new in H. cbn [fst snd] in H. inversion H; subst; clear H. in_cases Hj; contradiction.
  - unfold timer_new in H. cbn [fst snd] in H. inversion H; subst; clear H. in_cases Hj; try contradiction.
    right. right. destruct Ht as [Ht|[]]. inversion Ht. exists k, f, e, c, d, did. repeat split.
  - inversion H; subst. contradiction.
  - inversion H; subst. destruct Hj as [<-|[]]. contradiction.
  - match type of H with (if ?b then _ else _) = _ => destruct b end; inversion H; subst; contradiction.
  - destruct ((c_state (get_conn st k) =? c_connectionClosed) || negb room); inversion H; subst; contradiction.
  - destruct (c_state (get_conn st k) =? c_connectionActive); inversion H; subst; contradiction.
  - (* INcGet *)
    destruct (frameTypeFor (f_mt f)) as [ft|]; [|inversion H; subst; contradiction].
    match type of H with context [items_get ?a ?b ?cc] => destruct (items_get a b cc) as [st' g] eqn:E end.
    inversion H; subst; clear H. destruct Hj as [<-|[]]. apply items_get_spec in E. destruct E as [(_&Hi&_) Em].
    destruct g as [[it s]|]; [|contradiction]. destruct Ht as [Ht|[]]. inversion Ht. subst.
    right. left. destruct (klookup (k, (if ft =? c_responseFrame then 1 else 0), f_id f) (items st)) as [it0|]; [|discriminate].
    destruct Em as [b Hg]. inversion Hg. subst. eexists. split; [reflexivity|split; [reflexivity|exact Hi]].
  - (* INcChk *)
    destruct g as [[it s]|]; [|inversion H; subst; contradiction].
    destruct (it_tomb it || (fin_of f && negb s)); inversion H; subst; clear H; [contradiction|].
    left. in_cases Hj; try contradiction. destruct Ht as [Ht|[]]. inversion Ht. subst. cbn. left. reflexivity.
  - (* IRcvGet *)
    match type of H with context [items_get ?a ?b ?cc] => destruct (items_get a b cc) as [st' g] eqn:E end.
    inversion H; subst; clear H. destruct Hj as [<-|[]]. apply items_get_spec in E. destruct E as [(_&Hi&_) Em].
    destruct Ht as [Ht|Ht]; [left; left; exact Ht|].
    destruct g as [[it s]|]; [|contradiction]. destruct Ht as [Ht|[]]. inversion Ht. subst.
    right. left. match type of Em with match klookup ?kk _ with _ => _ end => destruct (klookup kk (items st)) as [it0|] end; [|discriminate].
    destruct Em as [b Hg]. inversion Hg. subst. eexists. split; [reflexivity|split; [reflexivity|exact Hi]].
  - (* IRcvChk *)
    left. destruct g as [[it s]|].
    + destruct (it_tomb it || (fin_of (r_f r) && negb s)); inversion H; subst; clear H.
      * rewrite (after_sent_refs _ _ _ _ Hj Ht). left. reflexivity.
      * apply in_app_or in Hj. destruct Hj as [Hj|[<-|[]]].
        -- in_cases Hj; contradiction.
        -- destruct Ht as [Ht|[Ht|[]]]; [left; exact Ht|right; left; exact Ht].
    + inversion H; subst; clear H. unfold after_unsent in Hj. destruct Hj as [<-|[]]. contradiction.
  - (* IRcvEnq *)
    left. destruct room; inversion H; subst; clear H.
    + apply in_app_or in Hj. destruct Hj as [Hj|Hj].
      * destruct (fin_of (r_f r)); [|contradiction]. destruct Hj as [<-|[]]. destruct Ht as [Ht|[]]. right. left. exact Ht.
      * rewrite (after_sent_refs _ _ _ _ Hj Ht). left. reflexivity.
    + unfold after_unsent in Hj. in_cases Hj; contradiction.
  - destruct (items_get st t0 true) as [st' g]. destruct g as [[it [|]]|]; inversion H; subst; try contradiction.
    destruct Hj as [<-|[]]. contradiction.
  - destruct (items_entomb cf st t0) as [st' g]. destruct g as [[it [|]]|]; inversion H; subst; try contradiction.
    apply in_app_or in Hj. destruct Hj as [Hj|[<-|[]]]; [|contradiction].
    destruct (match s with FromFail _ => it_orig it | FromTimeout o => o end); [|contradiction].
    unfold orig_tail in Hj. destruct s; in_cases Hj; contradiction.
  - destruct (items_delete_call st t0 lk0) as [st' g]. destruct g as [[it [|]]|]; inversion H; subst; try contradiction.
    in_cases Hj; contradiction.
  - destruct (zlookup tm (timers st)) as [x|]; [|inversion H; subst; contradiction].
    destruct (tm_released x); inversion H; subst; try contradiction. destruct Hj as [<-|[]]. contradiction.
Qed.

Lemma ref_ok_exec : forall cf st th i rest room st1 pushed t lk, Inv st -> TInv st ->
  lookup tid_eqb th (threads st) = Some (i :: rest) -> exec cf st i room = (st1, pushed) ->
  ref_ok (timers st) (items st) t lk -> ref_ok (timers st1) (items st1) t lk.
Proof.
  intros cf st th i rest room st1 pushed t lk HI HT Hl E [(tm&x&Hx&Hk) Hid].
  pose proof (lookup_in tid_eqb tid_eqb_ok _ _ _ Hl) as Hin0.
  assert (Hkm : kmono (timers st) (timers st1)).
  { eapply exec_kmono; [|exact E]. intros tm' x' Hx'. apply (t_alloc _ HT _ _ Hx'). }
  split.
  - destruct (Hkm _ _ Hx) as (x'&Hx'&Hk'). exists tm, x'. split; [exact Hx'|congruence].
  - intros it Hit. apply (lookup_in key_eqb key_eqb_ok) in Hit.
    destruct (exec_items_fields _ _ _ _ _ _ _ _ E Hit) as [(it0&Hin&_&Hd&Hr&_)|[(k&f&e&c&d&Hi&Ht&_)|(k&f&e&c&d&did&Hi&Ht&_)]].
    + rewrite Hd, Hr. apply Hid. apply (in_lookup key_eqb key_eqb_ok _ _ _ (inv_items_nd _ HI)). exact Hin.
    + exfalso. destruct (t_alloc _ HT _ _ Hx) as [_ [[H0 _]|[_ Hlt]]]; rewrite Hk, Ht in *; cbn in *; [discriminate|].
      rewrite get_conn_getc in Hlt. lia.
    + exfalso. subst i. eapply (t_adm _ HT th _ _ k f Hin0 (or_introl eq_refl) eq_refl tm x Hx). congruence.
Qed.

Lemma LInv_step_lstep : forall cf st th i rest room st1 pushed, Inv st -> TInv st -> LInv st ->
  lookup tid_eqb th (threads st) = Some (i :: rest) -> exec cf st i room = (st1, pushed) ->
  LInv (set_thread st1 th (pushed ++ rest)).
Proof.
  intros cf st th i rest room st1 pushed HI HT HL Hl E.
  pose proof (lookup_in tid_eqb tid_eqb_ok _ _ _ Hl) as Hin0.
  assert (Hth : threads st1 = threads st).
  { destruct (inv_code _ HI _ _ Hin0) as [Hf _]. inversion Hf as [|? ? Hiok _]. subst.
    destruct (exec_eff _ _ th _ _ _ _ HI Hiok E) as (A&_). exact A. }
  assert (Hold : forall t lk, ref_ok (timers st) (items st) t lk -> ref_ok (timers st1) (items st1) t lk).
  { intros t lk. eapply ref_ok_exec; eassumption. }
  intros th' code' j t lk Hin Hj Ht. cbn [set_thread set_threads timers items].
  fold (threads (set_thread st1 th (pushed ++ rest))) in Hin.
  apply set_thread_in in Hin. destruct Hin as [[-> ->]|[Hne Hin]].
  - apply in_app_or in Hj. destruct Hj as [Hj|Hj].
    + destruct (pushed_refs _ _ _ _ _ _ _ _ _ E Hj Ht) as [Hr|[(it&Hit&Hlk&Hits)|(k&f&e&c&d&did&Hi&Htt&Hlk)]].
      * apply Hold. eapply (HL th _ i); [exact Hin0|left; reflexivity|exact Hr].
      * apply Hold. split.
        -- destruct (t_item _ HT _ _ (lookup_in key_eqb key_eqb_ok _ _ _ Hit)) as (x&Hx&Hk&_). exists (it_tm it), x. split; assumption.
        -- intros it' Hit'. rewrite Hit in Hit'. inversion Hit'. subst. split; reflexivity.
      * subst i t lk. cbn [exec] in E. unfold timer_new in E. cbn [fst snd] in E. inversion E. subst st1 pushed. split.
        -- exists (next_tm st). eexists. cbn [set_items set_next_tm set_timers timers]. split; [rewrite zl_insert, Z.eqb_refl; reflexivity|reflexivity].
        -- intros it Hit. cbn [set_items items] in Hit. rewrite (lookup_insert_eq key_eqb key_eqb_ok) in Hit. inversion Hit. split; reflexivity.
    + apply Hold. eapply (HL th _ j); [exact Hin0|right; exact Hj|exact Ht].
  - apply Hold. rewrite Hth in Hin. eapply HL; eassumption.
Qed.

Lemma LInv_ext : forall st st', LInv st -> kmono (timers st) (timers st') ->
  (forall t it, klookup t (items st') = Some it -> klookup t (items st) = Some it) ->
  (forall th code, In (th, code) (threads st') -> In (th, code) (threads st) \/ (forall j, In j code -> refs j = [])) ->
  LInv st'.
Proof.
  intros st st' HL Hk Hi Hth th code j t lk Hin Hj Ht. destruct (Hth _ _ Hin) as [Hin0|Hno].
  - destruct (HL _ _ _ _ _ Hin0 Hj Ht) as [(tm&x&Hx&Hkx) Hid]. split.
    + destruct (Hk _ _ Hx) as (x'&Hx'&Hk'). exists tm, x'. split; [exact Hx'|congruence].
    + intros it Hit. apply Hid. apply Hi. exact Hit.
  - rewrite (Hno j Hj) in Ht. contradiction.
Qed.

Lemma LInv_step : forall cf st l st', Inv st -> TInv st -> LInv st -> step cf st l = Some st' -> LInv st'.
Proof.
  intros cf st l st' HI HT HL H. unfold step in H. rewrite (t_nopanic _ HT) in H. cbn [Z.eqb negb] in H.
  destruct l as [k f e|th room|tm|t|k|k|k].
  - destruct (lookup tid_eqb (TR k) (threads st)) eqn:El; [discriminate|].
    destruct (relayRoute (f_mt f) (cf_cancel cf) =? 1); [|inversion H; subst; exact HL].
    destruct (f_mt f =? c_messageTypeCallReq); inversion H; subst; clear H;
      (eapply LInv_ext; [exact HL|apply kmono_refl|intros t it Hit; exact Hit|]);
      intros th code Hin; apply set_thread_in in Hin; destruct Hin as [[-> ->]|[_ Hin]];
      try (left; exact Hin); right; intros j [<-|[]]; reflexivity.
  - destruct (lookup tid_eqb th (threads st)) as [[|i rest]|] eqn:El; try discriminate.
    destruct (exec cf st i room) as [st1 pushed] eqn:E. inversion H. subst st'.
    eapply LInv_step_lstep; eassumption.
  - destruct (zlookup tm (timers st)) as [x|] eqn:Ex; [|discriminate].
    destruct (tm_armed x && match lookup tid_eqb (TT tm) (threads st) with None => true | Some _ => false end); [|discriminate].
    inversion H. subst. clear H. eapply LInv_ext; [exact HL| | |].
    + cbn. eapply kmono_same; [exact Ex|reflexivity].
    + intros t it Hit. exact Hit.
    + intros th code Hin. apply set_thread_in in Hin. destruct Hin as [[-> ->]|[_ Hin]]; [right; intros j [<-|[]]; reflexivity|left; exact Hin].
  - destruct (mem_key t (gcs st)); [|discriminate]. inversion H. subst. clear H.
    destruct (items_delete_tomb_spec (set_gcs st (remove_one t (gcs st))) t) as (_&_&A&_&_&_&_&B).
    eapply LInv_ext; [exact HL| | |].
    + unfold items_delete_tomb. cbn [set_gcs items]. destruct (klookup t (items st)) as [it|]; [|apply kmono_refl].
      destruct (it_tomb it); [|apply kmono_refl].
      apply (timer_release_kmono (set_items (set_gcs st (remove_one t (gcs st))) (kremove t (items st))) (it_tm it)).
    + intros t0 it0 Hit. cbn [set_gcs items] in B. destruct (klookup t (items st)) as [it|] eqn:El.
      * destruct (it_tomb it); [|rewrite B in Hit; exact Hit]. rewrite B in Hit.
        destruct (eqb_dec key_eqb key_eqb_ok t0 t) as [->|Hn]; [rewrite (lookup_remove_eq key_eqb key_eqb_ok) in Hit; discriminate|].
        rewrite (lookup_remove_neq key_eqb key_eqb_ok) in Hit by exact Hn. exact Hit.
      * rewrite B in Hit. exact Hit.
    + intros th code Hin. rewrite A in Hin. left. exact Hin.
  - destruct (c_state (get_conn st k) =? c_connectionActive); [|discriminate]. inversion H. subst. exact HL.
  - inversion H. subst. exact HL.
  - match type of H with (if ?b then _ else _) = _ => destruct b end; [|discriminate]. inversion H. subst. exact HL.
Qed.

Lemma LInv_init : LInv init.
Proof. intros th code j t lk []. Qed.

Lemma run_fresh_three : forall cf ls st0 st, Inv st0 -> TInv st0 -> LInv st0 -> run_fresh cf st0 ls = Some st ->
  Inv st /\ TInv st /\ LInv st.
Proof.
  intros cf ls. induction ls as [|l r IH]; intros st0 st HI HT HL H; cbn in H.
  - inversion H. subst. split; [assumption|split; assumption].
  - destruct (fresh_label st0 l) eqn:Ef; [|discriminate]. destruct (step cf st0 l) as [st1|] eqn:Es; [|discriminate].
    eapply IH; [eapply step_inv; eassumption|eapply step_tinv; eassumption|eapply LInv_step; eassumption|exact H].
Qed.

Theorem reach_three : forall cf ls st, run_fresh cf init ls = Some st -> Inv st /\ TInv st /\ LInv st.
Proof. intros cf ls st H. eapply run_fresh_three; [apply Inv_init|apply TInv_init|apply LInv_init|exact H]. Qed.

Theorem reach_both : forall cf ls st, run_fresh cf init ls = Some st -> Inv st /\ TInv st.
Proof. intros cf ls st H. destruct (reach_three cf ls st H) as (A&B&_). split; assumption. Qed.
