(* Property C17 -- several calls per attempt (Model/C17Calls.v).

   1. (Proofs/C17CallsTieP.v -- the only file that depends on the regenerated definitions, so that
      this one still builds on a tree that breaks the tie.)  The mirrors of
      RequestState.PrevSelectedPeers / RetryCount, Peer.BeginCall, SubChannel.BeginCall,
      Channel.BeginCall and of the RequestState entry of the retrying clients' call options are
      EQUAL to the definitions regenerated from the source (Gen/GenC17Calls.v).
   2. Every sub-channel call made with the run's RequestState -- in whatever attempt, after
      whatever calls -- is handed the request's selected set, which is exactly what the earlier
      calls of the run recorded; the peer it goes to is untried whenever the list has an
      untried member.
   3. The variant that hands the set over on a retry only is refuted. *)
From Coq Require Import ZArith List Bool Lia Permutation.
From Verif Require Import Base.Wrap Base.Wire Base.GoErr Base.C17CallSem Gen.GenConsts Gen.GenRetry
  Spec.PeerSelect Model.Retry Model.RetryRuns Model.PeerHeap Model.PeerList Model.C17Calls
  Proofs.PeerListP Proofs.RetryAvoidP.
Import ListNotations.
Local Open Scope Z_scope.

(* ------------------------------------------------------------------ 2. what a call does *)

Lemma peer_begin_of_spec p co : peer_begin_of p co = ((m_record p co, p), 7).
Proof. reflexivity. Qed.

Lemma obj_rs_roundtrip ob : obj_of_rs (rs_of_obj ob) = ob.
Proof. destruct ob; reflexivity. Qed.

(* a call that carries the RequestState and reaches Peer.BeginCall of [p] records p: the
   RequestState afterwards is LMark's *)
Lemma record_is_mark ob p :
  obj_of_rs (rs_after 0 (rs_of_obj ob) (m_record p (co_of 0 (rs_of_obj ob)))) = obj_mark ob p.
Proof. destruct ob as [a sel]. reflexivity. Qed.

Lemma record_no_rs opts ob p : (opts =? 0) = false ->
  obj_of_rs (rs_after opts (rs_of_obj ob) (m_record p (co_of opts (rs_of_obj ob)))) = ob.
Proof. intros H. unfold rs_after. rewrite H. apply obj_rs_roundtrip. Qed.

(* SubChannel.BeginCall on list l *)
Lemma sub_call_model l co :
  sub_call sc_model l co =
  let co1 := match co with None => c17_default_co | Some _ => co end in
  match pl_get l (m_prev_selected (c17_co_rs co1)) 0 with
  | Some (l', SelOk hp, _) => ((l', m_record hp co1, hp), 7)
  | Some (l', SelNoPeers, _) => ((l, co, []), 1)
  | Some (l', SelNoNewPeers, _) => ((l, co, []), 2)
  | None => ((l, co, []), 99)
  end.
Proof.
  unfold sub_call, sc_model, m_sc_begin_call, peers_get_of. cbv zeta.
  destruct (pl_get l _ 0) as [[[l' [hp| |]] n]|]; cbn [negb Z.eqb fst snd]; try reflexivity.
Qed.

Lemma in_peers_keys l p s : wf l -> In (p, s) (peers_of l) -> In p (pl_keys l).
Proof.
  intros (_ & P & _) H. unfold peers_of in H. apply in_map_iff in H as (x & E & Hx).
  eapply Permutation_in; [apply Permutation_sym, P|]. unfold hps. apply in_map_iff. exists x.
  split; [|exact Hx]. unfold hs in E. congruence.
Qed.

(* the selection of a well-formed list: a member, of the strictest non-empty tier *)
Lemma get_avoids_wf l prev l' p n : wf l -> pl_get l prev 0 = Some (l', SelOk p, n) ->
  wf l' /\ pl_keys l' = pl_keys l /\ In p (pl_keys l) /\
  ((exists q, In q (pl_keys l) /\ tier2 prev q = true) -> tier2 prev p = true) /\
  ((exists q, In q (pl_keys l) /\ tier1 prev q = true) -> tier1 prev p = true).
Proof.
  intros Hwf Hg. pose proof (get_min_eligible l prev 0 Hwf) as H. rewrite Hg in H.
  destruct H as ((s & Hin & He & _) & W & K & _).
  split; [exact W|]. split; [exact K|]. split; [eapply in_peers_keys; eassumption|].
  unfold eligible_get in He.
  split; intros [q [Hq Ht]].
  - destruct (existsb (tier1 prev) (pl_keys l)) eqn:E1.
    + unfold tier1 in He. apply andb_true_iff in He as [A _]. exact A.
    + pose proof (existsb_In (tier2 prev) (pl_keys l) q Hq Ht) as E2. rewrite E2 in He. exact He.
  - pose proof (existsb_In (tier1 prev) (pl_keys l) q Hq Ht) as E1. rewrite E1 in He. exact He.
Qed.

Lemma set_nth_list_Forall (Q : plist -> Prop) ls j l : Forall Q ls -> Q l -> Forall Q (set_nth_list ls j l).
Proof.
  intros H Hl. revert j. induction H as [|x r Hx Hr IH]; intros j; destruct j; cbn [set_nth_list]; auto.
Qed.

Lemma set_nth_list_keys ls : forall j l l', nth_error ls j = Some l -> pl_keys l' = pl_keys l ->
  map pl_keys (set_nth_list ls j l') = map pl_keys ls.
Proof.
  induction ls as [|x r IH]; intros j l l' Hn Hk; destruct j; cbn [set_nth_list map nth_error] in *; try discriminate.
  - injection Hn as ->. now rewrite Hk.
  - f_equal. eapply IH; eassumption.
Qed.

Lemma nth_error_Forall_wf ls j (l : plist) : Forall wf ls -> nth_error ls j = Some l -> wf l.
Proof. intros H Hn. rewrite Forall_forall in H. apply H. eapply nth_error_In; eassumption. Qed.

(* One sub-channel call with the RequestState, from any state in which an attempt is running:
   it is enabled; on an empty list nothing is dialled and nothing recorded; otherwise a member
   of the list is dialled and recorded (the run goes through LMark), and it is untried -- with
   respect to the RequestState as it is NOW -- whenever some member is. *)
Lemma sub_call_step s j l ir :
  Forall wf (cs_lists s) -> cs_run s = Some ir -> ctl_can_mark (ir_ctl ir) = true ->
  nth_error (cs_lists s) j = Some l ->
  exists s' p, c_step sc_model s (ACall (CSub j 0)) = Some s' /\
    cs_picks s' = cs_picks s ++ [p] /\
    Forall wf (cs_lists s') /\ map pl_keys (cs_lists s') = map pl_keys (cs_lists s) /\
    ((pl_keys l = [] /\ p = [] /\ cs_run s' = cs_run s /\ cs_marks s' = cs_marks s /\ cs_labels s' = cs_labels s) \/
     (In p (pl_keys l) /\
      cs_run s' = Some (mkIso (obj_mark (ir_obj ir) p) (ir_ctl ir)) /\
      cs_marks s' = cs_marks s ++ [p] /\ cs_labels s' = cs_labels s ++ [LMark 1 p] /\
      ((exists q, In q (pl_keys l) /\ tier2 (ro_sel (ir_obj ir)) q = true) -> tier2 (ro_sel (ir_obj ir)) p = true) /\
      ((exists q, In q (pl_keys l) /\ tier1 (ro_sel (ir_obj ir)) q = true) -> tier1 (ro_sel (ir_obj ir)) p = true))).
Proof.
  intros Hwf Hr Hm Hn.
  pose proof (nth_error_Forall_wf _ _ _ Hwf Hn) as Wl.
  unfold c_step. rewrite Hr, Hm. cbn [negb]. rewrite Hn. rewrite sub_call_model. cbv zeta.
  change (co_of 0 (rs_of_obj (ir_obj ir))) with (Some (Some (rs_of_obj (ir_obj ir)))).
  cbn [c17_co_rs m_prev_selected rs_of_obj c17rs_sel].
  pose proof (get_min_eligible l (ro_sel (ir_obj ir)) 0 Wl) as G.
  destruct (pl_get l (ro_sel (ir_obj ir)) 0) as [[[l' [hp| |]] n]|] eqn:Eg; try contradiction.
  - destruct (get_avoids_wf l _ l' hp n Wl Eg) as (W' & K' & Hin & A2 & A1).
    cbn [Z.eqb]. eexists; exists hp. split; [reflexivity|]. cbn [cs_picks cs_lists cs_run cs_marks cs_labels].
    split; [reflexivity|]. split; [apply set_nth_list_Forall; assumption|].
    split; [eapply set_nth_list_keys; eassumption|].
    right. split; [exact Hin|].
    cbn [andb negb Z.eqb]. rewrite record_is_mark. repeat split; auto.
  - destruct G as [K ->]. cbn [Z.eqb]. eexists; exists []. split; [reflexivity|].
    cbn [cs_picks cs_lists cs_run cs_marks cs_labels andb negb].
    split; [reflexivity|]. split; [apply set_nth_list_Forall; assumption|].
    split; [eapply set_nth_list_keys; [eassumption|reflexivity]|].
    left. split; [exact K|]. split; [reflexivity|]. cbn [Pos.eqb].
    unfold rs_after. cbn [Z.eqb c17_co_rs].
    rewrite obj_rs_roundtrip. destruct ir; auto.
Qed.

(* ------------------------------------------------------------------ reachable states *)

Definition c_inv (keys0 : list (list hostport)) (s : cstate) : Prop :=
  Forall wf (cs_lists s) /\ map pl_keys (cs_lists s) = keys0 /\
  iso_exec None (cs_labels s) = Some (cs_run s) /\
  match cs_run s with
  | None => cs_marks s = []
  | Some ir => ro_sel (ir_obj ir) = fold_left add_selected (cs_marks s) []
  end.

Lemma iso_exec_app s ls l s1 : iso_exec s ls = Some s1 -> iso_exec s (ls ++ [l]) = iso_step s1 l.
Proof.
  revert s. induction ls as [|x r IH]; intros s H; cbn [iso_exec app] in *.
  - injection H as ->. destruct (iso_step s1 l); reflexivity.
  - destruct (iso_step s x); [now apply IH|discriminate].
Qed.

Lemma fold_add_app marks p : fold_left add_selected (marks ++ [p]) [] = add_selected (fold_left add_selected marks []) p.
Proof. now rewrite fold_left_app. Qed.

Lemma run_label_inv keys0 s l s' : c_inv keys0 s -> (forall r hp, l <> LMark r hp) -> run_label l s = Some s' -> c_inv keys0 s'.
Proof.
  intros (W & K & I & M) Hl E. unfold run_label in E.
  destruct (iso_step (cs_run s) l) as [r|] eqn:Es; [|discriminate]. injection E as <-.
  unfold c_inv. cbn [cs_lists cs_labels cs_run cs_marks].
  split; [exact W|]. split; [exact K|]. split; [rewrite (iso_exec_app _ _ _ _ I); exact Es|].
  destruct l as [r0 o k|r0 k|r0 hp|r0 e]; [| | exfalso; eapply Hl; reflexivity|].
  - destruct (cs_run s) as [ir|]; cbn [iso_step] in Es; [discriminate|]. injection Es as <-. cbn. now rewrite M.
  - destruct (cs_run s) as [ir|]; cbn [iso_step] in Es; [|discriminate].
    destruct (ctl_enter _ _); [|discriminate]. injection Es as <-. cbn. exact M.
  - destruct (cs_run s) as [ir|]; cbn [iso_step] in Es; [|discriminate].
    destruct (ctl_exit _ _ _); [|discriminate]. injection Es as <-. cbn. exact M.
Qed.

Lemma direct_call_spec hp co : direct_call hp co = ((m_record hp co, hp), 7).
Proof. reflexivity. Qed.

Lemma c_step_inv keys0 s a s' : c_inv keys0 s -> c_step sc_model s a = Some s' -> c_inv keys0 s'.
Proof.
  intros Hi E. destruct a as [o| |c|e].
  - apply (run_label_inv keys0 s (LStart 1 o 1) s' Hi); [intros; discriminate|exact E].
  - apply (run_label_inv keys0 s (LEnter 1 1) s' Hi); [intros; discriminate|exact E].
  - destruct Hi as (W & K & I & M). pose proof E as E0. cbn [c_step] in E.
    destruct (cs_run s) as [ir|] eqn:Hr; [|discriminate].
    destruct (ctl_can_mark (ir_ctl ir)) eqn:Hm; cbn [negb] in E; [|discriminate].
    destruct c as [hp opts|j opts].
    + rewrite direct_call_spec in E. injection E as <-.
      unfold c_inv. cbn [cs_lists cs_labels cs_run cs_marks].
      split; [exact W|]. split; [exact K|].
      destruct (opts =? 0) eqn:Eo.
      * apply Z.eqb_eq in Eo. subst opts. rewrite record_is_mark.
        split; [rewrite (iso_exec_app _ _ _ _ I); cbn [iso_step]; rewrite Hm; reflexivity|].
        cbn [ir_obj obj_mark ro_sel]. now rewrite fold_add_app, M.
      * rewrite (record_no_rs opts _ _ Eo). split; [destruct ir; exact I|]. destruct ir; exact M.
    + destruct (nth_error (cs_lists s) j) as [l|] eqn:Hn; [|discriminate].
      destruct (opts =? 0) eqn:Eo.
      * apply Z.eqb_eq in Eo. subst opts.
        destruct (sub_call_step s j l ir W Hr Hm Hn) as (s1 & p & E1 & _ & W1 & K1 & Hc).
        rewrite E1 in E0. injection E0 as <-. clear E.
        unfold c_inv. split; [exact W1|]. split; [now rewrite K1|].
        destruct Hc as [(_ & _ & R & Mk & L)|(_ & R & Mk & L & _)].
        -- rewrite R, Mk, L, Hr. split; [exact I|exact M].
        -- rewrite R, Mk, L. split; [rewrite (iso_exec_app _ _ _ _ I); cbn [iso_step]; rewrite Hm; reflexivity|].
           cbn [ir_obj obj_mark ro_sel]. now rewrite fold_add_app, M.
      * (* no RequestState: the run does not change *)
        rewrite sub_call_model in E. cbv zeta in E.
        pose proof (nth_error_Forall_wf _ _ _ W Hn) as Wl.
        assert (Hco : co_of opts (rs_of_obj (ir_obj ir)) = None \/ co_of opts (rs_of_obj (ir_obj ir)) = Some None).
        { unfold co_of. rewrite Eo. destruct (opts =? 1); auto. }
        pose proof (get_min_eligible l (@nil (list Z)) 0 Wl) as G.
        assert (Step : forall l' co' p, wf l' -> pl_keys l' = pl_keys l ->
                  c_inv keys0 (mkCS (Some (mkIso (obj_of_rs (rs_after opts (rs_of_obj (ir_obj ir)) co')) (ir_ctl ir)))
                                    (set_nth_list (cs_lists s) j l') (cs_picks s ++ [p]) (cs_marks s) (cs_labels s))).
        { intros l' co' p W' K'. unfold c_inv. cbn [cs_lists cs_labels cs_run cs_marks].
          split; [apply set_nth_list_Forall; assumption|].
          split; [rewrite (set_nth_list_keys _ _ _ _ Hn K'); exact K|].
          unfold rs_after. rewrite Eo. rewrite obj_rs_roundtrip. destruct ir; split; [exact I|exact M]. }
        destruct Hco as [Hco|Hco]; rewrite Hco in E; cbn [c17_co_rs c17_default_co m_prev_selected] in E;
          destruct (pl_get l (@nil (list Z)) 0) as [[[l' [hp| |]] n]|]; try contradiction;
          cbn [Z.eqb Pos.eqb andb] in E; injection E as <-.
        -- destruct G as (_ & W' & K' & _). now apply Step.
        -- destruct G as [_ ->]. now apply Step.
        -- destruct G as (_ & W' & K' & _). now apply Step.
        -- destruct G as [_ ->]. now apply Step.
  - apply (run_label_inv keys0 s (LExit 1 e) s' Hi); [intros; discriminate|exact E].
Qed.

Lemma c_exec_inv keys0 : forall acts s s', c_inv keys0 s -> c_exec sc_model s acts = Some s' -> c_inv keys0 s'.
Proof.
  induction acts as [|a r IH]; intros s s' Hi E; cbn [c_exec] in E; [injection E as <-; exact Hi|].
  destruct (c_step sc_model s a) as [s1|] eqn:E1; [|discriminate].
  eapply IH; [eapply c_step_inv; eassumption|exact E].
Qed.

Lemma c_init_inv lists : Forall wf lists -> c_inv (map pl_keys lists) (c_init lists).
Proof. intros W. unfold c_inv, c_init. cbn. auto. Qed.

Lemma reachable_lists_wf lists :
  Forall (fun l => exists ops, lrun pl_empty ops = Some l) lists -> Forall wf lists.
Proof. intros H. eapply Forall_impl; [|exact H]. intros l (ops & E). eapply lrun_reach_wf; exact E. Qed.

(* what "tried" means: the selected set holds exactly the recorded host:ports and their hosts *)
Lemma tried_members marks : forall x,
  In x (fold_left add_selected marks []) <-> exists p, In p marks /\ (x = p \/ x = host_of p).
Proof.
  induction marks as [|m r IH] using rev_ind; intros x.
  - cbn. split; [tauto|intros (p & [] & _)].
  - rewrite fold_add_app. unfold add_selected. rewrite in_app_iff, IH. cbn [In].
    split.
    + intros [(p & Hp & Hx)|[<-|[<-|[]]]].
      * exists p. split; [apply in_or_app; now left|exact Hx].
      * exists m. split; [apply in_or_app; right; now left|now left].
      * exists m. split; [apply in_or_app; right; now left|right; reflexivity].
    + intros (p & Hp & Hx). apply in_app_or in Hp as [Hp|[<-|[]]].
      * left. exists p. auto.
      * right. destruct Hx as [->| ->]; [now left|right; left; reflexivity].
Qed.

(* The run is a run of the private-state specification (Model/RetryRuns.v [iso_step]: the loop of
   RunWithRetry, C17_run_alone / C17_runs_private) on the labels start / enter / one LMark per
   peer a call recorded / exit: the attempt numbers, the budget and the stop rule of a run whose
   attempts make calls are those of C17_budget / C17_stop. *)
Theorem calls_run_is_iso : forall lists acts s,
  Forall (fun l => exists ops, lrun pl_empty ops = Some l) lists ->
  c_exec sc_model (c_init lists) acts = Some s ->
  iso_exec None (cs_labels s) = Some (cs_run s) /\
  map pl_keys (cs_lists s) = map pl_keys lists.
Proof.
  intros lists acts s HL E.
  destruct (c_exec_inv _ acts _ s (c_init_inv lists (reachable_lists_wf _ HL)) E) as (_ & K & I & _).
  split; [exact I|exact K].
Qed.

(* EVERY sub-channel call made with the run's RequestState -- in the first attempt or a later
   one, first call of the attempt or not, after direct calls, sub-channel calls on this or other
   lists, calls without RequestState -- is enabled, is handed as "previously selected" exactly
   what the calls of this run have recorded so far (their host:ports and hosts), and goes to a
   member of the list that is untried whenever the list has an untried member (host:port
   untried; host:port and host untried). *)
Theorem every_call_avoids : forall lists acts s j l ir,
  Forall (fun l => exists ops, lrun pl_empty ops = Some l) lists ->
  c_exec sc_model (c_init lists) acts = Some s ->
  cs_run s = Some ir -> ctl_can_mark (ir_ctl ir) = true ->
  nth_error (cs_lists s) j = Some l ->
  let tried := fold_left add_selected (cs_marks s) [] in
  ro_sel (ir_obj ir) = tried /\
  exists s' p, c_step sc_model s (ACall (CSub j 0)) = Some s' /\ cs_picks s' = cs_picks s ++ [p] /\
    ((pl_keys l = [] /\ p = [] /\ cs_marks s' = cs_marks s) \/
     (In p (pl_keys l) /\ cs_marks s' = cs_marks s ++ [p] /\
      ((exists q, In q (pl_keys l) /\ tier2 tried q = true) -> tier2 tried p = true) /\
      ((exists q, In q (pl_keys l) /\ tier1 tried q = true) -> tier1 tried p = true))).
Proof.
  intros lists acts s j l ir HL E Hr Hm Hn tried.
  destruct (c_exec_inv _ acts _ s (c_init_inv lists (reachable_lists_wf _ HL)) E) as (W & K & I & M).
  rewrite Hr in M. split; [exact M|].
  destruct (sub_call_step s j l ir W Hr Hm Hn) as (s' & p & E1 & P1 & _ & _ & Hc).
  exists s', p. split; [exact E1|]. split; [exact P1|].
  destruct Hc as [(K0 & -> & _ & Mk & _)|(Hin & _ & Mk & _ & A2 & A1)].
  - left. auto.
  - right. rewrite M in A2, A1. auto.
Qed.

(* ------------------------------------------------------------------ 3. the discipline is needed *)

Definition ex_A : hostport := [49; 48; 46; 48; 46; 48; 46; 49; 58; 49].   (* "10.0.0.1:1" *)
Definition ex_B : hostport := [49; 48; 46; 48; 46; 48; 46; 50; 58; 49].   (* "10.0.0.2:1" *)
Definition ex_lists : option (list plist) := build_lists [[(ex_A, 0); (ex_B, 1)]].
(* one attempt, two sub-channel calls with the RequestState *)
Definition ex_acts : list c17act :=
  [AStart (Some {| max_attempts := 1; retry_on := 2 |}); AEnter; ACall (CSub 0%nat 0); ACall (CSub 0%nat 0)].

Definition ex_picks (sc : sc_fun) : option (list hostport) :=
  match ex_lists with
  | Some ls => option_map cs_picks (c_exec sc (c_init ls) ex_acts)
  | None => None
  end.

(* the code: the second call of the FIRST attempt goes to the untried peer B although A ranks first;
   handing the selected set over on a retry only sends it back to A *)
Lemma first_attempt_second_call :
  ex_picks sc_model = Some [ex_A; ex_B] /\ ex_picks sc_retry_only = Some [ex_A; ex_A].
Proof. vm_compute. split; reflexivity. Qed.
