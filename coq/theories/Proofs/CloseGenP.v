(* C07: the admission and close decisions of the hand models (Model/ConnClose.v, Model/ChanClose.v)
   are the ones go2v regenerates from the Go source on every run (Gen/GenClose.v):
     Relayer.canClose, Relayer.canHandleNewCall (state test and pending.Inc()),
     the state switch and the re-check of handleCallReq and of beginCall,
     getMinConnectionState (initial value and loop body), and in connectionCloseStateChange /
     Channel.Close the computation of updateTo and the two guarded state assignments. *)
From Coq Require Import ZArith List Bool Lia Permutation.
From Verif Require Import Base.Wrap Gen.GenConsts Gen.GenClose Model.CloseKernel Model.ConnClose Model.ChanClose.
Import ListNotations.
Local Open Scope Z_scope.

(* ---------- connection ---------- *)

(* checkExchanges: "if c.relay.canClose() == false { return }" at both places *)
Lemma gen_can_close : forall s n k moved,
  tstep s n (PCE3 k) = Some (s, if relayCanClose (has_relay s) (pending s) then PCE4 k else resume k) /\
  tstep s n (PCE6 moved k) = Some (s, if relayCanClose (has_relay s) (pending s) then PCE7 moved k else resume k).
Proof.
  intros s n k moved. cbn [tstep]. unfold relayCanClose.
  destruct (has_relay s); cbn [negb andb]; destruct (pending s =? 0); cbn [negb]; split; reflexivity.
Qed.

(* canHandleNewCall: canHandle = curState == connectionActive; if canHandle { pending.Inc() } *)
Lemma gen_relay_admit : forall s n id remote,
  tstep s n (PRel1 id remote) =
    if relayCanHandle (st s)
    then Some (set_pending s (relayPendingAfter true (pending s)) (g_live s ++ [n]), PRelLive id)
    else Some (set_pending s (relayPendingAfter false (pending s)) (g_live s),
               if remote then PDone oRelRemote id else PRelRef id).
Proof.
  intros s n id remote. cbn [tstep]. unfold relayCanHandle, relayPendingAfter, sA.
  destruct (st s =? c_connectionActive); [reflexivity|]. destruct s; reflexivity.
Qed.

(* handleCallReq: the switch on the state (1 = falls out of the switch, 0 = the branch that sends
   ErrChannelClosed and returns; the default branch panics: not reachable, the state is in range) *)
Lemma gen_callreq_switch : forall s n id, sA <= st s <= sCl ->
  exists d, callReqStateSwitch (st s) = Some d /\
            tstep s n (PR1 id) = Some (s, if d =? 1 then PR2 id else PRRef id).
Proof.
  intros s n id H. cbn [tstep]. unfold callReqStateSwitch, sA, sCl in *.
  destruct (st s =? c_connectionActive) eqn:E1; [exists 1; split; reflexivity|].
  assert (E : (st s =? c_connectionStartClose) || (st s =? c_connectionInboundClosed) || (st s =? c_connectionClosed) = true).
  { apply Z.eqb_neq in E1. unfold c_connectionActive, c_connectionStartClose, c_connectionInboundClosed, c_connectionClosed in *.
    destruct (st s =? 2) eqn:E2; [reflexivity|]. destruct (st s =? 3) eqn:E3; [reflexivity|].
    destruct (st s =? 4) eqn:E4; [reflexivity|]. apply Z.eqb_neq in E2, E3, E4. lia. }
  rewrite E. exists 0. split; reflexivity.
Qed.

Lemma gen_callreq_switch_panics : forall c, ~ (sA <= c <= sCl) -> callReqStateSwitch c = None.
Proof.
  intros c H. unfold callReqStateSwitch, sA, sCl, c_connectionActive, c_connectionStartClose,
    c_connectionInboundClosed, c_connectionClosed in *.
  destruct (c =? 1) eqn:E1; [apply Z.eqb_eq in E1; lia|].
  destruct (c =? 2) eqn:E2; [apply Z.eqb_eq in E2; lia|].
  destruct (c =? 3) eqn:E3; [apply Z.eqb_eq in E3; lia|].
  destruct (c =? 4) eqn:E4; [apply Z.eqb_eq in E4; lia|]. reflexivity.
Qed.

(* handleCallReq: the re-check after newExchange (0 = SendSystemError(ErrChannelClosed), then
   mex.shutdown(), then return -- the generated definition compiles only with both statements
   present in that order) *)
Lemma gen_callreq_recheck : forall s n id,
  tstep s n (PR3 id) = if callReqRecheck (st s) =? 1
                       then Some (set_inb s (set_flag id (inb s)), PDone oDispatched id)
                       else Some (s, PR4 id).
Proof.
  intros s n id. cbn [tstep]. unfold callReqRecheck, sA. destruct (st s =? c_connectionActive); reflexivity.
Qed.

(* beginCall: the switch (0 = return ErrConnectionClosed, 2 = unknown state) and the re-check *)
Lemma gen_begincall : forall s n id,
  tstep s n PC1 = Some (s, if beginCallStateSwitch (st s) =? 1 then PC2 else PDone oCClosed1 0) /\
  (sA <= st s <= sCl -> beginCallStateSwitch (st s) <> 2) /\
  tstep s n (PC3 id) = if beginCallRecheck (st s) =? 1
                       then Some (set_outb s (set_flag id (outb s)), PDone oBegun id)
                       else Some (s, PC4 id).
Proof.
  intros s n id. cbn [tstep]. unfold beginCallStateSwitch, beginCallRecheck, sA, sCl.
  split; [|split].
  - destruct (st s =? c_connectionActive); [reflexivity|].
    destruct ((st s =? c_connectionStartClose) || (st s =? c_connectionInboundClosed) || (st s =? c_connectionClosed)); reflexivity.
  - intros H. unfold c_connectionActive, c_connectionStartClose, c_connectionInboundClosed, c_connectionClosed in *.
    destruct (st s =? 1) eqn:E1; [discriminate|].
    destruct (st s =? 2) eqn:E2; [discriminate|]. destruct (st s =? 3) eqn:E3; [discriminate|].
    destruct (st s =? 4) eqn:E4; [discriminate|]. apply Z.eqb_neq in E1, E2, E3, E4. lia.
  - destruct (st s =? c_connectionActive); reflexivity.
Qed.

(* ---------- channel ---------- *)

Lemma minStateStep_min : forall m x, minStateStep m x = Z.min x m.
Proof. intros m x. unfold minStateStep. destruct (x <? m) eqn:E; [apply Z.ltb_lt in E|apply Z.ltb_ge in E]; lia. Qed.

(* getMinConnectionState: minState := connectionClosed; for each connection { if s := c.readState(); s < minState { minState = s } } *)
Lemma gen_minstate : forall s,
  minstate s = fold_right (fun c m => minStateStep m (cstate s c)) minStateInit (conns s).
Proof.
  intros s. unfold minstate, minStateInit, kCl. induction (conns s) as [|c l IH]; cbn [fold_right]; [reflexivity|].
  rewrite minStateStep_min, IH. reflexivity.
Qed.

Lemma fold_min_le : forall (f : nat -> Z) r b, fold_right (fun c m => Z.min (f c) m) b r <= b.
Proof. intros f r b. induction r as [|d r' IHr]; cbn [fold_right]; lia. Qed.

Lemma fold_min_init : forall (f : nat -> Z) r x a,
  fold_right (fun c m => Z.min (f c) m) (Z.min x a) r = Z.min x (fold_right (fun c m => Z.min (f c) m) a r).
Proof. intros f r x a. induction r as [|d r' IHr]; cbn [fold_right]; [reflexivity|]. rewrite IHr. lia. Qed.

Lemma fold_min_left : forall (f : nat -> Z) l a,
  fold_left (fun m c => minStateStep m (f c)) l a = Z.min a (fold_right (fun c m => Z.min (f c) m) a l).
Proof.
  intros f l. induction l as [|c r IH]; intros a; cbn [fold_left fold_right]; [lia|].
  rewrite IH, minStateStep_min, fold_min_init. pose proof (fold_min_le f r a). lia.
Qed.

Lemma fold_min_perm : forall (f : nat -> Z) a l l', Permutation l l' ->
  fold_right (fun c m => Z.min (f c) m) a l = fold_right (fun c m => Z.min (f c) m) a l'.
Proof.
  intros f a l l' P. induction P; cbn [fold_right]; [reflexivity|rewrite IHP; reflexivity|lia|congruence].
Qed.

(* the Go loop ranges over a map: whatever the iteration order, the result is [minstate] *)
Lemma gen_minstate_any_order : forall s l, Permutation l (conns s) ->
  fold_left (fun m c => minStateStep m (cstate s c)) l minStateInit = minstate s.
Proof.
  intros s l P. rewrite fold_min_left. unfold minstate, minStateInit, kCl.
  rewrite (fold_min_perm (cstate s) c_connectionClosed l (conns s) P).
  pose proof (fold_min_le (cstate s) (conns s) c_connectionClosed). lia.
Qed.

(* connectionCloseStateChange: updateTo *)
Lemma gen_update_to : forall m c, update_to m c = chanUpdateTo m c.
Proof.
  intros m c. unfold update_to, chanUpdateTo, kCl, kIC, hCl, hIC, hSC.
  rewrite !Z.geb_leb. destruct (c_connectionClosed <=? m); [reflexivity|].
  destruct ((c_connectionInboundClosed <=? m) && (c =? c_ChannelStartClose)); reflexivity.
Qed.

(* connectionCloseStateChange: "if ch.mutable.state < updateTo { ch.mutable.state = updateTo }" *)
Lemma gen_apply_update : forall s c cs u arg,
  ctstep s (PCb5 c cs u) arg =
    Some (set_chst s (chanApplyUpdate (chst s) u),
          if chst s <? u then (if u =? hCl then PCb6 else CDone oCbDone) else CDone oCbDone).
Proof.
  intros s c cs u arg. cbn [ctstep]. unfold chanApplyUpdate. destruct (chst s <? u); [reflexivity|].
  destruct s; reflexivity.
Qed.

(* Channel.Close: "if ch.mutable.state < ChannelStartClose { ch.mutable.state = ChannelStartClose }" *)
Lemma gen_close_state : forall s arg, chst s <> hCl ->
  ctstep s PCl1 arg =
    match conns s with
    | [] => Some (set_chst (set_chst s (chanCloseState (chst s))) hCl, PCl2 [] true)
    | _ => Some (set_chst s (chanCloseState (chst s)), PCl2 (conns s) false)
    end.
Proof.
  intros s arg H. cbn [ctstep]. apply Z.eqb_neq in H. rewrite H. unfold chanCloseState, hSC.
  destruct (chst s <? c_ChannelStartClose); [reflexivity|]. destruct s as [a b c d e]. cbn. destruct b; reflexivity.
Qed.

Lemma close_generated :
  (forall s n k moved,
     tstep s n (PCE3 k) = Some (s, if relayCanClose (has_relay s) (pending s) then PCE4 k else resume k) /\
     tstep s n (PCE6 moved k) = Some (s, if relayCanClose (has_relay s) (pending s) then PCE7 moved k else resume k)) /\
  (forall s n id remote,
     tstep s n (PRel1 id remote) =
       if relayCanHandle (st s)
       then Some (set_pending s (relayPendingAfter true (pending s)) (g_live s ++ [n]), PRelLive id)
       else Some (set_pending s (relayPendingAfter false (pending s)) (g_live s),
                  if remote then PDone oRelRemote id else PRelRef id)) /\
  (forall s n id, sA <= st s <= sCl ->
     exists d, callReqStateSwitch (st s) = Some d /\
               tstep s n (PR1 id) = Some (s, if d =? 1 then PR2 id else PRRef id)) /\
  (forall c, ~ (sA <= c <= sCl) -> callReqStateSwitch c = None) /\
  (forall s n id,
     tstep s n (PR3 id) = if callReqRecheck (st s) =? 1
                          then Some (set_inb s (set_flag id (inb s)), PDone oDispatched id)
                          else Some (s, PR4 id)) /\
  (forall s n id,
     tstep s n PC1 = Some (s, if beginCallStateSwitch (st s) =? 1 then PC2 else PDone oCClosed1 0) /\
     (sA <= st s <= sCl -> beginCallStateSwitch (st s) <> 2) /\
     tstep s n (PC3 id) = if beginCallRecheck (st s) =? 1
                          then Some (set_outb s (set_flag id (outb s)), PDone oBegun id)
                          else Some (s, PC4 id)) /\
  (forall s l, Permutation l (conns s) ->
     fold_left (fun m c => minStateStep m (cstate s c)) l minStateInit = minstate s) /\
  (forall m c, update_to m c = chanUpdateTo m c) /\
  (forall s c cs u arg,
     ctstep s (PCb5 c cs u) arg =
       Some (set_chst s (chanApplyUpdate (chst s) u),
             if chst s <? u then (if u =? hCl then PCb6 else CDone oCbDone) else CDone oCbDone)) /\
  (forall s arg, chst s <> hCl ->
     ctstep s PCl1 arg =
       match conns s with
       | [] => Some (set_chst (set_chst s (chanCloseState (chst s))) hCl, PCl2 [] true)
       | _ => Some (set_chst s (chanCloseState (chst s)), PCl2 (conns s) false)
       end).
Proof.
  split; [exact gen_can_close|]. split; [exact gen_relay_admit|]. split; [exact gen_callreq_switch|].
  split; [exact gen_callreq_switch_panics|]. split; [exact gen_callreq_recheck|]. split; [exact gen_begincall|].
  split; [exact gen_minstate_any_order|]. split; [exact gen_update_to|]. split; [exact gen_apply_update|].
  exact gen_close_state.
Qed.
