(* Proofs for property C05 (b), WIDE wait-site table (Spec/C05VWideSpec.v, go2v/c05vwide.go):
   every blocking statement the caller's goroutine can reach -- calls through the package's own
   function-valued fields followed -- offers an exit bound to the caller's deadline, or is the
   never-blocking release of the new-connection semaphore, or is the join of a goroutine that
   was told to stop in the statement before and none of whose waits can hold it. *)
From Coq Require Import ZArith List Bool Lia ZifyBool.
From Verif Require Import Base.Wrap Base.Bytes Gen.GenConsts Gen.GenWaitSites Gen.GenLockProgs
  Spec.WaitSpec Spec.C05VWideSpec Model.CallPath Proofs.CallPathP.
Import ListNotations.
Local Open Scope Z_scope.

Definition stoppableb (w : wsite) : bool := existsb is_stop_exit (ws_exits w).
Definition join_boundedb (j : wjoin) : bool := wj_cancelled j && forallb stoppableb (wj_sites j).
Definition is_bounded_joinb (joins : list wjoin) (w : wsite) : bool :=
  wkind_eqb (ws_kind w) WChanOp && existsb (fun j => bytes_eqb (wj_fn j) (ws_fn w) && join_boundedb j) joins.

Lemma wkind_eqb_eq a b : wkind_eqb a b = true -> a = b.
Proof. destruct a, b; cbn; intros H; try reflexivity; discriminate H. Qed.

Lemma c05v_bytes_eqb_eq : forall a b, bytes_eqb a b = true -> a = b.
Proof.
  induction a as [|x a IH]; destruct b as [|y b]; cbn [bytes_eqb]; intros H; try reflexivity; try discriminate H.
  apply andb_true_iff in H. destruct H as [H1 H2]. f_equal; [lia|exact (IH b H2)].
Qed.

Lemma stoppableb_spec w : stoppableb w = true -> stoppable w.
Proof. unfold stoppableb, stoppable. intros H. apply existsb_exists in H. exact H. Qed.

Lemma join_boundedb_spec j : join_boundedb j = true -> join_bounded j.
Proof.
  unfold join_boundedb, join_bounded. intros H. apply andb_true_iff in H. destruct H as [H1 H2].
  split; [exact H1|]. apply Forall_forall. intros s Hs. rewrite forallb_forall in H2. exact (stoppableb_spec s (H2 s Hs)).
Qed.

Lemma is_bounded_joinb_spec joins w : is_bounded_joinb joins w = true -> is_bounded_join joins w.
Proof.
  unfold is_bounded_joinb, is_bounded_join. intros H. apply andb_true_iff in H. destruct H as [H1 H2].
  split; [exact (wkind_eqb_eq _ _ H1)|]. apply existsb_exists in H2. destruct H2 as (j & Hj & E).
  apply andb_true_iff in E. destruct E as [E1 E2]. exists j. split; [exact Hj|].
  split; [exact (c05v_bytes_eqb_eq _ _ E1)|exact (join_boundedb_spec j E2)].
Qed.

(* THE WIDE TABLE *)
Theorem wide_wait_sites_ok :
  Forall (fun w => has_deadline_exit w \/ is_release w \/ is_bounded_join c05v_wait_joins w) c05v_wait_sites.
Proof.
  apply Forall_forall. intros w Hw.
  assert (H : forallb (fun w => has_deadline_exitb w || is_releaseb w || is_bounded_joinb c05v_wait_joins w) c05v_wait_sites = true)
    by (vm_compute; reflexivity).
  rewrite forallb_forall in H. specialize (H w Hw). apply orb_true_iff in H. destruct H as [H|H].
  - apply orb_true_iff in H. destruct H as [H|H].
    + left. apply has_deadline_exitb_iff, H.
    + right. left. exact H.
  - right. right. exact (is_bounded_joinb_spec _ _ H).
Qed.

(* it is wider: every site of the narrow table is in it, its closure has more functions, and it
   contains no lock held across network I/O either *)
Definition wsite_eqb (a b : wsite) : bool :=
  bytes_eqb (ws_fn a) (ws_fn b) && wkind_eqb (ws_kind a) (ws_kind b) &&
  (Nat.eqb (length (ws_exits a)) (length (ws_exits b))) &&
  forallb (fun p => wexit_eqb (fst p) (snd p)) (combine (ws_exits a) (ws_exits b)).

Lemma wexit_eqb_eq a b : wexit_eqb a b = true -> a = b.
Proof. destruct a, b; cbn; intros H; try reflexivity; discriminate H. Qed.

Lemma exits_eq : forall a b, Nat.eqb (length a) (length b) = true ->
  forallb (fun p => wexit_eqb (fst p) (snd p)) (combine a b) = true -> a = b.
Proof.
  induction a as [|x a IH]; destruct b as [|y b]; cbn [length combine forallb Nat.eqb]; intros L H; try reflexivity; try discriminate L.
  apply andb_true_iff in H. destruct H as [H1 H2]. cbn [fst snd] in H1. f_equal; [exact (wexit_eqb_eq _ _ H1)|exact (IH b L H2)].
Qed.

Lemma wsite_eqb_eq a b : wsite_eqb a b = true -> a = b.
Proof.
  unfold wsite_eqb. intros H. repeat (apply andb_true_iff in H; destruct H as [H ?]).
  destruct a as [fa ka ea], b as [fb kb eb]. cbn [ws_fn ws_kind ws_exits] in *.
  f_equal; [exact (c05v_bytes_eqb_eq _ _ H)|apply wkind_eqb_eq; assumption|apply exits_eq; assumption].
Qed.

Theorem wide_includes_narrow : (forall w, In w wait_sites -> In w c05v_wait_sites) /\
  c05v_narrow_root_count < c05v_wide_root_count /\ Forall (fun w => ws_kind w <> WLock) c05v_wait_sites.
Proof.
  split; [|split].
  - intros w Hw.
    assert (H : forallb (fun w => existsb (wsite_eqb w) c05v_wait_sites) wait_sites = true) by (vm_compute; reflexivity).
    rewrite forallb_forall in H. specialize (H w Hw). apply existsb_exists in H. destruct H as (v & Hv & E).
    rewrite (wsite_eqb_eq w v E). exact Hv.
  - vm_compute. reflexivity.
  - apply Forall_forall. intros w Hw.
    assert (H : forallb (fun w => negb (wkind_eqb (ws_kind w) WLock)) c05v_wait_sites = true) by (vm_compute; reflexivity).
    rewrite forallb_forall in H. specialize (H w Hw). intros E. rewrite E in H. discriminate H.
Qed.

(* a wait with only its own event as exit, in a function without a bounded join entry, fails the
   criterion: what a blocking send placed in a callback looks like *)
Lemma wide_criterion_refuses : forall fn,
  existsb (fun j => bytes_eqb (wj_fn j) fn) c05v_wait_joins = false -> bytes_eqb fn release_fn = false ->
  let w := mkWsite fn WChanOp [XData] in
  has_deadline_exitb w || is_releaseb w || is_bounded_joinb c05v_wait_joins w = false.
Proof.
  intros fn Hj Hr w. unfold w, has_deadline_exitb, is_releaseb, is_bounded_joinb. cbn [ws_fn ws_kind ws_exits existsb is_deadline_exit orb].
  rewrite Hr. cbn [andb orb wkind_eqb].
  assert (E : existsb (fun j => bytes_eqb (wj_fn j) fn && join_boundedb j) c05v_wait_joins = false).
  { clear -Hj. induction c05v_wait_joins as [|j r IH]; [reflexivity|]. cbn [existsb] in *.
    apply orb_false_iff in Hj. destruct Hj as [H1 H2]. rewrite H1, (IH H2). reflexivity. }
  rewrite E. reflexivity.
Qed.
