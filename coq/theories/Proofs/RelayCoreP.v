(* Relay model: effect of the helper operations on the state fields ("core" = everything but
   timers / next_tm / panicked), and basic facts about ghost logs. *)
From Coq Require Import ZArith List Bool Lia.
From Verif Require Import Base.Wrap Gen.GenConsts Gen.GenFrame Model.RelayItems Proofs.RelayAssocP.
Import ListNotations.
Local Open Scope Z_scope.

(* two states that differ at most in timers, next_tm and the panic flag *)
Definition core_eq (a b : state) : Prop :=
  conns a = conns b /\ items a = items b /\ gcs a = gcs b /\ threads a = threads b /\
  cblog a = cblog b /\ sent a = sent b /\ seen a = seen b /\ next_call a = next_call b.

Lemma core_eq_refl : forall a, core_eq a a.
Proof. intro a. unfold core_eq. repeat split; reflexivity. Qed.

Lemma core_eq_trans : forall a b c, core_eq a b -> core_eq b c -> core_eq a c.
Proof.
  unfold core_eq. intros a b c (H1&H2&H3&H4&H5&H6&H7&H8) (G1&G2&G3&G4&G5&G6&G7&G8).
  repeat split; congruence.
Qed.

Lemma core_set_timers : forall st x, core_eq (set_timers st x) st.
Proof. intros. unfold core_eq. repeat split; reflexivity. Qed.
Lemma core_set_panic : forall st x, core_eq (set_panic st x) st.
Proof. intros. unfold core_eq. repeat split; reflexivity. Qed.
Lemma core_set_next_tm : forall st x, core_eq (set_next_tm st x) st.
Proof. intros. unfold core_eq. repeat split; reflexivity. Qed.

Lemma timer_stop_core : forall st tm st' b, timer_stop st tm = (st', b) -> core_eq st' st.
Proof.
  intros st tm st' b H. unfold timer_stop in H.
  destruct (lookup Z.eqb tm (timers st)) as [t|].
  - destruct (tm_released t); [inversion H; apply core_set_panic|].
    destruct (tm_stopped t); [inversion H; apply core_eq_refl|].
    destruct (tm_armed t); inversion H; [apply core_set_timers|apply core_eq_refl].
  - inversion H. apply core_set_panic.
Qed.

Lemma timer_release_core : forall st tm, core_eq (timer_release st tm) st.
Proof.
  intros st tm. unfold timer_release.
  destruct (lookup Z.eqb tm (timers st)) as [t|]; [|apply core_set_panic].
  destruct (tm_released t); [apply core_set_panic|].
  destruct (tm_active t); [apply core_set_panic|apply core_set_timers].
Qed.

Lemma timer_new_core : forall st t o st' tm, timer_new st t o = (st', tm) -> core_eq st' st.
Proof.
  intros st t o st' tm H. unfold timer_new in H. inversion H.
  eapply core_eq_trans; [apply core_set_next_tm|apply core_set_timers].
Qed.

(* relayItems.Get *)
Lemma items_get_spec : forall st t stop st' g, items_get st t stop = (st', g) ->
  core_eq st' st /\
  match lookup key_eqb t (items st) with
  | None => g = None
  | Some it => exists b, g = Some (it, b)
  end.
Proof.
  intros st t stop st' g H. unfold items_get in H.
  destruct (lookup key_eqb t (items st)) as [it|].
  - destruct stop.
    + destruct (timer_stop st (it_tm it)) as [st2 b] eqn:E. inversion H. subst.
      split; [eapply timer_stop_core; exact E|]. exists b. reflexivity.
    + inversion H. subst. split; [apply core_eq_refl|]. exists false. reflexivity.
  - inversion H. subst. split; [apply core_eq_refl|reflexivity].
Qed.

(* relayItems.Delete *)
Lemma items_delete_spec : forall st t st' g, items_delete st t = (st', g) ->
  conns st' = conns st /\ gcs st' = gcs st /\ threads st' = threads st /\ cblog st' = cblog st /\
  sent st' = sent st /\ seen st' = seen st /\ next_call st' = next_call st /\
  match lookup key_eqb t (items st) with
  | None => g = None /\ items st' = items st
  | Some it => g = Some (it, negb (it_tomb it)) /\ items st' = remove key_eqb t (items st)
  end.
Proof.
  intros st t st' g H. unfold items_delete in H.
  destruct (lookup key_eqb t (items st)) as [it|].
  - inversion H. subst.
    destruct (timer_release_core (set_items st (remove key_eqb t (items st))) (it_tm it)) as (H1&H2&H3&H4&H5&H6&H7&H8).
    cbn in *. repeat split; assumption.
  - inversion H. subst. repeat split; reflexivity.
Qed.

(* relayItems.deleteCall (finishRelayItem): Delete when the item found is the looked-up call's,
   nothing otherwise *)
Lemma items_delete_call_cases : forall st t lk,
  items_delete_call st t lk = items_delete st t \/
  (items_delete_call st t lk = (st, None) /\
   exists it, lookup key_eqb t (items st) = Some it /\ (it_dest it =? fst lk) && (it_remap it =? snd lk) = false).
Proof.
  intros st t lk. unfold items_delete_call. destruct (lookup key_eqb t (items st)) as [it|] eqn:E.
  - destruct ((it_dest it =? fst lk) && (it_remap it =? snd lk)) eqn:Em; [left; reflexivity|].
    right. split; [reflexivity|]. exists it. split; [reflexivity|exact Em].
  - left. unfold items_delete. rewrite E. reflexivity.
Qed.

Lemma items_delete_call_match : forall st t lk,
  (forall it, lookup key_eqb t (items st) = Some it -> it_dest it = fst lk /\ it_remap it = snd lk) ->
  items_delete_call st t lk = items_delete st t.
Proof.
  intros st t lk H. unfold items_delete_call. destruct (lookup key_eqb t (items st)) as [it|] eqn:E.
  - destruct (H it eq_refl) as [-> ->]. rewrite !Z.eqb_refl. reflexivity.
  - unfold items_delete. rewrite E. reflexivity.
Qed.

(* the frame part and the table part of its effect, in the shape of [items_delete_spec] *)
Lemma items_delete_call_spec : forall st t lk st' g, items_delete_call st t lk = (st', g) ->
  conns st' = conns st /\ gcs st' = gcs st /\ threads st' = threads st /\ cblog st' = cblog st /\
  sent st' = sent st /\ seen st' = seen st /\ next_call st' = next_call st /\
  match lookup key_eqb t (items st) with
  | None => g = None /\ items st' = items st
  | Some it => (g = Some (it, negb (it_tomb it)) /\ items st' = remove key_eqb t (items st)) \/
               (g = None /\ st' = st)
  end.
Proof.
  intros st t lk st' g H. destruct (items_delete_call_cases st t lk) as [E|[E (it&El&_)]]; rewrite E in H.
  - apply items_delete_spec in H. destruct H as (H1&H2&H3&H4&H5&H6&H7&H8). repeat split; try assumption.
    destruct (lookup key_eqb t (items st)); [left; exact H8|exact H8].
  - inversion H. subst. repeat split; try reflexivity. rewrite El. right. split; reflexivity.
Qed.

(* relayItems.deleteTomb (the scheduled tombstone collection, label LGc) *)
Lemma items_delete_tomb_spec : forall st t,
  conns (items_delete_tomb st t) = conns st /\ gcs (items_delete_tomb st t) = gcs st /\
  threads (items_delete_tomb st t) = threads st /\ cblog (items_delete_tomb st t) = cblog st /\
  sent (items_delete_tomb st t) = sent st /\ seen (items_delete_tomb st t) = seen st /\
  next_call (items_delete_tomb st t) = next_call st /\
  match lookup key_eqb t (items st) with
  | None => items_delete_tomb st t = st
  | Some it => if it_tomb it then items (items_delete_tomb st t) = remove key_eqb t (items st)
               else items_delete_tomb st t = st
  end.
Proof.
  intros st t. unfold items_delete_tomb.
  destruct (lookup key_eqb t (items st)) as [it|]; [|repeat split; reflexivity].
  destruct (it_tomb it); [|repeat split; reflexivity].
  destruct (timer_release_core (set_items st (remove key_eqb t (items st))) (it_tm it)) as (H1&H2&H3&H4&H5&H6&H7&H8).
  cbn in *. repeat split; assumption.
Qed.

Lemma items_delete_tomb_items : forall st t,
  items (items_delete_tomb st t) = items st \/ items (items_delete_tomb st t) = remove key_eqb t (items st).
Proof.
  intros st t. pose proof (items_delete_tomb_spec st t) as (_&_&_&_&_&_&_&H).
  destruct (lookup key_eqb t (items st)) as [it|]; [|left; rewrite H; reflexivity].
  destruct (it_tomb it); [right; exact H|left; rewrite H; reflexivity].
Qed.

(* relayItems.Entomb *)
Lemma items_entomb_spec : forall cf st t st' g, items_entomb cf st t = (st', g) ->
  conns st' = conns st /\ threads st' = threads st /\ cblog st' = cblog st /\
  sent st' = sent st /\ seen st' = seen st /\ next_call st' = next_call st /\
  match lookup key_eqb t (items st) with
  | None => g = None /\ items st' = items st /\ gcs st' = gcs st
  | Some it =>
      (g = Some (it, negb (it_tomb it)) /\ items st' = remove key_eqb t (items st) /\ gcs st' = gcs st) \/
      (it_tomb it = true /\ g = Some (it, false) /\ items st' = items st /\ gcs st' = gcs st) \/
      (it_tomb it = false /\ g = Some (entomb_item it, true) /\
       items st' = insert key_eqb t (entomb_item it) (items st) /\ gcs st' = t :: gcs st)
  end.
Proof.
  intros cf st t st' g H. unfold items_entomb in H.
  destruct (cf_maxtombs cf <? tomb_count st (key_conn t) (key_dir t)).
  - apply items_delete_spec in H. destruct H as (H1&H2&H3&H4&H5&H6&H7&H8).
    repeat split; try assumption.
    destruct (lookup key_eqb t (items st)) as [it|].
    + destruct H8 as [Hg Hi]. left. repeat split; assumption.
    + destruct H8 as [Hg Hi]. repeat split; assumption.
  - destruct (lookup key_eqb t (items st)) as [it|].
    + destruct (it_tomb it) eqn:Et.
      * inversion H. subst. repeat split; try reflexivity. right. left. repeat split; reflexivity.
      * inversion H. subst. repeat split; try reflexivity. right. right. repeat split; reflexivity.
    + inversion H. subst. repeat split; reflexivity.
Qed.

(* connections *)
Definition getc (cs : list (Z * conn)) (k : Z) : conn :=
  match lookup Z.eqb k cs with Some c => c | None => conn0 end.

Lemma get_conn_getc : forall st k, get_conn st k = getc (conns st) k.
Proof. reflexivity. Qed.

Lemma getc_insert : forall cs k c k', getc (insert Z.eqb k c cs) k' = if k' =? k then c else getc cs k'.
Proof.
  intros cs k c k'. unfold getc. destruct (k' =? k) eqn:E.
  - apply Z.eqb_eq in E. subst. rewrite (lookup_insert_eq Z.eqb zeqb_ok). reflexivity.
  - apply Z.eqb_neq in E. rewrite (lookup_insert_neq Z.eqb zeqb_ok) by exact E. reflexivity.
Qed.

(* ghost log: number of End callbacks of a call *)
Definition is_end (c : Z) (p : Z * cb) : Z :=
  match snd p with CbEnd => if fst p =? c then 1 else 0 | _ => 0 end.
Fixpoint ends (c : Z) (log : list (Z * cb)) : Z :=
  match log with [] => 0 | p :: r => is_end c p + ends c r end.

Lemma ends_nonneg : forall c log, 0 <= ends c log.
Proof.
  intros c log. induction log as [|p r IH]; cbn; [lia|].
  unfold is_end. destruct (snd p); try lia. destruct (fst p =? c); lia.
Qed.
