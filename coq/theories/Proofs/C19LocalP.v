(* Property C19, strengthening V19: the ONLY-IF direction of the sweep for calls that are not
   relayed, on every kind of connection -- in particular on the connections of a relaying channel
   (k_relay = Some n), which can carry calls the relay channel handles itself (RelayLocalHandlers:
   inbound exchange) and calls it originates (outbound exchange); neither touches Relayer.pending.

   1. the regenerated Connection.hasPendingCalls is the disjunction of its three sources (inbound
      calls, outbound calls, not canClose) -- whatever Relayer.canClose was computed from (nil
      relayer or not, any counter value);
   2. one sweep, any channel state: a connection with a call in its exchange sets is left exactly
      as it is, whatever its k_relay, its stamps, its state;
   3. over histories: the exchange counts of the model are the calls in flight of the history
      (Spec/C19LocalSpec.v), so a connection with a non-relayed call in flight is left exactly as it
      is by every tick;
   4. the same over the combined relay / sweep state of Model/IdleRelay.v: whatever the relay
      bookkeeping says (no live item, no held unit, counter 0). *)
From Coq Require Import ZArith List Bool Lia ZifyBool.
From Verif Require Import Base.Wrap Base.Wire Gen.GenConsts Gen.GenFrame Gen.GenHealthIdle Spec.IdleHealthSpec
  Spec.C19LocalSpec Model.Health Model.Idle Model.IdleHealthSys Model.IdleRelay Proofs.IdleP.
Import ListNotations.
Local Open Scope Z_scope.

(* ---- 1. the generated decision ------------------------------------------------------------- *)
Lemma c19l_gen_sources inb outb cc :
  hasPendingCalls inb outb cc = (inb >? 0) || (outb >? 0) || negb cc.
Proof. unfold hasPendingCalls. destruct (inb >? 0); destruct (outb >? 0); destruct cc; reflexivity. Qed.

Lemma c19l_gen_any_kind isNil pending inb outb :
  0 < inb \/ 0 < outb -> hasPendingCalls inb outb (relayCanClose isNil pending) = true.
Proof. intros H. rewrite c19l_gen_sources. destruct (relayCanClose isNil pending); lia. Qed.

Lemma c19l_gen_only_sources inb outb cc :
  hasPendingCalls inb outb cc = false <-> inb <= 0 /\ outb <= 0 /\ cc = true.
Proof. rewrite c19l_gen_sources. destruct cc; split; intros H; lia. Qed.

(* ---- 2. one sweep ---------------------------------------------------------------------------- *)
Lemma c19l_busy_has_pending c : 0 < k_inb c \/ 0 < k_outb c -> has_pending_calls c = true.
Proof. intros H. unfold has_pending_calls. destruct ((k_inb c >? 0) || (k_outb c >? 0)) eqn:E; [reflexivity|lia]. Qed.

Lemma c19l_busy_kept mi s id c :
  NoDup (map fst (ch_conns s)) -> lookup id (ch_conns s) = Some c ->
  0 < k_inb c \/ 0 < k_outb c ->
  lookup id (ch_conns (sweep mi s)) = Some c.
Proof.
  intros Hnd L Hb. rewrite (sweep_lookup mi s id c Hnd L).
  unfold close_if_ok. rewrite (c19l_busy_has_pending c Hb).
  destruct (k_tracked c && idle_candidate (ch_now s) mi c); destruct (negb (is_active c)); reflexivity.
Qed.

(* the statement's form: whatever the sweep closes had no call in its exchange sets *)
Lemma c19l_closed_only_idle_sets mi s id c c' :
  NoDup (map fst (ch_conns s)) -> lookup id (ch_conns s) = Some c ->
  lookup id (ch_conns (sweep mi s)) = Some c' -> is_active c = true -> is_active c' = false ->
  k_inb c <= 0 /\ k_outb c <= 0.
Proof.
  intros Hnd L L' Ha Hc.
  destruct (Z_lt_le_dec 0 (k_inb c)) as [Hi|Hi]; [|destruct (Z_lt_le_dec 0 (k_outb c)) as [Ho|Ho]; [|lia]].
  - rewrite (c19l_busy_kept mi s id c Hnd L (or_introl Hi)) in L'. injection L' as <-. congruence.
  - rewrite (c19l_busy_kept mi s id c Hnd L (or_intror Ho)) in L'. injection L' as <-. congruence.
Qed.

(* ---- 3. histories ---------------------------------------------------------------------------- *)
(* the exchange count of kind w (0 inbound, 1 outbound) *)
Definition cnt (w : Z) (c : conn) : Z := if w =? 0 then k_inb c else k_outb c.

Lemma cnt_check w c : cnt w (check_exchanges c) = cnt w c.
Proof. unfold check_exchanges, cnt. destruct (_ && _); reflexivity. Qed.
Lemma cnt_close w c : cnt w (conn_close c) = cnt w c.
Proof. unfold conn_close. destruct (_ =? _); [rewrite cnt_check|]; reflexivity. Qed.
Lemma cnt_error w c : cnt w (conn_error c) = cnt w c.
Proof. unfold conn_error. rewrite cnt_check. unfold cnt. cbn [set_stopped k_inb k_outb]. apply cnt_close. Qed.
Lemma cnt_set_health w hs l c : cnt w (set_health hs l c) = cnt w c.
Proof. reflexivity. Qed.
Lemma cnt_pings w p c : cnt w (set_counts (k_inb c) (k_outb c) p (k_relay c) c) = cnt w c.
Proof. reflexivity. Qed.
Lemma cnt_after_ping w F o c : cnt w (after_ping F o c) = cnt w c.
Proof.
  unfold after_ping. destruct (health_iter F o (k_health c)) as [l closed].
  destruct closed; destruct (_ =? _);
    rewrite ?cnt_set_health, ?cnt_close, ?cnt_set_health; reflexivity.
Qed.
Lemma cnt_ping_start w F sent c : cnt w (ping_start F sent c) = cnt w c.
Proof.
  unfold ping_start. destruct (negb _); [reflexivity|]. destruct sent; [reflexivity|].
  cbv zeta. rewrite cnt_set_health, cnt_after_ping, cnt_check.
  set (c1 := conn_error _). change (cnt w c1 = cnt w c). unfold c1. rewrite cnt_error. reflexivity.
Qed.
Lemma cnt_ping_end w F o c : cnt w (ping_end F o c) = cnt w c.
Proof.
  unfold ping_end. destruct (negb _); [reflexivity|]. cbv zeta.
  rewrite cnt_after_ping, cnt_check. reflexivity.
Qed.
Lemma cnt_read w now mt c : cnt w (update_read now mt c) = cnt w c.
Proof. unfold update_read. destruct (isMessageTypeCall mt); reflexivity. Qed.
Lemma cnt_write w now mt c : cnt w (update_write now mt c) = cnt w c.
Proof. unfold update_write. destruct (isMessageTypeCall mt); reflexivity. Qed.
Lemma cnt_close_if_ok w c : cnt w (close_if_ok c) = cnt w c.
Proof. unfold close_if_ok. destruct (negb _); [reflexivity|]. destruct (has_pending_calls c); [reflexivity|apply cnt_close]. Qed.

Lemma cnt_pend w w' d c : w = 0 \/ w = 1 ->
  cnt w (pend w' d c) =
  if w' =? w then (if d >? 0 then cnt w c + 1 else if cnt w c <=? 0 then cnt w c else cnt w c - 1) else cnt w c.
Proof.
  intros Hw. unfold pend, cnt.
  destruct Hw as [-> | ->]; cbn [Z.eqb]; destruct (w' =? 0) eqn:E0; destruct (w' =? 1) eqn:E1; try lia;
    repeat match goal with
           | |- context [match k_relay c with _ => _ end] => destruct (k_relay c)
           | |- context [if ?b then _ else _] => destruct b eqn:?
           end;
    try (unfold check_exchanges; match goal with |- context [if ?b then _ else _] => destruct b end);
    cbn [set_counts set_state set_tracked_h k_inb k_outb]; try reflexivity; try lia.
Qed.

Lemma c19l_on_conn_cnt w id id' f s :
  (forall c, cnt w (f c) = cnt w c) ->
  option_map (cnt w) (lookup id (ch_conns (on_conn id' f s))) = option_map (cnt w) (lookup id (ch_conns s)).
Proof.
  intros Hf. rewrite on_conn_lookup. destruct (id' =? id); [|reflexivity].
  destruct (lookup id (ch_conns s)); cbn [option_map]; [now rewrite Hf|reflexivity].
Qed.

Lemma c19l_count_gen cf id w : w = 0 \/ w = 1 -> forall h s,
  option_map (cnt w) (lookup id (ch_conns (fold_left (step cf) h s))) =
  calls_in_flight id w (option_map (cnt w) (lookup id (ch_conns s))) h.
Proof.
  intros Hw. induction h as [|e r IH]; intros s; [reflexivity|].
  cbn [fold_left]. rewrite IH.
  destruct e as [dt|i rl|i mt|i mt|i w' d|i| |i sent|i o]; cbn [calls_in_flight].
  - reflexivity.
  - (* new connection *)
    f_equal. cbn [step]. destruct (lookup i (ch_conns s)) as [ci|] eqn:Li.
    + destruct (lookup id (ch_conns s)) as [c|] eqn:L; cbn [option_map]; [reflexivity|].
      destruct (i =? id) eqn:E; [|reflexivity]. assert (i = id) by lia. subst i. congruence.
    + cbn [ch_conns]. destruct (Z.eq_dec i id) as [->|Hne].
      * rewrite (lookup_app_fresh _ _ _ Li), Li. cbn [option_map]. rewrite Z.eqb_refl.
        unfold cnt. cbn [new_conn k_inb k_outb]. destruct (w =? 0); reflexivity.
      * rewrite lookup_app_other by exact Hne.
        destruct (lookup id (ch_conns s)); cbn [option_map]; [reflexivity|].
        replace (i =? id) with false by lia. reflexivity.
  - f_equal. cbn [step]. apply c19l_on_conn_cnt. intros c. apply cnt_read.
  - f_equal. cbn [step]. apply c19l_on_conn_cnt. intros c. apply cnt_write.
  - (* a call starts / finishes *)
    f_equal. cbn [step]. rewrite on_conn_lookup.
    destruct (i =? id) eqn:E; cbn [andb].
    + destruct (lookup id (ch_conns s)) as [c|]; cbn [option_map]; [|reflexivity].
      rewrite (cnt_pend w w' d c Hw). destruct (w' =? w); reflexivity.
    + destruct (lookup id (ch_conns s)); reflexivity.
  - f_equal. cbn [step]. apply c19l_on_conn_cnt. intros c. apply cnt_close.
  - (* tick *)
    f_equal. cbn [step]. destruct (sweep_enabled cf); [|reflexivity].
    unfold sweep. cbn [ch_conns]. rewrite sweep_fold_lookup.
    destruct (mem id _); [|reflexivity].
    destruct (lookup id (ch_conns s)); cbn [option_map]; [now rewrite cnt_close_if_ok|reflexivity].
  - f_equal. cbn [step]. apply c19l_on_conn_cnt. intros c. apply cnt_ping_start.
  - f_equal. cbn [step]. apply c19l_on_conn_cnt. intros c. apply cnt_ping_end.
Qed.

(* the exchange counts of the model ARE the calls in flight of the history *)
Theorem c19l_calls_in_flight cf t0 h id w : w = 0 \/ w = 1 ->
  option_map (cnt w) (lookup id (ch_conns (run cf t0 h))) = calls_in_flight id w None h.
Proof. intros Hw. unfold run. rewrite (c19l_count_gen cf id w Hw h (init_chan t0)). reflexivity. Qed.

(* after every history, on every kind of connection (relaying channel or not): a connection with
   a call it handles itself or a call it originated in flight is left exactly as it is by a tick *)
Theorem c19l_nonrelayed_call_kept cf t0 h id c :
  lookup id (ch_conns (run cf t0 h)) = Some c -> nonrelayed_call_in_flight id h ->
  lookup id (ch_conns (step cf (run cf t0 h) ETick)) = Some c /\
  ~ In id (closed_between (ch_conns (run cf t0 h)) (ch_conns (step cf (run cf t0 h) ETick))).
Proof.
  intros L (w & n & Hw & Hn & Hpos).
  pose proof (c19l_calls_in_flight cf t0 h id w Hw) as Hc. rewrite L, Hn in Hc. cbn [option_map] in Hc.
  injection Hc as Hc.
  assert (Hb : 0 < k_inb c \/ 0 < k_outb c).
  { unfold cnt in Hc. destruct Hw as [-> | ->]; cbn [Z.eqb] in Hc; lia. }
  pose proof (run_wf cf t0 h) as [Hnd _].
  assert (L' : lookup id (ch_conns (step cf (run cf t0 h) ETick)) = Some c).
  { cbn [step]. destruct (sweep_enabled cf); [|exact L]. now apply c19l_busy_kept. }
  split; [exact L'|].
  rewrite closed_between_in by exact Hnd. intros (c1 & c2 & E1 & E2 & H1 & H2).
  rewrite L in E1. rewrite L' in E2. injection E1 as <-. injection E2 as <-. congruence.
Qed.

(* ---- 4. the combined relay / sweep state ------------------------------------------------------ *)
Theorem c19l_relay_busy_kept (rc : rchan) mi id c :
  NoDup (map fst (ch_conns (rc_chan rc))) -> lookup id (ch_conns (rc_chan rc)) = Some c ->
  0 < k_inb c \/ 0 < k_outb c ->
  lookup id (ch_conns (rc_chan (rsweep mi rc))) = Some c /\
  relay_has_pending (rc_relay rc) id c = true.
Proof.
  intros Hnd L Hb. split; [apply c19l_busy_kept; assumption|].
  unfold relay_has_pending. apply c19l_gen_any_kind. exact Hb.
Qed.

(* ---- the statements of Props/C19.v, sixth part ------------------------------------------------ *)
Theorem c19l_gen_pending_sources :
  (forall inb outb cc, hasPendingCalls inb outb cc = (inb >? 0) || (outb >? 0) || negb cc) /\
  (forall isNil pending inb outb, 0 < inb \/ 0 < outb ->
     hasPendingCalls inb outb (relayCanClose isNil pending) = true) /\
  (forall inb outb cc, hasPendingCalls inb outb cc = false <-> inb <= 0 /\ outb <= 0 /\ cc = true).
Proof. exact (conj c19l_gen_sources (conj c19l_gen_any_kind c19l_gen_only_sources)). Qed.

Theorem c19l_sweep_keeps_busy mi s id c :
  NoDup (map fst (ch_conns s)) -> lookup id (ch_conns s) = Some c ->
  (0 < k_inb c \/ 0 < k_outb c -> lookup id (ch_conns (sweep mi s)) = Some c) /\
  (forall c', lookup id (ch_conns (sweep mi s)) = Some c' -> is_active c = true -> is_active c' = false ->
     k_inb c <= 0 /\ k_outb c <= 0).
Proof.
  intros Hnd L. split; [apply c19l_busy_kept; assumption|].
  intros c'. apply c19l_closed_only_idle_sets; assumption.
Qed.

Theorem c19l_calls_in_flight_both cf t0 h id :
  option_map k_inb (lookup id (ch_conns (run cf t0 h))) = calls_in_flight id 0 None h /\
  option_map k_outb (lookup id (ch_conns (run cf t0 h))) = calls_in_flight id 1 None h.
Proof.
  split.
  - exact (c19l_calls_in_flight cf t0 h id 0 (or_introl eq_refl)).
  - exact (c19l_calls_in_flight cf t0 h id 1 (or_intror eq_refl)).
Qed.
