(* Under which host:port a connection is registered (property C16, strengthening U16).
   parseRemotePeer (preinit_connection.go, Model/Handshake.v) keeps the host:port the peer announced
   unless isEphemeralHostPort (peer.go, REGENERATED: Gen/GenHandshake.v) says it is ephemeral; then
   the socket address is used.  Channel.connectionActive / Connect list the connection under that
   host:port (Model/PeerBook.v: k_rhp).  Ephemeral = "", "0.0.0.0:0" or ENDING in ":0"
   (Spec/HandshakeSpec.v): an IPv6 literal with a zero group, a port "0x" or "01", a ":0" in the
   middle are host:ports of listening peers. *)
From Coq Require Import ZArith List Bool Lia.
From Verif Require Import Base.Wrap Gen.GenConsts Gen.GenHandshake Model.Handshake Spec.HandshakeSpec Proofs.HandshakeP.
Import ListNotations.
Local Open Scope Z_scope.

Lemma listed_key p addr hp pn :
  lookup c_InitParamHostPort p = Some hp -> lookup c_InitParamProcessName p = Some pn ->
  exists pi, parse_remote_peer p addr = inr pi /\
    (ephemeral_hp hp -> pi_hostport pi = addr /\ pi_ephemeral pi = true) /\
    (~ ephemeral_hp hp -> pi_hostport pi = hp /\ pi_ephemeral pi = false).
Proof.
  intros H1 H2. unfold parse_remote_peer. rewrite H1, H2. eexists. split; [reflexivity|].
  cbn [pi_hostport pi_ephemeral]. destruct (is_ephemeral hp) eqn:E.
  - split; [auto|]. intros Hn. exfalso. apply Hn. apply is_ephemeral_spec. exact E.
  - split; [|auto]. intros He. apply is_ephemeral_spec in He. congruence.
Qed.

(* [2001:db8:0:1::5]:4040 *)
Definition hp_v6_zero_group : list Z := [91; 50; 48; 48; 49; 58; 100; 98; 56; 58; 48; 58; 49; 58; 58; 53; 93; 58; 52; 48; 52; 48].
(* [fd00:0:0:1::2]:21300 *)
Definition hp_v6_ula : list Z := [91; 102; 100; 48; 48; 58; 48; 58; 48; 58; 49; 58; 58; 50; 93; 58; 50; 49; 51; 48; 48].
(* 10.0.0.7:0x *)
Definition hp_port_0x : list Z := [49; 48; 46; 48; 46; 48; 46; 55; 58; 48; 120].
(* 10.0.0.7:01 *)
Definition hp_port_01 : list Z := [49; 48; 46; 48; 46; 48; 46; 55; 58; 48; 49].
(* h:0:1 *)
Definition hp_colon0_inside : list Z := [104; 58; 48; 58; 49].
(* [2001:db8:0:1::5]:0 *)
Definition hp_v6_port0 : list Z := [91; 50; 48; 48; 49; 58; 100; 98; 56; 58; 48; 58; 49; 58; 58; 53; 93; 58; 48].
(* host:0 *)
Definition hp_host_port0 : list Z := [104; 111; 115; 116; 58; 48].

Lemma not_eph hp : is_ephemeral hp = false -> ~ ephemeral_hp hp.
Proof. intros E H. apply is_ephemeral_spec in H. congruence. Qed.

(* listening peers: kept under the announced host:port *)
Lemma odd_hostports_listen :
  ~ ephemeral_hp hp_v6_zero_group /\ ~ ephemeral_hp hp_v6_ula /\ ~ ephemeral_hp hp_port_0x /\
  ~ ephemeral_hp hp_port_01 /\ ~ ephemeral_hp hp_colon0_inside.
Proof. repeat split; apply not_eph; vm_compute; reflexivity. Qed.

(* port 0: identified by the socket address *)
Lemma port0_hostports_ephemeral :
  ephemeral_hp hp_v6_port0 /\ ephemeral_hp hp_host_port0 /\ ephemeral_hp [].
Proof. repeat split; apply is_ephemeral_spec; vm_compute; reflexivity. Qed.
