(* C09: the relay site tables go2v regenerates from relay.go on every run (Gen/GenRelaySites.v)
   are the model's (Model/RelaySites.v), and the model's lookup / decrement instructions behave as
   the rows say.  An edit of a stopTimeout argument, a new Get or Stop site, a decrement of
   Relayer.pending outside decrementPending, or a change of decrementPending's body changes a
   generated table and breaks a proof of this file. *)
From Coq Require Import ZArith List Bool Lia String.
From Verif Require Import Base.Wrap Gen.GenConsts Gen.GenFrame Gen.GenRelaySites Model.RelayItems Model.RelaySites
  Proofs.RelayAssocP.
Import ListNotations.
Local Open Scope Z_scope.

(* ---------------------------------------------------------------- the tables *)

Lemma gen_get_sites : relay_get_sites = rs_get_rows.
Proof. vm_compute. reflexivity. Qed.
Lemma gen_stop_sites : relay_stop_sites = rs_stop_rows.
Proof. vm_compute. reflexivity. Qed.
Lemma gen_pending_sites : relay_pending_sites = rs_pending_rows.
Proof. vm_compute. reflexivity. Qed.
Lemma gen_decbody : relay_decpending_body = rs_decbody_rows.
Proof. vm_compute. reflexivity. Qed.
Lemma gen_deccalls : relay_decpending_calls = rs_deccall_rows.
Proof. vm_compute. reflexivity. Qed.
Lemma gen_checkex : relay_checkex_sites = rs_checkex_rows.
Proof. vm_compute. reflexivity. Qed.

Lemma gen_get_body : relay_get_body = rs_getbody_rows.
Proof. vm_compute. reflexivity. Qed.
Lemma gen_deletetomb_body : relay_deletetomb_body = rs_tombbody_rows.
Proof. vm_compute. reflexivity. Qed.
Lemma gen_gc_sites : relay_gc_sites = rs_gc_rows.
Proof. vm_compute. reflexivity. Qed.

Lemma gen_deletecall_body : relay_deletecall_body = rs_dcbody_rows.
Proof. vm_compute. reflexivity. Qed.
Lemma gen_finish_sites : relay_finish_sites = rs_finish_rows.
Proof. vm_compute. reflexivity. Qed.
Lemma gen_delete_sites : relay_delete_sites = rs_delete_rows.
Proof. vm_compute. reflexivity. Qed.

(* the model's relayItems.deleteCall, case by case as its rows read *)
Lemma items_delete_call_rows : forall (st : state) (t : key) (lk : Z * Z),
  match lookup key_eqb t (items st) with
  | None => items_delete_call st t lk = (st, None)
  | Some it =>
      if (it_dest it =? fst lk) && (it_remap it =? snd lk)
      then items_delete_call st t lk =
             (timer_release (set_items st (remove key_eqb t (items st))) (it_tm it), Some (it, negb (it_tomb it)))
      else items_delete_call st t lk = (st, None)
  end.
Proof.
  intros st t lk. unfold items_delete_call, items_delete. destruct (lookup key_eqb t (items st)) as [it|] eqn:E; [|reflexivity].
  destruct ((it_dest it =? fst lk) && (it_remap it =? snd lk)); reflexivity.
Qed.

(* where the model's finishes get the looked-up identity from: Receive's from the item IRcvChk
   holds, handleNonCallReq's from the caller's own item (the frame went to its destination relayer
   under its destination-side id) *)
Lemma finish_identity_model : forall cf st room,
  (forall r rk it s, it_tomb it || (fin_of (r_f r) && negb s) = false ->
     exists cbs, snd (exec cf st (IRcvChk r rk (Some (it, s))) room) = cbs ++ [IRcvEnq r rk (it_dest it, it_remap it)]) /\
  (forall r rk lk, fin_of (r_f r) = true ->
     snd (exec cf st (IRcvEnq r rk lk) true) = IDelete rk lk :: after_sent r) /\
  (forall r, fin_of (r_f r) = true -> exists tl, after_sent r = IDelete (r_own r) (r_d r, f_id (r_f r)) :: tl) /\
  (forall k f ft own it s, it_tomb it || (fin_of f && negb s) = false ->
     exists cbs r, snd (exec cf st (INcChk k f ft own (Some (it, s))) room) = cbs ++ [IRcvGet r] /\
       r_own r = own /\ (r_d r, f_id (r_f r)) = (it_dest it, it_remap it)).
Proof.
  intros cf st room. split; [|split; [|split]].
  - intros r rk it s H. cbn [exec]. rewrite H. cbn [snd]. eexists. reflexivity.
  - intros r rk lk H. cbn [exec snd]. rewrite H. reflexivity.
  - intros r H. unfold after_sent. rewrite H. eexists. reflexivity.
  - intros k f ft own it s H. cbn [exec]. rewrite H. cbn [snd].
    eexists (_ ++ [_]). eexists. split; [rewrite <- app_assoc; reflexivity|]. split; reflexivity.
Qed.

(* the model's relayItems.Get and relayItems.deleteTomb, case by case as the rows read *)
Lemma items_get_cases : forall (st : state) (t : key) (stop : bool),
  match lookup key_eqb t (items st) with
  | None => items_get st t stop = (st, None)
  | Some it =>
      if stop then items_get st t stop = (fst (timer_stop st (it_tm it)), Some (it, snd (timer_stop st (it_tm it))))
      else items_get st t stop = (st, Some (it, false))
  end.
Proof.
  intros st t stop. unfold items_get. destruct (lookup key_eqb t (items st)) as [it|]; [|reflexivity].
  destruct stop; [|reflexivity]. destruct (timer_stop st (it_tm it)). reflexivity.
Qed.

Lemma items_delete_tomb_cases : forall st t,
  match lookup key_eqb t (items st) with
  | None => items_delete_tomb st t = st
  | Some it =>
      if it_tomb it then items_delete_tomb st t = timer_release (set_items st (remove key_eqb t (items st))) (it_tm it)
      else items_delete_tomb st t = st
  end.
Proof.
  intros st t. unfold items_delete_tomb. destruct (lookup key_eqb t (items st)) as [it|]; [|reflexivity].
  destruct (it_tomb it); reflexivity.
Qed.

(* ---------------------------------------------------------------- stopTimeout per Get site *)

Definition fn_getDestination := rs_s2z "Relayer.getDestination".
Definition fn_handleNonCallReq := rs_s2z "Relayer.handleNonCallReq".
Definition fn_Receive := rs_s2z "Relayer.Receive".
Definition fn_failRelayItem := rs_s2z "Relayer.failRelayItem".
Definition fn_decrementPending := rs_s2z "Relayer.decrementPending".

Lemma get_sites_flags : forall fin,
  site_stop relay_get_sites fn_getDestination fin = Some false /\
  site_stop relay_get_sites fn_handleNonCallReq fin = Some fin /\
  site_stop relay_get_sites fn_Receive fin = Some fin /\
  site_stop relay_get_sites fn_failRelayItem fin = Some true.
Proof. intro fin. rewrite gen_get_sites. destruct fin; vm_compute; repeat split; reflexivity. Qed.

(* getDestination's continuation as a function of what its Get returned *)
Definition getdest_via (k : Z) (f : frame) (e : env) (c : Z) (r : state * option (item * bool)) : state * list instr :=
  let '(st', g) := r in
  match g with
  | Some _ => (st', [ICb c (CbFailed reason_duplicate); IDec k; ICb c CbEnd])
  | None =>
      if e_dest e =? -1 then
        (st', [ICb c (CbFailed reason_bad_host); ISendErr k (f_id f) c_ErrCodeDeclined; IDec k; ICb c CbEnd])
      else if e_dest e <? 0 then
        (st', [ICb c (CbFailed reason_conn_failed); ISendErr k (f_id f) c_ErrCodeNetwork; IDec k; ICb c CbEnd])
      else (st', [IRemoteCan k f e c (e_dest e)])
  end.

(* the four lookup instructions of the model call items_get with the flag of their row *)
Theorem get_sites_tie : forall cf st room,
  (forall k f e c b, site_stop relay_get_sites fn_getDestination (fin_of f) = Some b ->
     exec cf st (IGetDest k f e c) room = getdest_via k f e c (items_get st (k, 0, f_id f) b)) /\
  (forall k f ft b, site_stop relay_get_sites fn_handleNonCallReq (fin_of f) = Some b ->
     frameTypeFor (f_mt f) = Some ft ->
     exec cf st (INcGet k f) room =
       (let own := (k, (if ft =? c_responseFrame then 1 else 0), f_id f) in
        let '(st', g) := items_get st own b in (st', [INcChk k f ft own g]))) /\
  (forall r b, site_stop relay_get_sites fn_Receive (fin_of (r_f r)) = Some b ->
     exec cf st (IRcvGet r) room =
       (let rk := (r_d r, (if r_ft r =? c_requestFrame then 1 else 0), f_id (r_f r)) in
        let '(st', g) := items_get st rk b in (st', [IRcvChk r rk g]))) /\
  (forall t reason b fin, site_stop relay_get_sites fn_failRelayItem fin = Some b ->
     exec cf st (IFailGet t reason) room =
       (let '(st', g) := items_get st t b in
        match g with Some (_, true) => (st', [IEntomb t (FromFail reason)]) | _ => (st', []) end)).
Proof.
  intros cf st room. split; [|split; [|split]].
  - intros k f e c b Hb. destruct (get_sites_flags (fin_of f)) as (H1&_). rewrite H1 in Hb. inversion Hb. subst b.
    cbn [exec]. unfold items_get, getdest_via. destruct (lookup key_eqb (k, 0, f_id f) (items st)); reflexivity.
  - intros k f ft b Hb Hft. destruct (get_sites_flags (fin_of f)) as (_&H2&_). rewrite H2 in Hb. inversion Hb. subst b.
    cbn [exec]. rewrite Hft. reflexivity.
  - intros r b Hb. destruct (get_sites_flags (fin_of (r_f r))) as (_&_&H3&_). rewrite H3 in Hb. inversion Hb. subst b.
    reflexivity.
  - intros t reason b fin Hb. destruct (get_sites_flags fin) as (_&_&_&H4). rewrite H4 in Hb. inversion Hb. subst b.
    reflexivity.
Qed.

(* THE DUPLICATE CHECK: a call req whose id has an item -- live or tombstone -- is rejected and
   the step changes NOTHING: not the item, not its timer (armed stays armed, so the timeout of
   the call in flight under that id still fires), not the counters *)
Theorem duplicate_touches_nothing : forall cf st k f e c room it,
  lookup key_eqb (k, 0, f_id f) (items st) = Some it ->
  exec cf st (IGetDest k f e c) room = (st, [ICb c (CbFailed reason_duplicate); IDec k; ICb c CbEnd]).
Proof. intros cf st k f e c room it H. cbn [exec]. rewrite H. reflexivity. Qed.

(* relayTimer.Stop is called from relayItems.Get only: the flag of a row is the only way a
   frame path stops a timer.  In the model: a lookup with flag false leaves the state alone. *)
Lemma items_get_false : forall st t, fst (items_get st t false) = st.
Proof. intros st t. unfold items_get. destruct (lookup key_eqb t (items st)); reflexivity. Qed.

(* ---------------------------------------------------------------- Relayer.pending *)

Lemma pending_discipline_gen : pending_discipline relay_pending_sites = true.
Proof. vm_compute. reflexivity. Qed.

Lemma decbody_gen : decbody_ok relay_decpending_body = true.
Proof. vm_compute. reflexivity. Qed.

(* the consequence spelled out: every row that decrements (or otherwise writes) the counter is
   in decrementPending, whose body is exactly the decrement followed by the close check *)
Theorem every_decrement_checks : forall fn op grd,
  In (fn, op, grd) relay_pending_sites -> pending_mutates op = true ->
  fn = rs_s2z "Relayer.decrementPending" /\
  relay_decpending_body = [rs_s2z "r.pending.Dec()"; rs_s2z "r.conn.checkExchanges()"].
Proof.
  intros fn op grd Hin Hm. split; [|exact gen_decbody].
  pose proof pending_discipline_gen as H. unfold pending_discipline in H. rewrite forallb_forall in H.
  specialize (H _ Hin). cbn [fst snd] in H. rewrite Hm in H. apply andb_true_iff in H. destruct H as [H _].
  apply bytes_eqb_eq. exact H.
Qed.

(* the model's decrementPending: the decrement, then the close check by the same goroutine *)
Theorem dec_then_check : forall cf st k room,
  exec cf st (IDec k) room =
    (put_conn st k {| c_state := c_state (get_conn st k); c_pending := wrapU 32 (c_pending (get_conn st k) - 1);
                      c_nextid := c_nextid (get_conn st k) |}, [ICheck k]).
Proof. reflexivity. Qed.

(* the model's callers of decrementPending = the four rows of relay_decpending_calls:
   handleCallReq's rejection branch (every rejection of getDestination and of the remote
   admission), timeoutRelayItem / failRelayItem (a completed Entomb), finishRelayItem (a completed
   Delete).  Each pushes exactly one IDec of the connection, after the call.Failed report. *)
Fixpoint count_dec (k : Z) (code : list instr) : Z :=
  match code with
  | [] => 0
  | IDec k' :: r => (if k' =? k then 1 else 0) + count_dec k r
  | _ :: r => count_dec k r
  end.

Theorem dec_sites_model : forall cf st room,
  (forall k f e c, snd (exec cf st (IGetDest k f e c) room) = [IRemoteCan k f e c (e_dest e)] \/
                   count_dec k (snd (exec cf st (IGetDest k f e c) room)) = 1) /\
  (forall k f e c d, snd (exec cf st (IRemoteCan k f e c d) room) = [IAddDest k f e c d] \/
                     count_dec k (snd (exec cf st (IRemoteCan k f e c d) room)) = 1) /\
  (forall t s, match snd (items_entomb cf st t) with
               | Some (_, true) => count_dec (key_conn t) (snd (exec cf st (IEntomb t s) room)) = 1
               | _ => snd (exec cf st (IEntomb t s) room) = []
               end) /\
  (forall t lk, match snd (items_delete_call st t lk) with
             | Some (_, true) => count_dec (key_conn t) (snd (exec cf st (IDelete t lk) room)) = 1
             | _ => snd (exec cf st (IDelete t lk) room) = []
             end).
Proof.
  intros cf st room. split; [|split; [|split]].
  - intros k f e c. cbn [exec]. destruct (lookup key_eqb (k, 0, f_id f) (items st)); [right; cbn; rewrite Z.eqb_refl; reflexivity|].
    destruct (e_dest e =? -1); [right; cbn; rewrite Z.eqb_refl; reflexivity|].
    destruct (e_dest e <? 0); [right; cbn; rewrite Z.eqb_refl; reflexivity|left; reflexivity].
  - intros k f e c d. cbn [exec]. destruct (c_state (get_conn st d) =? c_connectionActive); [left; reflexivity|].
    right. cbn. rewrite Z.eqb_refl. reflexivity.
  - intros t s. cbn [exec]. destruct (items_entomb cf st t) as [st' g]. cbn [snd].
    destruct g as [[it [|]]|]; try reflexivity. cbn [snd].
    assert (G : forall l, (forall j, In j l -> match j with IDec _ => False | _ => True end) ->
                count_dec (key_conn t) (l ++ [IDec (key_conn t)]) = 1).
    { induction l as [|j r IH]; intro Hl; [cbn; rewrite Z.eqb_refl; reflexivity|].
      cbn [app]. specialize (Hl j (or_introl eq_refl)) as Hj. destruct j; try contradiction;
        cbn [count_dec]; apply IH; intros j0 Hj0; apply Hl; right; exact Hj0. }
    apply G. intros j Hj. destruct (match s with FromFail _ => it_orig it | FromTimeout o => o end); [|contradiction].
    unfold orig_tail in Hj. destruct s.
    + apply in_app_or in Hj. destruct Hj as [Hj|Hj].
      * destruct (reason =? reason_source_slow); [contradiction|]. destruct Hj as [<-|[]]. exact I.
      * destruct Hj as [<-|[<-|[]]]; exact I.
    + destruct Hj as [<-|[<-|[<-|[]]]]; exact I.
  - intros t lk. cbn [exec]. destruct (items_delete_call st t lk) as [st' g]. cbn [snd].
    destruct g as [[it [|]]|]; try reflexivity. cbn [snd].
    destruct (it_orig it); cbn; rewrite Z.eqb_refl; reflexivity.
Qed.
