(* Proofs about Model/PeerHeap.v: the container/heap algorithms preserve
   - the length, the back-pointers ([idx_ok]) and the multiset of elements (modulo index),
   - heap validity for ANY edge relation [ek] on (score, order) keys that is implied by
     "not less" and is transitive (section Generic).  Instances: the score order
     (used for minimality of the selection) and the "big elements are ordered" relation
     used by the fairness proof. *)
From Coq Require Import ZArith List Bool Arith Lia ZifyNat ZifyBool Permutation.
From Verif Require Import Base.Wrap Model.PeerHeap.
Import ListNotations.
Ltac Zify.zify_post_hook ::= Z.to_euclidean_division_equations.

Local Open Scope nat_scope.

(* ---------------------------------------------------------------- keys *)
Definition key (x : pscore) : Z * Z := (ps_score x, ps_order x).
Definition kless (a b : Z * Z) : bool :=
  if (fst a =? fst b)%Z then (snd a <? snd b)%Z else (fst a <? fst b)%Z.
Definition ident (x : pscore) : list Z * Z * Z := (ps_hp x, ps_score x, ps_order x).

Lemma pless_kless a b : pless a b = kless (key a) (key b).
Proof. reflexivity. Qed.
Lemma key_set_index x i : key (set_index x i) = key x.
Proof. reflexivity. Qed.
Lemma ident_set_index x i : ident (set_index x i) = ident x.
Proof. reflexivity. Qed.
Lemma hp_set_index x i : ps_hp (set_index x i) = ps_hp x.
Proof. reflexivity. Qed.

Lemma kless_asym a b : kless a b = true -> kless b a = false.
Proof. unfold kless; destruct a as [a1 a2], b as [b1 b2]; cbn [fst snd]; intros H.
  destruct (Z.eqb_spec a1 b1), (Z.eqb_spec b1 a1); lia. Qed.
Lemma kle_trans a b c : kless b a = false -> kless c b = false -> kless c a = false.
Proof. unfold kless; destruct a as [a1 a2], b as [b1 b2], c as [c1 c2]; cbn [fst snd]; intros H1 H2.
  destruct (Z.eqb_spec b1 a1), (Z.eqb_spec c1 b1), (Z.eqb_spec c1 a1); lia. Qed.
Lemma kless_irrefl a : kless a a = false.
Proof. unfold kless; destruct a; cbn [fst snd]. rewrite Z.eqb_refl. lia. Qed.

(* ---------------------------------------------------------------- lists *)
Lemma length_set_nth {A} (h : list A) i x : length (set_nth h i x) = length h.
Proof. revert i; induction h as [|y h IH]; intros [|i]; cbn; auto. Qed.

Lemma nth_set_nth_eq {A} (h : list A) i x d : i < length h -> nth i (set_nth h i x) d = x.
Proof. revert i; induction h as [|y h IH]; intros [|i] Hi; cbn in *; try lia; auto. apply IH; lia. Qed.

Lemma nth_set_nth_neq {A} (h : list A) i k x d : i <> k -> nth k (set_nth h i x) d = nth k h d.
Proof.
  revert i k; induction h as [|y h IH]; intros [|i] [|k] Hik; cbn; auto; try lia.
Qed.

Lemma map_set_nth {A B} (f : A -> B) (h : list A) i x : map f (set_nth h i x) = set_nth (map f h) i (f x).
Proof. revert i; induction h as [|y h IH]; intros [|i]; cbn; auto. f_equal; apply IH. Qed.

Lemma perm_set_nth {A} (d : A) (l : list A) i x : i < length l ->
  Permutation (x :: l) (nth i l d :: set_nth l i x).
Proof.
  revert i; induction l as [|y l IH]; intros [|i] Hi; cbn in *; try lia.
  - apply perm_swap.
  - eapply perm_trans; [apply perm_swap|].
    eapply perm_trans; [apply perm_skip, (IH i); lia|]. apply perm_swap.
Qed.

Lemma set_nth_same {A} (d : A) (l : list A) i : set_nth l i (nth i l d) = l.
Proof. revert i; induction l as [|y l IH]; intros [|i]; cbn; auto. f_equal; apply IH. Qed.

(* ---------------------------------------------------------------- hget / hswap *)
Lemma hget_set_eq h i x : i < length h -> hget (set_nth h i x) i = x.
Proof. apply nth_set_nth_eq. Qed.
Lemma hget_set_neq h i k x : i <> k -> hget (set_nth h i x) k = hget h k.
Proof. apply nth_set_nth_neq. Qed.

Lemma length_hswap h i j : length (hswap h i j) = length h.
Proof. unfold hswap; now rewrite !length_set_nth. Qed.

Lemma hget_hswap h i j k : i < length h -> j < length h ->
  hget (hswap h i j) k =
    if k =? j then set_index (hget h i) (Z.of_nat j)
    else if k =? i then set_index (hget h j) (Z.of_nat i)
    else hget h k.
Proof.
  intros Hi Hj. unfold hswap.
  destruct (Nat.eqb_spec k j) as [->|Hkj].
  - rewrite hget_set_eq; [reflexivity|now rewrite length_set_nth].
  - rewrite hget_set_neq by lia.
    destruct (Nat.eqb_spec k i) as [->|Hki].
    + now rewrite hget_set_eq.
    + now rewrite hget_set_neq by lia.
Qed.

Lemma key_hswap h i j k : i < length h -> j < length h ->
  key (hget (hswap h i j) k) = if k =? j then key (hget h i) else if k =? i then key (hget h j) else key (hget h k).
Proof.
  intros Hi Hj. rewrite hget_hswap by assumption.
  destruct (k =? j); [reflexivity|]. destruct (k =? i); reflexivity.
Qed.

Lemma hswap_perm h i j : i < length h -> j < length h ->
  Permutation (map ident (hswap h i j)) (map ident h).
Proof.
  intros Hi Hj. unfold hswap. rewrite !map_set_nth, !ident_set_index.
  set (l := map ident h). set (d := ident ps_dflt).
  assert (Hl : length l = length h) by (unfold l; now rewrite map_length).
  assert (Ea : ident (hget h i) = nth i l d) by (unfold l, d, hget; now rewrite map_nth).
  assert (Eb : ident (hget h j) = nth j l d) by (unfold l, d, hget; now rewrite map_nth).
  rewrite Ea, Eb.
  set (l' := set_nth l i (nth j l d)).
  assert (P1 : Permutation (nth j l d :: l) (nth i l d :: l')) by (apply perm_set_nth; lia).
  assert (P2 : Permutation (nth i l d :: l') (nth j l' d :: set_nth l' j (nth i l d))).
  { apply perm_set_nth. unfold l'. rewrite length_set_nth. lia. }
  assert (E : nth j l' d = nth j l d).
  { unfold l'. destruct (Nat.eq_dec i j) as [->|Hne].
    - rewrite nth_set_nth_eq by lia. reflexivity.
    - now rewrite nth_set_nth_neq by lia. }
  rewrite E in P2.
  apply Permutation_sym. eapply Permutation_cons_inv. eapply perm_trans; [exact P1|exact P2].
Qed.

(* ---------------------------------------------------------------- back-pointers *)
Definition idx_ok (h : list pscore) : Prop :=
  forall k, k < length h -> ps_index (hget h k) = Z.of_nat k.

Lemma idx_ok_hswap h i j : i < length h -> j < length h -> idx_ok h -> idx_ok (hswap h i j).
Proof.
  intros Hi Hj H k Hk. rewrite length_hswap in Hk. rewrite hget_hswap by assumption.
  destruct (Nat.eqb_spec k j) as [->|]; [reflexivity|].
  destruct (Nat.eqb_spec k i) as [->|]; [reflexivity|]. now apply H.
Qed.

(* structural facts preserved by every heap routine *)
Record same (h h' : list pscore) : Prop := {
  same_len : length h' = length h;
  same_idx : idx_ok h -> idx_ok h';
  same_perm : Permutation (map ident h') (map ident h) }.

Lemma same_refl h : same h h.
Proof. split; auto. Qed.
Lemma same_trans a b c : same a b -> same b c -> same a c.
Proof.
  intros [L1 I1 P1] [L2 I2 P2]. split; [congruence|auto|].
  eapply perm_trans; eauto.
Qed.
Lemma same_hswap h i j : i < length h -> j < length h -> same h (hswap h i j).
Proof. intros Hi Hj. split; [apply length_hswap|now apply idx_ok_hswap|now apply hswap_perm]. Qed.

Definition par (k : nat) : nat := (k - 1) / 2.

Lemma hup_same fuel : forall h j, j < length h -> same h (hup fuel h j).
Proof.
  induction fuel as [|f IH]; intros h j Hj; cbn [hup]; [apply same_refl|].
  destruct (_ || _); [apply same_refl|].
  assert (Hi : (j - 1) / 2 < length h) by lia.
  eapply same_trans; [apply (same_hswap h ((j - 1) / 2) j); assumption|].
  apply IH. now rewrite length_hswap.
Qed.

Lemma hdown_same fuel : forall h i n, n <= length h -> same h (fst (hdown fuel h i n)).
Proof.
  induction fuel as [|f IH]; intros h i n Hn; cbn [hdown]; [apply same_refl|].
  destruct (n <=? 2 * i + 1) eqn:E1; [apply same_refl|]. assert (Hi : i < n) by lia.
  set (j := pick_child h (2 * i + 1) n).
  assert (Hj : j < n) by (unfold j, pick_child; destruct (2 * i + 1 + 1 <? n) eqn:E2; cbn; [destruct (pless _ _)|]; lia).
  destruct (negb _); [apply same_refl|].
  eapply same_trans; [apply (same_hswap h i j); lia|].
  apply IH; now rewrite length_hswap.
Qed.

(* positions at or beyond the range are not touched by down *)
Lemma hdown_outside fuel : forall h i n k, n <= length h -> n <= k ->
  hget (fst (hdown fuel h i n)) k = hget h k.
Proof.
  induction fuel as [|f IH]; intros h i n k Hn Hk; cbn [hdown]; [reflexivity|].
  destruct (n <=? 2 * i + 1) eqn:E1; [reflexivity|]. assert (Hi : i < n) by lia.
  set (j := pick_child h (2 * i + 1) n).
  assert (Hj : j < n) by (unfold j, pick_child; destruct (2 * i + 1 + 1 <? n) eqn:E2; cbn; [destruct (pless _ _)|]; lia).
  destruct (negb _); [reflexivity|].
  rewrite IH by (try rewrite length_hswap; lia).
  rewrite hget_hswap by lia.
  destruct (Nat.eqb_spec k j); [lia|]. destruct (Nat.eqb_spec k i); [lia|]. reflexivity.
Qed.

Lemma hdown_ge fuel : forall h i n, i <= snd (hdown fuel h i n).
Proof.
  induction fuel as [|f IH]; intros h i n; cbn [hdown]; [cbn; lia|].
  destruct (n <=? 2 * i + 1) eqn:E1; [cbn; lia|].
  set (j := pick_child h (2 * i + 1) n).
  assert (Hj : i < j) by (unfold j, pick_child; destruct (_ && _); lia).
  destruct (negb _); [cbn; lia|].
  specialize (IH (hswap h i j) j n). lia.
Qed.

(* up only touches positions <= j *)
Lemma hup_outside fuel : forall h j k, j < length h -> j < k -> hget (hup fuel h j) k = hget h k.
Proof.
  induction fuel as [|f IH]; intros h j k Hj Hk; cbn [hup]; [reflexivity|].
  destruct (_ || _); [reflexivity|].
  rewrite IH by (try rewrite length_hswap; lia).
  rewrite hget_hswap by lia.
  destruct (Nat.eqb_spec k j); [lia|]. destruct (Nat.eqb_spec k ((j - 1) / 2)); [lia|]. reflexivity.
Qed.

Ltac plia := unfold par in *; lia.

Lemma pick_child_spec h j1 n : j1 < n ->
  let j := pick_child h j1 n in
  (j = j1 \/ (j = j1 + 1 /\ j1 + 1 < n)) /\
  kless (key (hget h j1)) (key (hget h j)) = false /\
  (j1 + 1 < n -> kless (key (hget h (j1 + 1))) (key (hget h j)) = false).
Proof.
  intros Hj1. unfold pick_child.
  destruct (Nat.ltb_spec (j1 + 1) n) as [Hlt|Hge]; cbn [andb].
  - destruct (pless (hget h (j1 + 1)) (hget h j1)) eqn:E; rewrite pless_kless in E.
    + split; [right; lia|]. split; [now apply kless_asym|]. intros _. apply kless_irrefl.
    + split; [left; reflexivity|]. split; [apply kless_irrefl|]. intros _. exact E.
  - split; [left; reflexivity|]. split; [apply kless_irrefl|]. lia.
Qed.

(* ---------------------------------------------------------------- heap validity, generic in the edge relation *)
Section Generic.
Variable ek : Z * Z -> Z * Z -> Prop.
Hypothesis ek_le : forall a b, kless b a = false -> ek a b.
Hypothesis ek_trans : forall a b c, ek a b -> ek b c -> ek a c.

Lemma ek_lt a b : kless a b = true -> ek a b.
Proof. intros H; apply ek_le, kless_asym, H. Qed.

Definition edge (h : list pscore) (k : nat) : Prop := ek (key (hget h (par k))) (key (hget h k)).
Definition valid (h : list pscore) (n : nat) : Prop := forall k, 0 < k < n -> edge h k.

Definition up_pre (h : list pscore) (j n : nat) : Prop :=
  (forall k, 0 < k < n -> k <> j -> edge h k) /\
  (0 < j -> forall c, 0 < c < n -> par c = j -> ek (key (hget h (par j))) (key (hget h c))).

Ltac khs := rewrite !key_hswap by plia;
  repeat match goal with |- context [Nat.eqb ?a ?b] => destruct (Nat.eqb_spec a b); try plia end.

Lemma hup_valid fuel : forall h j n, n <= length h -> j < n -> j < fuel -> up_pre h j n ->
  valid (hup fuel h j) n.
Proof.
  induction fuel as [|f IH]; intros h j n Hn Hj Hf [Ha Hb]; [lia|].
  cbn [hup]. fold (par j).
  destruct (Nat.eqb_spec (par j) j) as [E0|E0]; cbn [orb].
  { intros k Hk. apply Ha; [exact Hk|plia]. }
  destruct (pless (hget h j) (hget h (par j))) eqn:E; cbn [negb]; rewrite pless_kless in E.
  2:{ intros k Hk. destruct (Nat.eq_dec k j) as [->|Hkj]; [apply ek_le, E|now apply Ha]. }
  assert (Hij : par j < j) by plia.
  apply IH; [now rewrite length_hswap|lia|lia|].
  split.
  - intros k Hk Hki. unfold edge.
    destruct (Nat.eq_dec k j) as [->|Hkj].
    { khs. now apply ek_lt. }
    destruct (Nat.eq_dec (par k) (par j)) as [Es|Es].
    { khs. eapply ek_trans; [apply ek_lt, E|]. rewrite <- Es. apply Ha; assumption. }
    destruct (Nat.eq_dec (par k) j) as [Ec|Ec].
    { khs. apply Hb; [plia|exact Hk|exact Ec]. }
    khs. apply Ha; assumption.
  - intros Hi c Hc Hpc.
    assert (Ei : edge h (par j)) by (apply Ha; plia).
    destruct (Nat.eq_dec c j) as [->|Hcj].
    { khs. exact Ei. }
    khs. eapply ek_trans; [exact Ei|]. rewrite <- Hpc. apply Ha; assumption.
Qed.

Definition down_pre (h : list pscore) (i n : nat) : Prop :=
  (forall k, 0 < k < n -> k <> i -> par k <> i -> edge h k) /\
  (0 < i -> forall c, 0 < c < n -> par c = i -> ek (key (hget h (par i))) (key (hget h c))).

Lemma hdown_valid fuel : forall h i n, n <= length h -> i < n -> n <= i + fuel -> down_pre h i n ->
  (snd (hdown fuel h i n) = i -> fst (hdown fuel h i n) = h /\ forall c, 0 < c < n -> par c = i -> edge h c) /\
  (snd (hdown fuel h i n) <> i -> valid (fst (hdown fuel h i n)) n).
Proof.
  induction fuel as [|f IH]; intros h i n Hn Hi Hf [Ha Hb]; [lia|].
  cbn [hdown].
  destruct (Nat.leb_spec n (2 * i + 1)) as [Hle|Hgt].
  { cbn [fst snd]. split; [|congruence]. intros _. split; [reflexivity|]. intros c Hc Hp. plia. }
  pose proof (pick_child_spec h (2 * i + 1) n Hgt) as Hpc. cbv zeta in Hpc.
  set (j := pick_child h (2 * i + 1) n) in *.
  destruct Hpc as (Hj & Hm1 & Hm2).
  assert (Hjn : j < n) by lia. assert (Hij : i < j) by lia.
  assert (Hmin : forall c, 0 < c < n -> par c = i -> kless (key (hget h c)) (key (hget h j)) = false).
  { intros c Hc Hp. assert (Hc' : c = 2 * i + 1 \/ c = 2 * i + 1 + 1) by plia.
    destruct Hc' as [->| ->]; [exact Hm1|apply Hm2; lia]. }
  destruct (pless (hget h j) (hget h i)) eqn:E; cbn [negb]; rewrite pless_kless in E.
  2:{ cbn [fst snd]. split; [|congruence]. intros _. split; [reflexivity|].
      intros c Hc Hp. unfold edge. rewrite Hp. apply ek_le.
      eapply kle_trans; [exact E|]. now apply Hmin. }
  assert (Hpj : par j = i) by plia.
  assert (Hpre : down_pre (hswap h i j) j n).
  { split.
    - intros k Hk Hkj Hpk. unfold edge.
      destruct (Nat.eq_dec k i) as [->|Hki].
      { khs. apply Hb; [lia|lia|exact Hpj]. }
      destruct (Nat.eq_dec (par k) i) as [Es|Es].
      { khs. apply ek_le. now apply Hmin. }
      khs. apply Ha; assumption.
    - intros _ c Hc Hp. khs. rewrite <- Hp. apply Ha; plia. }
  specialize (IH (hswap h i j) j n).
  rewrite length_hswap in IH. specialize (IH Hn Hjn ltac:(lia) Hpre).
  pose proof (hdown_ge f (hswap h i j) j n) as Hge.
  destruct IH as [IH1 IH2].
  split; [intros Hs; lia|]. intros _.
  destruct (Nat.eq_dec (snd (hdown f (hswap h i j) j n)) j) as [Es|Es]; [|now apply IH2].
  destruct (IH1 Es) as [Eh Hout]. rewrite Eh.
  intros k Hk.
  destruct (Nat.eq_dec (par k) j) as [Epk|Epk]; [now apply Hout|].
  destruct (Nat.eq_dec k j) as [->|Hkj].
  { unfold edge. khs. now apply ek_lt. }
  apply (proj1 Hpre); assumption.
Qed.

(* valid prefix only depends on the prefix *)
Lemma valid_ext h h' n : (forall k, k < n -> hget h' k = hget h k) -> valid h n -> valid h' n.
Proof.
  intros He Hv k Hk. unfold edge. rewrite !He by plia. now apply Hv.
Qed.

Lemma valid_le h n m : m <= n -> valid h n -> valid h m.
Proof. intros Hm Hv k Hk. apply Hv. lia. Qed.

(* heap.Push *)
Lemma heap_push_valid h x : valid h (length h) -> valid (heap_push h x) (S (length h)).
Proof.
  intros Hv. unfold heap_push.
  apply hup_valid; [rewrite app_length; cbn; lia|lia|lia|].
  split.
  - intros k Hk Hkn. unfold edge, hget. rewrite !app_nth1 by plia. apply Hv. lia.
  - intros Hn c Hc Hp. plia.
Qed.

(* the part of heap.Fix / heap.Remove after the element at i changed *)
Definition fix_pre (h : list pscore) (i n : nat) : Prop := down_pre h i n.

Lemma fix_valid h i n : n <= length h -> i < n -> fix_pre h i n ->
  let r := hdown (S n) h i n in
  valid (if i <? snd r then fst r else hup (S n) (fst r) i) n.
Proof.
  intros Hn Hi Hpre. cbv zeta.
  pose proof (hdown_valid (S n) h i n Hn Hi ltac:(lia) Hpre) as [H1 H2].
  pose proof (hdown_ge (S n) h i n) as Hge.
  destruct (Nat.ltb_spec i (snd (hdown (S n) h i n))) as [Hlt|Hnlt].
  - apply H2. lia.
  - destruct (H1 ltac:(lia)) as [Eh Hout]. rewrite Eh.
    apply hup_valid; [exact Hn|exact Hi|lia|].
    destruct Hpre as [Ha Hb]. split.
    + intros k Hk Hki. destruct (Nat.eq_dec (par k) i) as [Ep|Ep]; [now apply Hout|now apply Ha].
    + exact Hb.
Qed.

(* replacing the element at i of a valid heap gives the precondition of Fix *)
Lemma fix_pre_of_valid h i n x : n <= length h -> i < n -> valid h n -> fix_pre (set_nth h i x) i n.
Proof.
  intros Hn Hi Hv. split.
  - intros k Hk Hki Hpk. unfold edge. rewrite !hget_set_neq by lia. now apply Hv.
  - intros Hi0 c Hc Hp. rewrite !hget_set_neq by plia.
    eapply ek_trans; [apply (Hv i); lia|]. rewrite <- Hp. apply Hv. lia.
Qed.

End Generic.

(* ---------------------------------------------------------------- the exported heap operations *)
Lemma hget_removelast (h : list pscore) k : k < length h - 1 -> hget (removelast h) k = hget h k.
Proof.
  unfold hget. revert k; induction h as [|y h IH]; intros k Hk; [reflexivity|].
  destruct h as [|z h]; [cbn in Hk; lia|].
  destruct k as [|k]; [reflexivity|].
  change (removelast (y :: z :: h)) with (y :: removelast (z :: h)).
  cbn [nth]. apply IH. cbn [length] in *. lia.
Qed.

Lemma length_removelast (h : list pscore) : length (removelast h) = length h - 1.
Proof.
  induction h as [|y h IH]; [reflexivity|]. destruct h as [|z h]; [reflexivity|].
  change (removelast (y :: z :: h)) with (y :: removelast (z :: h)). cbn [length] in *. lia.
Qed.

Lemma last_hget (h : list pscore) : last h ps_dflt = hget h (length h - 1).
Proof.
  unfold hget. induction h as [|y h IH]; [reflexivity|]. destruct h as [|z h]; [reflexivity|].
  change (last (y :: z :: h) ps_dflt) with (last (z :: h) ps_dflt). rewrite IH.
  cbn [length]. replace (S (S (length h)) - 1) with (S (S (length h) - 1)) by lia. reflexivity.
Qed.

Lemma raw_pop_spec h : h <> [] ->
  length (fst (raw_pop h)) = length h - 1 /\
  (forall k, k < length h - 1 -> hget (fst (raw_pop h)) k = hget h k) /\
  snd (raw_pop h) = set_index (hget h (length h - 1)) (-1) /\
  Permutation (map ident h) (ident (snd (raw_pop h)) :: map ident (fst (raw_pop h))) /\
  (idx_ok h -> idx_ok (fst (raw_pop h))).
Proof.
  intros Hne. unfold raw_pop. cbn [fst snd].
  split; [apply length_removelast|]. split; [intros; now apply hget_removelast|].
  split; [now rewrite last_hget|]. split.
  - rewrite (app_removelast_last ps_dflt Hne) at 1. rewrite map_app. cbn [map].
    rewrite ident_set_index. apply Permutation_sym, Permutation_cons_append.
  - intros Hi k Hk. rewrite length_removelast in Hk. rewrite hget_removelast by lia. apply Hi. lia.
Qed.

Section Ops.
Variable ek : Z * Z -> Z * Z -> Prop.
Hypothesis ek_le : forall a b, kless b a = false -> ek a b.
Hypothesis ek_trans : forall a b c, ek a b -> ek b c -> ek a c.

Lemma heap_push_spec h x :
  length (heap_push h x) = S (length h) /\
  (idx_ok h -> idx_ok (heap_push h x)) /\
  Permutation (map ident (heap_push h x)) (ident x :: map ident h) /\
  (valid ek h (length h) -> valid ek (heap_push h x) (S (length h))).
Proof.
  assert (Hs : same (h ++ [set_index x (Z.of_nat (length h))]) (heap_push h x)).
  { unfold heap_push. apply hup_same. rewrite app_length. cbn. lia. }
  destruct Hs as [L I P]. rewrite app_length in L. cbn [length] in L.
  split; [lia|]. split.
  - intros Hi. apply I. intros k Hk. rewrite app_length in Hk. cbn [length] in Hk. unfold hget.
    destruct (Nat.eq_dec k (length h)) as [->|Hne].
    + rewrite app_nth2 by lia. rewrite Nat.sub_diag. reflexivity.
    + rewrite app_nth1 by lia. apply Hi. lia.
  - split.
    + eapply perm_trans; [exact P|]. rewrite map_app. cbn [map]. rewrite ident_set_index.
      apply Permutation_sym, Permutation_cons_append.
    + now apply heap_push_valid.
Qed.

Lemma heap_pop_spec h : h <> [] ->
  exists h' x, heap_pop h = Some (h', x) /\
    length h' = length h - 1 /\
    (idx_ok h -> idx_ok h') /\
    Permutation (map ident h) (ident x :: map ident h') /\
    ident x = ident (hget h 0) /\ ps_index x = (-1)%Z /\
    (valid ek h (length h) -> valid ek h' (length h - 1)).
Proof.
  intros Hne. unfold heap_pop. destruct h as [|y h0]; [congruence|].
  set (h := y :: h0) in *. set (n := length h - 1).
  assert (Hlen : length h = S n) by (unfold n, h; cbn [length]; lia).
  set (h1 := hswap h 0 n).
  assert (S1 : same h h1) by (apply same_hswap; lia).
  rewrite (surjective_pairing (hdown (S n) h1 0 n)).
  set (h2 := fst (hdown (S n) h1 0 n)).
  assert (L1 : length h1 = S n) by (unfold h1; rewrite length_hswap; exact Hlen).
  assert (S2 : same h1 h2) by (apply hdown_same; lia).
  assert (L2 : length h2 = S n) by (rewrite (same_len _ _ S2); exact L1).
  assert (Hne2 : h2 <> []) by (intros E; rewrite E in L2; discriminate).
  destruct (raw_pop_spec h2 Hne2) as (R1 & R2 & R3 & R4 & R5).
  exists (fst (raw_pop h2)), (snd (raw_pop h2)).
  split; [now rewrite <- surjective_pairing|].
  split; [lia|]. split; [intros Hi; apply R5, S2, S1, Hi|].
  split.
  { eapply perm_trans; [|exact R4]. apply Permutation_sym.
    eapply perm_trans; [apply (same_perm _ _ S2)|apply (same_perm _ _ S1)]. }
  assert (El : hget h2 (length h2 - 1) = set_index (hget h 0) (Z.of_nat n)).
  { rewrite L2. replace (S n - 1) with n by lia. unfold h2.
    rewrite hdown_outside by lia. unfold h1. rewrite hget_hswap by lia.
    rewrite Nat.eqb_refl. reflexivity. }
  split; [rewrite R3, El; reflexivity|]. split; [rewrite R3; reflexivity|].
  intros Hv.
  apply (valid_ext ek h2); [intros k Hk; apply R2; lia|].
  assert (Hpre : down_pre ek h1 0 n).
  { split; [|lia]. intros k Hk Hk0 Hpk. unfold edge, h1. rewrite !key_hswap by plia.
    repeat match goal with |- context [Nat.eqb ?a ?b] => destruct (Nat.eqb_spec a b); try plia end.
    apply Hv. lia. }
  destruct (Nat.eq_dec n 0) as [En|En]; [intros k Hk; lia|].
  pose proof (hdown_valid ek ek_le (S n) h1 0 n ltac:(lia) ltac:(lia) ltac:(lia) Hpre) as [H1 H2].
  destruct (Nat.eq_dec (snd (hdown (S n) h1 0 n)) 0) as [E0|E0]; [|now apply H2].
  destruct (H1 E0) as [Eh Hout]. unfold h2. rewrite Eh.
  intros k Hk. destruct (Nat.eq_dec (par k) 0) as [Ep|Ep]; [now apply Hout|].
  apply (proj1 Hpre); [exact Hk|lia|exact Ep].
Qed.

Lemma heap_fix_spec h i : (0 <= i < Z.of_nat (length h))%Z ->
  exists h', heap_fix h i = Some h' /\ same h h' /\
    (fix_pre ek h (Z.to_nat i) (length h) -> valid ek h' (length h)).
Proof.
  intros Hi. unfold heap_fix.
  destruct ((i =? -1)%Z || ((i =? 0)%Z && (length h =? 0))) eqn:E0.
  { exfalso. destruct (length h); lia. }
  destruct ((0 <=? i)%Z && (i <? Z.of_nat (length h))%Z) eqn:E1; [|lia].
  set (n := length h). set (i' := Z.to_nat i).
  assert (Hi' : i' < n) by (unfold i', n; lia).
  rewrite (surjective_pairing (hdown (S n) h i' n)).
  assert (S1 : same h (fst (hdown (S n) h i' n))) by (apply hdown_same; unfold n; lia).
  destruct (Nat.ltb_spec i' (snd (hdown (S n) h i' n))) as [Hlt|Hnlt].
  - eexists; split; [reflexivity|]. split; [exact S1|].
    intros Hpre. pose proof (fix_valid ek ek_le ek_trans h i' n ltac:(unfold n; lia) Hi' Hpre) as Hv.
    cbv zeta in Hv. destruct (Nat.ltb_spec i' (snd (hdown (S n) h i' n))); [exact Hv|lia].
  - eexists; split; [reflexivity|]. split.
    + eapply same_trans; [exact S1|]. apply hup_same. rewrite (same_len _ _ S1). exact Hi'.
    + intros Hpre. pose proof (fix_valid ek ek_le ek_trans h i' n ltac:(unfold n; lia) Hi' Hpre) as Hv.
      cbv zeta in Hv. destruct (Nat.ltb_spec i' (snd (hdown (S n) h i' n))); [lia|exact Hv].
Qed.

Lemma heap_remove_spec h i : (0 <= i < Z.of_nat (length h))%Z ->
  exists h' x, heap_remove h i = Some (h', x) /\
    length h' = length h - 1 /\
    (idx_ok h -> idx_ok h') /\
    Permutation (map ident h) (ident x :: map ident h') /\
    ident x = ident (hget h (Z.to_nat i)) /\
    (valid ek h (length h) -> valid ek h' (length h - 1)).
Proof.
  intros Hi. unfold heap_remove. destruct h as [|y h0]; [cbn in Hi; lia|].
  set (h := y :: h0) in *. set (n := length h - 1).
  assert (Hlen : length h = S n) by (unfold n, h; cbn [length]; lia).
  assert (Hne : h <> []) by (unfold h; discriminate).
  destruct (Z.eqb_spec i (Z.of_nat n)) as [Ei|Ei].
  - destruct (raw_pop_spec h Hne) as (R1 & R2 & R3 & R4 & R5).
    exists (fst (raw_pop h)), (snd (raw_pop h)).
    split; [now rewrite <- surjective_pairing|]. split; [exact R1|]. split; [exact R5|].
    split; [exact R4|]. split.
    { rewrite R3, ident_set_index. rewrite Hlen. replace (S n - 1) with n by lia.
      rewrite Ei, Nat2Z.id. reflexivity. }
    intros Hv.
    apply (valid_ext ek h); [intros k Hk; apply R2; lia|]. eapply valid_le; [|exact Hv]. lia.
  - destruct ((0 <=? i)%Z && (i <? Z.of_nat n)%Z) eqn:E1; [|lia].
    set (i' := Z.to_nat i). assert (Hi' : i' < n) by (unfold i'; lia).
    set (h1 := hswap h i' n).
    assert (S1 : same h h1) by (apply same_hswap; lia).
    assert (L1 : length h1 = S n) by (unfold h1; rewrite length_hswap; exact Hlen).
    rewrite (surjective_pairing (hdown (S n) h1 i' n)).
    set (h2 := fst (hdown (S n) h1 i' n)). set (i2 := snd (hdown (S n) h1 i' n)).
    assert (S2 : same h1 h2) by (apply hdown_same; lia).
    assert (L2 : length h2 = S n) by (rewrite (same_len _ _ S2); exact L1).
    set (h3 := if i' <? i2 then h2 else hup (S n) h2 i').
    assert (S3 : same h2 h3).
    { unfold h3. destruct (i' <? i2); [apply same_refl|apply hup_same; lia]. }
    assert (L3 : length h3 = S n) by (rewrite (same_len _ _ S3); exact L2).
    assert (Hne3 : h3 <> []) by (intros E; rewrite E in L3; discriminate).
    destruct (raw_pop_spec h3 Hne3) as (R1 & R2 & R3 & R4 & R5).
    exists (fst (raw_pop h3)), (snd (raw_pop h3)).
    split; [now rewrite <- surjective_pairing|]. split; [lia|].
    split; [intros Hx; apply R5, S3, S2, S1, Hx|]. split.
    { eapply perm_trans; [|exact R4]. apply Permutation_sym.
      eapply perm_trans; [apply (same_perm _ _ S3)|].
      eapply perm_trans; [apply (same_perm _ _ S2)|apply (same_perm _ _ S1)]. }
    assert (El : hget h3 (length h3 - 1) = set_index (hget h i') (Z.of_nat n)).
    { rewrite L3. replace (S n - 1) with n by lia.
      assert (E2 : hget h2 n = set_index (hget h i') (Z.of_nat n)).
      { unfold h2. rewrite hdown_outside by lia. unfold h1. rewrite hget_hswap by lia.
        rewrite Nat.eqb_refl. reflexivity. }
      unfold h3. destruct (i' <? i2); [exact E2|]. rewrite hup_outside by lia. exact E2. }
    split; [rewrite R3, El; reflexivity|].
    intros Hv.
    apply (valid_ext ek h3); [intros k Hk; apply R2; lia|].
    assert (Hpre : fix_pre ek h1 i' n).
    { split.
      - intros k Hk Hki Hpk. unfold edge, h1. rewrite !key_hswap by plia.
        repeat match goal with |- context [Nat.eqb ?a ?b] => destruct (Nat.eqb_spec a b); try plia end.
        apply Hv. lia.
      - intros Hi0 c Hc Hp. unfold h1. rewrite !key_hswap by plia.
        repeat match goal with |- context [Nat.eqb ?a ?b] => destruct (Nat.eqb_spec a b); try plia end.
        eapply ek_trans; [apply (Hv i'); lia|]. rewrite <- Hp. apply Hv. lia. }
    exact (fix_valid ek ek_le ek_trans h1 i' n ltac:(lia) Hi' Hpre).
Qed.

End Ops.

Section More.
Variable ek : Z * Z -> Z * Z -> Prop.
Hypothesis ek_trans : forall a b c, ek a b -> ek b c -> ek a c.

(* a valid heap satisfies the precondition of Fix at any position *)
Lemma valid_fix_pre h i n : i < n -> valid ek h n -> fix_pre ek h i n.
Proof.
  intros Hi Hv. split.
  - intros k Hk _ _. now apply Hv.
  - intros Hi0 c Hc Hp. eapply ek_trans; [apply (Hv i); lia|]. rewrite <- Hp. now apply Hv.
Qed.
End More.

(* exchanging two positions of a list is a permutation *)
Lemma lswap_perm {A} (d : A) (l : list A) i j : i < length l -> j < length l ->
  Permutation (set_nth (set_nth l i (nth j l d)) j (nth i l d)) l.
Proof.
  intros Hi Hj.
  set (l' := set_nth l i (nth j l d)).
  assert (P1 : Permutation (nth j l d :: l) (nth i l d :: l')) by (apply perm_set_nth; lia).
  assert (P2 : Permutation (nth i l d :: l') (nth j l' d :: set_nth l' j (nth i l d))).
  { apply perm_set_nth. unfold l'. rewrite length_set_nth. lia. }
  assert (E : nth j l' d = nth j l d).
  { unfold l'. destruct (Nat.eq_dec i j) as [->|Hne].
    - rewrite nth_set_nth_eq by lia. reflexivity.
    - now rewrite nth_set_nth_neq by lia. }
  rewrite E in P2.
  apply Permutation_sym. eapply Permutation_cons_inv. eapply perm_trans; [exact P1|exact P2].
Qed.

Lemma map_set_nth_same {B} (f : pscore -> B) h i x : f x = f (hget h i) -> map f (set_nth h i x) = map f h.
Proof.
  intros E. rewrite map_set_nth, E. unfold hget. rewrite <- (map_nth f). apply set_nth_same.
Qed.
