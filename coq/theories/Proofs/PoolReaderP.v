(* The tie of the pooled typed.Reader model (Model/PoolReader.v) to the source: the reset statements
   of the model's Get path / Put path and the fields of the model's record are the ones go2v extracts
   from typed/reader.go (Gen/GenPoolReset.v).  The theorems about the model are in
   Proofs/PoolReaderSpecP.v and do not depend on the generated table. *)
From Coq Require Import ZArith List Bool Lia.
From Verif Require Import Base.Wrap Spec.PoolSpec Gen.GenPoolReset Model.PoolReset Model.PoolReader.
From Verif Require Export Proofs.PoolReaderSpecP.
Import ListNotations.
Local Open Scope Z_scope.

(* ---------------------------------------------------------------- tie to the generated table *)
Lemma reader_get_resets_generated :
  pr_get_resets_of pool_reset_table pr_k_readerPool pr_k_NewReader = [tr_new_resets].
Proof.
  first [ vm_compute; reflexivity
        | fail 1 "the reset statements of typed.NewReader regenerated from the source (Gen/GenPoolReset.v) are not [r.reader = <parameter>; r.err = nil]: the model Model/PoolReader.tr_new no longer describes the Get path of the pooled Reader" ].
Qed.

Lemma reader_put_resets_generated :
  pr_put_resets_of pool_reset_table pr_k_readerPool pr_k_Release = [tr_release_resets].
Proof.
  first [ vm_compute; reflexivity
        | fail 1 "typed.Reader.Release regenerated from the source is not a plain readerPool.Put(r): the model's Release no longer describes the Put path of the pooled Reader" ].
Qed.

Lemma reader_fields_generated : pr_fields_of pool_reset_table pr_k_readerPool = tr_fields.
Proof.
  first [ vm_compute; reflexivity
        | fail 1 "the fields of typed.Reader regenerated from the source are not reader, err, buf: the model record Model/PoolReader.treader is incomplete" ].
Qed.

