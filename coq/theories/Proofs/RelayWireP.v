(* Relay model, C10: what the relay enqueues towards the caller, per request id.
   - the frame grammar is refuted by a concrete interleaving (response frame after the timeout
     error frame);
   - proved for ALL interleavings of fresh-id runs: nothing is ever enqueued for an id that was
     not requested on that connection; once the originating item is tombstoned or gone and
     no goroutine is still committed to an enqueue for it, nothing more is ever enqueued for
     that id (late frames are discarded). *)
From Coq Require Import ZArith List Bool Lia.
From Verif Require Import Base.Wrap Gen.GenConsts Gen.GenFrame Model.RelayItems Model.RelayCalm Spec.WireOk
  Proofs.RelayAssocP Proofs.RelayCoreP Proofs.RelayInv9P Proofs.RelayTimerP Proofs.RelaySilentP.
Import ListNotations.
Local Open Scope Z_scope.

(* ---------------------------------------------------------------- the refutation *)

Definition wit_wire : list label :=
  [LArrive 0 wit_req wit_env] ++ repeat (LStep (TR 0) true) 10 ++
  [LArrive 1 wit_res_more wit_env] ++ repeat (LStep (TR 1) true) 5 ++ [LFire 2] ++ repeat (LStep (TT 2) true) 6 ++
  repeat (LStep (TR 1) true) 3.

Lemma relay_grammar_refuted_lemma :
  exists ls st, run_fresh wit_cf init ls = Some st /\
    wire_of 0 7 (sent st) = [Err; Res true] /\ wire_prefix_ok (wire_of 0 7 (sent st)) = false.
Proof. exists wit_wire. eexists. split; [vm_compute; reflexivity|]. split; vm_compute; reflexivity. Qed.

(* ---------------------------------------------------------------- ids of enqueued frames *)

Definition rcv_ok (sn : list (Z * Z)) (r : rcv) : Prop :=
  frameTypeFor (f_mt (r_f r)) = Some (r_ft r) /\
  (r_ft r = c_responseFrame -> In (r_d r, f_id (r_f r)) sn) /\
  (0 < r_more r -> r_ft r = c_requestFrame).

Definition wok (sn : list (Z * Z)) (j : instr) : Prop :=
  match j with
  | IRcvGet r | IRcvChk r _ _ | IRcvEnq r _ _ => rcv_ok sn r
  | ISendErr k id _ => In (k, id) sn
  | INcChk _ f ft _ g =>
      frameTypeFor (f_mt f) = Some ft /\
      match g with Some (it, _) => ft = c_responseFrame -> In (it_dest it, it_remap it) sn | None => True end
  | _ => True
  end.

Record WInv (st : state) : Prop := {
  w_code : forall th code j, In (th, code) (threads st) -> In j code -> wok (seen st) j;
  w_items : forall t it, In (t, it) (items st) -> key_dir t = 1 -> In (it_dest it, it_remap it) (seen st);
  w_sent : forall k f, In (k, f) (sent st) -> kind_of f <> None -> In (k, f_id f) (seen st)
}.

Lemma wok_mono : forall sn sn' j, incl sn sn' -> wok sn j -> wok sn' j.
Proof.
  intros sn sn' j Hi H. destruct j; cbn in *; try exact H; try (apply Hi; exact H);
    try (destruct H as (A&B&C); split; [exact A|split; [intro Hr; apply Hi; apply B; exact Hr|exact C]]).
  destruct H as [A B]. split; [exact A|]. destruct g as [[it s]|]; [|exact I]. intro Hr. apply Hi. apply B. exact Hr.
Qed.

Lemma kind_of_response : forall f, kind_of f <> None -> frameTypeFor (f_mt f) = Some c_responseFrame.
Proof.
  intros f H. unfold kind_of in H. unfold frameTypeFor.
  destruct (f_mt f =? c_messageTypeCallRes) eqn:E1; [reflexivity|].
  destruct (f_mt f =? c_messageTypeCallResContinue) eqn:E2; [cbn; reflexivity|].
  destruct (f_mt f =? c_messageTypeError) eqn:E3; [cbn; reflexivity|]. contradiction.
Qed.

Lemma after_sent_wok : forall sn r, rcv_ok sn r -> Forall (wok sn) (after_sent r).
Proof.
  intros sn r (A&B&C). unfold after_sent. apply Forall_app. split.
  - destruct (fin_of (r_f r)); repeat constructor.
  - destruct (0 <? r_more r) eqn:E; [|constructor]. apply Z.ltb_lt in E. constructor; [exact I|]. constructor; [|constructor].
    cbn. unfold rcv_ok. cbn. rewrite (C E). split; [reflexivity|]. split; [intro Hc; discriminate|]. intros _. reflexivity.
Qed.

Lemma exec_winv_pushed : forall cf st th i rest room st1 pushed,
  Inv st -> WInv st -> lookup tid_eqb th (threads st) = Some (i :: rest) ->
  exec cf st i room = (st1, pushed) -> Forall (wok (seen st)) pushed.
Proof.
  intros cf st th i rest room st1 pushed HI HW Hl H.
  pose proof (lookup_in tid_eqb tid_eqb_ok _ _ _ Hl) as Hin0.
  pose proof (w_code _ HW th _ i Hin0 (or_introl eq_refl)) as Hwi.
  destruct (inv_code _ HI _ _ Hin0) as [Hf _]. inversion Hf as [|? ? Hiok _]. subst.
  destruct i; cbn [exec] in H.
  - destruct (iok_adm _ _ _ _ (IStart k f e) k f eq_refl Hiok) as [_ Hkf_]. destruct Hkf_ as (Hs&_).
    destruct (e_start e =? 0); inversion H; subst; [repeat constructor|].
    apply Forall_app. split; [destruct ((e_start e =? 1) || (e_start e =? 3)); repeat constructor|].
    destruct ((e_start e =? 1) || (e_start e =? 2)); [constructor|]. constructor; [exact Hs|].
    destruct (e_code e =? c_ErrCodeProtocol); repeat constructor.
  - destruct (iok_adm _ _ _ _ (ICanHandle k f e c) k f eq_refl Hiok) as [_ Hkf_]. destruct Hkf_ as (Hs&_).
    destruct (c_state (get_conn st k) =? c_connectionActive); inversion H; subst; repeat constructor. exact Hs.
  - destruct (iok_adm _ _ _ _ (IGetDest k f e c) k f eq_refl Hiok) as [_ Hkf_]. destruct Hkf_ as (Hs&_).
    destruct (klookup (k, 0, f_id f) (items st)); [inversion H; subst; repeat constructor|].
    destruct (e_dest e =? -1); [inversion H; subst; repeat constructor; exact Hs|].
    destruct (e_dest e <? 0); inversion H; subst; repeat constructor; exact Hs.
  - destruct (iok_adm _ _ _ _ (IRemoteCan k f e c d) k f eq_refl Hiok) as [_ Hkf_]. destruct Hkf_ as (Hs&_).
    destruct (c_state (get_conn st d) =? c_connectionActive); inversion H; subst; repeat constructor. exact Hs.
  - unfold timer_new in H. cbn [fst snd] in H. inversion H. repeat constructor.
  - unfold timer_new in H. cbn [fst snd] in H. inversion H. destruct (e_mode e <? 0); [repeat constructor|].
    constructor; [exact I|]. constructor; [|constructor].
    cbn. unfold rcv_ok. cbn. split; [reflexivity|]. split; [intro Hc; discriminate|]. intros _. reflexivity.
  - inversion H. constructor.
  - inversion H. repeat constructor.
  - match type of H with (if ?b then _ else _) = _ => destruct b end; inversion H; constructor.
  - destruct ((c_state (get_conn st k) =? c_connectionClosed) || negb room); inversion H; constructor.
  - destruct (c_state (get_conn st k) =? c_connectionActive); inversion H; constructor.
  - destruct (frameTypeFor (f_mt f)) as [ft|] eqn:Eft; [|inversion H; constructor].
    match type of H with context [items_get ?a ?b ?cc] => destruct (items_get a b cc) as [st' g] eqn:E end.
    inversion H; subst. constructor; [|constructor]. cbn. split; [exact Eft|].
    apply items_get_spec in E. destruct E as [_ Em].
    destruct (klookup (k, (if ft =? c_responseFrame then 1 else 0), f_id f) (items st)) as [it|] eqn:El.
    + destruct Em as [b ->]. intro Hr. rewrite Hr in El. rewrite Z.eqb_refl in El.
      eapply (w_items _ HW); [eapply (lookup_in key_eqb key_eqb_ok); exact El|reflexivity].
    + subst g. exact I.
  - cbn in Hwi. destruct Hwi as [Hft Hg]. destruct g as [[it stopped]|]; [|inversion H; constructor].
    destruct (it_tomb it || (fin_of f && negb stopped)); inversion H; subst; [constructor|].
    apply Forall_app. split; [destruct ((f_mt f =? c_messageTypeCallRes) && f_wf f); repeat constructor|].
    constructor; [exact I|]. constructor; [|constructor]. cbn. unfold rcv_ok. cbn.
    split; [exact Hft|]. split; [exact Hg|]. intro Hc. lia.
  - match type of H with context [items_get ?a ?b ?cc] => destruct (items_get a b cc) as [st' g] eqn:E end.
    inversion H; subst. constructor; [exact Hwi|constructor].
  - destruct g as [[it stopped]|].
    + destruct (it_tomb it || (fin_of (r_f r) && negb stopped)); inversion H; subst; [apply after_sent_wok; exact Hwi|].
      apply Forall_app. split.
      * destruct ((r_ft r =? c_responseFrame) || (f_mt (r_f r) =? c_messageTypeCancel));
          [destruct (dcsSucceeded _ _ _); [repeat constructor|destruct (0 <? zlen _); repeat constructor]|constructor].
      * constructor; [exact Hwi|constructor].
    + inversion H; subst. unfold after_unsent. repeat constructor.
  - destruct room; inversion H; subst.
    + apply Forall_app. split; [destruct (fin_of (r_f r)); repeat constructor|apply after_sent_wok; exact Hwi].
    + unfold after_unsent. repeat constructor.
  - destruct (items_get st t true) as [st' g] eqn:E. destruct g as [[it [|]]|]; inversion H; subst; repeat constructor.
  - destruct (items_entomb cf st t) as [st' g] eqn:E. apply items_entomb_spec in E. destruct E as (_&_&_&_&_&_&E).
    destruct g as [[it [|]]|]; inversion H; subst; try constructor. clear H.
    destruct (klookup t (items st)) as [it0|] eqn:El; [|destruct E as [E _]; discriminate].
    pose proof (lookup_in key_eqb key_eqb_ok _ _ _ El) as Hin.
    apply Forall_app. split; [|repeat constructor].
    assert (Horig : match s with FromFail _ => it_orig it | FromTimeout o => o end = true -> key_dir t = 0).
    { assert (Hito : it_orig it = it_orig it0).
      { destruct E as [(Hg&_)|[(_&Hg&_)|(_&Hg&_)]]; inversion Hg; subst; reflexivity. }
      pose proof (inv_orig _ HI _ _ Hin) as Ho. destruct s as [r0|o].
      - rewrite Hito, Ho. intro Hx. apply Z.eqb_eq in Hx. exact Hx.
      - unfold iok in Hiok. cbn in Hiok. subst o. intro Hx. apply Z.eqb_eq in Hx. exact Hx. }
    destruct (match s with FromFail _ => it_orig it | FromTimeout o => o end) eqn:Eo; [|constructor].
    assert (Hseen : In (key_conn t, key_id t) (seen st)).
    { destruct (inv_keys _ HI t) as [[_ Hs]|[Hd _]]; [left; apply (in_map fst) in Hin; exact Hin|exact Hs|].
      rewrite (Horig eq_refl) in Hd. discriminate. }
    unfold orig_tail. destruct s.
    + apply Forall_app. split; [destruct (reason =? reason_source_slow); repeat constructor; exact Hseen|repeat constructor].
    + repeat constructor. exact Hseen.
  - destruct (items_delete_call st t lk) as [st' g] eqn:E. destruct g as [[it [|]]|]; inversion H; subst; try constructor.
    apply Forall_app. split; [destruct (it_orig it); repeat constructor|repeat constructor].
  - destruct (zlookup tm (timers st)) as [x|]; [|inversion H; constructor].
    destruct (tm_released x); inversion H; repeat constructor.
Qed.

Lemma exec_items_w : forall cf st i room st1 pushed t it, exec cf st i room = (st1, pushed) ->
  In (t, it) (items st1) ->
  (exists it0, In (t, it0) (items st) /\ it_dest it = it_dest it0 /\ it_remap it = it_remap it0) \/
  key_dir t = 0 \/
  (exists k f e c d, i = IAddDest k f e c d /\ it_dest it = k /\ it_remap it = f_id f).
Proof.
  intros cf st i room st1 pushed t it H Hin.
  assert (Hsame : items st1 = items st -> exists it0, In (t, it0) (items st) /\ it_dest it = it_dest it0 /\ it_remap it = it_remap it0).
  { intro He. rewrite He in Hin. exists it. repeat split. exact Hin. }
  destruct i; cbn [exec] in H.
  - left. apply Hsame. destruct (e_start e =? 0); [inversion H; reflexivity|].
    destruct ((e_start e =? 1) || (e_start e =? 3)); inversion H; reflexivity.
  - left. apply Hsame. destruct (c_state (get_conn st k) =? c_connectionActive); inversion H; reflexivity.
  - left. apply Hsame. destruct (klookup (k, 0, f_id f) (items st)); [inversion H; reflexivity|].
    destruct (e_dest e =? -1); [inversion H; reflexivity|]. destruct (e_dest e <? 0); inversion H; reflexivity.
  - left. apply Hsame. destruct (c_state (get_conn st d) =? c_connectionActive); inversion H; reflexivity.
  - unfold timer_new in H. cbn [fst snd] in H. inversion H. subst st1 pushed. cbn [set_items items set_next_tm set_timers put_conn set_conns] in Hin.
    apply (in_insert key_eqb key_eqb_ok) in Hin. destruct Hin as [[-> ->]|[Hin _]].
    + right. right. exists k, f, e, c, d. repeat split.
    + left. exists it. repeat split. exact Hin.
  - unfold timer_new in H. cbn [fst snd] in H. inversion H. subst st1 pushed. cbn [set_items items set_next_tm set_timers] in Hin.
    apply (in_insert key_eqb key_eqb_ok) in Hin. destruct Hin as [[-> ->]|[Hin _]].
    + right. left. reflexivity.
    + left. exists it. repeat split. exact Hin.
  - left. apply Hsame. inversion H. reflexivity.
  - left. apply Hsame. inversion H. reflexivity.
  - left. apply Hsame. match type of H with (if ?b then _ else _) = _ => destruct b end; inversion H; reflexivity.
  - left. apply Hsame. destruct ((c_state (get_conn st k) =? c_connectionClosed) || negb room); inversion H; reflexivity.
  - left. apply Hsame. destruct (c_state (get_conn st k) =? c_connectionActive); inversion H; reflexivity.
  - left. apply Hsame. destruct (frameTypeFor (f_mt f)); [|inversion H; reflexivity].
    match type of H with context [items_get ?a ?b ?cc] => destruct (items_get a b cc) as [st' g] eqn:E end.
    inversion H; subst. apply items_get_spec in E. destruct E as [(_&A&_) _]. exact A.
  - left. apply Hsame. destruct g as [[it0 stopped]|]; [|inversion H; reflexivity].
    destruct (it_tomb it0 || (fin_of f && negb stopped)); inversion H; reflexivity.
  - left. apply Hsame. match type of H with context [items_get ?a ?b ?cc] => destruct (items_get a b cc) as [st' g] eqn:E end.
    inversion H; subst. apply items_get_spec in E. destruct E as [(_&A&_) _]. exact A.
  - left. apply Hsame. destruct g as [[it0 stopped]|]; [|inversion H; reflexivity].
    destruct (it_tomb it0 || (fin_of (r_f r) && negb stopped)); inversion H; reflexivity.
  - left. apply Hsame. destruct room; inversion H; reflexivity.
  - left. apply Hsame. destruct (items_get st t0 true) as [st' g] eqn:E. apply items_get_spec in E. destruct E as [(_&A&_) _].
    destruct g as [[it0 [|]]|]; inversion H; subst; exact A.
  - left. destruct (items_entomb cf st t0) as [st' g] eqn:E. apply items_entomb_spec in E. destruct E as (_&_&_&_&_&_&E).
    assert (Hst : items st1 = items st').
    { destruct g as [[it0 [|]]|]; inversion H; reflexivity. }
    rewrite Hst in Hin. destruct (klookup t0 (items st)) as [it0|] eqn:El.
    + destruct E as [(_&Hi&_)|[(_&_&Hi&_)|(_&_&Hi&_)]]; rewrite Hi in Hin.
      * apply (in_remove key_eqb key_eqb_ok) in Hin. destruct Hin as [Hin _]. exists it. repeat split. exact Hin.
      * exists it. repeat split. exact Hin.
      * apply (in_insert key_eqb key_eqb_ok) in Hin. destruct Hin as [[-> ->]|[Hin _]].
        -- exists it0. split; [eapply (lookup_in key_eqb key_eqb_ok); exact El|split; reflexivity].
        -- exists it. repeat split. exact Hin.
    + destruct E as (_&Hi&_). rewrite Hi in Hin. exists it. repeat split. exact Hin.
  - left. destruct (items_delete_call_cases st t0 lk) as [Ec|[Ec _]]; rewrite Ec in H; [|inversion H; subst; exists it; repeat split; exact Hin].
    destruct (items_delete st t0) as [st' g] eqn:E. apply items_delete_spec in E. destruct E as (_&_&_&_&_&_&_&E).
    assert (Hst : items st1 = items st').
    { destruct g as [[it0 [|]]|]; inversion H; reflexivity. }
    rewrite Hst in Hin. destruct (klookup t0 (items st)) as [it0|].
    + destruct E as [_ Hi]. rewrite Hi in Hin. apply (in_remove key_eqb key_eqb_ok) in Hin. destruct Hin as [Hin _].
      exists it. repeat split. exact Hin.
    + destruct E as [_ Hi]. rewrite Hi in Hin. exists it. repeat split. exact Hin.
  - left. apply Hsame. destruct (zlookup tm (timers st)) as [x|]; [|inversion H; reflexivity].
    destruct (tm_released x); inversion H; reflexivity.
Qed.

Lemma exec_sent_w : forall cf st i room st1 pushed, exec cf st i room = (st1, pushed) ->
  seen st1 = seen st /\
  (sent st1 = sent st \/
   (exists k id code, i = ISendErr k id code /\
      sent st1 = (k, {| f_mt := c_messageTypeError; f_id := id; f_flags := 0; f_code := code; f_wf := true |}) :: sent st) \/
   (exists r rk lk, i = IRcvEnq r rk lk /\ sent st1 = (r_d r, r_f r) :: sent st)).
Proof.
  intros cf st i room st1 pushed H. destruct i; cbn [exec] in H.
  - destruct (e_start e =? 0); [inversion H; split; [reflexivity|left; reflexivity]|].
    destruct ((e_start e =? 1) || (e_start e =? 3)); inversion H; split; try reflexivity; left; reflexivity.
  - destruct (c_state (get_conn st k) =? c_connectionActive); inversion H; split; try reflexivity; left; reflexivity.
  - destruct (klookup (k, 0, f_id f) (items st)); [inversion H; split; [reflexivity|left; reflexivity]|].
    destruct (e_dest e =? -1); [inversion H; split; [reflexivity|left; reflexivity]|].
    destruct (e_dest e <? 0); inversion H; split; try reflexivity; left; reflexivity.
  - destruct (c_state (get_conn st d) =? c_connectionActive); inversion H; split; try reflexivity; left; reflexivity.
  - unfold timer_new in H. cbn [fst snd] in H. inversion H. split; [reflexivity|left; reflexivity].
  - unfold timer_new in H. cbn [fst snd] in H. inversion H. split; [reflexivity|left; reflexivity].
  - inversion H. split; [reflexivity|left; reflexivity].
  - inversion H. split; [reflexivity|left; reflexivity].
  - match type of H with (if ?b then _ else _) = _ => destruct b end; inversion H; split; try reflexivity; left; reflexivity.
  - destruct ((c_state (get_conn st k) =? c_connectionClosed) || negb room); inversion H; split; try reflexivity.
    + left. reflexivity.
    + right. left. exists k, id, code. split; reflexivity.
  - destruct (c_state (get_conn st k) =? c_connectionActive); inversion H; split; try reflexivity; left; reflexivity.
  - destruct (frameTypeFor (f_mt f)); [|inversion H; split; [reflexivity|left; reflexivity]].
    match type of H with context [items_get ?a ?b ?cc] => destruct (items_get a b cc) as [st' g] eqn:E end.
    inversion H; subst. apply items_get_spec in E. destruct E as [(_&_&_&_&_&A&B&_) _]. split; [exact B|left; exact A].
  - destruct g as [[it0 stopped]|]; [|inversion H; split; [reflexivity|left; reflexivity]].
    destruct (it_tomb it0 || (fin_of f && negb stopped)); inversion H; split; try reflexivity; left; reflexivity.
  - match type of H with context [items_get ?a ?b ?cc] => destruct (items_get a b cc) as [st' g] eqn:E end.
    inversion H; subst. apply items_get_spec in E. destruct E as [(_&_&_&_&_&A&B&_) _]. split; [exact B|left; exact A].
  - destruct g as [[it0 stopped]|]; [|inversion H; split; [reflexivity|left; reflexivity]].
    destruct (it_tomb it0 || (fin_of (r_f r) && negb stopped)); inversion H; split; try reflexivity; left; reflexivity.
  - destruct room; inversion H; split; try reflexivity.
    + right. right. exists r, rk, lk. split; reflexivity.
    + left. reflexivity.
  - destruct (items_get st t true) as [st' g] eqn:E. apply items_get_spec in E. destruct E as [(_&_&_&_&_&A&B&_) _].
    destruct g as [[it0 [|]]|]; inversion H; subst; (split; [exact B|left; exact A]).
  - destruct (items_entomb cf st t) as [st' g] eqn:E. apply items_entomb_spec in E. destruct E as (_&_&_&A&B&_).
    destruct g as [[it0 [|]]|]; inversion H; subst; (split; [exact B|left; exact A]).
  - destruct (items_delete_call st t lk) as [st' g] eqn:E. apply items_delete_call_spec in E. destruct E as (_&_&_&_&A&B&_).
    destruct g as [[it0 [|]]|]; inversion H; subst; (split; [exact B|left; exact A]).
  - destruct (zlookup tm (timers st)) as [x|]; [|inversion H; split; [reflexivity|left; reflexivity]].
    destruct (tm_released x); inversion H; split; try reflexivity; left; reflexivity.
Qed.

Lemma step_winv : forall cf st l st', Inv st -> WInv st -> step cf st l = Some st' -> WInv st'.
Proof.
  intros cf st l st' HI HW H. destruct l as [k f e|th room|tm|t|k|k|k].
  - unfold step in H. destruct (negb (panicked st =? 0)); [discriminate|].
    destruct (lookup tid_eqb (TR k) (threads st)); [discriminate|].
    destruct (relayRoute (f_mt f) (cf_cancel cf) =? 1); [|inversion H; subst; exact HW].
    destruct (f_mt f =? c_messageTypeCallReq); inversion H; subst.
    + constructor.
      * intros th code j Hin Hj. apply set_thread_in in Hin. destruct Hin as [[-> ->]|[_ Hin]]; [destruct Hj as [<-|[]]; exact I|].
        cbn [set_seen threads] in Hin. cbn [set_thread set_threads set_seen seen].
        eapply wok_mono; [apply incl_tl; apply incl_refl|eapply (w_code _ HW); eassumption].
      * cbn [set_thread set_threads set_seen seen items]. intros t it Hin Hd. right. eapply (w_items _ HW); eassumption.
      * cbn [set_thread set_threads set_seen seen sent]. intros k0 f0 Hin Hk. right. eapply (w_sent _ HW); eassumption.
    + constructor.
      * intros th code j Hin Hj. apply set_thread_in in Hin. destruct Hin as [[-> ->]|[_ Hin]]; [destruct Hj as [<-|[]]; exact I|].
        cbn [set_thread set_threads seen]. eapply (w_code _ HW); eassumption.
      * apply (w_items _ HW).
      * apply (w_sent _ HW).
  - unfold step in H. destruct (negb (panicked st =? 0)); [discriminate|].
    destruct (lookup tid_eqb th (threads st)) as [[|i rest]|] eqn:El; try discriminate.
    destruct (exec cf st i room) as [st1 pushed] eqn:E. inversion H. subst st'. clear H.
    pose proof (lookup_in tid_eqb tid_eqb_ok _ _ _ El) as Hin0.
    pose proof (exec_winv_pushed _ _ _ _ _ _ _ _ HI HW El E) as Hp.
    destruct (exec_sent_w _ _ _ _ _ _ E) as [Hsn Hsent].
    destruct (exec_cblog _ _ _ _ _ _ E) as [Hth _].
    constructor; cbn [set_thread set_threads items sent seen]; rewrite ?Hsn.
    + intros th' code j Hin Hj. fold (threads (set_thread st1 th (pushed ++ rest))) in Hin.
      apply set_thread_in in Hin. destruct Hin as [[-> ->]|[_ Hin]].
      * apply in_app_or in Hj. destruct Hj as [Hj|Hj]; [rewrite Forall_forall in Hp; apply Hp; exact Hj|].
        eapply (w_code _ HW th (i :: rest)); [exact Hin0|right; exact Hj].
      * rewrite Hth in Hin. eapply (w_code _ HW); eassumption.
    + intros t it Hin Hd. destruct (exec_items_w _ _ _ _ _ _ _ _ E Hin) as [(it0&Hin1&A&B)|[Hz|(k&f&e&c&d&Hi&A&B)]].
      * rewrite A, B. eapply (w_items _ HW); eassumption.
      * congruence.
      * subst i. destruct (inv_code _ HI _ _ Hin0) as [Hf _]. inversion Hf as [|? ? Hiok _].
        destruct (iok_adm _ _ _ _ (IAddDest k f e c d) k f eq_refl Hiok) as [_ Hkf]. destruct Hkf as (Hs&_).
        rewrite A, B. exact Hs.
    + intros k f Hin Hk. destruct Hsent as [Hs|[(k0&id&code&Hi&Hs)|(r&rk&lk&Hi&Hs)]]; rewrite Hs in Hin.
      * eapply (w_sent _ HW); eassumption.
      * destruct Hin as [Hin|Hin]; [|eapply (w_sent _ HW); eassumption]. inversion Hin. subst k f i. cbn.
        apply (w_code _ HW th _ _ Hin0 (or_introl eq_refl)).
      * destruct Hin as [Hin|Hin]; [|eapply (w_sent _ HW); eassumption]. inversion Hin. subst k f i.
        destruct (w_code _ HW th _ _ Hin0 (or_introl eq_refl)) as (A&B&_).
        apply B. pose proof (kind_of_response _ Hk) as Hr. rewrite Hr in A. inversion A. reflexivity.
  - unfold step in H. destruct (negb (panicked st =? 0)); [discriminate|].
    destruct (zlookup tm (timers st)) as [x|]; [|discriminate].
    destruct (tm_armed x && match lookup tid_eqb (TT tm) (threads st) with None => true | Some _ => false end); [|discriminate].
    inversion H. subst. constructor.
    + intros th code j Hin Hj. apply set_thread_in in Hin. destruct Hin as [[-> ->]|[_ Hin]]; [destruct Hj as [<-|[]]; exact I|].
      cbn [set_timers threads] in Hin. cbn [set_thread set_threads set_timers seen]. eapply (w_code _ HW); eassumption.
    + apply (w_items _ HW).
    + apply (w_sent _ HW).
  - unfold step in H. destruct (negb (panicked st =? 0)); [discriminate|].
    destruct (mem_key t (gcs st)) eqn:Emem; [|discriminate]. inversion H. subst.
    gc_delete HI.
    destruct (items_delete (set_gcs st (remove_one t (gcs st))) t) as [st' g] eqn:E. cbn [fst].
    apply items_delete_spec in E. cbn [set_gcs conns gcs threads cblog sent seen next_call items] in E.
    destruct E as (_&_&A&_&B&C&_&D). constructor; rewrite ?A, ?B, ?C.
    + apply (w_code _ HW).
    + intros t0 it Hin Hd. eapply (w_items _ HW); [|exact Hd].
      destruct (klookup t (items st)); destruct D as [_ Hi]; rewrite Hi in Hin; [|exact Hin].
      apply (in_remove key_eqb key_eqb_ok) in Hin. destruct Hin as [Hin _]. exact Hin.
    + apply (w_sent _ HW).
  - unfold step in H. destruct (negb (panicked st =? 0)); [discriminate|].
    destruct (c_state (get_conn st k) =? c_connectionActive); [|discriminate]. inversion H. subst.
    constructor; cbn; apply HW.
  - unfold step in H. destruct (negb (panicked st =? 0)); [discriminate|]. inversion H. subst. constructor; cbn; apply HW.
  - unfold step in H. destruct (negb (panicked st =? 0)); [discriminate|].
    match type of H with (if ?b then _ else _) = _ => destruct b end; [|discriminate]. inversion H. subst. constructor; cbn; apply HW.
Qed.

Lemma WInv_init : WInv init.
Proof. constructor; cbn; intros; contradiction. Qed.

Lemma reach_winv : forall cf ls st, run_fresh cf init ls = Some st -> WInv st.
Proof.
  intros cf ls. assert (G : forall st0 st, Inv st0 -> WInv st0 -> run_fresh cf st0 ls = Some st -> WInv st).
  { induction ls as [|l r IH]; intros st0 st HI HW H; cbn in H.
    - inversion H. subst. exact HW.
    - destruct (fresh_label st0 l) eqn:Ef; [|discriminate]. destruct (step cf st0 l) as [st1|] eqn:Es; [|discriminate].
      eapply IH; [eapply step_inv; eassumption|eapply step_winv; eassumption|exact H]. }
  intros st H. eapply G; [apply Inv_init|apply WInv_init|exact H].
Qed.

(* nothing is ever enqueued towards the caller for an id that was not requested on that connection *)
Theorem relay_never_requested : forall cf ls st k id, run_fresh cf init ls = Some st ->
  ~ In (k, id) (seen st) -> wire_of k id (sent st) = [].
Proof.
  intros cf ls st k id H Hns. pose proof (reach_winv _ _ _ H) as HW.
  assert (G : forall log, (forall k0 f, In (k0, f) log -> kind_of f <> None -> In (k0, f_id f) (seen st)) -> wire_of k id log = []).
  { induction log as [|[k0 f] r IH]; intro Hall; cbn; [reflexivity|].
    rewrite IH by (intros k1 f1 Hin; apply Hall; right; exact Hin). cbn.
    destruct ((k0 =? k) && (f_id f =? id)) eqn:E; [|reflexivity].
    apply andb_true_iff in E. destruct E as [E1 E2]. apply Z.eqb_eq in E1. apply Z.eqb_eq in E2. subst.
    destruct (kind_of f) eqn:Ek; [|reflexivity]. exfalso. apply Hns. apply (Hall k f (or_introl eq_refl)). congruence. }
  apply G. apply (w_sent _ HW).
Qed.

(* ---------------------------------------------------------------- late frames are discarded *)

Definition is_wire (f : frame) : bool := match kind_of f with Some _ => true | None => false end.

(* goroutine steps that may still enqueue a frame for (k,id) without a new lookup of the
   originating item, or that are still admitting the request (k,id) *)
Definition blocked (k id : Z) (j : instr) : bool :=
  match j with
  | ISendErr k' id' _ => (k' =? k) && (id' =? id)
  | IRcvEnq r _ _ => (r_d r =? k) && (f_id (r_f r) =? id) && is_wire (r_f r)
  | IRcvChk r _ (Some (it, s)) =>
      (r_d r =? k) && (f_id (r_f r) =? id) && is_wire (r_f r) && negb (it_tomb it) && (negb (fin_of (r_f r)) || s)
  | _ => match adm_kf j with Some (k', f) => (k' =? k) && (f_id f =? id) | None => false end
  end.

(* the request (k,id) was read, its originating item is a tombstone or gone, and no goroutine
   is still committed to it *)
Definition settled (st : state) (k id : Z) : Prop :=
  In (k, id) (seen st) /\
  (forall it, klookup (k, 0, id) (items st) = Some it -> it_tomb it = true) /\
  forall th code j, In (th, code) (threads st) -> In j code -> blocked k id j = false.

Lemma wire_of_cons_other : forall k id k' f log, ((k' =? k) && (f_id f =? id) && is_wire f) = false ->
  wire_of k id ((k', f) :: log) = wire_of k id log.
Proof.
  intros k id k' f log H. cbn. unfold is_wire in H. destruct ((k' =? k) && (f_id f =? id)); [|apply app_nil_r].
  cbn in H. destruct (kind_of f); [discriminate|apply app_nil_r].
Qed.

Lemma after_sent_unblocked : forall k id r j, In j (after_sent r) -> blocked k id j = false.
Proof.
  intros k id r j Hj. unfold after_sent in Hj. apply in_app_or in Hj. destruct Hj as [Hj|Hj].
  - destruct (fin_of (r_f r)); [|contradiction]. destruct Hj as [<-|[]]. reflexivity.
  - destruct (0 <? r_more r); [|contradiction]. destruct Hj as [<-|[<-|[]]]; reflexivity.
Qed.

(* an item found at a key after a step was there before (no less of a tombstone), unless the step
   is the addRelayItem of exactly that key *)
Lemma exec_item_at : forall cf st i room st1 pushed t it, Inv st -> exec cf st i room = (st1, pushed) ->
  In (t, it) (items st1) ->
  (exists it0, In (t, it0) (items st) /\ (it_tomb it0 = true -> it_tomb it = true)) \/
  (exists k f e c d, i = IAddDest k f e c d /\ key_dir t = 1) \/
  (exists k f e c d did, i = IAddOrig k f e c d did /\ t = (k, 0, f_id f)).
Proof.
  intros cf st i room st1 pushed t it HI H Hin.
  assert (Hsame : items st1 = items st -> exists it0, In (t, it0) (items st) /\ (it_tomb it0 = true -> it_tomb it = true)).
  { intro He. rewrite He in Hin. exists it. split; [exact Hin|tauto]. }
  destruct i; cbn [exec] in H.
  - left. apply Hsame. destruct (e_start e =? 0); [inversion H; reflexivity|].
    destruct ((e_start e =? 1) || (e_start e =? 3)); inversion H; reflexivity.
  - left. apply Hsame. destruct (c_state (get_conn st k) =? c_connectionActive); inversion H; reflexivity.
  - left. apply Hsame. destruct (klookup (k, 0, f_id f) (items st)); [inversion H; reflexivity|].
    destruct (e_dest e =? -1); [inversion H; reflexivity|]. destruct (e_dest e <? 0); inversion H; reflexivity.
  - left. apply Hsame. destruct (c_state (get_conn st d) =? c_connectionActive); inversion H; reflexivity.
  - unfold timer_new in H. cbn [fst snd] in H. inversion H. subst st1 pushed. cbn [set_items items set_next_tm set_timers put_conn set_conns] in Hin.
    apply (in_insert key_eqb key_eqb_ok) in Hin. destruct Hin as [[-> ->]|[Hin _]].
    + right. left. exists k, f, e, c, d. split; reflexivity.
    + left. exists it. split; [exact Hin|tauto].
  - unfold timer_new in H. cbn [fst snd] in H. inversion H. subst st1 pushed. cbn [set_items items set_next_tm set_timers] in Hin.
    apply (in_insert key_eqb key_eqb_ok) in Hin. destruct Hin as [[-> ->]|[Hin _]].
    + right. right. exists k, f, e, c, d, did. split; reflexivity.
    + left. exists it. split; [exact Hin|tauto].
  - left. apply Hsame. inversion H. reflexivity.
  - left. apply Hsame. inversion H. reflexivity.
  - left. apply Hsame. match type of H with (if ?b then _ else _) = _ => destruct b end; inversion H; reflexivity.
  - left. apply Hsame. destruct ((c_state (get_conn st k) =? c_connectionClosed) || negb room); inversion H; reflexivity.
  - left. apply Hsame. destruct (c_state (get_conn st k) =? c_connectionActive); inversion H; reflexivity.
  - left. apply Hsame. destruct (frameTypeFor (f_mt f)); [|inversion H; reflexivity].
    match type of H with context [items_get ?a ?b ?cc] => destruct (items_get a b cc) as [st' g] eqn:E end.
    inversion H; subst. apply items_get_spec in E. destruct E as [(_&A&_) _]. exact A.
  - left. apply Hsame. destruct g as [[it0 stopped]|]; [|inversion H; reflexivity].
    destruct (it_tomb it0 || (fin_of f && negb stopped)); inversion H; reflexivity.
  - left. apply Hsame. match type of H with context [items_get ?a ?b ?cc] => destruct (items_get a b cc) as [st' g] eqn:E end.
    inversion H; subst. apply items_get_spec in E. destruct E as [(_&A&_) _]. exact A.
  - left. apply Hsame. destruct g as [[it0 stopped]|]; [|inversion H; reflexivity].
    destruct (it_tomb it0 || (fin_of (r_f r) && negb stopped)); inversion H; reflexivity.
  - left. apply Hsame. destruct room; inversion H; reflexivity.
  - left. apply Hsame. destruct (items_get st t0 true) as [st' g] eqn:E. apply items_get_spec in E. destruct E as [(_&A&_) _].
    destruct g as [[it0 [|]]|]; inversion H; subst; exact A.
  - left. destruct (items_entomb cf st t0) as [st' g] eqn:E. apply items_entomb_spec in E. destruct E as (_&_&_&_&_&_&E).
    assert (Hst : items st1 = items st').
    { destruct g as [[it0 [|]]|]; inversion H; reflexivity. }
    rewrite Hst in Hin. destruct (klookup t0 (items st)) as [it0|] eqn:El.
    + destruct E as [(_&Hi&_)|[(_&_&Hi&_)|(_&_&Hi&_)]]; rewrite Hi in Hin.
      * apply (in_remove key_eqb key_eqb_ok) in Hin. destruct Hin as [Hin _]. exists it. split; [exact Hin|tauto].
      * exists it. split; [exact Hin|tauto].
      * apply (in_insert key_eqb key_eqb_ok) in Hin. destruct Hin as [[-> ->]|[Hin _]].
        -- exists it0. split; [eapply (lookup_in key_eqb key_eqb_ok); exact El|intros _; reflexivity].
        -- exists it. split; [exact Hin|tauto].
    + destruct E as (_&Hi&_). rewrite Hi in Hin. exists it. split; [exact Hin|tauto].
  - left. destruct (items_delete_call_cases st t0 lk) as [Ec|[Ec _]]; rewrite Ec in H; [|inversion H; subst; exists it; split; [exact Hin|tauto]].
    destruct (items_delete st t0) as [st' g] eqn:E. apply items_delete_spec in E. destruct E as (_&_&_&_&_&_&_&E).
    assert (Hst : items st1 = items st').
    { destruct g as [[it0 [|]]|]; inversion H; reflexivity. }
    rewrite Hst in Hin. destruct (klookup t0 (items st)) as [it0|].
    + destruct E as [_ Hi]. rewrite Hi in Hin. apply (in_remove key_eqb key_eqb_ok) in Hin. destruct Hin as [Hin _].
      exists it. split; [exact Hin|tauto].
    + destruct E as [_ Hi]. rewrite Hi in Hin. exists it. split; [exact Hin|tauto].
  - left. apply Hsame. destruct (zlookup tm (timers st)) as [x|]; [|inversion H; reflexivity].
    destruct (tm_released x); inversion H; reflexivity.
Qed.

(* the instructions a step pushes are not committed to (k,id) unless the popped one was *)
Lemma exec_pushed_unblocked : forall cf st th i rest room st1 pushed k id j,
  Inv st -> WInv st -> lookup tid_eqb th (threads st) = Some (i :: rest) ->
  (forall it, klookup (k, 0, id) (items st) = Some it -> it_tomb it = true) ->
  blocked k id i = false -> exec cf st i room = (st1, pushed) -> In j pushed -> blocked k id j = false.
Proof.
  intros cf st th i rest room st1 pushed k id j HI HW Hl Hcl Hbi H Hj.
  pose proof (lookup_in tid_eqb tid_eqb_ok _ _ _ Hl) as Hin0.
  pose proof (w_code _ HW th _ i Hin0 (or_introl eq_refl)) as Hwi.
  destruct i; cbn [exec] in H.
  - cbn in Hbi. destruct (e_start e =? 0); inversion H; subst; clear H.
    + destruct Hj as [<-|[]]. cbn. exact Hbi.
    + in_cases Hj; try reflexivity. cbn. exact Hbi.
  - cbn in Hbi. destruct (c_state (get_conn st k0) =? c_connectionActive); inversion H; subst; clear H; in_cases Hj; try reflexivity; cbn; exact Hbi.
  - cbn in Hbi. destruct (klookup (k0, 0, f_id f) (items st)); [|destruct (e_dest e =? -1); [|destruct (e_dest e <? 0)]];
      inversion H; subst; clear H; in_cases Hj; try reflexivity; cbn; exact Hbi.
  - cbn in Hbi. destruct (c_state (get_conn st d) =? c_connectionActive); inversion H; subst; clear H; in_cases Hj; try reflexivity; cbn; exact Hbi.
  - cbn in Hbi. unfold timer_new in H. cbn [fst snd] in H. inversion H; subst. destruct Hj as [<-|[]]. cbn. exact Hbi.
  - unfold timer_new in H. cbn [fst snd] in H. inversion H; subst. in_cases Hj; reflexivity.
  - inversion H; subst. contradiction.
  - inversion H; subst. destruct Hj as [<-|[]]. reflexivity.
  - match type of H with (if ?b then _ else _) = _ => destruct b end; inversion H; subst; contradiction.
  - destruct ((c_state (get_conn st k0) =? c_connectionClosed) || negb room); inversion H; subst; contradiction.
  - destruct (c_state (get_conn st k0) =? c_connectionActive); inversion H; subst; contradiction.
  - destruct (frameTypeFor (f_mt f)); [|inversion H; subst; contradiction].
    match type of H with context [items_get ?a ?b ?cc] => destruct (items_get a b cc) as [st' g] eqn:E end.
    inversion H; subst. destruct Hj as [<-|[]]. reflexivity.
  - destruct g as [[it stopped]|]; [|inversion H; subst; contradiction].
    destruct (it_tomb it || (fin_of f && negb stopped)); inversion H; subst; [contradiction|]. in_cases Hj; reflexivity.
  - (* IRcvGet: a wire frame for (k,id) looks the originating item up: it is closed *)
    match type of H with context [items_get ?a ?b ?cc] => destruct (items_get a b cc) as [st' g] eqn:E end.
    inversion H; subst. destruct Hj as [<-|[]]. cbn. destruct g as [[it s]|]; [|reflexivity].
    destruct ((r_d r =? k) && (f_id (r_f r) =? id) && is_wire (r_f r)) eqn:Eb; [|reflexivity]. cbn.
    apply andb_true_iff in Eb. destruct Eb as [Eb Ew]. apply andb_true_iff in Eb. destruct Eb as [E1 E2].
    apply Z.eqb_eq in E1. apply Z.eqb_eq in E2.
    cbn in Hwi. destruct Hwi as (A&_&_).
    assert (Hr : r_ft r = c_responseFrame).
    { unfold is_wire in Ew. destruct (kind_of (r_f r)) eqn:Ek; [|discriminate].
      assert (Hk : kind_of (r_f r) <> None) by congruence. rewrite (kind_of_response _ Hk) in A. inversion A. reflexivity. }
    apply items_get_spec in E. destruct E as [_ Em]. rewrite Hr, E1, E2 in Em. cbn in Em.
    destruct (klookup (k, 0, id) (items st)) as [it0|] eqn:El; [|discriminate].
    destruct Em as [b Hg]. inversion Hg. subst it s. rewrite (Hcl it0 eq_refl). reflexivity.
  - destruct g as [[it stopped]|].
    + destruct (it_tomb it || (fin_of (r_f r) && negb stopped)) eqn:Echk; inversion H; subst; clear H.
      * eapply after_sent_unblocked. exact Hj.
      * apply orb_false_iff in Echk. destruct Echk as [Et Es].
        apply in_app_or in Hj. destruct Hj as [Hj|[<-|[]]]; [in_cases Hj; reflexivity|].
        cbn. cbn in Hbi. rewrite Et in Hbi. cbn in Hbi.
        destruct ((r_d r =? k) && (f_id (r_f r) =? id) && is_wire (r_f r)); [|reflexivity]. cbn in Hbi.
        destruct (fin_of (r_f r)); cbn in *; [|discriminate]. apply negb_false_iff in Es. subst stopped. discriminate.
    + inversion H; subst. in_cases Hj. reflexivity.
  - destruct room; inversion H; subst; clear H.
    + apply in_app_or in Hj. destruct Hj as [Hj|Hj]; [in_cases Hj; reflexivity|eapply after_sent_unblocked; exact Hj].
    + in_cases Hj; reflexivity.
  - destruct (items_get st t true) as [st' g] eqn:E. destruct g as [[it [|]]|]; inversion H; subst; try contradiction.
    destruct Hj as [<-|[]]. reflexivity.
  - (* IEntomb: an error frame for (k,id) needs the originating item alive *)
    destruct (items_entomb cf st t) as [st' g] eqn:E. apply items_entomb_spec in E. destruct E as (_&_&_&_&_&_&E).
    destruct g as [[it [|]]|]; inversion H; subst; try contradiction. clear H.
    destruct (klookup t (items st)) as [it0|] eqn:El; [|destruct E as [E _]; discriminate].
    pose proof (lookup_in key_eqb key_eqb_ok _ _ _ El) as Hin.
    assert (Hnt : it_tomb it0 = false /\ it_orig it = it_orig it0).
    { destruct E as [(Hg&_)|[(_&Hg&_)|(Ht&Hg&_)]]; inversion Hg; subst.
      - split; [destruct (it_tomb it0); [discriminate|reflexivity]|reflexivity].
      - split; [exact Ht|reflexivity]. }
    destruct Hnt as [Hnt Hor].
    apply in_app_or in Hj. destruct Hj as [Hj|[<-|[]]]; [|reflexivity].
    destruct (match s with FromFail _ => it_orig it | FromTimeout o => o end) eqn:Eo; [|contradiction].
    assert (Hdir : key_dir t = 0).
    { pose proof (inv_orig _ HI _ _ Hin) as Ho. destruct s as [r0|o].
      - rewrite Hor, Ho in Eo. apply Z.eqb_eq in Eo. exact Eo.
      - destruct (inv_code _ HI _ _ Hin0) as [Hf _]. inversion Hf as [|? ? Hiok _]. unfold iok in Hiok. cbn in Hiok.
        rewrite Hiok in Eo. apply Z.eqb_eq in Eo. exact Eo. }
    unfold orig_tail in Hj. destruct s; in_cases Hj; try reflexivity; cbn.
    + destruct ((key_conn t =? k) && (key_id t =? id)) eqn:Ek; [|reflexivity]. exfalso.
      apply andb_true_iff in Ek. destruct Ek as [E1 E2]. apply Z.eqb_eq in E1. apply Z.eqb_eq in E2.
      destruct t as [[tc td] ti]. cbn in *. subst. rewrite (Hcl _ El) in Hnt. discriminate.
    + destruct ((key_conn t =? k) && (key_id t =? id)) eqn:Ek; [|reflexivity]. exfalso.
      apply andb_true_iff in Ek. destruct Ek as [E1 E2]. apply Z.eqb_eq in E1. apply Z.eqb_eq in E2.
      destruct t as [[tc td] ti]. cbn in *. subst. rewrite (Hcl _ El) in Hnt. discriminate.
  - destruct (items_delete_call st t lk) as [st' g] eqn:E. destruct g as [[it [|]]|]; inversion H; subst; try contradiction.
    in_cases Hj; reflexivity.
  - destruct (zlookup tm (timers st)) as [x|]; [|inversion H; subst; contradiction].
    destruct (tm_released x); inversion H; subst; try contradiction. destruct Hj as [<-|[]]. reflexivity.
Qed.

Lemma step_settled : forall cf st l st' k id, Inv st -> WInv st -> fresh_label st l = true ->
  settled st k id -> step cf st l = Some st' ->
  settled st' k id /\ wire_of k id (sent st') = wire_of k id (sent st).
Proof.
  intros cf st l st' k id HI HW Hfresh (Hsn&Hcl&Hnb) H.
  pose proof (step_inv _ _ _ _ HI Hfresh H) as HI'.
  destruct l as [k0 f e|th room|tm|t|k0|k0|k0].
  - (* LArrive *)
    unfold step in H. destruct (negb (panicked st =? 0)); [discriminate|].
    destruct (lookup tid_eqb (TR k0) (threads st)); [discriminate|].
    destruct (relayRoute (f_mt f) (cf_cancel cf) =? 1); [|inversion H; subst; split; [repeat split; assumption|reflexivity]].
    destruct (f_mt f =? c_messageTypeCallReq) eqn:Emt; inversion H; subst; clear H.
    + split; [|reflexivity]. split; [right; exact Hsn|]. split; [exact Hcl|].
      intros th code j Hin Hj. apply set_thread_in in Hin. destruct Hin as [[-> ->]|[_ Hin]]; [|eapply Hnb; eassumption].
      destruct Hj as [<-|[]]. cbn. destruct ((k0 =? k) && (f_id f =? id)) eqn:E; [|reflexivity]. exfalso.
      apply andb_true_iff in E. destruct E as [E1 E2]. apply Z.eqb_eq in E1. apply Z.eqb_eq in E2. subst.
      cbn [fresh_label] in Hfresh. rewrite Emt in Hfresh. cbn [andb] in Hfresh. apply negb_true_iff in Hfresh.
      assert (Hex : existsb (fun p => (fst p =? k) && (snd p =? f_id f)) (seen st) = true).
      { apply existsb_exists. exists (k, f_id f). split; [exact Hsn|]. cbn. rewrite !Z.eqb_refl. reflexivity. }
      congruence.
    + split; [|reflexivity]. split; [exact Hsn|]. split; [exact Hcl|].
      intros th code j Hin Hj. apply set_thread_in in Hin. destruct Hin as [[-> ->]|[_ Hin]]; [|eapply Hnb; eassumption].
      destruct Hj as [<-|[]]. reflexivity.
  - (* LStep *)
    unfold step in H. destruct (negb (panicked st =? 0)); [discriminate|].
    destruct (lookup tid_eqb th (threads st)) as [[|i rest]|] eqn:El; try discriminate.
    destruct (exec cf st i room) as [st1 pushed] eqn:E. inversion H. subst st'. clear H.
    pose proof (lookup_in tid_eqb tid_eqb_ok _ _ _ El) as Hin0.
    pose proof (Hnb th _ i Hin0 (or_introl eq_refl)) as Hbi.
    destruct (exec_sent_w _ _ _ _ _ _ E) as [Hseen Hsent].
    destruct (exec_cblog _ _ _ _ _ _ E) as [Hth _].
    split.
    + split; [cbn [set_thread set_threads seen]; rewrite Hseen; exact Hsn|]. split.
      * cbn [set_thread set_threads items]. intros it Hl.
        pose proof (lookup_in key_eqb key_eqb_ok _ _ _ Hl) as Hin1.
        destruct (exec_item_at _ _ _ _ _ _ _ _ HI E Hin1) as [(it0&Hin2&Ht)|[(k1&f1&e1&c1&d1&Hi&Hd)|(k1&f1&e1&c1&d1&did1&Hi&Ht)]].
        -- apply Ht. apply Hcl. eapply (in_lookup key_eqb key_eqb_ok); [apply (inv_items_nd _ HI)|exact Hin2].
        -- cbn in Hd. discriminate.
        -- subst i. inversion Ht. subst. cbn in Hbi. rewrite !Z.eqb_refl in Hbi. discriminate.
      * intros th' code j Hin Hj. apply set_thread_in in Hin. destruct Hin as [[-> ->]|[_ Hin]].
        -- apply in_app_or in Hj. destruct Hj as [Hj|Hj].
           ++ exact (exec_pushed_unblocked cf st th i rest room st1 pushed k id j HI HW El Hcl Hbi E Hj).
           ++ eapply (Hnb th (i :: rest)); [exact Hin0|right; exact Hj].
        -- rewrite Hth in Hin. eapply Hnb; eassumption.
    + cbn [set_thread set_threads sent]. destruct Hsent as [Hs|[(k1&id1&code1&Hi&Hs)|(r&rk&lk&Hi&Hs)]]; rewrite Hs; [reflexivity| |].
      * subst i. apply wire_of_cons_other. cbn in Hbi. cbn. rewrite Hbi. reflexivity.
      * subst i. apply wire_of_cons_other. cbn in Hbi. exact Hbi.
  - (* LFire *)
    unfold step in H. destruct (negb (panicked st =? 0)); [discriminate|].
    destruct (zlookup tm (timers st)) as [x|]; [|discriminate].
    destruct (tm_armed x && match lookup tid_eqb (TT tm) (threads st) with None => true | Some _ => false end); [|discriminate].
    inversion H. subst. split; [|reflexivity]. split; [exact Hsn|]. split; [exact Hcl|].
    intros th code j Hin Hj. apply set_thread_in in Hin. destruct Hin as [[-> ->]|[_ Hin]]; [|eapply Hnb; eassumption].
    destruct Hj as [<-|[]]. reflexivity.
  - (* LGc *)
    unfold step in H. destruct (negb (panicked st =? 0)); [discriminate|].
    destruct (mem_key t (gcs st)) eqn:Emem; [|discriminate]. inversion H. subst.
    gc_delete HI.
    destruct (items_delete (set_gcs st (remove_one t (gcs st))) t) as [st' g] eqn:E. cbn [fst].
    apply items_delete_spec in E. cbn [set_gcs conns gcs threads cblog sent seen next_call items] in E.
    destruct E as (_&_&A&_&B&C&_&D). rewrite B. split; [|reflexivity]. split; [rewrite C; exact Hsn|]. split.
    + intros it Hl. apply Hcl. destruct (klookup t (items st)) as [it0|]; destruct D as [_ Hi]; rewrite Hi in Hl; [|exact Hl].
      pose proof (lookup_in key_eqb key_eqb_ok _ _ _ Hl) as Hin. apply (in_remove key_eqb key_eqb_ok) in Hin. destruct Hin as [Hin _].
      eapply (in_lookup key_eqb key_eqb_ok); [apply (inv_items_nd _ HI)|exact Hin].
    + rewrite A. exact Hnb.
  - unfold step in H. destruct (negb (panicked st =? 0)); [discriminate|].
    destruct (c_state (get_conn st k0) =? c_connectionActive); [|discriminate]. inversion H. subst.
    split; [repeat split; assumption|reflexivity].
  - unfold step in H. destruct (negb (panicked st =? 0)); [discriminate|]. inversion H. subst.
    split; [repeat split; assumption|reflexivity].
  - unfold step in H. destruct (negb (panicked st =? 0)); [discriminate|].
    match type of H with (if ?b then _ else _) = _ => destruct b end; [|discriminate]. inversion H. subst.
    split; [repeat split; assumption|reflexivity].
Qed.

(* Once the originating item of a request is a tombstone or gone and no goroutine is still
   committed to it, nothing is ever enqueued for that id again: whatever the destination
   sends later is discarded by the tombstone (or by the missing item). *)
Theorem relay_late_frames_discarded : forall cf ls0 st k id, run_fresh cf init ls0 = Some st -> settled st k id ->
  forall ls st', run_fresh cf st ls = Some st' -> wire_of k id (sent st') = wire_of k id (sent st).
Proof.
  intros cf ls0 st k id H0 Hs ls. destruct (reach_both _ _ _ H0) as [HI _]. pose proof (reach_winv _ _ _ H0) as HW. clear H0.
  revert st HI HW Hs. induction ls as [|l r IH]; intros st HI HW Hs st' H; cbn in H.
  - inversion H. reflexivity.
  - destruct (fresh_label st l) eqn:Ef; [|discriminate]. destruct (step cf st l) as [st1|] eqn:Es; [|discriminate].
    destruct (step_settled _ _ _ _ _ _ HI HW Ef Hs Es) as [Hs1 Hw].
    rewrite (IH st1 (step_inv _ _ _ _ HI Ef Es) (step_winv _ _ _ _ HI HW Es) Hs1 st' H). exact Hw.
Qed.

(* the timeout of the originating item: exactly the error frame, the two callbacks and the
   decrement are left to do, and the item is a tombstone (or gone) from then on *)
Theorem relay_timeout_step : forall cf st k id it room st1 pushed,
  klookup (k, 0, id) (items st) = Some it -> it_tomb it = false ->
  exec cf st (IEntomb (k, 0, id) (FromTimeout true)) room = (st1, pushed) ->
  pushed = [ISendErr k id c_ErrCodeTimeout; ICb (it_call it) (CbFailed reason_timeout); ICb (it_call it) CbEnd; IDec k] /\
  forall it', klookup (k, 0, id) (items st1) = Some it' -> it_tomb it' = true.
Proof.
  intros cf st k id it room st1 pushed Hl Hnt H. cbn [exec] in H.
  destruct (items_entomb cf st (k, 0, id)) as [st' g] eqn:E. apply items_entomb_spec in E. destruct E as (_&_&_&_&_&_&E).
  rewrite Hl in E. destruct E as [(Hg&Hi&_)|[(Ht&_)|(_&Hg&Hi&_)]].
  - subst g. rewrite Hnt in H. cbn in H. inversion H. subst. split; [reflexivity|].
    intros it' Hl'. rewrite Hi in Hl'. rewrite (lookup_remove_eq key_eqb key_eqb_ok) in Hl'. discriminate.
  - congruence.
  - subst g. inversion H. subst. split; [reflexivity|].
    intros it' Hl'. rewrite Hi in Hl'. rewrite (lookup_insert_eq key_eqb key_eqb_ok) in Hl'. inversion Hl'. reflexivity.
Qed.
