(* Agreement of the REGENERATED C18 codec pieces (Gen/GenCodecs.v: thrift/arg2 key/value
   iterator, http varint strings; Gen/GenTypedBuf.v: ReadBytes for every Go int) with the
   hand model Model/Codecs.v. *)
From Coq Require Import ZArith List Bool Lia.
From Verif Require Import Base.Wrap Base.Bytes Base.GoSem Gen.GenConsts Gen.GenTypedBuf Gen.GenCodecs
  Model.TypedBuf Model.Messages Model.Codecs Model.UvarintG Proofs.GenTypedBufP Proofs.GenMessagesP.
Import ListNotations.
Local Open Scope Z_scope.

(* ReadBytes(n) for EVERY Go int n, against the model with explicit panics: equal, hence
   never a panic (the slice expressions are guarded, the repaired negative case included) *)
Lemma ReadBytes_go_agrees g n :
  viewR bs_list (ReadBuffer_ReadBytes g n) = r_bytes_go n (absR g).
Proof.
  rewrite ReadBytes_cases. unfold r_bytes_go, absR, slice_to. cbn [rerr rrem].
  destruct (negb (ReadBuffer_err g =? 0)) eqn:E; [cbn; unfold absR; rewrite E; reflexivity|].
  change (zlen (bs_list (ReadBuffer_remaining g))) with (bs_len (ReadBuffer_remaining g)).
  destruct ((n <? 0) || (bs_len (ReadBuffer_remaining g) <? n)) eqn:L; [reflexivity|].
  cbn. unfold absR. cbn. rewrite E. destruct (ReadBuffer_remaining g); cbn; rewrite ?firstn_nil, ?skipn_nil; reflexivity.
Qed.

Lemma NewReadBuffer_agrees b : option_map absR (NewReadBuffer b) = Some (rb (bs_list b)).
Proof. reflexivity. Qed.

Lemma NewWriteBuffer_agrees b : exists g, NewWriteBuffer b = Some g /\ wfW g /\ absW g = wb (bs_len b).
Proof.
  eexists. split; [reflexivity|]. apply (rs_whole_wf b 0). left; reflexivity.
Qed.

(* ---- uvarint over the generated ReadByte = the model's r_uvarint ---- *)
Lemma g_uvarint_loop_agrees n : forall i x s g,
  viewR (fun v => v) (g_uvarint_loop n i x s g) = Some (r_uvarint_loop n i x s (absR g)).
Proof.
  induction n as [|n IH]; intros i x s g; [reflexivity|].
  cbn [g_uvarint_loop r_uvarint_loop].
  pose proof (ReadSingleByte_agrees g) as H. unfold ReadBuffer_ReadSingleByte in H.
  pose proof (ReadByte_err g) as He.
  destruct (ReadBuffer_ReadByte g) as [[[b e] g1]|]; [|discriminate].
  cbn in H. inversion H as [H1]. clear H.
  destruct (He b e g1 eq_refl) as [He1|[He1 He2]].
  - subst e. change (negb (ReadBuffer_err g1 =? 0)) with (rerr (absR g1)).
    destruct (rerr (absR g1)); [reflexivity|].
    destruct (b <? 128); [reflexivity|]. apply IH.
  - subst e. cbn [Z.eqb negb].
    assert (R0 : rerr (absR g1) = false) by (unfold absR; cbn; rewrite He2; reflexivity). rewrite R0.
    destruct (b <? 128); [reflexivity|]. apply IH.
Qed.

Lemma g_ReadUvarint_agrees g : viewR (fun v => v) (g_ReadUvarint g) = Some (r_uvarint (absR g)).
Proof. apply g_uvarint_loop_agrees. Qed.

Lemma g_WriteUvarint_agrees g v : wfW g -> stepW (g_WriteUvarint g v) g (w_bytes (put_uvarint 10 v)).
Proof. intros W. apply (WriteBytes_agrees g (Some (put_uvarint 10 v)) W). Qed.

(* ---- http/buf.go ---- *)
Lemma readVarintString_agrees g :
  viewR (fun s => s) (readVarintString g) = r_varint_string (absR g).
Proof.
  unfold readVarintString, r_varint_string.
  pose proof (g_ReadUvarint_agrees g) as H. apply viewR_some in H as (len & g1 & E & V & S). rewrite E.
  destruct (r_uvarint (absR g)) as [len' r1]. cbn in V, S. subst len' r1.
  rewrite ReadString_as_ReadBytes. rewrite <- ReadBytes_go_agrees.
  destruct (ReadBuffer_ReadBytes g1 (wrapS 64 len)) as [[b g2]|]; reflexivity.
Qed.

Lemma writeVarintString_agrees g s : wfW g -> zlen s < 2 ^ 64 ->
  stepW (writeVarintString g s) g (w_varint_string s).
Proof.
  intros W Hs. unfold writeVarintString, w_varint_string.
  rewrite wrapU_id by (pose proof (zlen_nonneg s); lia).
  destruct (g_WriteUvarint_agrees g (zlen s) W) as (g1 & E1 & W1 & A1). rewrite E1.
  destruct (WriteString_agrees g1 s W1) as (g2 & E2 & W2 & A2). rewrite E2.
  exists g2. split; [reflexivity|]. split; [exact W2|]. unfold seqW. rewrite <- A1. exact A2.
Qed.

(* ---- thrift/arg2/kv_iterator.go ---- *)
Definition kv_zero : KeyValIterator := mk_KeyValIterator None 0 None None.

(* what one Next() returns, against the model step kv_next on (leftPairCount, remaining):
   io.EOF when the count is exhausted, typed.ErrEOF when the buffer is short, else the next
   iterator holding key, value, the decremented count and the rest of the buffer *)
Definition kv_result_ok (res : KeyValIterator * Z) (m : option (unit + (list Z * list Z * Z * list Z))) : Prop :=
  match m with
  | None => res = (kv_zero, e_io_EOF)
  | Some (inl _) => res = (kv_zero, e_typed_ErrEOF)
  | Some (inr (k, v, left', rem')) =>
      snd res = 0 /\ bs_list (KeyValIterator_key (fst res)) = k /\ bs_list (KeyValIterator_val (fst res)) = v /\
      KeyValIterator_leftPairCount (fst res) = left' /\ bs_list (KeyValIterator_remaining (fst res)) = rem'
  end.

Lemma rd_bytes g n : bokR g -> 0 <= n ->
  exists b g', ReadBuffer_ReadBytes g n = Some (b, g') /\ (bs_list b, absR g') = r_bytes (Z.to_nat n) (absR g) /\ bokR g'.
Proof.
  intros B Hn. pose proof (ReadBytes_agrees g n Hn) as H. apply viewR_some in H as (b & g' & E & V & S).
  exists b, g'. split; [exact E|]. split; [apply pair_eq; assumption|].
  unfold bokR. change (bs_list (ReadBuffer_remaining g')) with (rrem (absR g')). rewrite S. apply bok_r_bytes, B.
Qed.

(* the only error a read buffer ever holds is ErrEOF *)
Definition errR (g : ReadBuffer) : Prop := ReadBuffer_err g = 0 \/ ReadBuffer_err g = e_typed_ErrEOF.

Lemma ReadBytes_errR g n b g' : errR g -> ReadBuffer_ReadBytes g n = Some (b, g') -> errR g'.
Proof.
  intros H. rewrite ReadBytes_cases. destruct (negb (ReadBuffer_err g =? 0)); [intros X; inversion X; subst; exact H|].
  destruct ((n <? 0) || (bs_len (ReadBuffer_remaining g) <? n)); intros X; inversion X; subst.
  - right; reflexivity.
  - exact H.
Qed.

Lemma ReadUint16_errR g v g' : errR g -> ReadBuffer_ReadUint16 g = Some (v, g') -> errR g'.
Proof.
  intros H. unfold ReadBuffer_ReadUint16. destruct (ReadBuffer_ReadBytes g 2) as [[b g1]|] eqn:E; [|discriminate].
  pose proof (ReadBytes_errR g 2 b g1 H E) as H1.
  destruct (negb (bs_isnil b)); [destruct (be_get 2 b); [|discriminate]|]; intros X; inversion X; subst; exact H1.
Qed.

Lemma KeyValIterator_Next_agrees i :
  bytes_ok (bs_list (KeyValIterator_remaining i)) = true -> KeyValIterator_leftPairCount i < 2 ^ 63 ->
  exists res, KeyValIterator_Next i = Some res /\
              kv_result_ok res (kv_next (KeyValIterator_leftPairCount i) (bs_list (KeyValIterator_remaining i))).
Proof.
  intros B Hl. unfold KeyValIterator_Next, kv_next.
  destruct (KeyValIterator_leftPairCount i <=? 0) eqn:L; [eexists; split; reflexivity|].
  apply Z.leb_gt in L. cbn [NewReadBuffer].
  set (g0 := mk_ReadBuffer (KeyValIterator_remaining i) 0).
  change (rb (bs_list (KeyValIterator_remaining i))) with (absR g0).
  assert (B0 : bokR g0) by exact B.
  unfold bindR.
  assert (X0 : errR g0) by (left; reflexivity).
  destruct (rd_u16 g0 B0) as (kl & g1 & E1 & M1 & B1 & R1). pose proof (ReadUint16_errR _ _ _ X0 E1) as X1. rewrite E1, <- M1.
  rewrite wrapS_id by (cbn; lia).
  destruct (rd_bytes g1 kl B1 ltac:(lia)) as (k & g2 & E2 & M2 & B2). pose proof (ReadBytes_errR _ _ _ _ X1 E2) as X2. rewrite E2, <- M2.
  destruct (rd_u16 g2 B2) as (vl & g3 & E3 & M3 & B3 & R3). pose proof (ReadUint16_errR _ _ _ X2 E3) as X3. rewrite E3, <- M3.
  rewrite wrapS_id by (cbn; lia).
  destruct (rd_bytes g3 vl B3 ltac:(lia)) as (v & g4 & E4 & M4 & B4). pose proof (ReadBytes_errR _ _ _ _ X3 E4) as X4. rewrite E4, <- M4.
  cbn [ReadBuffer_Err ReadBuffer_Remaining].
  change (negb (ReadBuffer_err g4 =? 0)) with (rerr (absR g4)).
  destruct (rerr (absR g4)) eqn:Er.
  - eexists. split; [reflexivity|]. cbn.
    destruct X4 as [X4|X4]; [unfold absR in Er; cbn in Er; rewrite X4 in Er; discriminate|].
    rewrite X4. reflexivity.
  - eexists. split; [reflexivity|]. cbn. repeat split; try reflexivity.
    apply wrapS_id; cbn; lia.
Qed.

Lemma NewKeyValIterator_agrees buf : bytes_ok (bs_list buf) = true ->
  NewKeyValIterator buf =
    if bs_len buf <? 2 then Some (kv_zero, e_io_EOF)
    else KeyValIterator_Next (mk_KeyValIterator (rd_drop buf 2) (unbe (firstn 2 (bs_list buf))) None None).
Proof.
  intros B. unfold NewKeyValIterator. destruct (bs_len buf <? 2) eqn:L; [reflexivity|].
  apply Z.ltb_ge in L.
  rewrite bs_slice_take by lia. rewrite bs_slice_drop by lia.
  destruct buf as [l|]; [|unfold bs_len in L; cbn in L; unfold zlen in L; cbn in L; lia].
  unfold bs_len in L. cbn [bs_list] in *. cbn [rd_take rd_drop].
  unfold be_get. cbn [bs_len bs_list]. unfold bs_len. cbn [bs_list].
  change (Z.to_nat 2) with 2%nat.
  rewrite zlen_firstn_nat by (unfold zlen in L; lia). rewrite Z.ltb_irrefl.
  rewrite firstn_firstn, Nat.min_id.
  assert (B2 : bytes_ok (firstn 2 l) = true).
  { rewrite <- (firstn_skipn 2 l) in B. rewrite bytes_ok_app in B. apply andb_true_iff in B. tauto. }
  pose proof (unbe_range _ B2) as U. rewrite firstn_length, Nat.min_l in U by (unfold zlen in L; lia).
  rewrite wrapS_id by (cbn in U |- *; lia).
  destruct (KeyValIterator_Next _) as [[a b]|]; reflexivity.
Qed.

(* ================= the conjunction stated in Props/C18.v ================= *)
Lemma codecs_generated :
  (forall g n, viewR bs_list (ReadBuffer_ReadBytes g n) = r_bytes_go n (absR g)) /\
  (forall b, option_map absR (NewReadBuffer b) = Some (rb (bs_list b))) /\
  (forall b, exists g, NewWriteBuffer b = Some g /\ wfW g /\ absW g = wb (bs_len b)) /\
  (forall i, bytes_ok (bs_list (KeyValIterator_remaining i)) = true -> KeyValIterator_leftPairCount i < 2 ^ 63 ->
     exists res, KeyValIterator_Next i = Some res /\
                 kv_result_ok res (kv_next (KeyValIterator_leftPairCount i) (bs_list (KeyValIterator_remaining i)))) /\
  (forall buf, bytes_ok (bs_list buf) = true ->
     NewKeyValIterator buf =
       if bs_len buf <? 2 then Some (kv_zero, e_io_EOF)
       else KeyValIterator_Next (mk_KeyValIterator (rd_drop buf 2) (unbe (firstn 2 (bs_list buf))) None None)) /\
  (forall g, viewR (fun v => v) (g_ReadUvarint g) = Some (r_uvarint (absR g))) /\
  (forall g, viewR (fun s => s) (readVarintString g) = r_varint_string (absR g)) /\
  (forall g s, wfW g -> zlen s < 2 ^ 64 -> stepW (writeVarintString g s) g (w_varint_string s)).
Proof.
  split; [exact ReadBytes_go_agrees|]. split; [exact NewReadBuffer_agrees|]. split; [exact NewWriteBuffer_agrees|].
  split; [exact KeyValIterator_Next_agrees|]. split; [exact NewKeyValIterator_agrees|].
  split; [exact g_ReadUvarint_agrees|]. split; [exact readVarintString_agrees|]. exact writeVarintString_agrees.
Qed.
