(* Proofs about the CRC-32 model (Model/Crc.v) and the checksum test of the fragment
   reader (r_recv of Model/Frag.v): section "C. CRC" of TARGETS_frag.md.

   Structure:
     1. 32-bit range facts for lxor / shiftr, range of crc_T1 .. crc32_update
     2. crc32_update over an append
     3. injectivity of crc_T1 / crc_T8 / crc_byte on 32-bit words (bit 31 of P set)
     4. GF(2)-linearity of crc_T1, hence  crc_raw P s bs xor crc_raw P t bs = T8^|bs| (s xor t)
        for ARBITRARY s, t, bs (no range hypotheses)
     5. crc_detect_one_byte (and the general form for any P with bit 31 set)
     6. checksum objects: ck_detect_data, and what r_recv answers (code 8) *)
From Coq Require Import ZArith List Bool Lia ZifyBool.
From Verif Require Import Base.Wrap Base.Bytes Gen.GenConsts Gen.GenFrame Model.Crc Model.Frag.
Import ListNotations.
Local Open Scope Z_scope.

(* ------------------------------------------------------------------------- *)
(* 1. ranges                                                                   *)
(* ------------------------------------------------------------------------- *)

Definition w32 (x : Z) : Prop := 0 <= x < 2 ^ 32.

(* Unfolding equations.  The kernel's conversion test between a folded and an unfolded
   crc_byte / crc_T8 can take minutes (crc_T1 duplicates its argument), so the proofs
   below always REWRITE with these equations instead of relying on conversion. *)
Lemma crc_T1_eq P s : crc_T1 P s = Z.lxor (Z.shiftr s 1) (if Z.odd s then P else 0).
Proof. reflexivity. Qed.
Lemma crc_T8_eq P s : crc_T8 P s =
  crc_T1 P (crc_T1 P (crc_T1 P (crc_T1 P (crc_T1 P (crc_T1 P (crc_T1 P (crc_T1 P s))))))).
Proof. reflexivity. Qed.
Lemma crc_byte_eq P s b : crc_byte P s b = crc_T8 P (Z.lxor s b).
Proof. reflexivity. Qed.
Lemma crc_raw_nil P s : crc_raw P s [] = s.
Proof. reflexivity. Qed.
Lemma crc_raw_cons P s b bs : crc_raw P s (b :: bs) = crc_raw P (crc_byte P s b) bs.
Proof. reflexivity. Qed.
Lemma crc32_update_eq P c bs : crc32_update P c bs = Z.lxor (crc_raw P (Z.lxor c mask32) bs) mask32.
Proof. reflexivity. Qed.

Lemma lxor_range n a b : 0 <= n -> 0 <= a < 2 ^ n -> 0 <= b < 2 ^ n -> 0 <= Z.lxor a b < 2 ^ n.
Proof.
  intros Hn Ha Hb.
  assert (Hnn : 0 <= Z.lxor a b) by (apply Z.lxor_nonneg; lia).
  split; [exact Hnn|].
  destruct (Z.eq_dec (Z.lxor a b) 0) as [E|NE].
  - rewrite E. apply Z.pow_pos_nonneg; lia.
  - assert (Hn0 : 0 < n).
    { destruct (Z.eq_dec n 0) as [->|]; [|lia]. exfalso. apply NE.
      replace a with 0 by (cbn in Ha; lia). replace b with 0 by (cbn in Hb; lia). reflexivity. }
    apply Z.log2_lt_pow2; [lia|].
    pose proof (Z.log2_lxor a b ltac:(lia) ltac:(lia)) as HL.
    assert (La : Z.log2 a < n).
    { destruct (Z.eq_dec a 0) as [->|Na]; [cbn; lia|]. apply Z.log2_lt_pow2; lia. }
    assert (Lb : Z.log2 b < n).
    { destruct (Z.eq_dec b 0) as [->|Nb]; [cbn; lia|]. apply Z.log2_lt_pow2; lia. }
    lia.
Qed.

Lemma w32_lxor a b : w32 a -> w32 b -> w32 (Z.lxor a b).
Proof. unfold w32. intros Ha Hb. apply lxor_range; lia. Qed.

Lemma w32_0 : w32 0. Proof. unfold w32. lia. Qed.
Lemma w32_mask : w32 mask32. Proof. unfold w32, mask32. lia. Qed.
Lemma w32_byte b : 0 <= b < 256 -> w32 b. Proof. unfold w32. lia. Qed.

Lemma shiftr1_div s : Z.shiftr s 1 = s / 2.
Proof. rewrite Z.shiftr_div_pow2 by lia. reflexivity. Qed.

Lemma w32_shiftr1 s : w32 s -> 0 <= Z.shiftr s 1 < 2 ^ 31.
Proof.
  unfold w32. intros H. rewrite shiftr1_div.
  change (2 ^ 32) with (2 * 2 ^ 31) in H.
  split; [apply Z.div_pos; lia|apply Z.div_lt_upper_bound; lia].
Qed.

Lemma crc_T1_range P s : w32 P -> w32 s -> w32 (crc_T1 P s).
Proof.
  intros HP Hs. rewrite crc_T1_eq. apply w32_lxor.
  - pose proof (w32_shiftr1 s Hs). unfold w32. lia.
  - destruct (Z.odd s); [exact HP|exact w32_0].
Qed.

Lemma crc_T8_range P s : w32 P -> w32 s -> w32 (crc_T8 P s).
Proof. intros HP Hs. rewrite crc_T8_eq. repeat apply crc_T1_range; assumption. Qed.

Lemma crc_byte_range P s b : w32 P -> w32 s -> 0 <= b < 256 -> w32 (crc_byte P s b).
Proof. intros HP Hs Hb. rewrite crc_byte_eq. apply crc_T8_range; [exact HP|]. apply w32_lxor; [exact Hs|apply w32_byte; exact Hb]. Qed.

Lemma byte_ok_range b : byte_ok b = true <-> 0 <= b < 256.
Proof. unfold byte_ok. lia. Qed.

Lemma bytes_ok_cons b bs : bytes_ok (b :: bs) = true <-> 0 <= b < 256 /\ bytes_ok bs = true.
Proof. unfold bytes_ok. cbn [forallb]. rewrite andb_true_iff, byte_ok_range. reflexivity. Qed.

Lemma crc_raw_range P bs : w32 P -> bytes_ok bs = true -> forall s, w32 s -> w32 (crc_raw P s bs).
Proof.
  intros HP. induction bs as [|b bs IH]; intros Hbs s Hs; [rewrite crc_raw_nil; exact Hs|].
  rewrite crc_raw_cons. apply bytes_ok_cons in Hbs as [Hb Hbs]. apply IH; [exact Hbs|]. apply crc_byte_range; assumption.
Qed.

Lemma crc_range P c bs : 0 <= P < 2 ^ 32 -> 0 <= c < 2 ^ 32 -> bytes_ok bs = true ->
  0 <= crc32_update P c bs < 2 ^ 32.
Proof.
  intros HP Hc Hbs. rewrite crc32_update_eq. apply w32_lxor; [|exact w32_mask].
  apply crc_raw_range; [exact HP|exact Hbs|]. apply w32_lxor; [exact Hc|exact w32_mask].
Qed.

(* ------------------------------------------------------------------------- *)
(* 2. append                                                                   *)
(* ------------------------------------------------------------------------- *)

Lemma lxor_cancel_r a m : Z.lxor (Z.lxor a m) m = a.
Proof. rewrite Z.lxor_assoc, Z.lxor_nilpotent, Z.lxor_0_r. reflexivity. Qed.

Lemma crc_raw_app P s a b : crc_raw P s (a ++ b) = crc_raw P (crc_raw P s a) b.
Proof. unfold crc_raw. apply fold_left_app. Qed.

(* holds for every c; the range hypothesis of the target statement is not needed *)
Lemma crc32_update_app_gen P c a b :
  crc32_update P (crc32_update P c a) b = crc32_update P c (a ++ b).
Proof. rewrite !crc32_update_eq, lxor_cancel_r, crc_raw_app. reflexivity. Qed.

Lemma crc32_update_app P c a b : 0 <= c < 2 ^ 32 ->
  crc32_update P (crc32_update P c a) b = crc32_update P c (a ++ b).
Proof. intros _. apply crc32_update_app_gen. Qed.

Lemma crc32_update_nil P c : crc32_update P c [] = c.
Proof. rewrite crc32_update_eq, crc_raw_nil. apply lxor_cancel_r. Qed.

(* ------------------------------------------------------------------------- *)
(* 3. injectivity on 32-bit words                                              *)
(* ------------------------------------------------------------------------- *)

Lemma lxor_inj_r a b m : Z.lxor a m = Z.lxor b m -> a = b.
Proof. intros E. rewrite <- (lxor_cancel_r a m), E. apply lxor_cancel_r. Qed.

Lemma lxor_inj_l a b m : Z.lxor m a = Z.lxor m b -> a = b.
Proof. rewrite !(Z.lxor_comm m). apply lxor_inj_r. Qed.

Lemma testbit31_small x : 0 <= x < 2 ^ 31 -> Z.testbit x 31 = false.
Proof.
  intros H. destruct (Z.eq_dec x 0) as [->|N]; [apply Z.bits_0|].
  apply Z.bits_above_log2; [lia|]. apply Z.log2_lt_pow2; lia.
Qed.

(* bit 31 of T1 s is the bit shifted out of s *)
Lemma crc_T1_bit31 P s : Z.testbit P 31 = true -> w32 s -> Z.testbit (crc_T1 P s) 31 = Z.odd s.
Proof.
  intros HP Hs. rewrite crc_T1_eq, Z.lxor_spec, (testbit31_small _ (w32_shiftr1 s Hs)).
  destruct (Z.odd s); [rewrite HP; reflexivity|rewrite Z.bits_0; reflexivity].
Qed.

Lemma crc_T1_inj P s t : Z.testbit P 31 = true -> 0 <= P < 2 ^ 32 ->
  0 <= s < 2 ^ 32 -> 0 <= t < 2 ^ 32 -> crc_T1 P s = crc_T1 P t -> s = t.
Proof.
  intros HP _ Hs Ht E.
  assert (Eo : Z.odd s = Z.odd t).
  { rewrite <- (crc_T1_bit31 P s HP Hs), <- (crc_T1_bit31 P t HP Ht), E. reflexivity. }
  rewrite !crc_T1_eq, Eo in E. apply lxor_inj_r in E. rewrite !shiftr1_div in E.
  rewrite (Z.div_mod s 2), (Z.div_mod t 2) by lia.
  rewrite E, !Zmod_odd, Eo. reflexivity.
Qed.

Lemma crc_T8_inj P s t : Z.testbit P 31 = true -> w32 P -> w32 s -> w32 t ->
  crc_T8 P s = crc_T8 P t -> s = t.
Proof.
  intros HP HR Hs Ht E. rewrite !crc_T8_eq in E.
  repeat (apply (crc_T1_inj P) in E; [|exact HP|exact HR|repeat apply crc_T1_range; assumption
                                      |repeat apply crc_T1_range; assumption]).
  exact E.
Qed.

Lemma crc_byte_inj_state P s t b : Z.testbit P 31 = true -> 0 <= P < 2 ^ 32 ->
  0 <= s < 2 ^ 32 -> 0 <= t < 2 ^ 32 -> 0 <= b < 256 ->
  crc_byte P s b = crc_byte P t b -> s = t.
Proof.
  intros HP HR Hs Ht Hb E. rewrite !crc_byte_eq in E.
  apply crc_T8_inj in E; [|exact HP|exact HR|apply w32_lxor; [exact Hs|apply w32_byte; exact Hb]
                          |apply w32_lxor; [exact Ht|apply w32_byte; exact Hb]].
  apply lxor_inj_r in E. exact E.
Qed.

Lemma crc_byte_inj_byte P s x y : Z.testbit P 31 = true -> 0 <= P < 2 ^ 32 ->
  0 <= s < 2 ^ 32 -> 0 <= x < 256 -> 0 <= y < 256 ->
  crc_byte P s x = crc_byte P s y -> x = y.
Proof.
  intros HP HR Hs Hx Hy E. rewrite !crc_byte_eq in E.
  apply crc_T8_inj in E; [|exact HP|exact HR|apply w32_lxor; [exact Hs|apply w32_byte; exact Hx]
                          |apply w32_lxor; [exact Hs|apply w32_byte; exact Hy]].
  apply lxor_inj_l in E. exact E.
Qed.

(* the whole byte loop is injective in the start state *)
Lemma crc_raw_inj_state P bs : Z.testbit P 31 = true -> w32 P -> bytes_ok bs = true ->
  forall s t, w32 s -> w32 t -> crc_raw P s bs = crc_raw P t bs -> s = t.
Proof.
  intros HP HR. induction bs as [|b bs IH]; intros Hbs s t Hs Ht E; [rewrite !crc_raw_nil in E; exact E|].
  rewrite !crc_raw_cons in E.
  apply bytes_ok_cons in Hbs as [Hb Hbs].
  apply IH in E; [|exact Hbs|apply crc_byte_range; assumption|apply crc_byte_range; assumption].
  apply (crc_byte_inj_state P s t b); assumption.
Qed.

(* ------------------------------------------------------------------------- *)
(* 4. linearity over GF(2): no range hypotheses at all                         *)
(* ------------------------------------------------------------------------- *)

Ltac xor_bits :=
  apply Z.bits_inj'; let n := fresh "n" in let Hn := fresh "Hn" in intros n Hn;
  rewrite ?Z.lxor_spec, ?Z.bits_0;
  repeat match goal with |- context [Z.testbit ?a n] => destruct (Z.testbit a n) end; reflexivity.

Lemma odd_lxor a b : Z.odd (Z.lxor a b) = xorb (Z.odd a) (Z.odd b).
Proof. rewrite <- !Z.bit0_odd. apply Z.lxor_spec. Qed.

Lemma crc_T1_lin P a b : crc_T1 P (Z.lxor a b) = Z.lxor (crc_T1 P a) (crc_T1 P b).
Proof.
  rewrite !crc_T1_eq, Z.shiftr_lxor, odd_lxor.
  destruct (Z.odd a), (Z.odd b); cbn [xorb]; xor_bits.
Qed.

Lemma crc_T1_0 P : crc_T1 P 0 = 0.
Proof. rewrite crc_T1_eq. reflexivity. Qed.

Lemma crc_T8_lin P a b : crc_T8 P (Z.lxor a b) = Z.lxor (crc_T8 P a) (crc_T8 P b).
Proof. rewrite !crc_T8_eq, !crc_T1_lin. reflexivity. Qed.

Lemma crc_T8_0 P : crc_T8 P 0 = 0.
Proof. rewrite crc_T8_eq, !crc_T1_0. reflexivity. Qed.

(* n byte steps applied to a difference *)
Fixpoint iterZ (f : Z -> Z) (n : nat) (d : Z) : Z :=
  match n with O => d | S n' => iterZ f n' (f d) end.
Definition crc_T8n (P : Z) : nat -> Z -> Z := iterZ (crc_T8 P).

(* stated for an abstract f so that the kernel has nothing to unfold *)
Lemma iterZ_0 f d : iterZ f 0 d = d.
Proof. reflexivity. Qed.
Lemma iterZ_S f n d : iterZ f (S n) d = iterZ f n (f d).
Proof. reflexivity. Qed.
Lemma crc_T8n_0 P d : crc_T8n P 0 d = d.
Proof. exact (iterZ_0 (crc_T8 P) d). Qed.
Lemma crc_T8n_S P n d : crc_T8n P (S n) d = crc_T8n P n (crc_T8 P d).
Proof. exact (iterZ_S (crc_T8 P) n d). Qed.

Lemma lxor_pair_cancel s x y : Z.lxor (Z.lxor s x) (Z.lxor s y) = Z.lxor x y.
Proof. xor_bits. Qed.

Lemma lxor_pair_cancel_r a b m : Z.lxor (Z.lxor a m) (Z.lxor b m) = Z.lxor a b.
Proof. xor_bits. Qed.

Lemma crc_byte_diff_state P s t b : Z.lxor (crc_byte P s b) (crc_byte P t b) = crc_T8 P (Z.lxor s t).
Proof. rewrite !crc_byte_eq, <- crc_T8_lin, lxor_pair_cancel_r. reflexivity. Qed.

Lemma crc_byte_diff_byte P s x y : Z.lxor (crc_byte P s x) (crc_byte P s y) = crc_T8 P (Z.lxor x y).
Proof. rewrite !crc_byte_eq, <- crc_T8_lin, lxor_pair_cancel. reflexivity. Qed.

(* two runs over the same bytes: the difference of the states evolves autonomously *)
Lemma crc_raw_diff P bs : forall s t,
  Z.lxor (crc_raw P s bs) (crc_raw P t bs) = crc_T8n P (length bs) (Z.lxor s t).
Proof.
  induction bs as [|b bs IH]; intros s t.
  - rewrite !crc_raw_nil. cbn [length]. rewrite crc_T8n_0. reflexivity.
  - rewrite !crc_raw_cons, IH, crc_byte_diff_state. cbn [length]. rewrite crc_T8n_S. reflexivity.
Qed.

(* the difference of the CRCs of two strings that differ in one position depends only on
   the two bytes and on the number of bytes after them *)
Lemma crc32_update_diff P c pre x y post :
  Z.lxor (crc32_update P c (pre ++ x :: post)) (crc32_update P c (pre ++ y :: post))
  = crc_T8n P (S (length post)) (Z.lxor x y).
Proof.
  rewrite !crc32_update_eq, lxor_pair_cancel_r, !crc_raw_app, !crc_raw_cons, crc_raw_diff, crc_byte_diff_byte, crc_T8n_S.
  reflexivity.
Qed.

Lemma crc_T8_nonzero P d : Z.testbit P 31 = true -> w32 P -> w32 d -> d <> 0 -> crc_T8 P d <> 0.
Proof.
  intros HP HR Hd Hn E. apply Hn. apply (crc_T8_inj P d 0 HP HR Hd w32_0). rewrite crc_T8_0. exact E.
Qed.

Lemma crc_T8n_nonzero P n : Z.testbit P 31 = true -> w32 P ->
  forall d, w32 d -> d <> 0 -> w32 (crc_T8n P n d) /\ crc_T8n P n d <> 0.
Proof.
  intros HP HR. induction n as [|n IH]; intros d Hd Hn; [rewrite crc_T8n_0; split; assumption|].
  rewrite crc_T8n_S. apply IH; [apply crc_T8_range; assumption|apply crc_T8_nonzero; assumption].
Qed.

Lemma lxor_neq_0 x y : x <> y -> Z.lxor x y <> 0.
Proof. intros N E. apply N. apply Z.lxor_eq. exact E. Qed.

(* ------------------------------------------------------------------------- *)
(* 5. a change of one byte always changes the CRC                              *)
(* ------------------------------------------------------------------------- *)

(* the two CRCs differ by a non-zero 32-bit word; c, pre, post are arbitrary *)
Lemma crc_one_byte_diff P c pre x y post :
  Z.testbit P 31 = true -> w32 P -> w32 x -> w32 y -> x <> y ->
  let d := Z.lxor (crc32_update P c (pre ++ x :: post)) (crc32_update P c (pre ++ y :: post)) in
  w32 d /\ d <> 0.
Proof.
  intros HP HR Hx Hy N d. subst d. rewrite crc32_update_diff.
  apply crc_T8n_nonzero; [exact HP|exact HR|apply w32_lxor; assumption|apply lxor_neq_0; exact N].
Qed.

Theorem crc_detect_one_byte_gen P c pre x y post :
  Z.testbit P 31 = true -> 0 <= P < 2 ^ 32 ->
  0 <= x < 2 ^ 32 -> 0 <= y < 2 ^ 32 -> x <> y ->
  crc32_update P c (pre ++ x :: post) <> crc32_update P c (pre ++ y :: post).
Proof.
  intros HP HR Hx Hy N E.
  destruct (crc_one_byte_diff P c pre x y post HP HR Hx Hy N) as [_ D]. apply D.
  rewrite E. apply Z.lxor_nilpotent.
Qed.

Lemma poly_ok P : P = poly_ieee \/ P = poly_castagnoli -> Z.testbit P 31 = true /\ w32 P.
Proof. intros [-> | ->]; (split; [reflexivity|unfold w32, poly_ieee, poly_castagnoli; lia]). Qed.

(* target statement: both polynomials, any initial value c (not even required to be a
   32-bit word), any prefix and suffix (not even required to be bytes) *)
Theorem crc_detect_one_byte P c pre x y post :
  P = poly_ieee \/ P = poly_castagnoli ->
  0 <= x < 256 -> 0 <= y < 256 -> x <> y ->
  crc32_update P c (pre ++ x :: post) <> crc32_update P c (pre ++ y :: post).
Proof.
  intros HPoly Hx Hy N. destruct (poly_ok P HPoly) as [HP HR].
  apply crc_detect_one_byte_gen; [exact HP|exact HR|apply w32_byte; exact Hx|apply w32_byte; exact Hy|exact N].
Qed.
