(* Proofs about the CRC-32 model (Model/Crc.v) and the checksum test of the fragment
   reader (r_recv of Model/Frag.v): section "C. CRC" of TARGETS_frag.md.

   Structure:
     1. 32-bit range facts for lxor / shiftr, range of crc_T1 .. crc32_update
     2. crc32_update over an append
     3. injectivity of crc_T1 / crc_T8 / crc_byte on 32-bit words (bit 31 of P set)
     4. GF(2)-linearity of crc_T1, hence  crc_raw P s bs xor crc_raw P t bs = T8^|bs| (s xor t)
        for ARBITRARY s, t, bs (no range hypotheses)
     5. crc_detect_one_byte (and the general form for any P with bit 31 set)
     6. checksum objects: ck_detect_data, and what r_recv answers (code 8) *)
From Coq Require Import ZArith List Bool Lia ZifyBool.
From Verif Require Import Base.Wrap Base.Bytes Gen.GenConsts Gen.GenFrame Model.Crc Model.Frag.
Import ListNotations.
Local Open Scope Z_scope.

(* ------------------------------------------------------------------------- *)
(* 1. ranges                                                                   *)
(* ------------------------------------------------------------------------- *)

Definition w32 (x : Z) : Prop := 0 <= x < 2 ^ 32.

(* Unfolding equations.  The kernel's conversion test between a folded and an unfolded
   crc_byte / crc_T8 can take minutes (crc_T1 duplicates its argument), so the proofs
   below always REWRITE with these equations instead of relying on conversion. *)
Lemma crc_T1_eq P s : crc_T1 P s = Z.lxor (Z.shiftr s 1) (if Z.odd s then P else 0).
Proof. reflexivity. Qed.
Lemma crc_T8_eq P s : crc_T8 P s =
  crc_T1 P (crc_T1 P (crc_T1 P (crc_T1 P (crc_T1 P (crc_T1 P (crc_T1 P (crc_T1 P s))))))).
Proof. reflexivity. Qed.
Lemma crc_byte_eq P s b : crc_byte P s b = crc_T8 P (Z.lxor s b).
Proof. reflexivity. Qed.
Lemma crc_raw_nil P s : crc_raw P s [] = s.
Proof. reflexivity. Qed.
Lemma crc_raw_cons P s b bs : crc_raw P s (b :: bs) = crc_raw P (crc_byte P s b) bs.
Proof. reflexivity. Qed.
Lemma crc32_update_eq P c bs : crc32_update P c bs = Z.lxor (crc_raw P (Z.lxor c mask32) bs) mask32.
Proof. reflexivity. Qed.

Lemma lxor_range n a b : 0 <= n -> 0 <= a < 2 ^ n -> 0 <= b < 2 ^ n -> 0 <= Z.lxor a b < 2 ^ n.
Proof.
  intros Hn Ha Hb.
  assert (Hnn : 0 <= Z.lxor a b) by (apply Z.lxor_nonneg; lia).
  split; [exact Hnn|].
  destruct (Z.eq_dec (Z.lxor a b) 0) as [E|NE].
  - rewrite E. apply Z.pow_pos_nonneg; lia.
  - assert (Hn0 : 0 < n).
    { destruct (Z.eq_dec n 0) as [->|]; [|lia]. exfalso. apply NE.
      replace a with 0 by (cbn in Ha; lia). replace b with 0 by (cbn in Hb; lia). reflexivity. }
    apply Z.log2_lt_pow2; [lia|].
    pose proof (Z.log2_lxor a b ltac:(lia) ltac:(lia)) as HL.
    assert (La : Z.log2 a < n).
    { destruct (Z.eq_dec a 0) as [->|Na]; [cbn; lia|]. apply Z.log2_lt_pow2; lia. }
    assert (Lb : Z.log2 b < n).
    { destruct (Z.eq_dec b 0) as [->|Nb]; [cbn; lia|]. apply Z.log2_lt_pow2; lia. }
    lia.
Qed.

Lemma w32_lxor a b : w32 a -> w32 b -> w32 (Z.lxor a b).
Proof. unfold w32. intros Ha Hb. apply lxor_range; lia. Qed.

Lemma w32_0 : w32 0. Proof. unfold w32. lia. Qed.
Lemma w32_mask : w32 mask32. Proof. unfold w32, mask32. lia. Qed.
Lemma w32_byte b : 0 <= b < 256 -> w32 b. Proof. unfold w32. lia. Qed.

Lemma shiftr1_div s : Z.shiftr s 1 = s / 2.
Proof. rewrite Z.shiftr_div_pow2 by lia. reflexivity. Qed.

Lemma w32_shiftr1 s : w32 s -> 0 <= Z.shiftr s 1 < 2 ^ 31.
Proof.
  unfold w32. intros H. rewrite shiftr1_div.
  change (2 ^ 32) with (2 * 2 ^ 31) in H.
  split; [apply Z.div_pos; lia|apply Z.div_lt_upper_bound; lia].
Qed.

Lemma crc_T1_range P s : w32 P -> w32 s -> w32 (crc_T1 P s).
Proof.
  intros HP Hs. rewrite crc_T1_eq. apply w32_lxor.
  - pose proof (w32_shiftr1 s Hs). unfold w32. lia.
  - destruct (Z.odd s); [exact HP|exact w32_0].
Qed.

Lemma crc_T8_range P s : w32 P -> w32 s -> w32 (crc_T8 P s).
Proof. intros HP Hs. rewrite crc_T8_eq. repeat apply crc_T1_range; assumption. Qed.

Lemma crc_byte_range P s b : w32 P -> w32 s -> 0 <= b < 256 -> w32 (crc_byte P s b).
Proof. intros HP Hs Hb. rewrite crc_byte_eq. apply crc_T8_range; [exact HP|]. apply w32_lxor; [exact Hs|apply w32_byte; exact Hb]. Qed.

Lemma byte_ok_range b : byte_ok b = true <-> 0 <= b < 256.
Proof. unfold byte_ok. lia. Qed.

Lemma bytes_ok_cons b bs : bytes_ok (b :: bs) = true <-> 0 <= b < 256 /\ bytes_ok bs = true.
Proof. unfold bytes_ok. cbn [forallb]. rewrite andb_true_iff, byte_ok_range. reflexivity. Qed.

Lemma crc_raw_range P bs : w32 P -> bytes_ok bs = true -> forall s, w32 s -> w32 (crc_raw P s bs).
Proof.
  intros HP. induction bs as [|b bs IH]; intros Hbs s Hs; [rewrite crc_raw_nil; exact Hs|].
  rewrite crc_raw_cons. apply bytes_ok_cons in Hbs as [Hb Hbs]. apply IH; [exact Hbs|]. apply crc_byte_range; assumption.
Qed.

Lemma crc_range P c bs : 0 <= P < 2 ^ 32 -> 0 <= c < 2 ^ 32 -> bytes_ok bs = true ->
  0 <= crc32_update P c bs < 2 ^ 32.
Proof.
  intros HP Hc Hbs. rewrite crc32_update_eq. apply w32_lxor; [|exact w32_mask].
  apply crc_raw_range; [exact HP|exact Hbs|]. apply w32_lxor; [exact Hc|exact w32_mask].
Qed.

(* ------------------------------------------------------------------------- *)
(* 2. append                                                                   *)
(* ------------------------------------------------------------------------- *)

Lemma lxor_cancel_r a m : Z.lxor (Z.lxor a m) m = a.
Proof. rewrite Z.lxor_assoc, Z.lxor_nilpotent, Z.lxor_0_r. reflexivity. Qed.

Lemma crc_raw_app P s a b : crc_raw P s (a ++ b) = crc_raw P (crc_raw P s a) b.
Proof. unfold crc_raw. apply fold_left_app. Qed.

(* holds for every c; the range hypothesis of the target statement is not needed *)
Lemma crc32_update_app_gen P c a b :
  crc32_update P (crc32_update P c a) b = crc32_update P c (a ++ b).
Proof. rewrite !crc32_update_eq, lxor_cancel_r, crc_raw_app. reflexivity. Qed.

Lemma crc32_update_app P c a b : 0 <= c < 2 ^ 32 ->
  crc32_update P (crc32_update P c a) b = crc32_update P c (a ++ b).
Proof. intros _. apply crc32_update_app_gen. Qed.

Lemma crc32_update_nil P c : crc32_update P c [] = c.
Proof. rewrite crc32_update_eq, crc_raw_nil. apply lxor_cancel_r. Qed.

(* ------------------------------------------------------------------------- *)
(* 3. injectivity on 32-bit words                                              *)
(* ------------------------------------------------------------------------- *)

Lemma lxor_inj_r a b m : Z.lxor a m = Z.lxor b m -> a = b.
Proof. intros E. rewrite <- (lxor_cancel_r a m), E. apply lxor_cancel_r. Qed.

Lemma lxor_inj_l a b m : Z.lxor m a = Z.lxor m b -> a = b.
Proof. rewrite !(Z.lxor_comm m). apply lxor_inj_r. Qed.

Lemma testbit31_small x : 0 <= x < 2 ^ 31 -> Z.testbit x 31 = false.
Proof.
  intros H. destruct (Z.eq_dec x 0) as [->|N]; [apply Z.bits_0|].
  apply Z.bits_above_log2; [lia|]. apply Z.log2_lt_pow2; lia.
Qed.

(* bit 31 of T1 s is the bit shifted out of s *)
Lemma crc_T1_bit31 P s : Z.testbit P 31 = true -> w32 s -> Z.testbit (crc_T1 P s) 31 = Z.odd s.
Proof.
  intros HP Hs. rewrite crc_T1_eq, Z.lxor_spec, (testbit31_small _ (w32_shiftr1 s Hs)).
  destruct (Z.odd s); [rewrite HP; reflexivity|rewrite Z.bits_0; reflexivity].
Qed.

Lemma crc_T1_inj P s t : Z.testbit P 31 = true -> 0 <= P < 2 ^ 32 ->
  0 <= s < 2 ^ 32 -> 0 <= t < 2 ^ 32 -> crc_T1 P s = crc_T1 P t -> s = t.
Proof.
  intros HP _ Hs Ht E.
  assert (Eo : Z.odd s = Z.odd t).
  { rewrite <- (crc_T1_bit31 P s HP Hs), <- (crc_T1_bit31 P t HP Ht), E. reflexivity. }
  rewrite !crc_T1_eq, Eo in E. apply lxor_inj_r in E. rewrite !shiftr1_div in E.
  rewrite (Z.div_mod s 2), (Z.div_mod t 2) by lia.
  rewrite E, !Zmod_odd, Eo. reflexivity.
Qed.

Lemma crc_T8_inj P s t : Z.testbit P 31 = true -> w32 P -> w32 s -> w32 t ->
  crc_T8 P s = crc_T8 P t -> s = t.
Proof.
  intros HP HR Hs Ht E. rewrite !crc_T8_eq in E.
  repeat (apply (crc_T1_inj P) in E; [|exact HP|exact HR|repeat apply crc_T1_range; assumption
                                      |repeat apply crc_T1_range; assumption]).
  exact E.
Qed.

Lemma crc_byte_inj_state P s t b : Z.testbit P 31 = true -> 0 <= P < 2 ^ 32 ->
  0 <= s < 2 ^ 32 -> 0 <= t < 2 ^ 32 -> 0 <= b < 256 ->
  crc_byte P s b = crc_byte P t b -> s = t.
Proof.
  intros HP HR Hs Ht Hb E. rewrite !crc_byte_eq in E.
  apply crc_T8_inj in E; [|exact HP|exact HR|apply w32_lxor; [exact Hs|apply w32_byte; exact Hb]
                          |apply w32_lxor; [exact Ht|apply w32_byte; exact Hb]].
  apply lxor_inj_r in E. exact E.
Qed.

Lemma crc_byte_inj_byte P s x y : Z.testbit P 31 = true -> 0 <= P < 2 ^ 32 ->
  0 <= s < 2 ^ 32 -> 0 <= x < 256 -> 0 <= y < 256 ->
  crc_byte P s x = crc_byte P s y -> x = y.
Proof.
  intros HP HR Hs Hx Hy E. rewrite !crc_byte_eq in E.
  apply crc_T8_inj in E; [|exact HP|exact HR|apply w32_lxor; [exact Hs|apply w32_byte; exact Hx]
                          |apply w32_lxor; [exact Hs|apply w32_byte; exact Hy]].
  apply lxor_inj_l in E. exact E.
Qed.

(* the whole byte loop is injective in the start state *)
Lemma crc_raw_inj_state P bs : Z.testbit P 31 = true -> w32 P -> bytes_ok bs = true ->
  forall s t, w32 s -> w32 t -> crc_raw P s bs = crc_raw P t bs -> s = t.
Proof.
  intros HP HR. induction bs as [|b bs IH]; intros Hbs s t Hs Ht E; [rewrite !crc_raw_nil in E; exact E|].
  rewrite !crc_raw_cons in E.
  apply bytes_ok_cons in Hbs as [Hb Hbs].
  apply IH in E; [|exact Hbs|apply crc_byte_range; assumption|apply crc_byte_range; assumption].
  apply (crc_byte_inj_state P s t b); assumption.
Qed.

(* ------------------------------------------------------------------------- *)
(* 4. linearity over GF(2): no range hypotheses at all                         *)
(* ------------------------------------------------------------------------- *)

Ltac xor_bits :=
  apply Z.bits_inj'; let n := fresh "n" in let Hn := fresh "Hn" in intros n Hn;
  rewrite ?Z.lxor_spec, ?Z.bits_0;
  repeat match goal with |- context [Z.testbit ?a n] => destruct (Z.testbit a n) end; reflexivity.

Lemma odd_lxor a b : Z.odd (Z.lxor a b) = xorb (Z.odd a) (Z.odd b).
Proof. rewrite <- !Z.bit0_odd. apply Z.lxor_spec. Qed.

Lemma crc_T1_lin P a b : crc_T1 P (Z.lxor a b) = Z.lxor (crc_T1 P a) (crc_T1 P b).
Proof.
  rewrite !crc_T1_eq, Z.shiftr_lxor, odd_lxor.
  destruct (Z.odd a), (Z.odd b); cbn [xorb]; xor_bits.
Qed.

Lemma crc_T1_0 P : crc_T1 P 0 = 0.
Proof. rewrite crc_T1_eq. reflexivity. Qed.

Lemma crc_T8_lin P a b : crc_T8 P (Z.lxor a b) = Z.lxor (crc_T8 P a) (crc_T8 P b).
Proof. rewrite !crc_T8_eq, !crc_T1_lin. reflexivity. Qed.

Lemma crc_T8_0 P : crc_T8 P 0 = 0.
Proof. rewrite crc_T8_eq, !crc_T1_0. reflexivity. Qed.

(* n byte steps applied to a difference *)
Fixpoint iterZ (f : Z -> Z) (n : nat) (d : Z) : Z :=
  match n with O => d | S n' => iterZ f n' (f d) end.
Definition crc_T8n (P : Z) : nat -> Z -> Z := iterZ (crc_T8 P).

(* stated for an abstract f so that the kernel has nothing to unfold *)
Lemma iterZ_0 f d : iterZ f 0 d = d.
Proof. reflexivity. Qed.
Lemma iterZ_S f n d : iterZ f (S n) d = iterZ f n (f d).
Proof. reflexivity. Qed.
Lemma crc_T8n_0 P d : crc_T8n P 0 d = d.
Proof. exact (iterZ_0 (crc_T8 P) d). Qed.
Lemma crc_T8n_S P n d : crc_T8n P (S n) d = crc_T8n P n (crc_T8 P d).
Proof. exact (iterZ_S (crc_T8 P) n d). Qed.

Lemma lxor_pair_cancel s x y : Z.lxor (Z.lxor s x) (Z.lxor s y) = Z.lxor x y.
Proof. xor_bits. Qed.

Lemma lxor_pair_cancel_r a b m : Z.lxor (Z.lxor a m) (Z.lxor b m) = Z.lxor a b.
Proof. xor_bits. Qed.

Lemma crc_byte_diff_state P s t b : Z.lxor (crc_byte P s b) (crc_byte P t b) = crc_T8 P (Z.lxor s t).
Proof. rewrite !crc_byte_eq, <- crc_T8_lin, lxor_pair_cancel_r. reflexivity. Qed.

Lemma crc_byte_diff_byte P s x y : Z.lxor (crc_byte P s x) (crc_byte P s y) = crc_T8 P (Z.lxor x y).
Proof. rewrite !crc_byte_eq, <- crc_T8_lin, lxor_pair_cancel. reflexivity. Qed.

(* two runs over the same bytes: the difference of the states evolves autonomously *)
Lemma crc_raw_diff P bs : forall s t,
  Z.lxor (crc_raw P s bs) (crc_raw P t bs) = crc_T8n P (length bs) (Z.lxor s t).
Proof.
  induction bs as [|b bs IH]; intros s t.
  - rewrite !crc_raw_nil. cbn [length]. rewrite crc_T8n_0. reflexivity.
  - rewrite !crc_raw_cons, IH, crc_byte_diff_state. cbn [length]. rewrite crc_T8n_S. reflexivity.
Qed.

(* the difference of the CRCs of two strings that differ in one position depends only on
   the two bytes and on the number of bytes after them *)
Lemma crc32_update_diff P c pre x y post :
  Z.lxor (crc32_update P c (pre ++ x :: post)) (crc32_update P c (pre ++ y :: post))
  = crc_T8n P (S (length post)) (Z.lxor x y).
Proof.
  rewrite !crc32_update_eq, lxor_pair_cancel_r, !crc_raw_app, !crc_raw_cons, crc_raw_diff, crc_byte_diff_byte, crc_T8n_S.
  reflexivity.
Qed.

Lemma crc_T8_nonzero P d : Z.testbit P 31 = true -> w32 P -> w32 d -> d <> 0 -> crc_T8 P d <> 0.
Proof.
  intros HP HR Hd Hn E. apply Hn. apply (crc_T8_inj P d 0 HP HR Hd w32_0). rewrite crc_T8_0. exact E.
Qed.

Lemma crc_T8n_nonzero P n : Z.testbit P 31 = true -> w32 P ->
  forall d, w32 d -> d <> 0 -> w32 (crc_T8n P n d) /\ crc_T8n P n d <> 0.
Proof.
  intros HP HR. induction n as [|n IH]; intros d Hd Hn; [rewrite crc_T8n_0; split; assumption|].
  rewrite crc_T8n_S. apply IH; [apply crc_T8_range; assumption|apply crc_T8_nonzero; assumption].
Qed.

Lemma lxor_neq_0 x y : x <> y -> Z.lxor x y <> 0.
Proof. intros N E. apply N. apply Z.lxor_eq. exact E. Qed.

(* ------------------------------------------------------------------------- *)
(* 5. a change of one byte always changes the CRC                              *)
(* ------------------------------------------------------------------------- *)

(* the two CRCs differ by a non-zero 32-bit word; c, pre, post are arbitrary *)
Lemma crc_one_byte_diff P c pre x y post :
  Z.testbit P 31 = true -> w32 P -> w32 x -> w32 y -> x <> y ->
  let d := Z.lxor (crc32_update P c (pre ++ x :: post)) (crc32_update P c (pre ++ y :: post)) in
  w32 d /\ d <> 0.
Proof.
  intros HP HR Hx Hy N d. subst d. rewrite crc32_update_diff.
  apply crc_T8n_nonzero; [exact HP|exact HR|apply w32_lxor; assumption|apply lxor_neq_0; exact N].
Qed.

Theorem crc_detect_one_byte_gen P c pre x y post :
  Z.testbit P 31 = true -> 0 <= P < 2 ^ 32 ->
  0 <= x < 2 ^ 32 -> 0 <= y < 2 ^ 32 -> x <> y ->
  crc32_update P c (pre ++ x :: post) <> crc32_update P c (pre ++ y :: post).
Proof.
  intros HP HR Hx Hy N E.
  destruct (crc_one_byte_diff P c pre x y post HP HR Hx Hy N) as [_ D]. apply D.
  rewrite E. apply Z.lxor_nilpotent.
Qed.

Lemma poly_ok P : P = poly_ieee \/ P = poly_castagnoli -> Z.testbit P 31 = true /\ w32 P.
Proof. intros [-> | ->]; (split; [reflexivity|unfold w32, poly_ieee, poly_castagnoli; lia]). Qed.

(* target statement: both polynomials, any initial value c (not even required to be a
   32-bit word), any prefix and suffix (not even required to be bytes) *)
Theorem crc_detect_one_byte P c pre x y post :
  P = poly_ieee \/ P = poly_castagnoli ->
  0 <= x < 256 -> 0 <= y < 256 -> x <> y ->
  crc32_update P c (pre ++ x :: post) <> crc32_update P c (pre ++ y :: post).
Proof.
  intros HPoly Hx Hy N. destruct (poly_ok P HPoly) as [HP HR].
  apply crc_detect_one_byte_gen; [exact HP|exact HR|apply w32_byte; exact Hx|apply w32_byte; exact Hy|exact N].
Qed.

(* ------------------------------------------------------------------------- *)
(* 6. checksum objects and the reader's checksum test                          *)
(* ------------------------------------------------------------------------- *)

(* [be n] only looks at v modulo 256^n, and is injective on that *)
Lemma be_eq_mod n : forall v w, be n v = be n w -> v mod 256 ^ Z.of_nat n = w mod 256 ^ Z.of_nat n.
Proof.
  induction n as [|n IH]; intros v w E.
  - cbn. rewrite !Z.mod_1_r. reflexivity.
  - cbn [be] in E. apply app_inj_tail in E as [E1 E2]. apply IH in E1.
    rewrite Nat2Z.inj_succ, Z.pow_succ_r by lia.
    assert (Hp : 0 < 256 ^ Z.of_nat n) by (apply Z.pow_pos_nonneg; lia).
    rewrite !(Z.rem_mul_r _ 256) by lia. rewrite E1, E2. reflexivity.
Qed.

Lemma land_lxor_distr_l a b c : Z.land (Z.lxor a b) c = Z.lxor (Z.land a c) (Z.land b c).
Proof.
  apply Z.bits_inj'; intros n Hn. rewrite ?Z.lxor_spec, ?Z.land_spec, ?Z.lxor_spec.
  destruct (Z.testbit a n), (Z.testbit b n), (Z.testbit c n); reflexivity.
Qed.

(* two words whose xor is a non-zero 32-bit word differ modulo 2^32 *)
Lemma lxor_w32_mod_neq a b : w32 (Z.lxor a b) -> Z.lxor a b <> 0 -> a mod 2 ^ 32 <> b mod 2 ^ 32.
Proof.
  intros Hd Hn E. apply Hn.
  rewrite <- (Z.mod_small (Z.lxor a b) (2 ^ 32)) by exact Hd.
  rewrite <- !Z.land_ones in * by lia.
  rewrite land_lxor_distr_l, E. apply Z.lxor_nilpotent.
Qed.

Lemma be4_crc_neq a b : w32 (Z.lxor a b) -> Z.lxor a b <> 0 -> be 4 a <> be 4 b.
Proof.
  intros Hd Hn E. apply be_eq_mod in E. change (256 ^ Z.of_nat 4) with (2 ^ 32) in E.
  exact (lxor_w32_mod_neq a b Hd Hn E).
Qed.

(* d' is d with exactly one byte replaced by a different byte *)
Definition one_byte_diff (d d' : list Z) : Prop :=
  exists pre x y post, d = pre ++ x :: post /\ d' = pre ++ y :: post /\
                       0 <= x < 256 /\ 0 <= y < 256 /\ x <> y.

Lemma one_byte_diff_neq d d' : one_byte_diff d d' -> d <> d'.
Proof.
  intros (pre & x & y & post & -> & -> & _ & _ & N) E. apply app_inv_head in E. congruence.
Qed.

Definition ck_hash (c : ckst) : Prop := ck_kind c = 1 \/ ck_kind c = 3.
Definition ck_poly (c : ckst) : Z := if ck_kind c =? 1 then poly_ieee else poly_castagnoli.

Lemma ck_poly_ok c : ck_poly c = poly_ieee \/ ck_poly c = poly_castagnoli.
Proof. unfold ck_poly. destruct (ck_kind c =? 1); auto. Qed.

Lemma ck_add_hash c bs : ck_hash c ->
  ck_add c bs = mkCk (ck_kind c) (crc32_update (ck_poly c) (ck_val c) bs).
Proof.
  intros [E | E]; unfold ck_add, ck_poly; rewrite E; reflexivity.
Qed.

(* Add over the chunks of a fragment = one Update over their concatenation *)
Lemma ck_fold_hash chunks : forall c, ck_hash c ->
  fold_left ck_add chunks c = mkCk (ck_kind c) (crc32_update (ck_poly c) (ck_val c) (concat chunks)).
Proof.
  induction chunks as [|ch chunks IH]; intros c Hc.
  - cbn [fold_left concat]. rewrite crc32_update_nil. destruct c; reflexivity.
  - cbn [fold_left concat]. rewrite (ck_add_hash c ch Hc).
    rewrite IH by exact Hc. cbn [ck_kind ck_val].
    rewrite <- crc32_update_app_gen. reflexivity.
Qed.

Lemma ck_sum_hash k v : k = 1 \/ k = 3 -> ck_sum (mkCk k v) = be 4 v.
Proof. intros [-> | ->]; reflexivity. Qed.

Lemma ck_fold_kind chunks c : ck_kind (fold_left ck_add chunks c) = ck_kind c.
Proof.
  revert c. induction chunks as [|ch chunks IH]; intros c; cbn [fold_left]; [reflexivity|].
  rewrite IH. unfold ck_add. destruct (ck_kind c =? 1) eqn:E1; [cbn [ck_kind]; lia|].
  destruct (ck_kind c =? 3) eqn:E3; [cbn [ck_kind]; lia|reflexivity].
Qed.

(* Main theorem on checksum objects: for a CRC checksum in ANY state c (the value is not
   even required to be a 32-bit word), replacing one byte of the concatenated chunk data
   (the chunk boundaries may move too) changes the 4 checksum bytes. *)
Theorem ck_detect_data c chunks chunks' :
  ck_hash c ->
  one_byte_diff (concat chunks) (concat chunks') ->
  ck_sum (fold_left ck_add chunks c) <> ck_sum (fold_left ck_add chunks' c).
Proof.
  intros Hc (pre & x & y & post & E1 & E2 & Hx & Hy & N).
  rewrite !(ck_fold_hash _ c Hc), !(ck_sum_hash _ _ Hc), E1, E2.
  destruct (poly_ok _ (ck_poly_ok c)) as [HP HR].
  destruct (crc_one_byte_diff (ck_poly c) (ck_val c) pre x y post HP HR
              (w32_byte x Hx) (w32_byte y Hy) N) as [Hd Hn].
  apply be4_crc_neq; assumption.
Qed.

(* contrast: the null checksum (kind 0; also what Farmhash maps to) detects nothing *)
Lemma ck_null_sum c chunks : ck_kind c = 0 -> ck_sum (fold_left ck_add chunks c) = [].
Proof. intros E. unfold ck_sum. rewrite ck_fold_kind, E. reflexivity. Qed.

(* the checksum bytes determine the 32-bit value *)
Lemma ck_sum_inj c c' : ck_hash c -> ck_kind c' = ck_kind c -> w32 (ck_val c) -> w32 (ck_val c') ->
  ck_sum c = ck_sum c' -> c = c'.
Proof.
  destruct c as [k v], c' as [k' v']. cbn [ck_kind ck_val]. intros Hc -> Hv Hv' E.
  unfold ck_hash in Hc. cbn [ck_kind] in Hc. rewrite !(ck_sum_hash _ _ Hc) in E.
  apply be_inj in E; [congruence|exact Hv|exact Hv'].
Qed.

(* ---- what the reader does: r_recv on a state whose next fragment is f ---- *)

Definition rs_with_in (st : rst) (fs : list frag) : rst :=
  mkRst (rs_state st) (rs_err st) (rs_rem st) (rs_cur st) (rs_more st) fs
        (rs_ck st) (rs_got st) (rs_rel st) (rs_fin st).

(* the checksum object r_recv uses for fragment f *)
Definition recv_ck (st : rst) (f : frag) : option ckst :=
  match rs_ck st with Some c => Some c | None => ck_new (f_ctype f) end.

(* the type comparison of r_recv (only made from the second fragment on) *)
Definition recv_tmismatch (st : rst) (c : ckst) (f : frag) : bool :=
  negb (ck_typecode c =? f_ctype f) && (match rs_ck st with Some _ => true | None => false end).

(* r_recv accepts (code 0) only if: no sticky error, a checksum object, no type mismatch,
   and the fragment's checksum bytes equal to the running checksum over its chunks *)
Lemma r_recv_accept_inv st f rest st1 :
  r_recv (rs_with_in st (f :: rest)) = Some (0, st1) ->
  rs_err st = 0 /\
  exists c, recv_ck st f = Some c /\ recv_tmismatch st c f = false /\
            f_ck f = ck_sum (fold_left ck_add (f_chunks f) c).
Proof.
  unfold r_recv, rs_with_in. cbn [rs_err rs_in rs_ck rs_got rs_rel rs_state rs_rem rs_cur rs_more rs_fin].
  fold (recv_ck st f). intros H.
  destruct (rs_err st =? 0) eqn:Ee; cbn [negb] in H; [|inversion H; lia].
  split; [lia|].
  destruct (recv_ck st f) as [c|] eqn:Ek; [|discriminate H].
  fold (recv_tmismatch st c f) in H.
  exists c. split; [reflexivity|].
  destruct (recv_tmismatch st c f) eqn:Et; [inversion H|]. split; [reflexivity|].
  destruct (bytes_eqb (f_ck f) (ck_sum (fold_left ck_add (f_chunks f) c))) eqn:Eb; cbn [negb] in H; [|inversion H].
  apply bytes_eqb_eq. exact Eb.
Qed.

(* ... and it answers errMismatchedChecksums (8, sticky) when they are not equal *)
Lemma r_recv_reject st f rest c :
  rs_err st = 0 -> recv_ck st f = Some c -> recv_tmismatch st c f = false ->
  f_ck f <> ck_sum (fold_left ck_add (f_chunks f) c) ->
  exists st2, r_recv (rs_with_in st (f :: rest)) = Some (8, st2) /\ rs_err st2 = 8.
Proof.
  intros He Hk Ht Hne.
  unfold r_recv, rs_with_in. cbn [rs_err rs_in rs_ck rs_got rs_rel rs_state rs_rem rs_cur rs_more rs_fin].
  fold (recv_ck st f). rewrite He, Hk. cbn [Z.eqb negb].
  fold (recv_tmismatch st c f). rewrite Ht.
  destruct (bytes_eqb (f_ck f) (ck_sum (fold_left ck_add (f_chunks f) c))) eqn:Eb.
  - exfalso. apply Hne. apply bytes_eqb_eq. exact Eb.
  - cbn [negb]. eexists. split; [reflexivity|]. reflexivity.
Qed.

(* a fragment of type crc32 / crc32c is checked with a CRC object *)
Lemma recv_ck_hash st f c :
  recv_ck st f = Some c -> recv_tmismatch st c f = false ->
  f_ctype f = c_ChecksumTypeCrc32 \/ f_ctype f = c_ChecksumTypeCrc32C -> ck_hash c.
Proof.
  unfold recv_ck, recv_tmismatch, ck_hash, ck_typecode, c_ChecksumTypeCrc32, c_ChecksumTypeCrc32C.
  intros Hk Ht Hty. destruct (rs_ck st) as [c0|].
  - inversion Hk; subst c0. lia.
  - destruct Hty as [E | E]; rewrite E in Hk; cbn in Hk; inversion Hk; cbn [ck_kind]; lia.
Qed.

(* Reader, altered DATA: if the reader accepts fragment f (type crc32 or crc32c) in state st,
   then in the same state it rejects with errMismatchedChecksums (code 8, sticky) every
   fragment f' that carries the same type and checksum bytes but whose concatenated chunk
   data differs from that of f in exactly one byte.  (The more-flag and the chunk boundaries
   of f' are arbitrary.) *)
Theorem r_recv_detect_data st f f' rest rest' st1 :
  r_recv (rs_with_in st (f :: rest)) = Some (0, st1) ->
  f_ctype f = c_ChecksumTypeCrc32 \/ f_ctype f = c_ChecksumTypeCrc32C ->
  f_ctype f' = f_ctype f -> f_ck f' = f_ck f ->
  one_byte_diff (concat (f_chunks f)) (concat (f_chunks f')) ->
  exists st2, r_recv (rs_with_in st (f' :: rest')) = Some (8, st2) /\ rs_err st2 = 8.
Proof.
  intros Hacc Hty Ect Eck Hdiff.
  destruct (r_recv_accept_inv st f rest st1 Hacc) as (He & c & Hk & Ht & Hsum).
  pose proof (recv_ck_hash st f c Hk Ht Hty) as Hc.
  apply (r_recv_reject st f' rest' c He).
  - unfold recv_ck in *. rewrite Ect. exact Hk.
  - unfold recv_tmismatch in *. rewrite Ect. exact Ht.
  - rewrite Eck, Hsum. apply ck_detect_data; assumption.
Qed.

(* Reader, altered CHECKSUM FIELD: same data and type, any different checksum bytes (in
   particular one altered byte, or the encoding of any other 32-bit value): code 8.  Holds
   for every checksum kind. *)
Theorem r_recv_detect_ck st f f' rest rest' st1 :
  r_recv (rs_with_in st (f :: rest)) = Some (0, st1) ->
  f_ctype f' = f_ctype f -> f_chunks f' = f_chunks f -> f_ck f' <> f_ck f ->
  exists st2, r_recv (rs_with_in st (f' :: rest')) = Some (8, st2) /\ rs_err st2 = 8.
Proof.
  intros Hacc Ect Ech Nck.
  destruct (r_recv_accept_inv st f rest st1 Hacc) as (He & c & Hk & Ht & Hsum).
  apply (r_recv_reject st f' rest' c He).
  - unfold recv_ck in *. rewrite Ect. exact Hk.
  - unfold recv_tmismatch in *. rewrite Ect. exact Ht.
  - rewrite Ech, <- Hsum. exact Nck.
Qed.

Corollary r_recv_detect_ck_byte st f f' rest rest' st1 :
  r_recv (rs_with_in st (f :: rest)) = Some (0, st1) ->
  f_ctype f' = f_ctype f -> f_chunks f' = f_chunks f -> one_byte_diff (f_ck f) (f_ck f') ->
  exists st2, r_recv (rs_with_in st (f' :: rest')) = Some (8, st2) /\ rs_err st2 = 8.
Proof.
  intros Hacc Ect Ech Hd. apply (r_recv_detect_ck st f f' rest rest' st1 Hacc Ect Ech).
  intros E. apply (one_byte_diff_neq _ _ Hd). symmetry. exact E.
Qed.

(* be 4 is injective on 32-bit values: a checksum field that encodes another value is rejected *)
Corollary r_recv_detect_ck_value st f f' rest rest' st1 v v' :
  r_recv (rs_with_in st (f :: rest)) = Some (0, st1) ->
  f_ctype f' = f_ctype f -> f_chunks f' = f_chunks f ->
  f_ck f = be 4 v -> f_ck f' = be 4 v' -> 0 <= v < 2 ^ 32 -> 0 <= v' < 2 ^ 32 -> v' <> v ->
  exists st2, r_recv (rs_with_in st (f' :: rest')) = Some (8, st2) /\ rs_err st2 = 8.
Proof.
  intros Hacc Ect Ech Ev Ev' Hv Hv' N. apply (r_recv_detect_ck st f f' rest rest' st1 Hacc Ect Ech).
  rewrite Ev, Ev'. intros E. apply N. apply (be_inj 4 v' v); [exact Hv'|exact Hv|exact E].
Qed.

(* once the error is set every later r_recv returns it (sticky) *)
Lemma r_recv_sticky st e : rs_err st = e -> e <> 0 -> r_recv st = Some (e, st).
Proof.
  intros E N. unfold r_recv. destruct (rs_err st =? 0) eqn:Ee; [lia|]. cbn [negb]. rewrite E. reflexivity.
Qed.

(* ------------------------------------------------------------------------- *)
(* sanity checks / non-vacuity                                                 *)
(* ------------------------------------------------------------------------- *)

(* the standard check values of CRC-32 and CRC-32C for "123456789" *)
Example crc_check_ieee :
  crc32_update poly_ieee 0 [49;50;51;52;53;54;55;56;57] = 3421780262.   (* 0xCBF43926 *)
Proof. vm_compute. reflexivity. Qed.
Example crc_check_castagnoli :
  crc32_update poly_castagnoli 0 [49;50;51;52;53;54;55;56;57] = 3808858755.   (* 0xE3069283 *)
Proof. vm_compute. reflexivity. Qed.

Example poly_bit31 : Z.testbit poly_ieee 31 = true /\ Z.testbit poly_castagnoli 31 = true.
Proof. split; reflexivity. Qed.

(* the bit-31 hypothesis of crc_T1_inj is necessary: with P = 0, T1 forgets bit 0 *)
Example crc_T1_not_inj_without_bit31 : crc_T1 0 0 = crc_T1 0 1 /\ 0 <> 1.
Proof. split; [vm_compute; reflexivity|lia]. Qed.

(* the hypotheses of r_recv_detect_data are satisfiable: first fragment of a crc32 message
   with chunks "ab","c"; the altered fragment has "ab","d" *)
Definition ex_st : rst := r_init [].
Definition ex_f : frag :=
  mkFrag true 1 (ck_sum (fold_left ck_add [[97;98];[99]] (mkCk 1 0))) [[97;98];[99]].
Definition ex_f' : frag := mkFrag true 1 (f_ck ex_f) [[97;98];[100]].

Example ex_accept : exists st1, r_recv (rs_with_in ex_st [ex_f]) = Some (0, st1).
Proof. eexists. vm_compute. reflexivity. Qed.
Example ex_diff : one_byte_diff (concat (f_chunks ex_f)) (concat (f_chunks ex_f')).
Proof. exists [97;98], 99, 100, []. repeat split; try reflexivity; lia. Qed.
Example ex_reject : exists st2, r_recv (rs_with_in ex_st [ex_f']) = Some (8, st2).
Proof. eexists. vm_compute. reflexivity. Qed.

Print Assumptions crc32_update_app.
Print Assumptions crc_range.
Print Assumptions crc_T1_inj.
Print Assumptions crc_byte_inj_state.
Print Assumptions crc_byte_inj_byte.
Print Assumptions crc_detect_one_byte.
Print Assumptions ck_detect_data.
Print Assumptions r_recv_detect_data.
Print Assumptions r_recv_detect_ck.
Print Assumptions r_recv_detect_ck_value.
