(* C08 clauses (b)/(c) over the frame-path model of the relay (Model/RelayFwd.v): every error frame
   the relay makes while it handles a frame read on connection c carries connection c and the id
   of THAT frame as read (never the destination-side id the frame was rewritten to); a relay timer
   makes its timeout error for the connection and id it was started with.  Forwarding itself
   (Receive) never makes an error frame. *)
From Coq Require Import ZArith List Bool Lia.
From Verif Require Import Base.Wrap Base.Bytes Base.Wire Gen.GenConsts Gen.GenFrame Gen.GenRelayFwd
  Model.TypedBuf Model.Messages Model.Crc Model.Frag Model.RelayLazy Model.RelayAppend Model.RelayFwd.
Import ListNotations.
Local Open Scope Z_scope.

Definition out_err_ok (c : nat) (id : Z) (o : out) : Prop :=
  match o with
  | OErr c' id' _ _ _ => c' = c /\ id' = id
  | OFrame _ _ _ => True
  end.
Definition out_no_err (o : out) : Prop := match o with OErr _ _ _ _ _ => False | OFrame _ _ _ => True end.

Lemma no_err_ok : forall c id outs, Forall out_no_err outs -> Forall (out_err_ok c id) outs.
Proof. intros c id outs H. eapply Forall_impl; [|exact H]. intros [ | ]; cbn; tauto. Qed.

Lemma receive_no_err : forall st d h p ft sent outs st', receive st d h p ft = (sent, outs, st') -> Forall out_no_err outs.
Proof.
  intros st d h p ft sent outs st' H. unfold receive in H.
  destruct (get_items st (negb (ft =? c_requestFrame)) d (fh_id h)) as [it|]; [|inversion H; constructor].
  destruct (it_tomb it); inversion H; subst; [constructor|]. constructor; [exact I|constructor].
Qed.

Lemma fail_item_err : forall st c outb id reason outs st', fail_item st c outb id reason = (outs, st') ->
  Forall (out_err_ok c id) outs.
Proof.
  intros st c outb id reason outs st' H. unfold fail_item in H.
  destruct (get_items st outb c id) as [it|]; [|inversion H; constructor].
  destruct (it_tomb it); [inversion H; constructor|].
  destruct (it_orig it && negb (bytes_eqb reason c_u_relayErrorSourceConnSlow)); inversion H; subst; [|constructor].
  constructor; [split; reflexivity|constructor].
Qed.

Lemma send_frags_no_err : forall fs st d id outs st', send_frags st d id fs = (outs, st') -> Forall out_no_err outs.
Proof.
  induction fs as [|[initial pl] r IH]; intros st d id outs st' H; cbn in H; [inversion H; constructor|].
  match type of H with context [receive ?a ?b ?c ?dd ?e] => destruct (receive a b c dd e) as [[s o] st1] eqn:E end.
  destruct (send_frags st1 d id r) as [o2 st2] eqn:E2. inversion H. subst.
  apply Forall_app. split; [eapply receive_no_err; exact E|eapply IH; exact E2].
Qed.

Lemma handle_other_err : forall st c h p outs st', handle_other st c h p = Some (outs, st') ->
  Forall (out_err_ok c (fh_id h)) outs.
Proof.
  intros st c h p outs st' H. unfold handle_other in H.
  destruct (frameTypeFor (fh_type h)) as [ft|]; [|discriminate].
  destruct (get_items st (ft =? c_requestFrame) c (fh_id h)) as [it|]; [|inversion H; constructor].
  destruct (it_tomb it); [inversion H; constructor|].
  match type of H with context [let '(p1, st1) := ?X in _] => destruct X as [p1 st1] end.
  match type of H with context [receive ?a ?b ?cc ?dd ?e] => destruct (receive a b cc dd e) as [[s o] st2] eqn:E end.
  destruct s; cbn [negb] in H.
  - inversion H. subst. apply no_err_ok. eapply receive_no_err. exact E.
  - inversion H as [H1]. eapply fail_item_err. exact H1.
Qed.

Lemma handle_callreq_err : forall maxT st c h p hd outs st', handle_callreq maxT st c h p hd = Some (outs, st') ->
  Forall (out_err_ok c (fh_id h)) outs.
Proof.
  intros maxT st c h p hd outs st' H. unfold handle_callreq in H.
  destruct (lazy_callreq p) as [code lz]. destruct (negb (code =? 0)); [inversion H; constructor|].
  destruct hd as [d appends|sys ecode msg| |].
  - destruct (st_out st c (fh_id h)); [inversion H; constructor|].
    destruct (alloc_id st d) as [destID st1].
    destruct appends as [|a appends].
    + match type of H with context [receive ?a ?b ?cc ?dd ?e] => destruct (receive a b cc dd e) as [[s o] st4] eqn:E end.
      destruct s.
      * inversion H. subst. apply no_err_ok. eapply receive_no_err. exact E.
      * inversion H as [H1]. eapply fail_item_err. exact H1.
    + destruct (ck_new (lz_ctype lz)) as [ck|]; [|discriminate].
      match type of H with context [append_send ?a ?b ?cc ?dd] => destruct (append_send a b cc dd) as [[acode frames] ck'] end.
      destruct (acode =? 5); [discriminate|]. destruct (acode =? 0).
      * inversion H as [H1]. apply no_err_ok. eapply send_frags_no_err. exact H1.
      * inversion H as [H1]. eapply fail_item_err. exact H1.
  - destruct ((if sys then ecode else c_ErrCodeDeclined) =? c_ErrCodeProtocol); [discriminate|].
    inversion H. subst. constructor; [split; reflexivity|constructor].
  - inversion H. constructor.
  - destruct (st_out st c (fh_id h)); inversion H; subst; [constructor|]. constructor; [split; reflexivity|constructor].
Qed.

(* every error frame made while a frame read on connection c is handled: connection c, the id read *)
Theorem fwd_error_id : forall maxT pc st c h p hd outs st',
  step maxT pc st (LFrame c h p hd) = Some (outs, st') -> Forall (out_err_ok c (fh_id h)) outs.
Proof.
  intros maxT pc st c h p hd outs st' H. cbn [step] in H.
  destruct (relayRoute (fh_type h) pc =? 0); [inversion H; constructor|].
  destruct (((fh_type h =? c_messageTypeCallRes) || (fh_type h =? c_messageTypeCallResContinue)) && (zlen p =? 0)); [discriminate|].
  destruct (relayRoute (fh_type h) pc =? 1); [|discriminate].
  destruct (fh_type h =? c_messageTypeCallReq); [eapply handle_callreq_err|eapply handle_other_err]; exact H.
Qed.

(* the error frame of a relay timer: the connection, table and id the timer was started with *)
Theorem fwd_expire_id : forall maxT pc st c outb id outs st',
  step maxT pc st (LExpire c outb id) = Some (outs, st') -> Forall (out_err_ok c id) outs.
Proof.
  intros maxT pc st c outb id outs st' H. cbn [step] in H. inversion H as [H1]. clear H. unfold expire in H1.
  destruct (get_items st outb c id) as [it|]; [|inversion H1; constructor].
  destruct (it_tomb it); [inversion H1; constructor|].
  destruct (it_orig it); inversion H1; subst; [|constructor]. constructor; [split; reflexivity|constructor].
Qed.

(* and the id it carries is an id of the source side: the item failed / expired is an originating
   one, so it sits in the outbound table of the connection the call req was read on *)
Theorem fwd_no_other_outputs : forall maxT pc st l outs st',
  step maxT pc st l = Some (outs, st') ->
  match l with LOwn _ | LGC _ _ _ => outs = [] | _ => True end.
Proof.
  intros maxT pc st l outs st' H. destruct l; try exact I; cbn [step] in H.
  - destruct (alloc_id st c). inversion H. reflexivity.
  - destruct (get_items st outb c id) as [it|]; [destruct (it_tomb it)|]; inversion H; reflexivity.
Qed.
