(* C10, server side: A HANDLER'S SYSTEM ERROR ON A DRAINING CONNECTION IS DELIVERED.

   Model/RespWire.v describes InboundCallResponse.SendSystemError as repaired: the error frame
   is queued on the connection FIRST, doneSending (mex.shutdown -> removeExchange ->
   checkExchanges) runs afterwards.  A connection that is draining after Close cannot reach
   connectionInboundClosed / connectionClosed while a dispatched call still has its exchange
   registered (invariant [drainJ]: without a connection failure, in those two states the only
   registered exchanges are those of call reqs still inside handleCallReq, before the state
   re-check).  So SendSystemError of a dispatched call whose exchange is still registered
   always finds the connection Active or StartClose and -- unless the send buffer is full --
   queues exactly the frame (id, Err); the removal that may close the connection follows it.

   With the previous order (doneSending first) this was false for the LAST exchange of a
   draining connection: its removal closed the connection and the frame was refused. *)
From Coq Require Import ZArith List Bool Lia.
From Verif Require Import Base.Wire Spec.WireOk Proofs.WireOkP Model.RespWire Proofs.RespWireP.
Import ListNotations.
Local Open Scope Z_scope.

(* ---- the drain invariant -------------------------------------------------------------------- *)

Definition closing (s : cstate) : Prop := s = CInboundClosed \/ s = CClosed.

(* no handler goroutine runs for the call: handleCallReq is not yet past its re-check, or the
   call was declined there / its method could not be read *)
Definition nohandler (p : hpc) : Prop := p = PAdmit \/ p = PDead.

Definition drainJ (st : state) : Prop :=
  stopped st = false -> closing (cst st) ->
  forall id c, get id (calls st) = Some c -> in_ex c = true -> nohandler (h_pc c).

Lemma drain_ext st st' :
  cst st' = cst st -> stopped st' = stopped st -> calls st' = calls st -> drainJ st -> drainJ st'.
Proof. unfold drainJ. intros -> -> ->. exact (fun H => H). Qed.

Lemma inbound_zero l : inbound_count l = 0 -> forall id c, get id l = Some c -> in_ex c = false.
Proof.
  unfold inbound_count. induction l as [|[k c0] r IH]; intros Z0 id c G; cbn [get] in G; [discriminate|].
  cbn [filter snd] in Z0. destruct (in_ex c0) eqn:E0; [cbn [length] in Z0; lia|].
  destruct (k =? id); [inversion G; subst; exact E0 | eapply IH; eassumption].
Qed.

Lemma drain_check st : drainJ st -> drainJ (check_exchanges st).
Proof.
  unfold drainJ, check_exchanges, closing. cbn [stopped calls cst set_cst].
  intros J Hs Hc id c G E. rewrite Hs in Hc.
  destruct (cst st) eqn:Ec.
  - destruct Hc; discriminate.
  - destruct (inbound_count (calls st) =? 0) eqn:Z0.
    + apply Z.eqb_eq in Z0. rewrite (inbound_zero _ Z0 _ _ G) in E. discriminate.
    + destruct Hc; discriminate.
  - apply (J Hs (or_introl eq_refl) id c G E).
  - apply (J Hs (or_intror eq_refl) id c G E).
Qed.

(* the new record of a call is registered only if the old one was, and a call that has not
   passed the re-check of handleCallReq stays there *)
Definition cond (c c' : call) : Prop :=
  in_ex c' = true -> in_ex c = true /\ (nohandler (h_pc c) -> nohandler (h_pc c')).

Lemma drain_put st id c c' :
  drainJ st -> get id (calls st) = Some c -> cond c c' ->
  drainJ (set_calls st (put id c' (calls st))).
Proof.
  unfold drainJ, cond. cbn [stopped cst calls set_calls]. intros J G C Hs Hc x cx Gx Ex.
  destruct (Z.eq_dec x id) as [->|N].
  - rewrite get_put_same in Gx. inversion Gx; subst cx. destruct (C Ex) as [E0 P].
    apply P. apply (J Hs Hc id c G E0).
  - rewrite (get_put_other _ _ _ _ N) in Gx. apply (J Hs Hc x cx Gx Ex).
Qed.

Lemma drain_put_new st id c' :
  drainJ st -> nohandler (h_pc c') -> drainJ (set_calls st (put id c' (calls st))).
Proof.
  unfold drainJ. cbn [stopped cst calls set_calls]. intros J P Hs Hc x cx Gx Ex.
  destruct (Z.eq_dec x id) as [->|N].
  - rewrite get_put_same in Gx. inversion Gx; subst cx. exact P.
  - rewrite (get_put_other _ _ _ _ N) in Gx. apply (J Hs Hc x cx Gx Ex).
Qed.

Lemma drain_commit st id c c' chk :
  drainJ st -> get id (calls st) = Some c -> cond c c' -> drainJ (commit st id c' chk).
Proof.
  intros J G C. unfold commit. pose proof (drain_put st id c c' J G C) as J1.
  destruct chk; [apply drain_check; exact J1 | exact J1].
Qed.

(* ---- where an exchange is: never back into the map ------------------------------------------- *)

Lemma shut_loc c c1 chk : shut_call c = (c1, chk) -> in_ex c1 = true -> in_ex c = true.
Proof.
  unfold shut_call. destruct (m_shut c); intros H; inversion H; subst; [exact (fun X => X)|].
  unfold in_ex; cbn. discriminate.
Qed.

Lemma failed_loc c c1 chk : failed_call c = (c1, chk) -> in_ex c1 = true -> in_ex c = true.
Proof.
  unfold failed_call. destruct (w_err c).
  - intros H; inversion H; subst. exact (fun X => X).
  - destruct (shut_call c) as [c2 chk2] eqn:E. intros H; inversion H; subst.
    intros X. apply (shut_loc _ _ _ E). exact X.
Qed.

Lemma done_loc c c2 chk : done_sending c = (c2, chk) -> in_ex c2 = true -> in_ex c = true.
Proof.
  unfold done_sending. destruct (w_err (cancel_call c)).
  - intros H; inversion H; subst. exact (fun X => X).
  - destruct (shut_call (cancel_call c)) as [c3 chk3] eqn:E. intros H; inversion H; subst.
    intros X. exact (shut_loc _ _ _ E X).
Qed.

Ltac locs :=
  repeat match goal with
         | H : shut_call _ = (_, _) |- _ => pose proof (shut_loc _ _ _ H); clear H
         | H : failed_call _ = (_, _) |- _ => pose proof (failed_loc _ _ _ H); clear H
         | H : done_sending _ = (_, _) |- _ => pose proof (done_loc _ _ _ H); clear H
         end.

(* [cond c c'] for a handler step: the handler's pc is not PAdmit, the location only moves away *)
Ltac condtac Hpc :=
  locs; unfold cond, nohandler; intros X; split; [|rewrite Hpc; intros [? | ?]; discriminate];
  unfold in_ex in *;
  cbn [m_loc ret upd_f upd_pc upd_w upd_mex upd_epc upd_dones set_ferr cancel_call expire_call] in *;
  auto.

Lemma drain_flush1 st id c final :
  drainJ st -> get id (calls st) = Some c -> h_pc c = PIdle -> drainJ (flush1 st id c final).
Proof.
  intros J G Hpc. unfold flush1.
  destruct (w_err c).
  - eapply drain_commit; [exact J | exact G|]. destruct final; condtac Hpc.
  - destruct (check_error c).
    + destruct (failed_call c) as [c1 chk] eqn:Fc.
      eapply drain_commit; [exact J | exact G|]. destruct final; condtac Hpc.
    + eapply drain_commit; [exact J | exact G|]. condtac Hpc.
Qed.

(* flush1 on a record that differs from the registered one in writer fields only *)
Lemma drain_flush1_upd st id c fs fe cur first final :
  drainJ st -> get id (calls st) = Some c -> h_pc c = PIdle ->
  drainJ (flush1 st id (upd_f c fs fe cur first) final).
Proof.
  intros J G Hpc. unfold flush1. cbn [w_err upd_f].
  destruct (w_err c).
  - eapply drain_commit; [exact J | exact G|]. destruct final; condtac Hpc.
  - destruct (check_error (upd_f c fs fe cur first)).
    + destruct (failed_call (upd_f c fs fe cur first)) as [c1 chk] eqn:Fc.
      eapply drain_commit; [exact J | exact G|]. destruct final; condtac Hpc.
    + eapply drain_commit; [exact J | exact G|]. condtac Hpc.
Qed.

Lemma drain_arg_writer st id c k :
  drainJ st -> get id (calls st) = Some c -> h_pc c = PIdle -> drainJ (arg_writer st id c k).
Proof.
  intros J G Hpc. unfold arg_writer.
  repeat match goal with
         | |- drainJ (commit _ _ _ _) => eapply drain_commit; [exact J | exact G | condtac Hpc]
         | |- drainJ (let '(_, _) := ?x in _) => destruct x eqn:?
         | |- drainJ (if ?b then _ else _) => destruct b
         | |- drainJ (match ?x with _ => _ end) => destruct x
         end.
Qed.

Lemma send_syserr_core st id full :
  cst (fst (conn_send_syserr st id full)) = cst st /\
  stopped (fst (conn_send_syserr st id full)) = stopped st /\
  calls (fst (conn_send_syserr st id full)) = calls st.
Proof. unfold conn_send_syserr. destruct (cst st) eqn:E, full; cbn; auto. Qed.

Lemma drain_hclose st id c fullfrag st' :
  drainJ st -> get id (calls st) = Some c -> h_pc c = PIdle -> hclose st id c fullfrag = Some st' -> drainJ st'.
Proof.
  intros J G Hpc H. unfold hclose in H.
    destruct (f_err c).
    { apply Some_inj in H; subst st'. eapply drain_commit; [exact J | exact G | condtac Hpc]. }
    destruct (f_state c).
    + apply Some_inj in H; subst st'. eapply drain_commit; [exact J | exact G | condtac Hpc].
    + destruct (negb fullfrag).
      * apply Some_inj in H; subst st'. eapply drain_commit; [exact J | exact G | condtac Hpc].
      * destruct (negb (f_cur (upd_f c FWaiting false (f_cur c) (f_first c)))); [discriminate|].
        apply Some_inj in H; subst st'. apply drain_flush1_upd; assumption.
    + destruct (negb (f_cur c)); [discriminate|].
      apply Some_inj in H; subst st'. apply drain_flush1_upd; assumption.
    + apply Some_inj in H; subst st'. eapply drain_commit; [exact J | exact G | condtac Hpc].
    + apply Some_inj in H; subst st'. eapply drain_commit; [exact J | exact G | condtac Hpc].
Qed.

Lemma drain_hstep st id c l st' :
  drainJ st -> get id (calls st) = Some c -> hstep st id c l = Some st' -> drainJ st'.
Proof.
  intros J G H. unfold hstep in H.
  destruct l; destruct (h_pc c) eqn:Hpc; try discriminate.
  - (* HStart *)
    destruct ok.
    + apply Some_inj in H; subst st'. eapply drain_commit; [exact J | exact G | condtac Hpc].
    + destruct (shut_call c) as [c1 chk] eqn:E. apply Some_inj in H; subst st'.
      eapply drain_commit; [exact J | exact G | condtac Hpc].
  - (* HResp *)
    apply Some_inj in H; subst st'. eapply drain_commit; [exact J | exact G|].
    destruct (rd_err c); condtac Hpc.
  - (* HReadFail *)
    destruct (rd_err c); [apply Some_inj in H; subst st'; exact J|].
    destruct shut.
    + destruct (shut_call c) as [c1 chk] eqn:E. apply Some_inj in H; subst st'.
      eapply drain_commit; [exact J | exact G | condtac Hpc].
    + apply Some_inj in H; subst st'. eapply drain_commit; [exact J | exact G | condtac Hpc].
  - (* HArgWriter *)
    apply Some_inj in H; subst st'. apply drain_arg_writer; assumption.
  - (* HFlush *)
    destruct (viaWrite && f_err c).
    { apply Some_inj in H; subst st'. eapply drain_commit; [exact J | exact G | condtac Hpc]. }
    destruct (viaWrite && negb (writing (f_state c))).
    { apply Some_inj in H; subst st'. eapply drain_commit; [exact J | exact G | condtac Hpc]. }
    destruct (negb (f_cur c)); [discriminate|].
    apply Some_inj in H; subst st'. apply drain_flush1; assumption.
  - (* HFlushSel *)
    destruct enq.
    + apply Some_inj in H; subst st'.
      eapply drain_ext with (st := commit st id (upd_pc c (if final then PDone else PNewFrag)) false);
        try reflexivity.
      eapply drain_commit; [exact J | exact G|]. destruct final; condtac Hpc.
    + destruct (check_error c); [|discriminate].
      destruct (failed_call c) as [c1 chk] eqn:Fc. apply Some_inj in H; subst st'.
      eapply drain_commit; [exact J | exact G|]. destruct final; condtac Hpc.
  - (* HNewFrag *)
    destruct (check_error c).
    + destruct (failed_call c) as [c1 chk] eqn:Fc. apply Some_inj in H; subst st'.
      eapply drain_commit; [exact J | exact G | condtac Hpc].
    + apply Some_inj in H; subst st'. eapply drain_commit; [exact J | exact G | condtac Hpc].
  - (* HClose *)
    eapply drain_hclose; eassumption.
  - (* HDone *)
    destruct (done_sending c) as [c1 chk] eqn:Ds. apply Some_inj in H; subst st'.
    eapply drain_commit; [exact J | exact G|]. destruct (f_err c1); condtac Hpc.
  - (* HSysErr *)
    destruct (w_err c).
    { apply Some_inj in H; subst st'. eapply drain_commit; [exact J | exact G | condtac Hpc]. }
    set (st0 := if g_dones c then add_misused st id else st) in *.
    destruct (conn_send_syserr st0 id full) as [st1 ok] eqn:Cs.
    destruct (done_sending (upd_w c false WComplete (rd_err c))) as [c1 chk] eqn:Ds.
    apply Some_inj in H; subst st'.
    destruct (send_syserr_core st0 id full) as (A1 & A2 & A3). rewrite Cs in A1, A2, A3. cbn [fst] in A1, A2, A3.
    assert (B : cst st0 = cst st /\ stopped st0 = stopped st /\ calls st0 = calls st)
      by (unfold st0; destruct (g_dones c); auto).
    destruct B as (B1 & B2 & B3).
    assert (J1 : drainJ st1) by (apply (drain_ext st); [congruence | congruence | congruence | exact J]).
    eapply drain_commit; [exact J1 | rewrite A3, B3; exact G|]. destruct ok; condtac Hpc.
  - (* HSetAppErr *)
    destruct (w_state c);
      try (apply Some_inj in H; subst st'; eapply drain_commit; [exact J | exact G | condtac Hpc]);
      destruct (failed_call c) as [c1 chk] eqn:Fc; apply Some_inj in H; subst st';
      (eapply drain_commit; [exact J | exact G | condtac Hpc]).
  - (* HBlackhole *)
    apply Some_inj in H; subst st'. eapply drain_commit; [exact J | exact G | condtac Hpc].
  - (* HHelperWrite *)
    rewrite helper_closes_eq in H. destruct ok.
    + eapply drain_hclose; eassumption.
    + apply Some_inj in H; subst st'. eapply drain_commit; [exact J | exact G | condtac Hpc].
Qed.

Lemma drain_not_closing st : ~ closing (cst st) -> drainJ st.
Proof. intros N _ C. contradiction. Qed.

Lemma drain_stopped st : stopped st = true -> drainJ st.
Proof. intros S S'. congruence. Qed.

Lemma drain_close st : drainJ st -> drainJ (conn_close st).
Proof.
  intros J. unfold conn_close. destruct (cst st) eqn:Ec; try exact J.
  apply drain_check. apply drain_not_closing. cbn. unfold closing. intros [X | X]; discriminate.
Qed.

Lemma drain_stop st : drainJ st -> drainJ (conn_stop st).
Proof.
  intros J. unfold conn_stop. destruct (stopped st) eqn:S; [exact J|].
  destruct (mexset_shut st); apply drain_stopped; reflexivity.
Qed.

Lemma step_drain st l st' : drainJ st -> step st l = Some st' -> drainJ st'.
Proof.
  intros J H.
  destruct l; cbn [step] in H;
    try (unfold with_call in H; destruct (get id (calls st)) as [c|] eqn:G; [|discriminate];
         eapply drain_hstep; eassumption).
  - (* RdCallReq1 *)
    destruct (rd_pc st); try discriminate.
    destruct (send_syserr_core (add_requested st id) id full) as (A1 & A2 & A3).
    assert (J1 : drainJ (fst (conn_send_syserr (add_requested st id) id full)))
      by (apply (drain_ext st); [rewrite A1; reflexivity | rewrite A2; reflexivity | rewrite A3; reflexivity | exact J]).
    assert (J2 : drainJ (set_rd (add_requested st id) (RChecked id)))
      by (apply (drain_ext st); [reflexivity | reflexivity | reflexivity | exact J]).
    destruct (cst (add_requested st id)); apply Some_inj in H; subst st'; assumption.
  - (* RdCallReq2 *)
    destruct (rd_pc st) as [|rid| | |]; try discriminate.
    destruct (negb ok); [apply Some_inj in H; subst st'; exact J|].
    destruct (mexset_shut st || _); apply Some_inj in H; subst st'.
    + destruct (send_syserr_core st rid full) as (A1 & A2 & A3).
      apply (drain_ext st); cbn [cst stopped calls set_rd]; auto.
    + apply (drain_ext (set_calls st (put rid new_call (calls st)))); try reflexivity.
      apply drain_put_new; [exact J | left; reflexivity].
  - (* RdCallReq3 *)
    destruct (rd_pc st) as [| |rid| |]; try discriminate. unfold with_call in H.
    destruct (get rid (calls st)) as [c|] eqn:G; [|discriminate].
    destruct (send_syserr_core st rid full) as (A1 & A2 & A3).
    assert (J1 : drainJ (fst (conn_send_syserr st rid full))) by (apply (drain_ext st); assumption).
    assert (Hna : forall c1 chk, shut_call c = (c1, chk) ->
              drainJ (set_rd (commit (fst (conn_send_syserr st rid full)) rid (upd_pc c1 PDead) chk) RIdle)).
    { intros c1 chk E.
      apply (drain_ext (commit (fst (conn_send_syserr st rid full)) rid (upd_pc c1 PDead) chk)); try reflexivity.
      eapply drain_commit; [exact J1 | rewrite A3; exact G|].
      pose proof (shut_loc _ _ _ E) as E'. clear E. rename E' into E. unfold cond, nohandler. intros X. unfold in_ex in *. cbn [m_loc h_pc upd_pc] in *.
      split; [exact (E X) | intros _; right; reflexivity]. }
    destruct (cst st) eqn:Ec; [|destruct (shut_call c) as [c1 chk] eqn:E; apply Some_inj in H; subst st'; apply Hna; reflexivity ..].
    apply Some_inj in H; subst st'. apply drain_not_closing.
    cbn [cst set_rd]. unfold commit. cbn [cst set_calls]. rewrite Ec. unfold closing. intros [X | X]; discriminate.
  - (* RdProtoClose *)
    destruct (rd_pc st); try discriminate. apply Some_inj in H; subst st'.
    apply (drain_ext (conn_close st)); try reflexivity. apply drain_close; exact J.
  - (* RdProtoStop *)
    destruct (rd_pc st); try discriminate. apply Some_inj in H; subst st'.
    apply (drain_ext (conn_stop st)); try reflexivity. apply drain_stop; exact J.
  - (* RdCancel *)
    destruct (rd_pc st); try discriminate.
    destruct (propagate st); [|apply Some_inj in H; subst st'; exact J].
    destruct (get id (calls st)) as [c|] eqn:G; [|apply Some_inj in H; subst st'; exact J].
    destruct (in_ex c); apply Some_inj in H; subst st'; [|exact J].
    eapply drain_commit; [exact J | exact G|]. unfold cond, in_ex. cbn. auto.
  - (* Deadline *)
    unfold with_call in H. destruct (get id (calls st)) as [c|] eqn:G; [|discriminate].
    destruct (m_ctx c); try discriminate. apply Some_inj in H; subst st'.
    eapply drain_commit; [exact J | exact G|]. unfold cond, in_ex. cbn. auto.
  - (* ExpireCtx *)
    unfold with_call in H. destruct (get id (calls st)) as [c|] eqn:G; [|discriminate].
    destruct (e_pc c); try discriminate.
    destruct (m_ctx c); try discriminate; apply Some_inj in H; subst st';
      (eapply drain_commit; [exact J | exact G|]); unfold cond, in_ex; cbn; destruct (m_loc c); intros; discriminate.
  - (* ExpireErr *)
    unfold with_call in H. destruct (get id (calls st)) as [c|] eqn:G; [|discriminate].
    destruct (e_pc c); try discriminate. destruct (m_errch c); try discriminate.
    apply Some_inj in H; subst st'.
    eapply drain_commit; [exact J | exact G|]. unfold cond, in_ex; cbn; destruct (m_loc c); intros; discriminate.
  - (* CClose *) apply Some_inj in H; subst st'. apply drain_close; exact J.
  - (* CStop *) apply Some_inj in H; subst st'. apply drain_stop; exact J.
  - (* CCheck *) apply Some_inj in H; subst st'. apply drain_check; exact J.
  - (* OutBegin *) apply Some_inj in H; subst st'. apply (drain_ext st); try reflexivity. exact J.
  - (* OutEnd *)
    destruct (0 <? n_out st); [|discriminate]. apply Some_inj in H; subst st'.
    apply drain_check. apply (drain_ext st); try reflexivity. exact J.
Qed.

Lemma drain_init prop : drainJ (init_state prop).
Proof. intros _ _ id c G. discriminate G. Qed.

Lemma run_from_drain ls : forall st st', drainJ st -> run_from st ls = Some st' -> drainJ st'.
Proof.
  induction ls as [|l r IH]; intros st st' J H; cbn [run_from] in H.
  - apply Some_inj in H; subst; exact J.
  - destruct (step st l) as [st1|] eqn:E; [|discriminate].
    eapply IH; [eapply step_drain; eassumption | exact H].
Qed.

(* Without a connection failure, a dispatched call whose exchange is still registered keeps
   the connection out of InboundClosed / Closed: it is Active or draining (StartClose). *)
Theorem respwire_drain_state prop ls st id c :
  run prop ls = Some st -> stopped st = false ->
  get id (calls st) = Some c -> in_ex c = true -> h_pc c <> PAdmit -> h_pc c <> PDead ->
  cst st = CActive \/ cst st = CStartClose.
Proof.
  unfold run. intros Hrun Hs G E N1 N2.
  pose proof (run_from_drain _ _ _ (drain_init prop) Hrun) as J.
  destruct (cst st) eqn:Ec; auto; exfalso.
  - destruct (J Hs (or_introl Ec) id c G E); contradiction.
  - destruct (J Hs (or_intror Ec) id c G E); contradiction.
Qed.

(* ---- the step: SendSystemError of such a call queues exactly its frame ------------------------ *)

Lemma done_rets c c2 chk : done_sending c = (c2, chk) -> g_rets c2 = g_rets c.
Proof.
  unfold done_sending, shut_call. destruct (w_err (cancel_call c)); [|destruct (m_shut (cancel_call c))];
    intros H; inversion H; subst; reflexivity.
Qed.

Theorem respwire_syserr_step prop ls st id c :
  run prop ls = Some st -> stopped st = false ->
  get id (calls st) = Some c -> h_pc c = PIdle -> in_ex c = true -> w_err c = false ->
  exists st' c', step st (HSysErr id false) = Some st' /\
    sent st' = sent st ++ [(id, Err)] /\
    get id (calls st') = Some c' /\ g_rets c' = g_rets c ++ [0] /\ g_dones c' = true.
Proof.
  intros Hrun Hs G Hpc E We.
  assert (Hst : cst st = CActive \/ cst st = CStartClose).
  { eapply respwire_drain_state; try eassumption; rewrite Hpc; discriminate. }
  cbn [step]. unfold with_call. rewrite G. unfold hstep. rewrite Hpc, We.
  set (st0 := if g_dones c then add_misused st id else st).
  assert (B : cst st0 = cst st /\ sent st0 = sent st) by (unfold st0; destruct (g_dones c); auto).
  destruct B as (B1 & B2).
  assert (Cs : conn_send_syserr st0 id false = (enqueue st0 id Err, true)).
  { unfold conn_send_syserr. rewrite B1. destruct Hst as [-> | ->]; reflexivity. }
  rewrite Cs.
  destruct (done_sending (upd_w c false WComplete (rd_err c))) as [c1 chk] eqn:Ds.
  pose proof (done_rets _ _ _ Ds) as Rt. apply done_sending_spec in Ds.
  destruct Ds as (_ & _ & _ & _ & _ & Dn & _).
  eexists. exists (ret c1 0). split; [reflexivity|].
  split; [rewrite sent_commit; cbn [sent enqueue]; rewrite B2; reflexivity|].
  split; [apply get_commit_same|]. cbn [g_rets g_dones ret]. rewrite Rt. cbn [g_rets upd_w]. auto.
Qed.

(* ---- the frame log only grows ------------------------------------------------------------------ *)

Definition ext (st st' : state) : Prop := exists t, sent st' = sent st ++ t.

Lemma ext_refl st : ext st st.
Proof. exists []. symmetry. apply app_nil_r. Qed.

Lemma ext_trans a b c : ext a b -> ext b c -> ext a c.
Proof. intros [t E] [u F]. exists (t ++ u). rewrite F, E. symmetry. apply app_assoc. Qed.

Lemma ext_same st st' : sent st' = sent st -> ext st st'.
Proof. intros E. exists []. rewrite E. symmetry. apply app_nil_r. Qed.

Lemma ext_commit st id c chk : ext st (commit st id c chk).
Proof. apply ext_same, sent_commit. Qed.

Lemma ext_enqueue st id k : ext st (enqueue st id k).
Proof. exists [(id, k)]. reflexivity. Qed.

Lemma ext_send_syserr st id full : ext st (fst (conn_send_syserr st id full)).
Proof.
  destruct (send_syserr_fields st id full) as (_ & _ & _ & _ & [E | E]).
  - apply ext_same; exact E.
  - exists [(id, Err)]. exact E.
Qed.

Lemma ext_flush1 st id c final : ext st (flush1 st id c final).
Proof.
  unfold flush1. destruct (w_err c); [apply ext_commit|].
  destruct (check_error c); [|apply ext_commit]. destruct (failed_call c); apply ext_commit.
Qed.

Lemma ext_arg_writer st id c k : ext st (arg_writer st id c k).
Proof.
  unfold arg_writer.
  repeat match goal with
         | |- ext _ (commit _ _ _ _) => apply ext_commit
         | |- ext _ (let '(_, _) := ?x in _) => destruct x
         | |- ext _ (if ?b then _ else _) => destruct b
         | |- ext _ (match ?x with _ => _ end) => destruct x
         end.
Qed.

Lemma ext_hstep st id c l st' : hstep st id c l = Some st' -> ext st st'.
Proof.
  unfold hstep, hclose. intros H.
  destruct l; destruct (h_pc c); try discriminate;
    repeat match type of H with
           | Some _ = Some _ => apply Some_inj in H; subst st'
           | None = Some _ => discriminate
           | (let '(_, _) := ?x in _) = Some _ => destruct x eqn:?
           | (if ?b then _ else _) = Some _ => destruct b eqn:?
           | (match ?x with _ => _ end) = Some _ => destruct x eqn:?
           end; try discriminate;
    try apply ext_refl; try apply ext_commit; try apply ext_flush1; try apply ext_arg_writer;
    try (eapply ext_trans; [apply ext_commit | apply ext_enqueue]).
  (* HSysErr: (misused) ; send ; commit *)
  eapply ext_trans; [|apply ext_commit].
  match goal with E : conn_send_syserr ?s0 ?i ?f = (?s1, _) |- _ =>
    pose proof (ext_send_syserr s0 i f) as X; rewrite E in X; cbn [fst] in X end.
  eapply ext_trans; [|exact X]. destruct (g_dones c); apply ext_same; reflexivity.
Qed.

Lemma step_ext st l st' : step st l = Some st' -> ext st st'.
Proof.
  intros H.
  destruct l; cbn [step] in H;
    try (unfold with_call in H; destruct (get id (calls st)) as [c|] eqn:G; [|discriminate];
         eapply ext_hstep; eassumption).
  - destruct (rd_pc st); try discriminate.
    pose proof (ext_send_syserr (add_requested st id) id full) as X.
    destruct (cst (add_requested st id)); apply Some_inj in H; subst st'; first [exact X | apply ext_same; reflexivity].
  - destruct (rd_pc st) as [|rid| | |]; try discriminate.
    destruct (negb ok); [apply Some_inj in H; subst st'; apply ext_same; reflexivity|].
    destruct (mexset_shut st || _); apply Some_inj in H; subst st'.
    + apply (ext_send_syserr st rid full).
    + apply ext_same; reflexivity.
  - destruct (rd_pc st) as [| |rid| |]; try discriminate. unfold with_call in H.
    destruct (get rid (calls st)) as [c|]; [|discriminate].
    pose proof (ext_send_syserr st rid full) as X.
    destruct (cst st); [|destruct (shut_call c) as [c1 chk]..]; apply Some_inj in H; subst st';
      first [ apply ext_same; cbn [sent set_rd]; apply sent_commit
            | eapply ext_trans; [exact X | apply ext_same; cbn [sent set_rd]; apply sent_commit] ].
  - destruct (rd_pc st); try discriminate. apply Some_inj in H; subst st'.
    destruct (close_fields st) as (_ & B & _). apply ext_same. exact B.
  - destruct (rd_pc st); try discriminate. apply Some_inj in H; subst st'.
    destruct (stop_fields st) as (B & _). apply ext_same. exact B.
  - destruct (rd_pc st); try discriminate.
    destruct (propagate st); [|apply Some_inj in H; subst st'; apply ext_refl].
    destruct (get id (calls st)) as [c|]; [|apply Some_inj in H; subst st'; apply ext_refl].
    destruct (in_ex c); apply Some_inj in H; subst st'; [apply ext_commit | apply ext_refl].
  - unfold with_call in H. destruct (get id (calls st)) as [c|]; [|discriminate].
    destruct (m_ctx c); try discriminate. apply Some_inj in H; subst st'. apply ext_commit.
  - unfold with_call in H. destruct (get id (calls st)) as [c|]; [|discriminate].
    destruct (e_pc c); try discriminate. destruct (m_ctx c); try discriminate;
      apply Some_inj in H; subst st'; apply ext_commit.
  - unfold with_call in H. destruct (get id (calls st)) as [c|]; [|discriminate].
    destruct (e_pc c); try discriminate. destruct (m_errch c); try discriminate.
    apply Some_inj in H; subst st'. apply ext_commit.
  - apply Some_inj in H; subst st'. destruct (close_fields st) as (_ & B & _). apply ext_same. exact B.
  - apply Some_inj in H; subst st'. destruct (stop_fields st) as (B & _). apply ext_same. exact B.
  - apply Some_inj in H; subst st'. apply ext_same; reflexivity.
  - apply Some_inj in H; subst st'. apply ext_same; reflexivity.
  - destruct (0 <? n_out st); [|discriminate]. apply Some_inj in H; subst st'. apply ext_same; reflexivity.
Qed.

Lemma run_from_ext ls : forall st st', run_from st ls = Some st' -> ext st st'.
Proof.
  induction ls as [|l r IH]; intros st st' H; cbn [run_from] in H.
  - apply Some_inj in H; subst; apply ext_refl.
  - destruct (step st l) as [st1|] eqn:E; [|discriminate].
    eapply ext_trans; [eapply step_ext; exact E | apply IH; exact H].
Qed.

Lemma run_from_app l1 : forall st l2,
  run_from st (l1 ++ l2) = match run_from st l1 with Some s => run_from s l2 | None => None end.
Proof.
  induction l1 as [|l r IH]; intros st l2; cbn [app run_from]; [reflexivity|].
  destruct (step st l); [apply IH | reflexivity].
Qed.

(* ---- THE DELIVERY THEOREM ------------------------------------------------------------------------
   A run reaches [st1] without a connection failure; the handler of the dispatched call [id],
   whose exchange is still registered and whose response has not failed, now calls
   SendSystemError and the send buffer has room; the run goes on in any way ([ls2]: the
   removal may close the draining connection, the peer may cut it, ...).  If the id is inside
   C10's quantifier (requested once; the handler does not misuse SendSystemError), then the
   frames of the id are, for ever after, those sent before followed by EXACTLY ONE error frame:
   an accepted word, whose only terminal frame is that error frame.  No "or the connection
   closed first" alternative -- also when the call is the last exchange of a draining connection. *)
Theorem respwire_syserr_delivered prop ls1 st1 id c ls2 st :
  run prop ls1 = Some st1 -> stopped st1 = false ->
  get id (calls st1) = Some c -> h_pc c = PIdle -> in_ex c = true -> w_err c = false ->
  run prop (ls1 ++ HSysErr id false :: ls2) = Some st ->
  (req_count id (ls1 ++ HSysErr id false :: ls2) <= 1)%nat ->
  handler_ok id false (ls1 ++ HSysErr id false :: ls2) = true ->
    proj id (sent st) = proj id (sent st1) ++ [Err] /\
    wire_ok (proj id (sent st)) = true /\
    filter terminal (proj id (sent st)) = [Err].
Proof.
  intros H1 Hs G Hpc E We Hrun Hc Hok.
  destruct (respwire_syserr_step prop ls1 st1 id c H1 Hs G Hpc E We) as (st' & c' & Hstep & Hsent & _).
  pose proof Hrun as Hrun'. unfold run in Hrun', H1. rewrite run_from_app, H1 in Hrun'.
  cbn [run_from] in Hrun'. rewrite Hstep in Hrun'.
  destruct (run_from_ext _ _ _ Hrun') as [t Et].
  destruct (respwire_grammar_labels prop _ st Hrun id Hc Hok) as (P & Last & One & _).
  assert (Ep : proj id (sent st) = proj id (sent st1) ++ Err :: proj id t).
  { rewrite Et, Hsent, !proj_app. cbn [proj]. rewrite Z.eqb_refl, <- app_assoc. reflexivity. }
  pose proof (Last _ _ _ Ep eq_refl) as Nil. rewrite Nil in Ep.
  split; [exact Ep|]. split.
  - apply wire_prefix_ok_run in P. destruct P as [q Hq]. rewrite Ep, wire_run_snoc in Hq.
    destruct (wire_run W0 (proj id (sent st1))) as [q1|] eqn:Q1; [|discriminate].
    apply wire_run_end_ok. rewrite Ep, wire_run_snoc, Q1.
    destruct q1; cbn in Hq |- *; congruence.
  - rewrite Ep in One |- *. rewrite filter_app in One |- *. cbn [filter terminal] in One |- *.
    rewrite app_length in One. cbn [length] in One.
    destruct (filter terminal (proj id (sent st1))) as [|x r]; [reflexivity | cbn [length] in One; lia].
Qed.

(* the case the repair is about: the call is the LAST exchange of a connection that is draining
   after Close.  The error frame is queued, the call returns nil, and the removal of the
   exchange then closes the connection. *)
Definition drain_last_labels : list label :=
  [RdCallReq1 7 false; RdCallReq2 true false; RdCallReq3 false; HStart 7 true; HResp 7; CClose].

Lemma respwire_drain_last_example :
  exists st1 c st,
    run false drain_last_labels = Some st1 /\ cst st1 = CStartClose /\ stopped st1 = false /\
    get 7 (calls st1) = Some c /\ h_pc c = PIdle /\ in_ex c = true /\ w_err c = false /\
    inbound_count (calls st1) = 1 /\
    (req_count 7 (drain_last_labels ++ [HSysErr 7 false]) <= 1)%nat /\
    handler_ok 7 false (drain_last_labels ++ [HSysErr 7 false]) = true /\
    run false (drain_last_labels ++ [HSysErr 7 false]) = Some st /\
    proj 7 (sent st) = [Err] /\ cst st = CClosed /\
    (exists c', get 7 (calls st) = Some c' /\ g_rets c' = [0]).
Proof.
  eexists. eexists. eexists. split; [vm_compute; reflexivity|].
  split; [reflexivity|]. split; [reflexivity|]. split; [reflexivity|].
  split; [reflexivity|]. split; [reflexivity|]. split; [reflexivity|]. split; [reflexivity|].
  split; [vm_compute; lia|]. split; [reflexivity|]. split; [vm_compute; reflexivity|].
  split; [reflexivity|]. split; [reflexivity|]. eexists. split; reflexivity.
Qed.
