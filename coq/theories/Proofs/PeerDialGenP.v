(* TIE of the collection decision and of the connection attempts to the source
   (Gen/GenPeerDial.v, regenerated on every run; go2v/dialtargets.go):
     Peer.canRemove                   = can_remove of Model/PeerBook.v: a function of the two connection
                                        lists and scCount, nothing else;
     RootPeerList.onClosedConnRemoved with that canRemove = the collector steps PCol1-3;
     Peer.connectionCloseStateChange  = step PCbRem: the collector runs, and the status callback
                                        fires, exactly when a connection was removed;
     Peer.GetConnection / getConnectionRelay after lockNewConn = step DCheck of Model/PeerDial.v.
   An edit that makes the decision depend on anything else (who holds newConnLock, pending calls,
   time ...), or that skips / conditions the call of the collector, breaks an equality here. *)
From Coq Require Import ZArith List Bool Lia.
From Verif Require Import Base.Wrap Base.GoMap Gen.GenConsts Gen.GenPeerGoc Gen.GenPeerDial
  Model.PeerBook Model.PeerDial Proofs.PeerBookL.
Import ListNotations.
Local Open Scope Z_scope.

(* scCount is a uint32 that does not wrap; the lists are shorter than 2^62 *)
Definition peer_small (P : peer) : Prop :=
  0 <= p_sc P < 4294967296 /\ zlen (p_in P) + zlen (p_out P) < 4611686018427387904.

Lemma gen_can_remove P :
  peer_small P -> peerCanRemove (p_in P) (p_out P) (p_sc P) = can_remove P.
Proof.
  intros [Hs Hl]. unfold peerCanRemove, can_remove.
  assert (Hi : 0 <= zlen (p_in P)) by (unfold zlen; lia).
  assert (Ho : 0 <= zlen (p_out P)) by (unfold zlen; lia).
  assert (E63 : 2 ^ (64 - 1) = 9223372036854775808) by reflexivity.
  rewrite (wrapS_id 64 (p_sc P)) by (rewrite ?E63; lia).
  rewrite (wrapS_id 64 (zlen (p_in P) + zlen (p_out P))) by (rewrite ?E63; lia).
  rewrite wrapS_id by (rewrite ?E63; lia). reflexivity.
Qed.

(* the decision does not look at anything but the three fields *)
Lemma gen_can_remove_fields P Q :
  p_in P = p_in Q -> p_out P = p_out Q -> p_sc P = p_sc Q ->
  peerCanRemove (p_in P) (p_out P) (p_sc P) = peerCanRemove (p_in Q) (p_out Q) (p_sc Q).
Proof. intros -> -> ->. reflexivity. Qed.

(* RootPeerList.onClosedConnRemoved with the generated canRemove *)
Lemma gen_collect (s : PeerBook.st) hp :
  (forall q, s_root s hp = Some q -> peer_small (s_peer s q)) ->
  rootCollect (s_root s)
    (fun q => peerCanRemove (p_in (s_peer s q)) (p_out (s_peer s q)) (p_sc (s_peer s q))) hp =
  match s_root s hp with
  | None => s_root s
  | Some q => if can_remove (s_peer s q) then s_root (set_root s hp None) else s_root s
  end.
Proof.
  intros Hs. unfold rootCollect, rootGetVal, rootGetOk, gmap_get.
  destruct (s_root s hp) as [q|] eqn:E; cbn [negb fst snd]; [|reflexivity].
  rewrite (gen_can_remove _ (Hs q eq_refl)). destruct (can_remove (s_peer s q)); reflexivity.
Qed.

(* ... which is what the collector steps of the model do *)
Lemma collector_steps s t c hp todo :
  let s1 := step_thread true s t (PCol1 c hp todo) in
  match s_root s hp with
  | None => s_thr s1 t = Some (PCbGet c todo) /\ s_root s1 = s_root s
  | Some q =>
      s_thr s1 t = Some (PCol2 c hp q todo) /\
      let s2 := step_thread true s1 t (PCol2 c hp q todo) in
      if can_remove (s_peer s q)
      then s_thr s2 t = Some (PCol3 c hp todo) /\
           s_root (step_thread true s2 t (PCol3 c hp todo)) = s_root (set_root s hp None)
      else s_thr s2 t = Some (PCbGet c todo) /\ s_root s2 = s_root s
  end.
Proof.
  cbn [step_thread]. destruct (s_root s hp) as [q|] eqn:E.
  - split; [cbn [set_thr s_thr]; apply upd_same|].
    cbn [step_thread set_thr s_peer]. destruct (can_remove (s_peer s q)).
    + split; [cbn [set_thr s_thr]; apply upd_same|]. reflexivity.
    + split; [cbn [set_thr s_thr]; apply upd_same|]. reflexivity.
  - split; [cbn [set_thr s_thr]; apply upd_same|]. reflexivity.
Qed.

(* Peer.connectionCloseStateChange: (collector called, status callback fired) *)
Lemma gen_close_change a fi fo :
  peerCloseChange false false a fi fo = (negb a && (fi || fo), negb a && (fi || fo)).
Proof. destruct a, fi, fo; reflexivity. Qed.

Definition found (o : option (list Z)) : bool := match o with Some _ => true | None => false end.

Lemma close_change_step s t c pid todo :
  let P := s_peer s pid in
  let r := peerCloseChange false false (is_active (s_conn s c))
             (found (swap_remove c (p_in P))) (found (swap_remove c (p_out P))) in
  let s' := step_thread true s t (PCbRem c pid todo) in
  s_thr s' t = Some (if fst r then PCol1 c (p_hp P) todo else PCbGet c todo) /\
  s_log s' = (if snd r then s_log s ++ [p_hp P] else s_log s).
Proof.
  cbn zeta. rewrite gen_close_change. cbn [step_thread fst snd].
  destruct (is_active (s_conn s c)); cbn [negb andb].
  - split; [cbn [set_thr s_thr]; apply upd_same|reflexivity].
  - destruct (swap_remove c (p_in (s_peer s pid))) as [l|]; cbn [found orb].
    + split; [cbn [set_thr s_thr]; apply upd_same|reflexivity].
    + destruct (swap_remove c (p_out (s_peer s pid))) as [l|]; cbn [found].
      * split; [cbn [set_thr s_thr]; apply upd_same|reflexivity].
      * split; [cbn [set_thr s_thr]; apply upd_same|reflexivity].
Qed.

(* Peer.GetConnection / getConnectionRelay once newConnLock is held: 0 = the connection found by
   the re-check, 2 = p.Connect(ctx); the deferred unlock runs on both paths *)
Lemma gen_get_conn a :
  peerGetConnLocked a = (if a then 0 else 2) /\ peerGetConnRelayLocked a = (if a then 0 else 2).
Proof. destruct a; split; reflexivity. Qed.

Lemma dcheck_step ds d pid :
  d_thr ds d = Some (DCheck pid) ->
  exists ds', dstep ds (DStep d) = Some ds' /\ d_s ds' = d_s ds /\
    if peerGetConnLocked (has_active (d_s ds) pid) =? 0
    then d_thr ds' d = None /\ d_lock ds' pid = false
    else d_thr ds' d = Some (DConn pid) /\ d_lock ds' = d_lock ds.
Proof.
  intros E. unfold dstep, dstep_gen. rewrite E. destruct (gen_get_conn (has_active (d_s ds) pid)) as [-> _].
  destruct (has_active (d_s ds) pid); eexists; (split; [reflexivity|]); split; try reflexivity; cbn [Z.eqb].
  - split; [cbn [dset_thr d_thr]; apply upd_same|cbn [dset_thr dset_lock d_lock]; apply upd_same].
  - split; [cbn [dset_thr d_thr]; apply upd_same|reflexivity].
Qed.

Theorem dial_generated :
  (forall P, peer_small P -> peerCanRemove (p_in P) (p_out P) (p_sc P) = can_remove P) /\
  (forall (s : PeerBook.st) hp,
     (forall q, s_root s hp = Some q -> peer_small (s_peer s q)) ->
     rootCollect (s_root s)
       (fun q => peerCanRemove (p_in (s_peer s q)) (p_out (s_peer s q)) (p_sc (s_peer s q))) hp =
     match s_root s hp with
     | None => s_root s
     | Some q => if can_remove (s_peer s q) then s_root (set_root s hp None) else s_root s
     end) /\
  (forall s t c pid todo,
     let P := s_peer s pid in
     let r := peerCloseChange false false (is_active (s_conn s c))
                (found (swap_remove c (p_in P))) (found (swap_remove c (p_out P))) in
     let s' := step_thread true s t (PCbRem c pid todo) in
     s_thr s' t = Some (if fst r then PCol1 c (p_hp P) todo else PCbGet c todo) /\
     s_log s' = (if snd r then s_log s ++ [p_hp P] else s_log s)) /\
  (forall a fi fo, peerCloseChange false false a fi fo = (negb a && (fi || fo), negb a && (fi || fo))) /\
  (forall ds d pid, d_thr ds d = Some (DCheck pid) ->
     exists ds', dstep ds (DStep d) = Some ds' /\ d_s ds' = d_s ds /\
       if peerGetConnLocked (has_active (d_s ds) pid) =? 0
       then d_thr ds' d = None /\ d_lock ds' pid = false
       else d_thr ds' d = Some (DConn pid) /\ d_lock ds' = d_lock ds) /\
  (forall a, peerGetConnRelayLocked a = peerGetConnLocked a).
Proof.
  split; [exact gen_can_remove|]. split; [exact gen_collect|]. split; [exact close_change_step|].
  split; [exact gen_close_change|]. split; [exact dcheck_step|].
  intros a. destruct (gen_get_conn a) as [-> ->]. reflexivity.
Qed.
