(* Reasoning principles for the typed-buffer model: [writes] and [consumes], and their
   instances for every message codec. *)
From Coq Require Import ZArith List Bool Lia.
From Verif Require Import Base.Wrap Base.Bytes Gen.GenConsts Gen.GenFrame Model.TypedBuf Model.Messages Spec.Protocol.
Import ListNotations.
Local Open Scope Z_scope.

Lemma slen_zlen {A} (l : list A) : slen l = zlen l.
Proof. reflexivity. Qed.

(* ================= writers ================= *)

Definition sticky (f : wbuf -> wbuf) : Prop := forall w, werr w <> 0 -> f w = w.

Definition writes (f : wbuf -> wbuf) (bs : list Z) : Prop :=
  (forall w, werr w = 0 -> zlen bs <= wroom w -> f w = mkW (wout w ++ bs) (wroom w - zlen bs) 0) /\
  (forall w, werr w = 0 -> 0 <= wroom w < zlen bs -> werr (f w) = 1) /\
  sticky f.

Lemma w_bytes_sticky bs : sticky (w_bytes bs).
Proof. intros w H. unfold w_bytes. destruct (werr w =? 0) eqn:E; [lia|reflexivity]. Qed.

Lemma w_bytes_writes bs : writes (w_bytes bs) bs.
Proof.
  unfold writes. split; [|split; [|apply w_bytes_sticky]]; intros w H Hr; unfold w_bytes; rewrite H; cbn.
  - destruct (wroom w <? zlen bs) eqn:E; [lia|reflexivity].
  - destruct (wroom w <? zlen bs) eqn:E; [|lia]. unfold w_seterr. rewrite H. reflexivity.
Qed.

Lemma w_nop_writes : writes w_nop [].
Proof.
  unfold writes, sticky, w_nop. split; [|split]; intros w H; auto.
  - intros _. destruct w; cbn in *. subst. rewrite app_nil_r. f_equal. unfold zlen; cbn; lia.
  - unfold zlen; cbn. lia.
Qed.

Lemma seq_sticky f g : sticky f -> sticky g -> sticky (f >> g).
Proof. intros Hf Hg w H. unfold seqW. rewrite (Hf w H). apply Hg, H. Qed.

Lemma seq_writes f g a b : writes f a -> writes g b -> writes (f >> g) (a ++ b).
Proof.
  intros [F1 [F2 F3]] [G1 [G2 G3]]. unfold writes. split; [|split; [|apply seq_sticky; auto]].
  - intros w H Hr. rewrite zlen_app in Hr. pose proof (zlen_nonneg a). pose proof (zlen_nonneg b).
    unfold seqW. rewrite F1 by lia. rewrite G1; cbn; try lia. rewrite app_assoc, zlen_app. f_equal. lia.
  - intros w H Hr. rewrite zlen_app in Hr. unfold seqW.
    destruct (Z_lt_le_dec (wroom w) (zlen a)) as [L|L].
    + assert (E : werr (f w) = 1) by (apply F2; lia).
      rewrite G3; [exact E|lia].
    + rewrite F1 by lia. apply G2; cbn; lia.
Qed.

Lemma w_uint_writes n v : writes (w_uint n v) (be n v).
Proof. apply w_bytes_writes. Qed.

Lemma w_u8_writes v : 0 <= v < 256 -> writes (w_u8 v) [v].
Proof. intros H. unfold w_u8. rewrite Z.mod_small by lia. apply w_bytes_writes. Qed.

Lemma w_check_len_ok bits s : 0 <= bits -> zlen s < 2 ^ bits -> w_check_len bits s = w_nop.
Proof.
  intros Hb H. unfold w_check_len, w_nop. pose proof (zlen_nonneg s).
  rewrite wrapU_id by lia. rewrite Z.eqb_refl. reflexivity.
Qed.

Lemma w_check_len_sticky bits s : sticky (w_check_len bits s).
Proof.
  intros w H. unfold w_check_len. destruct (_ =? _); [reflexivity|].
  unfold w_seterr. destruct (werr w =? 0) eqn:E; [lia|reflexivity].
Qed.

Lemma be1 v : be 1 v = [v mod 256].
Proof. reflexivity. Qed.

Lemma w_len8_writes s : zlen s <= 255 -> writes (w_len8 s) (s_str1 s).
Proof.
  intros H. unfold w_len8, s_str1. rewrite w_check_len_ok by (cbn; lia).
  change ([slen s] ++ s) with ([] ++ [zlen s] ++ s).
  apply seq_writes; [apply w_nop_writes|]. apply seq_writes; [|apply w_bytes_writes].
  apply w_u8_writes. pose proof (zlen_nonneg s). lia.
Qed.

Lemma w_len16_writes s : zlen s <= 65535 -> writes (w_len16 s) (s_str2 s).
Proof.
  intros H. unfold w_len16, s_str2. rewrite w_check_len_ok by (cbn; lia).
  change (be 2 (slen s) ++ s) with ([] ++ be 2 (zlen s) ++ s).
  apply seq_writes; [apply w_nop_writes|]. apply seq_writes; [|apply w_bytes_writes].
  apply w_uint_writes.
Qed.

Lemma w_len8_sticky s : sticky (w_len8 s).
Proof. repeat apply seq_sticky; try apply w_bytes_sticky. apply w_check_len_sticky. Qed.
Lemma w_len16_sticky s : sticky (w_len16 s).
Proof. repeat apply seq_sticky; try apply w_bytes_sticky. apply w_check_len_sticky. Qed.

(* an over-long string sets errStringTooLong (2) and writes nothing *)
Lemma w_len8_toolong s w : 255 < zlen s -> zlen s < 2 ^ 62 -> werr w = 0 -> w_len8 s w = mkW (wout w) (wroom w) 2.
Proof.
  intros H H2 Hw. unfold w_len8, seqW, w_check_len.
  assert (E : (wrapU 8 (zlen s) =? zlen s) = false).
  { apply Z.eqb_neq. pose proof (wrapU_range 8 (zlen s) ltac:(lia)). cbn in *. lia. }
  rewrite E. unfold w_seterr. rewrite Hw. cbn.
  reflexivity.
Qed.
Lemma w_len16_toolong s w : 65535 < zlen s -> werr w = 0 -> w_len16 s w = mkW (wout w) (wroom w) 2.
Proof.
  intros H Hw. unfold w_len16, seqW, w_check_len.
  assert (E : (wrapU 16 (zlen s) =? zlen s) = false).
  { apply Z.eqb_neq. pose proof (wrapU_range 16 (zlen s) ltac:(lia)). cbn in *. lia. }
  rewrite E. unfold w_seterr. rewrite Hw. cbn.
  reflexivity.
Qed.

(* ---- well-formedness of values (protocol limits) ---- *)
Definition u_ok (n : nat) (v : Z) : Prop := 0 <= v < 256 ^ Z.of_nat n.
Definition str8_ok (s : list Z) : Prop := zlen s <= 255 /\ bytes_ok s = true.
Definition str16_ok (s : list Z) : Prop := zlen s <= 65535 /\ bytes_ok s = true.
Definition kvs8_ok (h : kvs) : Prop := zlen h <= 255 /\ Forall (fun kv => str8_ok (fst kv) /\ str8_ok (snd kv)) h.
Definition kvs16_ok (h : kvs) : Prop := zlen h <= 65535 /\ Forall (fun kv => str16_ok (fst kv) /\ str16_ok (snd kv)) h.
Definition span_ok (s : span) : Prop :=
  u_ok 8 (sp_span s) /\ u_ok 8 (sp_parent s) /\ u_ok 8 (sp_trace s) /\ u_ok 1 (sp_flags s).

Definition spec_span (s : span) : list Z := s_tracing (sp_span s) (sp_parent s) (sp_trace s) (sp_flags s).

Lemma w_span_writes s : u_ok 1 (sp_flags s) -> writes (w_span s) (spec_span s).
Proof.
  intros H. unfold w_span, spec_span, s_tracing.
  repeat (apply seq_writes; [apply w_uint_writes|]). apply w_u8_writes. exact H.
Qed.

Lemma w_kv8s_writes h : Forall (fun kv => str8_ok (fst kv) /\ str8_ok (snd kv)) h ->
  writes (w_kv8s h) (flat_map (fun kv => s_str1 (fst kv) ++ s_str1 (snd kv)) h).
Proof.
  induction 1 as [|kv h [[A _] [B _]] _ IH]; cbn [w_kv8s flat_map]; [apply w_nop_writes|].
  apply seq_writes; [|exact IH]. unfold w_kv8. apply seq_writes; apply w_len8_writes; assumption.
Qed.

Lemma w_headers_writes h : kvs8_ok h -> writes (w_headers h) (s_headers1 h).
Proof.
  intros [A B]. unfold w_headers, s_headers1. apply seq_writes; [|apply w_kv8s_writes; exact B].
  apply w_u8_writes. pose proof (zlen_nonneg h). unfold slen, zlen in *. lia.
Qed.

Lemma w_kv16s_writes h : Forall (fun kv => str16_ok (fst kv) /\ str16_ok (snd kv)) h ->
  writes (w_kv16s h) (flat_map (fun kv => s_str2 (fst kv) ++ s_str2 (snd kv)) h).
Proof.
  induction 1 as [|kv h [[A _] [B _]] _ IH]; cbn [w_kv16s flat_map]; [apply w_nop_writes|].
  apply seq_writes; [|exact IH]. unfold w_kv16. apply seq_writes; apply w_len16_writes; assumption.
Qed.

(* ---- message layouts ---- *)
Definition init_ok (m : initmsg) := u_ok 2 (im_version m) /\ kvs16_ok (im_params m).
Definition spec_init (m : initmsg) := s_init (im_version m) (im_params m).
Lemma w_init_writes m : init_ok m -> writes (w_init m) (spec_init m).
Proof.
  intros [A [B C]]. unfold w_init, spec_init, s_init.
  apply seq_writes; [apply w_uint_writes|]. apply seq_writes; [apply w_uint_writes|].
  apply w_kv16s_writes, C.
Qed.

Definition callreq_ok (m : callreq) (ttl_ms : Z) :=
  0 <= ttl_ms < 2 ^ 32 /\ cq_ttl_ns m = ttl_ms * ms_ns /\ span_ok (cq_span m) /\
  str8_ok (cq_service m) /\ kvs8_ok (cq_headers m).
Definition spec_callreq (m : callreq) (ttl_ms : Z) :=
  s_callreq ttl_ms (spec_span (cq_span m)) (cq_service m) (cq_headers m).
Lemma w_callreq_writes m ttl : callreq_ok m ttl -> writes (w_callreq m) (spec_callreq m ttl).
Proof.
  intros [A [B [[_ [_ [_ C]]] [[D _] E]]]]. unfold w_callreq, spec_callreq, s_callreq.
  replace (wrapU 32 (Z.quot (cq_ttl_ns m) ms_ns)) with ttl.
  2:{ rewrite B. unfold ms_ns. rewrite Z.quot_mul by lia. rewrite wrapU_id; lia. }
  apply seq_writes; [apply w_uint_writes|]. apply seq_writes; [apply w_span_writes, C|].
  apply seq_writes; [apply w_len8_writes, D|]. apply w_headers_writes, E.
Qed.

Definition callres_ok (m : callres) := u_ok 1 (cs_code m) /\ span_ok (cs_span m) /\ kvs8_ok (cs_headers m).
Definition spec_callres (m : callres) := s_callres (cs_code m) (spec_span (cs_span m)) (cs_headers m).
Lemma w_callres_writes m : callres_ok m -> writes (w_callres m) (spec_callres m).
Proof.
  intros [A [[_ [_ [_ C]]] E]]. unfold w_callres, spec_callres, s_callres.
  apply seq_writes; [apply w_u8_writes, A|]. apply seq_writes; [apply w_span_writes, C|].
  apply w_headers_writes, E.
Qed.

Definition error_ok (m : errmsg) := u_ok 1 (em_code m) /\ span_ok (em_span m) /\ str16_ok (em_msg m).
Definition spec_error (m : errmsg) := s_error (em_code m) (spec_span (em_span m)) (em_msg m).
Lemma w_error_writes m : error_ok m -> writes (w_error m) (spec_error m).
Proof.
  intros [A [[_ [_ [_ C]]] [E _]]]. unfold w_error, spec_error, s_error.
  apply seq_writes; [apply w_u8_writes, A|]. apply seq_writes; [apply w_span_writes, C|].
  apply w_len16_writes, E.
Qed.

Definition cancel_ok (m : cancelmsg) := u_ok 4 (cm_ttl m) /\ span_ok (cm_span m) /\ str16_ok (cm_msg m).
Definition spec_cancel (m : cancelmsg) := s_cancel (cm_ttl m) (spec_span (cm_span m)) (cm_msg m).
Lemma w_cancel_writes m : cancel_ok m -> writes (w_cancel m) (spec_cancel m).
Proof.
  intros [A [[_ [_ [_ C]]] [E _]]]. unfold w_cancel, spec_cancel, s_cancel.
  apply seq_writes; [apply w_uint_writes|]. apply seq_writes; [apply w_span_writes, C|].
  apply w_len16_writes, E.
Qed.

(* ================= readers ================= *)

Definition strict_prefix (p a : list Z) : Prop := exists q, q <> [] /\ a = p ++ q.

Definition rsticky {A} (rd : rbuf -> A * rbuf) : Prop := forall r, rerr r = true -> rerr (snd (rd r)) = true.

Definition consumes {A} (rd : rbuf -> A * rbuf) (a : list Z) (v : A) : Prop :=
  (forall rest, rd (rb (a ++ rest)) = (v, rb rest)) /\
  (forall p, strict_prefix p a -> rerr (snd (rd (rb p))) = true).

Lemma strict_prefix_app p a b : strict_prefix p (a ++ b) ->
  strict_prefix p a \/ exists p2, p = a ++ p2 /\ strict_prefix p2 b.
Proof.
  revert p. induction a as [|x a IH]; intros p [q [Hq E]].
  - right. exists p. split; [reflexivity|]. exists q. auto.
  - destruct p as [|y p].
    + left. exists (x :: a). split; [discriminate|reflexivity].
    + cbn in E. inversion E; subst y. destruct (IH p) as [[q' [Hq' E']]|[p2 [E' S]]].
      * exists q. auto.
      * left. exists q'. split; auto. cbn. rewrite E'. reflexivity.
      * right. exists p2. split; auto. cbn. rewrite E'. reflexivity.
Qed.

Lemma bind_sticky {A B} (m : rbuf -> A * rbuf) (k : A -> rbuf -> B * rbuf) :
  rsticky m -> (forall x, rsticky (k x)) -> rsticky (bindR m k).
Proof.
  intros Hm Hk r H. unfold bindR. specialize (Hm r H). destruct (m r) as [x r1]. cbn in Hm. apply Hk, Hm.
Qed.

Lemma ret_sticky {A} (v : A) : rsticky (retR v).
Proof. intros r H. exact H. Qed.

Lemma consumes_bind {A B} (m : rbuf -> A * rbuf) (k : A -> rbuf -> B * rbuf) a1 a2 x y :
  consumes m a1 x -> consumes (k x) a2 y -> (forall x', rsticky (k x')) ->
  consumes (bindR m k) (a1 ++ a2) y.
Proof.
  intros [M1 M2] [K1 K2] Hk. split.
  - intros rest. unfold bindR. rewrite <- app_assoc, M1. apply K1.
  - intros p Hp. unfold bindR. destruct (strict_prefix_app _ _ _ Hp) as [S|[p2 [E S]]].
    + specialize (M2 p S). destruct (m (rb p)) as [x' r1]. cbn in M2. apply Hk, M2.
    + subst p. rewrite M1. apply K2, S.
Qed.

Lemma consumes_ret {A} (v : A) : consumes (retR v) [] v.
Proof. split; [reflexivity|]. intros p [q [Hq E]]. destruct p; cbn in E; [subst; congruence|discriminate]. Qed.

Lemma consumes_bind_ret {A B} (m : rbuf -> A * rbuf) (f : A -> B) a x :
  consumes m a x -> consumes (bindR m (fun x => retR (f x))) a (f x).
Proof.
  intros H. rewrite <- (app_nil_r a). eapply consumes_bind; [exact H|apply consumes_ret|].
  intros; apply ret_sticky.
Qed.

Lemma r_bytes_sticky n : rsticky (r_bytes n).
Proof. intros r H. unfold r_bytes. rewrite H. exact H. Qed.

Lemma r_bytes_consumes s : consumes (r_bytes (length s)) s s.
Proof.
  split.
  - intros rest. unfold r_bytes, rb. cbn [rerr rrem]. rewrite app_length.
    destruct (Nat.ltb_spec (length s + length rest) (length s)); [lia|].
    rewrite firstn_app, Nat.sub_diag, firstn_all, skipn_app, Nat.sub_diag, skipn_all. cbn. rewrite app_nil_r. reflexivity.
  - intros p [q [Hq E]]. unfold r_bytes, rb. cbn [rerr rrem]. subst s. rewrite app_length.
    destruct q; [congruence|]. cbn [length].
    destruct (Nat.ltb_spec (length p) (length p + S (length q))); [reflexivity|lia].
Qed.

Lemma r_uint_sticky n : rsticky (r_uint n).
Proof. unfold r_uint. apply bind_sticky; [apply r_bytes_sticky|]. intros x r H. exact H. Qed.

Lemma r_uint_consumes n v : u_ok n v -> consumes (r_uint n) (be n v) v.
Proof.
  intros H. unfold r_uint. pose proof (r_bytes_consumes (be n v)) as [C1 C2]. rewrite be_length in *. split.
  - intros rest. unfold bindR. rewrite C1. cbn. rewrite unbe_be by exact H. reflexivity.
  - intros p Hp. unfold bindR. specialize (C2 p Hp). destruct (r_bytes n (rb p)) as [b r1]. cbn in *. exact C2.
Qed.

Lemma r_u8_consumes v : u_ok 1 v -> consumes r_u8 [v] v.
Proof. intros H. pose proof (r_uint_consumes 1 v H) as C. rewrite be1, Z.mod_small in C; [exact C|]. unfold u_ok in H. cbn in H. lia. Qed.

Lemma r_string_consumes s : consumes (r_string (zlen s)) s s.
Proof. unfold r_string, zlen. rewrite Nat2Z.id. apply r_bytes_consumes. Qed.

Lemma r_len8_sticky : rsticky r_len8.
Proof. apply bind_sticky; [apply r_uint_sticky|]. intros; apply r_bytes_sticky. Qed.
Lemma r_len16_sticky : rsticky r_len16.
Proof. apply bind_sticky; [apply r_uint_sticky|]. intros; apply r_bytes_sticky. Qed.

Lemma r_len8_consumes s : zlen s <= 255 -> consumes r_len8 (s_str1 s) s.
Proof.
  intros H. unfold r_len8, s_str1. eapply consumes_bind.
  - apply r_u8_consumes. unfold u_ok. pose proof (zlen_nonneg s). cbn. unfold slen, zlen in *. lia.
  - apply r_string_consumes.
  - intros; apply r_bytes_sticky.
Qed.

Lemma r_len16_consumes s : zlen s <= 65535 -> consumes r_len16 (s_str2 s) s.
Proof.
  intros H. unfold r_len16, s_str2. eapply consumes_bind.
  - apply r_uint_consumes. unfold u_ok. pose proof (zlen_nonneg s). cbn. unfold slen, zlen in *. lia.
  - apply r_string_consumes.
  - intros; apply r_bytes_sticky.
Qed.

Lemma r_span_sticky : rsticky r_span.
Proof. unfold r_span. repeat (apply bind_sticky; [apply r_uint_sticky|intros]). apply ret_sticky. Qed.

Lemma r_span_consumes s : span_ok s -> consumes r_span (spec_span s) s.
Proof.
  intros [A [B [C D]]]. unfold r_span, spec_span, s_tracing. destruct s as [a b c d]; cbn [sp_span sp_parent sp_trace sp_flags] in *.
  eapply consumes_bind; [apply r_uint_consumes, A| |intros; repeat (apply bind_sticky; [apply r_uint_sticky|intros]); apply ret_sticky].
  eapply consumes_bind; [apply r_uint_consumes, B| |intros; repeat (apply bind_sticky; [apply r_uint_sticky|intros]); apply ret_sticky].
  eapply consumes_bind; [apply r_uint_consumes, C| |intros; repeat (apply bind_sticky; [apply r_uint_sticky|intros]); apply ret_sticky].
  apply (consumes_bind_ret r_u8 (fun d => mkSpan a b c d)). apply r_u8_consumes, D.
Qed.

Lemma r_kv8s_sticky n : rsticky (r_kv8s n).
Proof.
  induction n as [|n IH]; cbn [r_kv8s]; [apply ret_sticky|].
  apply bind_sticky; [apply r_len8_sticky|intros]. apply bind_sticky; [apply r_len8_sticky|intros].
  apply bind_sticky; [apply IH|intros]. apply ret_sticky.
Qed.

Lemma r_kv8s_consumes h : Forall (fun kv => str8_ok (fst kv) /\ str8_ok (snd kv)) h ->
  consumes (r_kv8s (length h)) (flat_map (fun kv => s_str1 (fst kv) ++ s_str1 (snd kv)) h) h.
Proof.
  induction 1 as [|[k v] h [[A _] [B _]] _ IH]; cbn [r_kv8s flat_map length fst snd] in *; [apply consumes_ret|].
  rewrite <- app_assoc.
  eapply consumes_bind; [apply r_len8_consumes, A| |].
  2:{ intros. apply bind_sticky; [apply r_len8_sticky|intros]. apply bind_sticky; [apply r_kv8s_sticky|intros]. apply ret_sticky. }
  eapply consumes_bind; [apply r_len8_consumes, B| |].
  2:{ intros. apply bind_sticky; [apply r_kv8s_sticky|intros]. apply ret_sticky. }
  apply (consumes_bind_ret (r_kv8s (length h)) (fun rest => (k, v) :: rest)). exact IH.
Qed.

Lemma r_headers_sticky : rsticky r_headers.
Proof. apply bind_sticky; [apply r_uint_sticky|intros; apply r_kv8s_sticky]. Qed.

Lemma r_headers_consumes h : kvs8_ok h -> consumes r_headers (s_headers1 h) h.
Proof.
  intros [A B]. unfold r_headers, s_headers1. eapply consumes_bind.
  - apply r_u8_consumes. unfold u_ok. pose proof (zlen_nonneg h). cbn. unfold slen, zlen in *. lia.
  - unfold slen. rewrite Nat2Z.id. apply r_kv8s_consumes, B.
  - intros; apply r_kv8s_sticky.
Qed.

Lemma r_kv16s_sticky n : rsticky (r_kv16s n).
Proof.
  induction n as [|n IH]; cbn [r_kv16s]; [apply ret_sticky|].
  apply bind_sticky; [apply r_len16_sticky|intros]. apply bind_sticky; [apply r_len16_sticky|intros].
  apply bind_sticky; [apply IH|intros]. apply ret_sticky.
Qed.

Lemma r_kv16s_consumes h : Forall (fun kv => str16_ok (fst kv) /\ str16_ok (snd kv)) h ->
  consumes (r_kv16s (length h)) (flat_map (fun kv => s_str2 (fst kv) ++ s_str2 (snd kv)) h) h.
Proof.
  induction 1 as [|[k v] h [[A _] [B _]] _ IH]; cbn [r_kv16s flat_map length fst snd] in *; [apply consumes_ret|].
  rewrite <- app_assoc.
  eapply consumes_bind; [apply r_len16_consumes, A| |].
  2:{ intros. apply bind_sticky; [apply r_len16_sticky|intros]. apply bind_sticky; [apply r_kv16s_sticky|intros]. apply ret_sticky. }
  eapply consumes_bind; [apply r_len16_consumes, B| |].
  2:{ intros. apply bind_sticky; [apply r_kv16s_sticky|intros]. apply ret_sticky. }
  apply (consumes_bind_ret (r_kv16s (length h)) (fun rest => (k, v) :: rest)). exact IH.
Qed.

Ltac sticky_tac :=
  intros; repeat first [ apply ret_sticky | apply r_uint_sticky | apply r_span_sticky | apply r_len8_sticky
                       | apply r_len16_sticky | apply r_headers_sticky | apply r_kv16s_sticky | apply r_bytes_sticky
                       | (apply bind_sticky; [|intros]) ].

Lemma r_init_consumes m : init_ok m -> consumes r_init (spec_init m) m.
Proof.
  intros [A [B C]]. unfold r_init, spec_init, s_init. destruct m as [v p]; cbn [im_version im_params] in *.
  eapply consumes_bind; [apply r_uint_consumes, A| |sticky_tac].
  eapply consumes_bind; [apply r_uint_consumes| |sticky_tac].
  { unfold u_ok. pose proof (zlen_nonneg p). cbn. unfold slen, zlen in *. lia. }
  unfold slen. rewrite Nat2Z.id.
  apply (consumes_bind_ret (r_kv16s (length p)) (fun p => mkInit v p)). apply r_kv16s_consumes, C.
Qed.

Lemma ttl_roundtrip ttl : 0 <= ttl < 2 ^ 32 -> wrapS 64 (ttl * ms_ns) = ttl * ms_ns.
Proof. intros H. apply wrapS_id; [lia|]. unfold ms_ns. cbn in *. lia. Qed.

Lemma r_callreq_consumes m ttl : callreq_ok m ttl -> consumes r_callreq (spec_callreq m ttl) m.
Proof.
  intros [A [B [C [[D _] E]]]]. unfold r_callreq, spec_callreq, s_callreq.
  destruct m as [t s svc h]; cbn [cq_ttl_ns cq_span cq_service cq_headers] in *. subst t.
  rewrite <- (ttl_roundtrip ttl A).
  eapply consumes_bind; [apply r_uint_consumes; exact A| |sticky_tac].
  eapply consumes_bind; [apply r_span_consumes, C| |sticky_tac].
  eapply consumes_bind; [apply r_len8_consumes, D| |sticky_tac].
  apply (consumes_bind_ret r_headers (fun h => mkCallReq (wrapS 64 (ttl * ms_ns)) s svc h)).
  apply r_headers_consumes, E.
Qed.

Lemma r_callres_consumes m : callres_ok m -> consumes r_callres (spec_callres m) m.
Proof.
  intros [A [C E]]. unfold r_callres, spec_callres, s_callres. destruct m as [c s h]; cbn [cs_code cs_span cs_headers] in *.
  eapply consumes_bind; [apply r_u8_consumes, A| |sticky_tac].
  eapply consumes_bind; [apply r_span_consumes, C| |sticky_tac].
  apply (consumes_bind_ret r_headers (fun h => mkCallRes c s h)). apply r_headers_consumes, E.
Qed.

Lemma r_error_consumes m : error_ok m -> consumes r_error (spec_error m) m.
Proof.
  intros [A [C [E _]]]. unfold r_error, spec_error, s_error. destruct m as [c s msg]; cbn [em_code em_span em_msg] in *.
  eapply consumes_bind; [apply r_u8_consumes, A| |sticky_tac].
  eapply consumes_bind; [apply r_span_consumes, C| |sticky_tac].
  apply (consumes_bind_ret r_len16 (fun x => mkErr c s x)). apply r_len16_consumes, E.
Qed.

Lemma r_cancel_consumes m : cancel_ok m -> consumes r_cancel (spec_cancel m) m.
Proof.
  intros [A [C [E _]]]. unfold r_cancel, spec_cancel, s_cancel. destruct m as [c s msg]; cbn [cm_ttl cm_span cm_msg] in *.
  eapply consumes_bind; [apply r_uint_consumes, A| |sticky_tac].
  eapply consumes_bind; [apply r_span_consumes, C| |sticky_tac].
  apply (consumes_bind_ret r_len16 (fun x => mkCancel c s x)). apply r_len16_consumes, E.
Qed.

Lemma r_u8_byte' b rest : 0 <= b < 256 -> r_u8 (rb (b :: rest)) = (b, rb rest).
Proof.
  intros H. destruct (r_u8_consumes b) as [C _]; [|apply (C rest)].
  unfold u_ok. change (256 ^ Z.of_nat 1) with 256. exact H.
Qed.
