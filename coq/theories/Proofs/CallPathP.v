(* Proofs for property C05 (b): the wait-site table and the time-abstract call path,
   the new-connection lock, the connect / handshake budgets. *)
From Coq Require Import ZArith List Bool Lia ZifyBool.
From Verif Require Import Base.Wrap Base.Bytes Gen.GenConsts Gen.GenWaitSites Spec.WaitSpec Model.CallPath.
Import ListNotations.
Local Open Scope Z_scope.

(* ================================================================== *)
(* waits                                                               *)
(* ================================================================== *)
Lemma has_deadline_exitb_iff w : has_deadline_exitb w = true <-> has_deadline_exit w.
Proof.
  unfold has_deadline_exitb, has_deadline_exit. rewrite existsb_exists. split; intros [x H]; exists x; exact H.
Qed.

Lemma omin_some_l a b x : a = Some x -> exists y, omin a b = Some y /\ y <= x.
Proof. intros ->. destruct b as [z|]; cbn [omin]; eexists; split; try reflexivity; lia. Qed.

Lemma omin_some_r a b x : b = Some x -> exists y, omin a b = Some y /\ y <= x.
Proof. intros ->. destruct a as [z|]; cbn [omin]; eexists; split; try reflexivity; lia. Qed.

Lemma first_exit_deadline dc dl ev : dc <= dl -> forall xs,
  (exists x, In x xs /\ is_deadline_exit x = true) ->
  exists e, first_exit dc dl ev xs = Some e /\ e <= dl.
Proof.
  intros Hd. induction xs as [|x xs IH]; intros [y [Hin Hy]]; [destruct Hin|].
  cbn [first_exit fold_right]. fold (first_exit dc dl ev xs). destruct Hin as [->|Hin].
  - assert (E : exists v, exit_time dc dl ev y = Some v /\ v <= dl).
    { destruct y; try discriminate Hy; cbn [exit_time]; eexists; split; try reflexivity; lia. }
    destruct E as (v & Ev & Hv). destruct (omin_some_l _ (first_exit dc dl ev xs) v Ev) as (e & E & He).
    exists e. split; [exact E|lia].
  - destruct (IH (ex_intro _ y (conj Hin Hy))) as (v & Ev & Hv).
    destruct (omin_some_r (exit_time dc dl ev x) _ v Ev) as (e & E & He).
    exists e. split; [exact E|lia].
Qed.

Lemma wait_leave_deadline dc dl w ev t : dc <= dl -> has_deadline_exit w ->
  exists t', wait_leave dc dl w ev t = Some t' /\ t <= t' /\ t' <= Z.max t dl.
Proof.
  intros Hd H. unfold wait_leave. destruct (first_exit_deadline dc dl ev Hd _ H) as (e & E & He).
  rewrite E. eexists. split; [reflexivity|]. lia.
Qed.

(* every path over waits that offer a deadline exit (or whose event is already there)
   is left by the later of its start and the deadline, whatever the events do *)
Theorem path_by_deadline : forall dc dl, dc <= dl -> forall path,
  Forall (fun s => p_ready s = true \/ has_deadline_exit (p_site s)) path ->
  forall t, exists t', run_path dc dl path t = Some t' /\ t <= t' /\ t' <= Z.max t dl.
Proof.
  intros dc dl Hd. induction path as [|s r IH]; intros H t; cbn [run_path].
  - exists t. split; [reflexivity|lia].
  - pose proof (Forall_inv H) as Hs. pose proof (Forall_inv_tail H) as Hr.
    destruct (p_ready s) eqn:Er; [exact (IH Hr t)|].
    destruct Hs as [Hs|Hs]; [congruence|].
    destruct (wait_leave_deadline dc dl (p_site s) (p_ev s) t Hd Hs) as (t1 & E1 & L1 & U1). rewrite E1.
    destruct (IH Hr t1) as (t' & E' & L' & U'). exists t'. split; [exact E'|]. lia.
Qed.

(* conversely a wait without such an exit can block for ever *)
Lemma first_exit_none dc dl : forall xs, existsb is_deadline_exit xs = false ->
  first_exit dc dl (mkEv None None None) xs = None.
Proof.
  induction xs as [|x xs IH]; intros H; [reflexivity|]. cbn [existsb] in H. apply orb_false_iff in H. destruct H as [Hx Hxs].
  cbn [first_exit fold_right]. fold (first_exit dc dl (mkEv None None None) xs). rewrite (IH Hxs).
  destruct x; try discriminate Hx; reflexivity.
Qed.

Theorem no_deadline_exit_blocks : forall w, has_deadline_exitb w = false ->
  forall dc dl t, wait_leave dc dl w (mkEv None None None) t = None.
Proof. intros w H dc dl t. unfold wait_leave. rewrite (first_exit_none dc dl _ H). reflexivity. Qed.

(* ================================================================== *)
(* the generated table                                                 *)
(* ================================================================== *)
(* "Peer.unlockNewConn" *)
Definition release_fn : list Z := [80; 101; 101; 114; 46; 117; 110; 108; 111; 99; 107; 78; 101; 119; 67; 111; 110; 110].

Definition wkind_eqb (a b : wkind) : bool :=
  match a, b with
  | WSelect, WSelect | WChanOp, WChanOp | WLock, WLock | WDial, WDial | WNetIO, WNetIO | WOther, WOther => true
  | _, _ => false
  end.

(* the release of the one-slot semaphore: a receive whose token the goroutine itself put *)
Definition is_releaseb (w : wsite) : bool :=
  bytes_eqb (ws_fn w) release_fn && wkind_eqb (ws_kind w) WChanOp &&
  match ws_exits w with [XData] => true | _ => false end.
Definition is_release (w : wsite) : Prop := is_releaseb w = true.

Theorem wait_sites_ok : Forall (fun w => has_deadline_exit w \/ is_release w) wait_sites.
Proof.
  apply Forall_forall. intros w Hw.
  assert (H : forallb (fun w => has_deadline_exitb w || is_releaseb w) wait_sites = true) by (vm_compute; reflexivity).
  rewrite forallb_forall in H. specialize (H w Hw). apply orb_true_iff in H. destruct H as [H|H].
  - left. apply has_deadline_exitb_iff, H.
  - right. exact H.
Qed.

Theorem no_lock_across_io : io_lock_count = 0 /\ Forall (fun w => ws_kind w <> WLock) wait_sites.
Proof.
  split; [reflexivity|]. apply Forall_forall. intros w Hw.
  assert (H : forallb (fun w => negb (wkind_eqb (ws_kind w) WLock)) wait_sites = true) by (vm_compute; reflexivity).
  rewrite forallb_forall in H. specialize (H w Hw). intros E. rewrite E in H. discriminate H.
Qed.

(* ================================================================== *)
(* the new-connection lock                                             *)
(* ================================================================== *)
Definition cnt (l : list lpc) : Z := Z.of_nat (length (filter (fun p => lpc_eqb p LHold) l)).

Lemma cnt_app a b : cnt (a ++ b) = cnt a + cnt b.
Proof. unfold cnt. rewrite filter_app, app_length. lia. Qed.

Lemma cnt_cons x l : cnt (x :: l) = (if lpc_eqb x LHold then 1 else 0) + cnt l.
Proof. unfold cnt. cbn [filter]. destruct (lpc_eqb x LHold); cbn [length]; lia. Qed.

Lemma cnt_nonneg l : 0 <= cnt l. Proof. unfold cnt. lia. Qed.

Lemma lpc_eqb_eq a b : lpc_eqb a b = true -> a = b.
Proof. destruct a, b; try discriminate; reflexivity. Qed.

(* a goroutine whose pc is q (not the default) sits at a definite position *)
Lemma nth_split_pc i l q : lpc_eqb (nth i l LDone) q = true -> q <> LDone ->
  exists a b, l = a ++ q :: b /\ forall p, set_pc i p l = a ++ p :: b.
Proof.
  intros H Hq. apply lpc_eqb_eq in H.
  assert (Hi : (i < length l)%nat).
  { destruct (le_lt_dec (length l) i) as [Hge|Hlt]; [|exact Hlt]. rewrite nth_overflow in H by exact Hge. congruence. }
  destruct (nth_split l LDone Hi) as (a & b & E & La). rewrite H in E.
  exists a, b. split; [exact E|]. intros p. unfold set_pc. rewrite E.
  rewrite firstn_app, skipn_app, La, Nat.sub_diag, firstn_all2, skipn_all2 by lia.
  cbn [firstn skipn app]. rewrite app_nil_r. reflexivity.
Qed.

Definition Linv (s : lstate) : Prop := l_tok s = cnt (l_pcs s) /\ 0 <= l_tok s <= 1.

Lemma linit_inv n : Linv (linit n).
Proof.
  unfold Linv, linit. cbn [l_tok l_pcs]. split; [|lia].
  induction n as [|n IH]; [reflexivity|]. cbn [repeat]. rewrite cnt_cons. cbn [lpc_eqb]. lia.
Qed.

Lemma lstep_inv ca s l s' : Linv s -> lstep ca s l = Some s' -> Linv s'.
Proof.
  intros [Ht Hb]. destruct s as [tok pcs]. cbn [l_tok l_pcs] in *.
  destruct l as [i|i|i|i]; cbn [lstep l_tok l_pcs].
  - destruct (lpc_eqb (nth i pcs LDone) LIdle) eqn:E; [|discriminate]. intros H; injection H as <-.
    destruct (nth_split_pc i pcs LIdle E ltac:(discriminate)) as (a & b & -> & S). rewrite S.
    unfold Linv. cbn [l_tok l_pcs]. rewrite cnt_app, cnt_cons in *. cbn [lpc_eqb] in *. lia.
  - destruct (lpc_eqb (nth i pcs LDone) LWait) eqn:E; [|discriminate]. cbn [andb].
    destruct (tok <? 1) eqn:Et; [|discriminate]. intros H; injection H as <-.
    destruct (nth_split_pc i pcs LWait E ltac:(discriminate)) as (a & b & -> & S). rewrite S.
    unfold Linv. cbn [l_tok l_pcs]. rewrite cnt_app, cnt_cons in *. cbn [lpc_eqb] in *. lia.
  - destruct ca; [|discriminate]. cbn [andb].
    destruct (lpc_eqb (nth i pcs LDone) LWait) eqn:E; [|discriminate]. intros H; injection H as <-.
    destruct (nth_split_pc i pcs LWait E ltac:(discriminate)) as (a & b & -> & S). rewrite S.
    unfold Linv. cbn [l_tok l_pcs]. rewrite cnt_app, cnt_cons in *. cbn [lpc_eqb] in *. lia.
  - destruct (lpc_eqb (nth i pcs LDone) LHold) eqn:E; [|discriminate]. cbn [andb].
    destruct (tok >? 0) eqn:Et; [|discriminate]. intros H; injection H as <-.
    destruct (nth_split_pc i pcs LHold E ltac:(discriminate)) as (a & b & -> & S). rewrite S.
    unfold Linv. cbn [l_tok l_pcs]. rewrite cnt_app, cnt_cons in *. cbn [lpc_eqb] in *. lia.
Qed.

Lemma lrun_inv ca : forall ls s s', Linv s -> lrun ca s ls = Some s' -> Linv s'.
Proof.
  induction ls as [|l ls IH]; intros s s' I H; cbn [lrun] in H; [injection H as <-; exact I|].
  destruct (lstep ca s l) as [s1|] eqn:E; [|discriminate]. exact (IH s1 s' (lstep_inv ca s l s1 I E) H).
Qed.

(* any number of callers, any interleaving, with or without the context-aware acquisition:
   at most one caller is inside (dial + handshake), the slot holds a token exactly then, and
   the holder's release never blocks *)
Theorem connlock_safe : forall ca n ls s, lrun ca (linit n) ls = Some s ->
  holders s <= 1 /\ l_tok s = holders s /\
  forall i, nth i (l_pcs s) LDone = LHold -> lstep ca s (LRelease i) <> None.
Proof.
  intros ca n ls s H. pose proof (lrun_inv ca ls _ _ (linit_inv n) H) as [Ht Hb].
  change (holders s) with (cnt (l_pcs s)). split; [lia|]. split; [exact Ht|].
  intros i Hi. cbn [lstep]. rewrite Hi. cbn [lpc_eqb andb].
  assert (E : lpc_eqb (nth i (l_pcs s) LDone) LHold = true) by (rewrite Hi; reflexivity).
  destruct (nth_split_pc i (l_pcs s) LHold E ltac:(discriminate)) as (a & b & Ep & _).
  rewrite Ep, cnt_app, cnt_cons in Ht. cbn [lpc_eqb] in Ht.
  pose proof (cnt_nonneg a). pose proof (cnt_nonneg b).
  replace (l_tok s >? 0) with true by lia. discriminate.
Qed.

(* with the context-aware acquisition a waiting caller can always leave *)
Theorem connlock_waiter_can_leave : forall s i, nth i (l_pcs s) LDone = LWait -> lstep true s (LGiveUp i) <> None.
Proof. intros s i H. cbn [lstep andb]. rewrite H. discriminate. Qed.

(* the pinned tree (sync.Mutex): a state is reachable in which a waiting caller has no
   enabled step at all until the holder -- busy with a dial or handshake -- releases *)
Theorem connlock_mutex_blocks : exists ls s,
  lrun false (linit 2) ls = Some s /\ nth 1 (l_pcs s) LDone = LWait /\ nth 0 (l_pcs s) LDone = LHold /\
  lstep false s (LEnter 1) = None /\ lstep false s (LAcquire 1) = None /\
  lstep false s (LGiveUp 1) = None /\ lstep false s (LRelease 1) = None.
Proof. exists [LEnter 0; LAcquire 0; LEnter 1]. eexists. vm_compute. repeat split. Qed.

(* ================================================================== *)
(* budgets                                                             *)
(* ================================================================== *)
Theorem connect_budget : forall now d ct, connect_deadline now d ct <= d.
Proof. intros. unfold connect_deadline. destruct (ct >? 0); lia. Qed.

Theorem init_budget : forall now d, init_deadline now (Some d) = d /\ init_deadline now None = now + 5 * 1000000000.
Proof. intros. split; reflexivity. Qed.
