(* Proofs about Model/CkOwn.v: the ownership discipline of pooled checksum objects (C02). *)
From Coq Require Import ZArith List Bool Lia ZifyBool.
From Verif Require Import Base.Wrap Base.Wire Gen.GenCkSites Model.CkOwn.
Import ListNotations.
Local Open Scope Z_scope.

(* ------------------------------------------------------------------ the site table *)

(* The model's table of pooled-checksum operations is exactly the table go2v extracts from
   the source on this run -- for the variant [fr] of the model that matches the tree: with
   (true) or without (false) the Release in finishRelayItem.  Any other new, removed, moved or
   re-guarded New / Add / Sum / Release / Reset / Get / Put / Wrap / Store / Pass site makes
   both alternatives false. *)
Lemma ck_table_generated :
  map snd (ck_site_table true) = ck_sites \/ map snd (ck_site_table false) = ck_sites.
Proof.
  first [ left; vm_compute; reflexivity
        | right; vm_compute; reflexivity
        | fail 1 "the table of pooled-checksum operations regenerated from the source (Gen/GenCkSites.ck_sites) differs from both variants of the model's table (Model/CkOwn.ck_rows): a New / Release / Add / Sum / wrap / store / hand-over site was added, removed, moved or re-guarded" ].
Qed.

Lemma ck_table_numbers fr :
  map fst (ck_site_table fr) = map Z.of_nat (seq 1 (List.length (ck_rows fr))).
Proof. destruct fr; vm_compute; reflexivity. Qed.

(* the (row, function, op) list used to place the events of a recorded trace is the list of
   New / Add / Sum / Release rows of the table outside checksum.go *)
Lemma ck_rt_sites_ok fr :
  map (fun t : Z * list Z * Z => let '(n, f, op) := t in (n, f, ck_kind_name op)) (ck_rt_sites fr) =
  map (fun p : Z * ck_row => let '(n, (f, k, _, _)) := p in (n, f, k))
      (filter (fun p : Z * ck_row =>
                 let '(n, (_, kind, _, _)) := p in
                 (7 <? n) && (ck_list_eqb kind (ck_kind_name 0) || ck_list_eqb kind (ck_kind_name 1)
                              || ck_list_eqb kind (ck_kind_name 2) || ck_list_eqb kind (ck_kind_name 3)))
              (ck_site_table fr)).
Proof. destruct fr; vm_compute; reflexivity. Qed.

(* ------------------------------------------------------------------ list / map lemmas *)

Lemma ck_lookup_drop x y h :
  ck_lookup x (ck_drop y h) = if y =? x then None else ck_lookup x h.
Proof.
  unfold ck_drop. induction h as [|[z v] r IH]; cbn [filter ck_lookup fst].
  - destruct (y =? x); reflexivity.
  - destruct (z =? y) eqn:E; cbn [negb].
    + rewrite IH. apply Z.eqb_eq in E. subst z. destruct (y =? x); reflexivity.
    + cbn [ck_lookup]. rewrite IH. destruct (z =? x) eqn:F; [|reflexivity].
      apply Z.eqb_eq in F. subst z. rewrite Z.eqb_sym, E. reflexivity.
Qed.

Lemma ck_mem_in x l : ck_mem x l = true <-> In x l.
Proof.
  induction l as [|y r IH]; cbn; [split; [discriminate|tauto]|].
  rewrite orb_true_iff, IH, Z.eqb_eq. tauto.
Qed.

Lemma ck_remove1_in x y l : In y (ck_remove1 x l) -> In y l.
Proof.
  induction l as [|z r IH]; cbn; [tauto|].
  destruct (z =? x); cbn; [tauto|]. intros [H|H]; [left; exact H|right; apply IH; exact H].
Qed.

Lemma ck_remove1_nodup x l : NoDup l -> NoDup (ck_remove1 x l) /\ ~ In x (ck_remove1 x l).
Proof.
  induction l as [|z r IH]; cbn; intros N; [split; [constructor|tauto]|].
  inversion N as [|? ? Hn Nr]; subst.
  destruct (z =? x) eqn:E.
  - apply Z.eqb_eq in E. subst z. split; assumption.
  - destruct (IH Nr) as [N1 N2]. split.
    + constructor; [|exact N1]. intros C. apply Hn. eapply ck_remove1_in; exact C.
    + cbn. intros [C|C]; [apply Z.eqb_neq in E; congruence|tauto].
Qed.

Lemma ck_run_app fr es1 : forall h i es2,
  ck_run fr h i (es1 ++ es2) =
  match ck_run fr h i es1 with
  | inl h' => ck_run fr h' (i + Z.of_nat (List.length es1)) es2
  | inr e => inr e
  end.
Proof.
  induction es1 as [|e r IH]; intros h i es2; cbn [app ck_run List.length].
  - f_equal. lia.
  - destruct (ck_step fr h e); [|reflexivity]. rewrite IH. destruct (ck_run fr h0 (i + 1) r); [|reflexivity].
    f_equal. lia.
Qed.

(* ------------------------------------------------------------------ the invariant *)

Definition holding (p : Z) : Prop := p = 1 \/ p = 2 \/ p = 3.

Record CkInv (fr strict : bool) (s : ck_st) (h : ck_held) : Prop := {
  (* a life cycle that acquired and has not released is the registered owner of its object *)
  ci_own : forall k, holding (o_phase (cs_own s k)) ->
             ck_lookup (o_obj (cs_own s k)) h = Some (k, o_kind (cs_own s k));
  (* and conversely *)
  ci_held : forall x k kind, ck_lookup x h = Some (k, kind) ->
             o_obj (cs_own s k) = x /\ o_kind (cs_own s k) = kind /\ holding (o_phase (cs_own s k));
  (* pooled objects are held by nobody, there are no duplicates in the pool *)
  ci_free : forall x, In x (cs_free s) -> ck_lookup x h = None;
  ci_nodup : NoDup (cs_free s);
  (* objects that were never created *)
  ci_fresh : forall x, cs_fresh s <= x -> ck_lookup x h = None /\ ~ In x (cs_free s);
  (* a copy of an item in flight: the item has not released its checksum *)
  ci_refs : forall k, 0 < o_refs (cs_own s k) ->
             o_kind (cs_own s k) = 3 /\ holding (o_phase (cs_own s k));
  ci_kind : forall k, o_phase (cs_own s k) <> 0 -> 0 <= o_kind (cs_own s k) <= 3
}.

Lemma ck_init_inv fr strict : CkInv fr strict ck_init [].
Proof.
  constructor; cbn; intros; try (unfold holding in *; lia); try tauto; try discriminate.
  constructor.
Qed.

Lemma ck_upd_same f k v : ck_upd f k v k = v.
Proof. unfold ck_upd. rewrite Z.eqb_refl. reflexivity. Qed.
Lemma ck_upd_other f k v j : j <> k -> ck_upd f k v j = f j.
Proof. intros H. unfold ck_upd. destruct (j =? k) eqn:E; [apply Z.eqb_eq in E; congruence|reflexivity]. Qed.

(* compat facts used below *)
Lemma ck_new_site_kind kind : 0 <= kind <= 3 -> ck_kind_of_site (ck_new_site kind) = Some kind.
Proof.
  intros H. assert (kind = 0 \/ kind = 1 \/ kind = 2 \/ kind = 3) as [E|[E|[E|E]]] by lia; subst kind; reflexivity.
Qed.

Ltac split_if H :=
  match type of H with
  | (if ?c then _ else _) = Some _ => let E := fresh "E" in destruct c eqn:E; [|try discriminate H]; try discriminate H
  end.

(* one life-cycle step keeps the discipline and the invariant *)
Lemma ck_step_inv fr strict s h l es s' i :
  (fr = false \/ strict = true) ->
  CkInv fr strict s h -> ck_step_lc fr strict s l = Some (es, s') ->
  exists h', ck_run fr h i es = inl h' /\ CkInv fr strict s' h'.
Proof.
  intros Hmode I H. destruct l as [k kind pick|k site|k|k|k|k|k|k|k]; cbn [ck_step_lc] in H.
  - (* LNew *)
    destruct ((0 <=? kind) && (kind <=? 3)) eqn:Ek; cbn [negb] in H; [|discriminate].
    destruct (o_phase (cs_own s k) =? 0) eqn:Ep; cbn [negb] in H; [|discriminate].
    assert (Hk : 0 <= kind <= 3) by lia. assert (Hp : o_phase (cs_own s k) = 0) by lia.
    assert (Hacq : forall x, ck_lookup x h = None ->
              ck_run fr h i [mkCkev (ck_new_site kind) 0 k x] = inl ((x, (k, kind)) :: h)).
    { intros x Hx. cbn [ck_run ck_step ce_op ce_site ce_obj ce_owner Z.eqb].
      rewrite (ck_new_site_kind kind Hk), Hx. reflexivity. }
    assert (Hgen : forall x free fresh,
              ck_lookup x h = None -> NoDup free -> ~ In x free ->
              (forall y, In y free -> In y (cs_free s)) ->
              cs_fresh s <= fresh -> x < fresh ->
              CkInv fr strict (mkCkSt free fresh
                 (ck_upd (cs_own s) k (mkOwner kind x 1 (if kind =? 3 then 1 else 0)))) ((x, (k, kind)) :: h)).
    { intros x free fresh Hx Nd Nin Sub Hf Hxf. constructor; cbn [cs_own cs_free cs_fresh].
      - intros j Hj. destruct (Z.eq_dec j k) as [->|Hne].
        + rewrite ck_upd_same. cbn [o_obj o_kind ck_lookup]. rewrite Z.eqb_refl. reflexivity.
        + rewrite ck_upd_other in * by exact Hne. cbn [ck_lookup].
          pose proof (ci_own _ _ _ _ I j Hj) as A. destruct (x =? o_obj (cs_own s j)) eqn:E; [|exact A].
          apply Z.eqb_eq in E. rewrite <- E in A. congruence.
      - intros y j kd Hy. cbn [ck_lookup] in Hy. destruct (x =? y) eqn:E.
        + apply Z.eqb_eq in E. inversion Hy; subst. rewrite ck_upd_same. cbn. unfold holding. auto.
        + destruct (ci_held _ _ _ _ I y j kd Hy) as [A [B C]].
          assert (j <> k). { intros ->. unfold holding in C. lia. }
          rewrite ck_upd_other by assumption. auto.
      - intros y Hy. cbn [ck_lookup]. destruct (x =? y) eqn:E; [apply Z.eqb_eq in E; subst; tauto|].
        apply (ci_free _ _ _ _ I). apply Sub. exact Hy.
      - exact Nd.
      - intros y Hy. cbn [ck_lookup]. destruct (x =? y) eqn:E; [lia|].
        destruct (ci_fresh _ _ _ _ I y) as [A B]; [lia|]. split; [exact A|]. intros C. apply B. apply Sub. exact C.
      - intros j Hj. destruct (Z.eq_dec j k) as [->|Hne].
        + rewrite ck_upd_same in *. cbn in *. destruct (kind =? 3) eqn:E; [|lia]. unfold holding. split; [lia|auto].
        + rewrite ck_upd_other in * by exact Hne. apply (ci_refs _ _ _ _ I). exact Hj.
      - intros j Hj. destruct (Z.eq_dec j k) as [->|Hne].
        + rewrite ck_upd_same. cbn. exact Hk.
        + rewrite ck_upd_other in * by exact Hne. apply (ci_kind _ _ _ _ I). exact Hj. }
    destruct pick as [x|].
    + destruct (ck_mem x (cs_free s)) eqn:Em; [|discriminate]. inversion H; subst; clear H.
      apply ck_mem_in in Em. pose proof (ci_free _ _ _ _ I x Em) as Hx.
      exists ((x, (k, kind)) :: h). split; [apply Hacq; exact Hx|].
      destruct (ck_remove1_nodup x _ (ci_nodup _ _ _ _ I)) as [N1 N2].
      apply Hgen; try assumption; try lia.
      * intros y. apply ck_remove1_in.
      * destruct (Z_lt_le_dec x (cs_fresh s)) as [L|L]; [exact L|]. destruct (ci_fresh _ _ _ _ I x L) as [_ B]. tauto.
    + inversion H; subst; clear H.
      destruct (ci_fresh _ _ _ _ I (cs_fresh s)) as [A B]; [lia|].
      exists ((cs_fresh s, (k, kind)) :: h). split; [apply Hacq; exact A|].
      apply Hgen; try assumption; try lia; [apply (ci_nodup _ _ _ _ I)|tauto].
  - (* LUse *)
    cbv zeta in H.
    destruct ((ck_use_op fr site =? 1) || (ck_use_op fr site =? 2)) eqn:Eop; cbn [negb] in H; [|discriminate].
    destruct (ck_site_compat fr (o_kind (cs_own s k)) (ck_use_op fr site) site) eqn:Ec; cbn [negb] in H; [|discriminate].
    split_if H. inversion H; subst; clear H.
    assert (Hh : holding (o_phase (cs_own s' k))).
    { destruct (o_kind (cs_own s' k) =? 3) eqn:E3.
      - apply (ci_refs _ _ _ _ I). lia.
      - unfold holding. lia. }
    exists h. split; [|exact I].
    cbn [ck_run]. unfold ck_step. cbn [ce_op ce_site ce_obj ce_owner].
    assert (ck_use_op fr site =? 0 = false) as -> by lia.
    rewrite (ci_own _ _ _ _ I k Hh). rewrite Z.eqb_refl. cbn [negb]. rewrite Ec. cbn [negb].
    assert (ck_use_op fr site =? 3 = false) as -> by lia. reflexivity.
  - (* LWLast *)
    cbv zeta in H. split_if H. inversion H; subst; clear H.
    set (o := cs_own s k) in *.
    assert (Hk : o_kind o = 0 \/ o_kind o = 1) by lia. assert (Hp : o_phase o = 1) by lia.
    assert (Hh : holding (o_phase o)) by (unfold holding; lia).
    pose proof (ci_own _ _ _ _ I k Hh) as Hl. fold o in Hl.
    assert (Cs : ck_site_compat fr (o_kind o) 2 K_wr_sum = true) by (destruct Hk as [-> | ->]; reflexivity).
    assert (Cr : ck_site_compat fr (o_kind o) 3 K_wr_rel = true) by (destruct Hk as [-> | ->]; reflexivity).
    exists (ck_drop (o_obj o) h). split.
    + cbn [ck_run ck_step ce_op ce_site ce_obj ce_owner Z.eqb Pos.eqb]. rewrite Hl, Z.eqb_refl. cbn [negb]. rewrite Cs. cbn [negb].
      rewrite Hl, Z.eqb_refl. cbn [negb]. rewrite Cr. cbn [negb]. reflexivity.
    + constructor; cbn [cs_own cs_free cs_fresh].
      * intros j Hj. destruct (Z.eq_dec j k) as [->|Hne].
        -- rewrite ck_upd_same in Hj. cbn in Hj. unfold holding in Hj. lia.
        -- rewrite ck_upd_other in * by exact Hne. rewrite ck_lookup_drop.
           pose proof (ci_own _ _ _ _ I j Hj) as A. destruct (o_obj o =? o_obj (cs_own s j)) eqn:Eo; [|exact A].
           apply Z.eqb_eq in Eo. rewrite <- Eo in A. rewrite Hl in A. congruence.
      * intros y j kd Hy. rewrite ck_lookup_drop in Hy. destruct (o_obj o =? y) eqn:Eo; [discriminate|].
        destruct (ci_held _ _ _ _ I y j kd Hy) as [A [B C]].
        assert (j <> k). { intros ->. fold o in A. lia. }
        rewrite ck_upd_other by assumption. auto.
      * intros y Hy. rewrite ck_lookup_drop. destruct (o_obj o =? y) eqn:Eo; [reflexivity|].
        destruct Hy as [Hy|Hy]; [lia|]. apply (ci_free _ _ _ _ I). exact Hy.
      * constructor; [|apply (ci_nodup _ _ _ _ I)]. intros C. rewrite (ci_free _ _ _ _ I _ C) in Hl. discriminate.
      * intros y Hy. rewrite ck_lookup_drop. destruct (ci_fresh _ _ _ _ I y Hy) as [A B].
        split; [destruct (o_obj o =? y); [reflexivity|exact A]|].
        intros [C|C]; [|tauto]. subst y. rewrite A in Hl. discriminate.
      * intros j Hj. destruct (Z.eq_dec j k) as [->|Hne].
        -- rewrite ck_upd_same in Hj. cbn in Hj. lia.
        -- rewrite ck_upd_other in * by exact Hne. apply (ci_refs _ _ _ _ I). exact Hj.
      * intros j Hj. destruct (Z.eq_dec j k) as [->|Hne].
        -- rewrite ck_upd_same. cbn. lia.
        -- rewrite ck_upd_other in * by exact Hne. apply (ci_kind _ _ _ _ I). exact Hj.
  - (* LSendLast *)
    cbv zeta in H. split_if H. inversion H; subst; clear H.
    destruct (ci_refs _ _ _ _ I k) as [K3 Hh]; [lia|].
    exists h. split; [|exact I].
    cbn [ck_run ck_step ce_op ce_site ce_obj ce_owner Z.eqb Pos.eqb].
    rewrite (ci_own _ _ _ _ I k Hh), Z.eqb_refl. cbn [negb]. rewrite K3.
    assert (ck_site_compat fr 3 2 K_wr_sum = true) as -> by (destruct fr; reflexivity). reflexivity.
  - (* LRDone *)
    cbv zeta in H. split_if H. inversion H; subst; clear H.
    set (o := cs_own s k) in *.
    assert (Hk : o_kind o = 2) by lia. assert (Hp : o_phase o = 1) by lia.
    assert (Hh : holding (o_phase o)) by (unfold holding; lia).
    pose proof (ci_own _ _ _ _ I k Hh) as Hl. fold o in Hl.
    exists (ck_drop (o_obj o) h). split.
    + cbn [ck_run ck_step ce_op ce_site ce_obj ce_owner Z.eqb Pos.eqb]. rewrite Hl, Z.eqb_refl. cbn [negb]. rewrite Hk.
      assert (ck_site_compat fr 2 3 K_rd_rel = true) as -> by reflexivity. reflexivity.
    + constructor; cbn [cs_own cs_free cs_fresh].
      * intros j Hj. destruct (Z.eq_dec j k) as [->|Hne].
        -- rewrite ck_upd_same in Hj. cbn in Hj. unfold holding in Hj. lia.
        -- rewrite ck_upd_other in * by exact Hne. rewrite ck_lookup_drop.
           pose proof (ci_own _ _ _ _ I j Hj) as A. destruct (o_obj o =? o_obj (cs_own s j)) eqn:Eo; [|exact A].
           apply Z.eqb_eq in Eo. rewrite <- Eo in A. rewrite Hl in A. congruence.
      * intros y j kd Hy. rewrite ck_lookup_drop in Hy. destruct (o_obj o =? y) eqn:Eo; [discriminate|].
        destruct (ci_held _ _ _ _ I y j kd Hy) as [A [B C]].
        assert (j <> k). { intros ->. fold o in A. lia. }
        rewrite ck_upd_other by assumption. auto.
      * intros y Hy. rewrite ck_lookup_drop. destruct (o_obj o =? y) eqn:Eo; [reflexivity|].
        destruct Hy as [Hy|Hy]; [lia|]. apply (ci_free _ _ _ _ I). exact Hy.
      * constructor; [|apply (ci_nodup _ _ _ _ I)]. intros C. rewrite (ci_free _ _ _ _ I _ C) in Hl. discriminate.
      * intros y Hy. rewrite ck_lookup_drop. destruct (ci_fresh _ _ _ _ I y Hy) as [A B].
        split; [destruct (o_obj o =? y); [reflexivity|exact A]|].
        intros [C|C]; [|tauto]. subst y. rewrite A in Hl. discriminate.
      * intros j Hj. destruct (Z.eq_dec j k) as [->|Hne].
        -- rewrite ck_upd_same in Hj. cbn in Hj. lia.
        -- rewrite ck_upd_other in * by exact Hne. apply (ci_refs _ _ _ _ I). exact Hj.
      * intros j Hj. destruct (Z.eq_dec j k) as [->|Hne].
        -- rewrite ck_upd_same. cbn. lia.
        -- rewrite ck_upd_other in * by exact Hne. apply (ci_kind _ _ _ _ I). exact Hj.
  - (* LFail *)
    cbv zeta in H. split_if H. inversion H; subst; clear H.
    set (o := cs_own s k) in *. assert (Hp : o_phase o = 1) by lia.
    assert (Hh : holding (o_phase o)) by (unfold holding; lia).
    exists h. split; [reflexivity|].
    constructor; cbn [cs_own cs_free cs_fresh]; try apply I.
    + intros j Hj. destruct (Z.eq_dec j k) as [->|Hne].
      * rewrite ck_upd_same. cbn. apply (ci_own _ _ _ _ I k Hh).
      * rewrite ck_upd_other in * by exact Hne. apply (ci_own _ _ _ _ I j Hj).
    + intros y j kd Hy. destruct (ci_held _ _ _ _ I y j kd Hy) as [A [B C]].
      destruct (Z.eq_dec j k) as [->|Hne].
      * rewrite ck_upd_same. cbn. fold o in A, B. unfold holding. auto.
      * rewrite ck_upd_other by exact Hne. auto.
    + intros j Hj. destruct (Z.eq_dec j k) as [->|Hne].
      * rewrite ck_upd_same in *. cbn in *. destruct (ci_refs _ _ _ _ I k Hj) as [A B]. fold o in A. unfold holding. auto.
      * rewrite ck_upd_other in * by exact Hne. apply (ci_refs _ _ _ _ I). exact Hj.
    + intros j Hj. destruct (Z.eq_dec j k) as [->|Hne].
      * rewrite ck_upd_same. cbn. apply (ci_kind _ _ _ _ I k). fold o. lia.
      * rewrite ck_upd_other in * by exact Hne. apply (ci_kind _ _ _ _ I). exact Hj.
  - (* LItemGet *)
    cbv zeta in H. split_if H. inversion H; subst; clear H.
    set (o := cs_own s k) in *. assert (Hk : o_kind o = 3) by lia. assert (Hp : o_phase o = 1) by lia.
    assert (Hh : holding (o_phase o)) by (unfold holding; lia).
    exists h. split; [reflexivity|].
    constructor; cbn [cs_own cs_free cs_fresh]; try apply I.
    + intros j Hj. destruct (Z.eq_dec j k) as [->|Hne].
      * rewrite ck_upd_same. cbn. rewrite <- Hk. apply (ci_own _ _ _ _ I k Hh).
      * rewrite ck_upd_other in * by exact Hne. apply (ci_own _ _ _ _ I j Hj).
    + intros y j kd Hy. destruct (ci_held _ _ _ _ I y j kd Hy) as [A [B C]].
      destruct (Z.eq_dec j k) as [->|Hne].
      * rewrite ck_upd_same. cbn. fold o in A, B. unfold holding. split; [exact A|]. split; [lia|auto].
      * rewrite ck_upd_other by exact Hne. auto.
    + intros j Hj. destruct (Z.eq_dec j k) as [->|Hne].
      * rewrite ck_upd_same in *. cbn in *. unfold holding. auto.
      * rewrite ck_upd_other in * by exact Hne. apply (ci_refs _ _ _ _ I). exact Hj.
    + intros j Hj. destruct (Z.eq_dec j k) as [->|Hne].
      * rewrite ck_upd_same. cbn. lia.
      * rewrite ck_upd_other in * by exact Hne. apply (ci_kind _ _ _ _ I). exact Hj.
  - (* LItemPut *)
    cbv zeta in H. split_if H. inversion H; subst; clear H.
    set (o := cs_own s k) in *. assert (Hk : o_kind o = 3) by lia.
    destruct (ci_refs _ _ _ _ I k) as [_ Hh]; [fold o; lia|]. fold o in Hh.
    exists h. split; [reflexivity|].
    constructor; cbn [cs_own cs_free cs_fresh]; try apply I.
    + intros j Hj. destruct (Z.eq_dec j k) as [->|Hne].
      * rewrite ck_upd_same. cbn. rewrite <- Hk. apply (ci_own _ _ _ _ I k Hh).
      * rewrite ck_upd_other in * by exact Hne. apply (ci_own _ _ _ _ I j Hj).
    + intros y j kd Hy. destruct (ci_held _ _ _ _ I y j kd Hy) as [A [B C]].
      destruct (Z.eq_dec j k) as [->|Hne].
      * rewrite ck_upd_same. cbn. fold o in A, B, C. split; [exact A|]. split; [lia|exact C].
      * rewrite ck_upd_other by exact Hne. auto.
    + intros j Hj. destruct (Z.eq_dec j k) as [->|Hne].
      * rewrite ck_upd_same in *. cbn in *. split; [reflexivity|exact Hh].
      * rewrite ck_upd_other in * by exact Hne. apply (ci_refs _ _ _ _ I). exact Hj.
    + intros j Hj. destruct (Z.eq_dec j k) as [->|Hne].
      * rewrite ck_upd_same. cbn. lia.
      * rewrite ck_upd_other in * by exact Hne. apply (ci_kind _ _ _ _ I). exact Hj.
  - (* LItemFinish *)
    cbv zeta in H. split_if H.
    set (o := cs_own s k) in *. assert (Hk : o_kind o = 3) by lia. assert (Hp : o_phase o = 1) by lia.
    assert (Hh : holding (o_phase o)) by (unfold holding; lia).
    pose proof (ci_own _ _ _ _ I k Hh) as Hl. fold o in Hl.
    destruct fr.
    + (* the tree releases: only while no copy is in flight *)
      assert (Hs : strict = true) by (destruct Hmode; [discriminate|assumption]). subst strict.
      assert (Hr : o_refs o = 0) by (cbn [negb orb] in E; lia).
      inversion H; subst; clear H.
      exists (ck_drop (o_obj o) h). split.
      * cbn [ck_run ck_step ce_op ce_site ce_obj ce_owner Z.eqb Pos.eqb]. rewrite Hl, Z.eqb_refl. cbn [negb]. rewrite Hk.
        assert (ck_site_compat true 3 3 K_it_rel = true) as -> by reflexivity. reflexivity.
      * constructor; cbn [cs_own cs_free cs_fresh].
        -- intros j Hj. destruct (Z.eq_dec j k) as [->|Hne].
           ++ rewrite ck_upd_same in Hj. cbn in Hj. unfold holding in Hj. lia.
           ++ rewrite ck_upd_other in * by exact Hne. rewrite ck_lookup_drop.
              pose proof (ci_own _ _ _ _ I j Hj) as A. destruct (o_obj o =? o_obj (cs_own s j)) eqn:E'; [|exact A].
              apply Z.eqb_eq in E'. rewrite <- E' in A. rewrite Hl in A. congruence.
        -- intros y j kd Hy. rewrite ck_lookup_drop in Hy. destruct (o_obj o =? y) eqn:E'; [discriminate|].
           destruct (ci_held _ _ _ _ I y j kd Hy) as [A [B C]].
           assert (j <> k). { intros ->. fold o in A. lia. }
           rewrite ck_upd_other by assumption. auto.
        -- intros y Hy. rewrite ck_lookup_drop. destruct (o_obj o =? y) eqn:E'; [reflexivity|].
           destruct Hy as [Hy|Hy]; [lia|]. apply (ci_free _ _ _ _ I). exact Hy.
        -- constructor; [|apply (ci_nodup _ _ _ _ I)]. intros C. rewrite (ci_free _ _ _ _ I _ C) in Hl. discriminate.
        -- intros y Hy. rewrite ck_lookup_drop. destruct (ci_fresh _ _ _ _ I y Hy) as [A B].
           split; [destruct (o_obj o =? y); [reflexivity|exact A]|].
           intros [C|C]; [|tauto]. subst y. rewrite A in Hl. discriminate.
        -- intros j Hj. destruct (Z.eq_dec j k) as [->|Hne].
           ++ rewrite ck_upd_same in Hj. cbn in Hj. lia.
           ++ rewrite ck_upd_other in * by exact Hne. apply (ci_refs _ _ _ _ I). exact Hj.
        -- intros j Hj. destruct (Z.eq_dec j k) as [->|Hne].
           ++ rewrite ck_upd_same. cbn. lia.
           ++ rewrite ck_upd_other in * by exact Hne. apply (ci_kind _ _ _ _ I). exact Hj.
    + (* the tree does not release: the object stays with the deleted item *)
      inversion H; subst; clear H.
      exists h. split; [reflexivity|].
      constructor; cbn [cs_own cs_free cs_fresh]; try apply I.
      * intros j Hj. destruct (Z.eq_dec j k) as [->|Hne].
        -- rewrite ck_upd_same. cbn. rewrite <- Hk. exact Hl.
        -- rewrite ck_upd_other in * by exact Hne. apply (ci_own _ _ _ _ I j Hj).
      * intros y j kd Hy. destruct (ci_held _ _ _ _ I y j kd Hy) as [A [B C]].
        destruct (Z.eq_dec j k) as [->|Hne].
        -- rewrite ck_upd_same. cbn. fold o in A, B. unfold holding. split; [exact A|]. split; [lia|auto].
        -- rewrite ck_upd_other by exact Hne. auto.
      * intros j Hj. destruct (Z.eq_dec j k) as [->|Hne].
        -- rewrite ck_upd_same in *. cbn in *. unfold holding. auto.
        -- rewrite ck_upd_other in * by exact Hne. apply (ci_refs _ _ _ _ I). exact Hj.
      * intros j Hj. destruct (Z.eq_dec j k) as [->|Hne].
        -- rewrite ck_upd_same. cbn. lia.
        -- rewrite ck_upd_other in * by exact Hne. apply (ci_kind _ _ _ _ I). exact Hj.
Qed.

Lemma ck_run_lc_inv fr strict : (fr = false \/ strict = true) ->
  forall ls s h i es s', CkInv fr strict s h -> ck_run_lc fr strict s ls = Some (es, s') ->
  exists h', ck_run fr h i es = inl h' /\ CkInv fr strict s' h'.
Proof.
  intros Hmode. induction ls as [|l r IH]; intros s h i es s' I H; cbn [ck_run_lc] in H.
  - inversion H; subst. exists h. split; [reflexivity|exact I].
  - destruct (ck_step_lc fr strict s l) as [[es1 s1]|] eqn:E1; [|discriminate].
    destruct (ck_run_lc fr strict s1 r) as [[es2 s2]|] eqn:E2; [|discriminate].
    inversion H; subst; clear H.
    destruct (ck_step_inv fr strict s h l es1 s1 i Hmode I E1) as [h1 [R1 I1]].
    destruct (IH s1 h1 (i + Z.of_nat (List.length es1)) es2 s' I1 E2) as [h2 [R2 I2]].
    exists h2. split; [|exact I2]. rewrite ck_run_app, R1. exact R2.
Qed.

(* THE DISCIPLINE: every interleaving of any number of request writers, response writers,
   readers and mutated relay items -- any pool behaviour (which pooled object New returns),
   failures and timeouts at any point, any number of item copies in flight -- yields a trace
   in which every object is acquired while nobody holds it, used and released only by the
   life cycle that holds it at a site of that life cycle, and is held by nobody after its
   Release: no use after release, no second release, no sharing of a running CRC.
   On a tree whose finishRelayItem releases (fr = true) this needs [strict]: the item is not
   finished while a copy of it is in flight. *)
Theorem ck_discipline fr strict ls es s :
  (fr = false \/ strict = true) ->
  ck_run_lc fr strict ck_init ls = Some (es, s) -> ck_ok fr es = true.
Proof.
  intros Hmode H. unfold ck_ok.
  destruct (ck_run_lc_inv fr strict Hmode ls ck_init [] 0 es s (ck_init_inv fr strict) H) as [h' [R _]].
  rewrite R. reflexivity.
Qed.

(* ... and without that restriction the model of the pinned tree REFUTES it: the reader of
   the origin connection is still feeding the item's checksum (fragmentingSend, or the
   re-checksumming of a callReqContinue after items.Get) when the destination's response --
   handled by the reader of the destination connection -- finishes the item and releases
   the checksum: event 2 is an Add on an object nobody holds (code 3). *)
Theorem ck_discipline_refuted_by_overlap :
  exists ls es s, ck_run_lc true false ck_init ls = Some (es, s) /\
                  ck_run true [] 0 es = inr (2, 3).
Proof.
  exists [LNew 7 3 None; LItemFinish 7; LUse 7 K_wr_add]. eexists. eexists.
  split; vm_compute; reflexivity.
Qed.

(* released exactly once: a completed writer / reader / finished item has exactly one Release
   event, every other life cycle none *)
Definition ck_rel_count (k : Z) (es : list ckev) : Z :=
  Z.of_nat (List.length (filter (fun e => (ce_op e =? 3) && (ce_owner e =? k)) es)).

Lemma ck_rel_count_app k a b : ck_rel_count k (a ++ b) = ck_rel_count k a + ck_rel_count k b.
Proof. unfold ck_rel_count. rewrite filter_app, app_length. lia. Qed.

Ltac ck_ifs :=
  repeat match goal with
  | |- context [if ?c then _ else _] => let F := fresh "F" in destruct c eqn:F
  end; try lia.

Lemma ck_step_rel fr strict s l es s' k :
  ck_step_lc fr strict s l = Some (es, s') ->
  ck_rel_count k es + (if o_phase (cs_own s k) =? 4 then 1 else 0) = (if o_phase (cs_own s' k) =? 4 then 1 else 0)
  /\ (o_phase (cs_own s k) = 4 -> ck_rel_count k es = 0).
Proof.
  intros H. destruct l as [j kind pick|j site|j|j|j|j|j|j|j]; cbn [ck_step_lc] in H; cbv zeta in H.
  - destruct (negb ((0 <=? kind) && (kind <=? 3))); [discriminate|].
    destruct (o_phase (cs_own s j) =? 0) eqn:Ep; cbn [negb] in H; [|discriminate].
    destruct pick as [x|]; [destruct (ck_mem x (cs_free s)); [|discriminate]|];
      inversion H; subst; clear H; cbn [cs_own]; unfold ck_upd;
      (destruct (k =? j) eqn:E; [apply Z.eqb_eq in E; subst j; cbn; split; ck_ifs|cbn; split; ck_ifs]).
  - destruct (negb _); [discriminate|]. destruct (negb _); [discriminate|]. split_if H. inversion H; subst; clear H.
    unfold ck_rel_count. cbn [filter ce_op ce_owner].
    assert (ck_use_op fr site =? 3 = false) as ->.
    { unfold ck_use_op. destruct ((site =? K_wr_sum) || (site =? K_rd_sum) || (site =? K_it_csum fr)); reflexivity. }
    cbn. split; ck_ifs.
  - split_if H. inversion H; subst; clear H. cbn [cs_own]. unfold ck_upd, ck_rel_count. cbn [filter ce_op ce_owner Z.eqb andb].
    destruct (k =? j) eqn:E'.
    + apply Z.eqb_eq in E'. subst j. rewrite Z.eqb_refl. cbn. split; ck_ifs.
    + rewrite Z.eqb_sym, E'. cbn. split; ck_ifs.
  - split_if H. inversion H; subst; clear H. unfold ck_rel_count. cbn. split; ck_ifs.
  - split_if H. inversion H; subst; clear H. cbn [cs_own]. unfold ck_upd, ck_rel_count. cbn [filter ce_op ce_owner Z.eqb andb].
    destruct (k =? j) eqn:E'.
    + apply Z.eqb_eq in E'. subst j. rewrite Z.eqb_refl. cbn. split; ck_ifs.
    + rewrite Z.eqb_sym, E'. cbn. split; ck_ifs.
  - split_if H. inversion H; subst; clear H. cbn [cs_own]. unfold ck_upd, ck_rel_count.
    destruct (k =? j) eqn:E'; [apply Z.eqb_eq in E'; subst j|]; cbn; split; ck_ifs.
  - split_if H. inversion H; subst; clear H. cbn [cs_own]. unfold ck_upd, ck_rel_count.
    destruct (k =? j) eqn:E'; [apply Z.eqb_eq in E'; subst j|]; cbn; split; ck_ifs.
  - split_if H. inversion H; subst; clear H. cbn [cs_own]. unfold ck_upd, ck_rel_count.
    destruct (k =? j) eqn:E'; [apply Z.eqb_eq in E'; subst j|]; cbn; split; ck_ifs.
  - split_if H. destruct fr; inversion H; subst; clear H; cbn [cs_own]; unfold ck_upd, ck_rel_count; cbn [filter ce_op ce_owner Z.eqb andb].
    + destruct (k =? j) eqn:E'.
      * apply Z.eqb_eq in E'. subst j. rewrite Z.eqb_refl. cbn. split; ck_ifs.
      * rewrite Z.eqb_sym, E'. cbn. split; ck_ifs.
    + destruct (k =? j) eqn:E'; [apply Z.eqb_eq in E'; subst j|]; cbn; split; ck_ifs.
Qed.

Lemma ck_run_rel fr strict k : forall ls s es s',
  ck_run_lc fr strict s ls = Some (es, s') ->
  ck_rel_count k es + (if o_phase (cs_own s k) =? 4 then 1 else 0) = (if o_phase (cs_own s' k) =? 4 then 1 else 0).
Proof.
  induction ls as [|l r IH]; intros s es s' H; cbn [ck_run_lc] in H.
  - inversion H; subst. reflexivity.
  - destruct (ck_step_lc fr strict s l) as [[es1 s1]|] eqn:E1; [|discriminate].
    destruct (ck_run_lc fr strict s1 r) as [[es2 s2]|] eqn:E2; [|discriminate].
    inversion H; subst; clear H. rewrite ck_rel_count_app.
    destruct (ck_step_rel fr strict s l es1 s1 k E1) as [A _]. pose proof (IH s1 es2 s' E2) as B. lia.
Qed.

(* released exactly once: in every run, a life cycle that completed (writer: last fragment
   finished; reader: doneReading; item: finished on a tree that releases) has exactly one
   Release event, any other life cycle has none *)
Theorem ck_released_once fr strict ls es s k :
  ck_run_lc fr strict ck_init ls = Some (es, s) ->
  ck_rel_count k es = if o_phase (cs_own s k) =? 4 then 1 else 0.
Proof. intros H. pose proof (ck_run_rel fr strict k ls ck_init es s H) as A. cbn in A. lia. Qed.

(* ------------------------------------------------------------------ model events name table rows *)

(* the event's site is a row of the table whose kind is the event's operation *)
Definition ck_ev_site_ok (fr : bool) (e : ckev) : bool :=
  match nth_error (ck_rows fr) (Z.to_nat (ce_site e - 1)) with
  | Some (_, kind, _, _) => (1 <=? ce_site e) && ck_list_eqb kind (ck_kind_name (ce_op e))
  | None => false
  end.

Lemma ck_compat_site_ok fr kind op site k x :
  ck_site_compat fr kind op site = true -> ck_ev_site_ok fr (mkCkev site op k x) = true.
Proof.
  unfold ck_site_compat. intros H.
  destruct ((kind =? 0) || (kind =? 1)); [| destruct (kind =? 2); [| destruct (kind =? 3); [|discriminate]]];
    repeat (rewrite ?orb_true_iff, ?andb_true_iff in H);
    (repeat match goal with
            | H : _ \/ _ |- _ => destruct H
            | H : _ /\ _ |- _ => destruct H
            end);
    repeat match goal with H : (_ =? _) = true |- _ => apply Z.eqb_eq in H end; subst;
    try destruct fr; try discriminate; vm_compute; reflexivity.
Qed.

Lemma ck_step_sites fr strict s l es s' :
  ck_step_lc fr strict s l = Some (es, s') -> forallb (ck_ev_site_ok fr) es = true.
Proof.
  intros H. destruct l as [j kind pick|j site|j|j|j|j|j|j|j]; cbn [ck_step_lc] in H; cbv zeta in H.
  - destruct ((0 <=? kind) && (kind <=? 3)) eqn:Ek; cbn [negb] in H; [|discriminate].
    destruct (negb _); [discriminate|].
    assert (Hs : forall x, ck_ev_site_ok fr (mkCkev (ck_new_site kind) 0 j x) = true).
    { intros x. assert (kind = 0 \/ kind = 1 \/ kind = 2 \/ kind = 3) as [E|[E|[E|E]]] by lia; subst kind;
        destruct fr; vm_compute; reflexivity. }
    destruct pick as [x|]; [destruct (ck_mem x (cs_free s)); [|discriminate]|];
      inversion H; subst; clear H; cbn [forallb]; rewrite Hs; reflexivity.
  - destruct (negb _); [discriminate|].
    destruct (ck_site_compat fr (o_kind (cs_own s j)) (ck_use_op fr site) site) eqn:Ec; cbn [negb] in H; [|discriminate].
    split_if H. inversion H; subst; clear H. cbn [forallb]. rewrite (ck_compat_site_ok _ _ _ _ _ _ Ec). reflexivity.
  - split_if H. inversion H; subst; clear H. destruct fr; vm_compute; reflexivity.
  - split_if H. inversion H; subst; clear H. destruct fr; vm_compute; reflexivity.
  - split_if H. inversion H; subst; clear H. destruct fr; vm_compute; reflexivity.
  - split_if H. inversion H; subst; clear H. reflexivity.
  - split_if H. inversion H; subst; clear H. reflexivity.
  - split_if H. inversion H; subst; clear H. reflexivity.
  - split_if H. destruct fr; inversion H; subst; clear H; [vm_compute|]; reflexivity.
Qed.

Theorem ck_run_sites fr strict : forall ls s es s',
  ck_run_lc fr strict s ls = Some (es, s') -> forallb (ck_ev_site_ok fr) es = true.
Proof.
  induction ls as [|l r IH]; intros s es s' H; cbn [ck_run_lc] in H.
  - inversion H; subst. reflexivity.
  - destruct (ck_step_lc fr strict s l) as [[es1 s1]|] eqn:E1; [|discriminate].
    destruct (ck_run_lc fr strict s1 r) as [[es2 s2]|] eqn:E2; [|discriminate].
    inversion H; subst; clear H. rewrite forallb_app, (ck_step_sites _ _ _ _ _ _ E1), (IH _ _ _ E2). reflexivity.
Qed.

(* ------------------------------------------------------------------ non-vacuity *)

(* a run with every kind of life cycle, pool reuse (the reader and the second writer draw the
   objects released before them), a failed send in the middle of a re-fragmented request
   (LFail 3 while the copy held by handleCallReq is still in use), a continuation frame, and
   the finish of the item once no copy is in flight *)
Definition ck_sample_run (fr : bool) : list ck_label :=
  [ LNew 1 0 None; LUse 1 K_wr_add; LUse 1 K_wr_sum; LUse 1 K_wr_add; LWLast 1;
    LNew 2 2 (Some 1); LUse 2 K_rd_add; LUse 2 K_rd_sum; LRDone 2;
    LNew 3 3 (Some 1); LUse 3 (K_it_madd fr); LUse 3 K_wr_add; LUse 3 K_wr_sum; LSendLast 3; LItemPut 3;
    LItemGet 3; LUse 3 (K_it_cadd fr); LUse 3 (K_it_csum fr); LItemPut 3; LItemFinish 3;
    LNew 4 1 None; LUse 4 K_wr_add; LFail 4;
    LNew 5 3 None; LUse 5 K_wr_add; LFail 5; LUse 5 K_wr_add; LUse 5 K_wr_sum; LItemPut 5 ].

Definition ck_op_rows (fr : bool) : list Z :=
  map fst (filter (fun p : Z * ck_row =>
                     let '(_, (_, kind, _, _)) := p in
                     ck_list_eqb kind (ck_kind_name 0) || ck_list_eqb kind (ck_kind_name 1)
                     || ck_list_eqb kind (ck_kind_name 2) || ck_list_eqb kind (ck_kind_name 3))
                  (ck_site_table fr)).

(* the sample run is accepted by the strict model of both variants, satisfies the discipline,
   and its events cover every New / Add / Sum / Release row of the table outside checksum.go
   (rows 1-7 are the pool implementation itself) *)
Lemma ck_sample_ok fr :
  match ck_run_lc fr true ck_init (ck_sample_run fr) with
  | Some (es, _) =>
      ck_ok fr es = true /\
      forallb (fun row => (row <=? 7) || existsb (fun e => ce_site e =? row) es) (ck_op_rows fr) = true
  | None => False
  end.
Proof. destruct fr; vm_compute; split; reflexivity. Qed.
