(* The idle sweep on a relaying channel (Model/IdleRelay.v): the sweep's "no relayed call" test is
   the relay bookkeeping's "no live item and no held unit".

   1. go2v tie (Gen/GenIdleRelay.v): every function of relay.go that ends a relay item gives the
      unit of Relayer.pending back exactly when the model's step pushes IDec; decrementPending /
      the increment of canHandleNewCall / countPending are the model's IDec / ICanHandle /
      c_pending.
   2. C09's invariant (pending = live items + held units, every reachable state) carried to the
      sweep: on a relay connection the sweep's decision is the statement's with "no relayed
      call" read as "no live relay item of the connection and no relay goroutine holding a
      unit of it" -- whichever way the relayed calls ended. *)
From Coq Require Import ZArith List Bool Lia ZifyBool.
From Verif Require Import Base.Wrap Gen.GenConsts Gen.GenFrame Gen.GenRelayFwd Model.RelayItems
  Proofs.RelayAssocP Proofs.RelayCoreP Proofs.RelayInv9P Proofs.RelayTimerP Proofs.RelayThmP.
From Verif Require Import Gen.GenHealthIdle Gen.GenIdleRelay Model.Health Model.Idle Model.IdleRelay Proofs.IdleP.
Import ListNotations.
Local Open Scope Z_scope.

(* ---- 1. the generated end-of-item functions against the model's steps ---------------------- *)

(* decrementPending obligations for connection k in a piece of thread code *)
Definition dec_i (k : Z) (i : instr) : Z := match i with IDec k' => b2z (k' =? k) | _ => 0 end.
Definition decs (k : Z) (code : list instr) : Z := csum (dec_i k) code.

(* what Entomb / deleteCall returned: did the caller take the item (second result), and the
   isOriginator field of the item it got *)
Definition took (g : option (item * bool)) : bool := match g with Some (_, true) => true | _ => false end.
Definition orig_of (g : option (item * bool)) : bool := match g with Some (it, _) => it_orig it | None => false end.

Lemma decs_app : forall k a b, decs k (a ++ b) = decs k a + decs k b.
Proof. intros k a b. apply csum_app. Qed.

Lemma decs_orig_tail : forall k k' id c s, decs k (orig_tail k' id c s) = 0.
Proof.
  intros k k' id c s. unfold orig_tail. destruct s as [r|o]; [|reflexivity].
  destruct (r =? reason_source_slow); reflexivity.
Qed.

(* timeoutRelayItem: the timer goroutine's Entomb step *)
Lemma gen_timeout_end : forall cf st t o room p,
  p - decs (key_conn t) (snd (exec cf st (IEntomb t (FromTimeout o)) room)) =
  sweepRelayTimeoutPending (took (snd (items_entomb cf st t))) o p.
Proof.
  intros cf st t o room p. cbn [exec]. destruct (items_entomb cf st t) as [st' g]. cbn [snd].
  unfold sweepRelayTimeoutPending, took.
  destruct g as [[it [|]]|]; cbn [snd negb].
  - rewrite decs_app. destruct o.
    + rewrite decs_orig_tail. cbn. rewrite Z.eqb_refl. cbn. lia.
    + cbn. rewrite Z.eqb_refl. cbn. lia.
  - cbn. lia.
  - cbn. lia.
Qed.

(* failRelayItem, after Get found the item and stopped its timer: the Entomb step *)
Lemma gen_fail_end : forall cf st t r room p,
  p - decs (key_conn t) (snd (exec cf st (IEntomb t (FromFail r)) room)) =
  sweepRelayFailPending true true (took (snd (items_entomb cf st t))) (orig_of (snd (items_entomb cf st t)))
    (r =? reason_source_slow) p.
Proof.
  intros cf st t r room p. cbn [exec]. destruct (items_entomb cf st t) as [st' g]. cbn [snd].
  unfold sweepRelayFailPending, took, orig_of.
  destruct g as [[it [|]]|]; cbn [snd negb].
  - rewrite decs_app. destruct (it_orig it).
    + rewrite decs_orig_tail. cbn. rewrite Z.eqb_refl. cbn. destruct (r =? reason_source_slow); cbn; lia.
    + cbn. rewrite Z.eqb_refl. cbn. lia.
  - cbn. lia.
  - cbn. lia.
Qed.

(* ... and before: Get(id, true) -- nothing further happens unless the item was found and its
   timer stopped by this very call *)
Lemma gen_fail_get : forall cf st t r room,
  snd (exec cf st (IFailGet t r) room) =
  (if took (snd (items_get st t true)) then [IEntomb t (FromFail r)] else []) /\
  (forall found stopped ok orig slow p, found && stopped = false ->
     sweepRelayFailPending found stopped ok orig slow p = p).
Proof.
  intros cf st t r room. split.
  - cbn [exec]. destruct (items_get st t true) as [st' g]. cbn [snd]. unfold took.
    destruct g as [[it [|]]|]; reflexivity.
  - intros found stopped ok orig slow p H. unfold sweepRelayFailPending.
    destruct found, stopped; cbn in H; try discriminate; reflexivity.
Qed.

(* finishRelayItem: the deleteCall step *)
Lemma gen_finish_end : forall cf st t lk room p,
  p - decs (key_conn t) (snd (exec cf st (IDelete t lk) room)) =
  sweepRelayFinishPending (took (snd (items_delete_call st t lk))) (orig_of (snd (items_delete_call st t lk))) p.
Proof.
  intros cf st t lk room p. cbn [exec]. destruct (items_delete_call st t lk) as [st' g]. cbn [snd].
  unfold sweepRelayFinishPending, took, orig_of.
  destruct g as [[it [|]]|]; cbn [snd negb].
  - rewrite decs_app. destruct (it_orig it); cbn; rewrite Z.eqb_refl; cbn; lia.
  - cbn. lia.
  - cbn. lia.
Qed.

(* handleCallReq: the branch "no destination connection, or the selected one cannot take the call" *)
Definition get_dest_rejects (st : state) (k : Z) (f : frame) (e : env) : bool :=
  match RelayItems.lookup key_eqb (k, 0, f_id f) (items st) with Some _ => true | None => e_dest e <? 0 end.

Lemma gen_no_dest_end : forall cf st k f e c room p,
  p - decs k (snd (exec cf st (IGetDest k f e c) room)) = sweepRelayNoDestPending (get_dest_rejects st k f e) p.
Proof.
  intros cf st k f e c room p. cbn [exec]. unfold get_dest_rejects, sweepRelayNoDestPending.
  destruct (RelayItems.lookup key_eqb (k, 0, f_id f) (items st)) as [it|].
  - cbn. rewrite Z.eqb_refl. cbn. lia.
  - destruct (e_dest e =? -1) eqn:E1.
    + assert (H : e_dest e <? 0 = true) by lia. rewrite H. cbn. rewrite Z.eqb_refl. cbn. lia.
    + destruct (e_dest e <? 0) eqn:E2; cbn; rewrite ?Z.eqb_refl; cbn; lia.
Qed.

Lemma gen_remote_inactive_end : forall cf st k f e c d room p,
  p - decs k (snd (exec cf st (IRemoteCan k f e c d) room)) =
  sweepRelayNoDestPending (negb (relayCanHandleNewCall (c_state (get_conn st d)))) p.
Proof.
  intros cf st k f e c d room p. cbn [exec]. unfold relayCanHandleNewCall, sweepRelayNoDestPending.
  destruct (c_state (get_conn st d) =? c_connectionActive); cbn; rewrite ?Z.eqb_refl; cbn; lia.
Qed.

(* decrementPending = the model's IDec: the counter minus one (a uint32), then the close check
   by the same goroutine *)
Lemma gen_decrement : forall cf st k room,
  c_pending (get_conn (fst (exec cf st (IDec k) room)) k) = wrapU 32 (sweepRelayDecrement (c_pending (get_conn st k))) /\
  snd (exec cf st (IDec k) room) = [ICheck k].
Proof.
  intros cf st k room. cbn [exec fst snd]. split; [|reflexivity].
  rewrite !get_conn_getc. cbn [put_conn set_conns conns]. rewrite getc_insert, Z.eqb_refl. cbn [c_pending].
  unfold sweepRelayDecrement. f_equal. lia.
Qed.

(* the increment of canHandleNewCall = the counter update of ICanHandle / IRemoteCan *)
Lemma gen_admission : forall cf st k f e c room,
  c_pending (get_conn (fst (exec cf st (ICanHandle k f e c) room)) k) =
  (if relayCanHandleNewCall (c_state (get_conn st k))
   then wrapU 32 (sweepRelayAdmitPending true (c_pending (get_conn st k)))
   else sweepRelayAdmitPending false (c_pending (get_conn st k))).
Proof.
  intros cf st k f e c room. cbn [exec]. unfold relayCanHandleNewCall, sweepRelayAdmitPending.
  destruct (c_state (get_conn st k) =? c_connectionActive); cbn [fst]; [|reflexivity].
  rewrite !get_conn_getc. cbn [put_conn set_conns conns]. rewrite getc_insert, Z.eqb_refl. reflexivity.
Qed.

Lemma gen_admission_remote : forall cf st k f e c d room,
  c_pending (get_conn (fst (exec cf st (IRemoteCan k f e c d) room)) d) =
  (if relayCanHandleNewCall (c_state (get_conn st d))
   then wrapU 32 (sweepRelayAdmitPending true (c_pending (get_conn st d)))
   else sweepRelayAdmitPending false (c_pending (get_conn st d))).
Proof.
  intros cf st k f e c d room. cbn [exec]. unfold relayCanHandleNewCall, sweepRelayAdmitPending.
  destruct (c_state (get_conn st d) =? c_connectionActive); cbn [fst]; [|reflexivity].
  rewrite !get_conn_getc. cbn [put_conn set_conns conns]. rewrite getc_insert, Z.eqb_refl. reflexivity.
Qed.

(* countPending is the counter; hasPendingCalls sees the relay through canClose of it only *)
Lemma gen_count : forall st k, relay_count st k = c_pending (get_conn st k).
Proof. reflexivity. Qed.

Lemma gen_relay_has_pending : forall st id c,
  k_relay c = Some (relay_count st id) ->
  relay_has_pending st id c = has_pending_calls c /\
  relay_has_pending st id c = ((k_inb c >? 0) || (k_outb c >? 0) || negb (c_pending (get_conn st id) =? 0)).
Proof.
  intros st id c H. unfold relay_has_pending, has_pending_calls, relay_can_close, hasPendingCalls, relayCanClose.
  rewrite H, gen_count. destruct ((k_inb c >? 0) || (k_outb c >? 0)); cbn; split; try reflexivity;
    destruct (c_pending (get_conn st id) =? 0); reflexivity.
Qed.

(* ---- 2. pending = live items + held units, read by the sweep ------------------------------- *)

(* what keeps Relayer.pending of connection k up: its live (non-tombstone) items, and the
   goroutines between canHandleNewCall and addRelayItem or between Entomb / deleteCall and
   decrementPending *)
Definition relay_load (st : state) (k : Z) : Z := asum (live_i k) (items st) + tsum (hold_i k) (threads st).

Definition no_live_item (st : state) (k : Z) : Prop :=
  forall t it, In (t, it) (items st) -> key_conn t = k -> it_tomb it = true.
Definition no_held_unit (st : state) (k : Z) : Prop :=
  forall th code i, In (th, code) (threads st) -> In i code -> hold_i k i = 0.

Lemma live_i_nonneg : forall k t it, 0 <= live_i k t it.
Proof. intros k t it. unfold live_i, b2z. destruct ((key_conn t =? k) && negb (it_tomb it)); lia. Qed.

Lemma hold_i_nonneg : forall k i, 0 <= hold_i k i.
Proof.
  intros k i. destruct i; cbn; unfold b2z; try lia;
    repeat match goal with |- context [if ?b then _ else _] => destruct b end; lia.
Qed.

Lemma csum_zero_all : forall f code, (forall i, 0 <= f i) -> csum f code = 0 -> forall i, In i code -> f i = 0.
Proof.
  intros f code Hf. induction code as [|j r IH]; intros Hs i Hin; cbn in *; [contradiction|].
  pose proof (csum_nonneg f r Hf) as Hr. pose proof (Hf j) as Hj.
  destruct Hin as [->|Hin]; [lia|]. apply IH; [lia|exact Hin].
Qed.

Lemma asum_zero_if : forall {K V : Type} (g : K -> V -> Z) (l : list (K * V)),
  (forall k v, In (k, v) l -> g k v = 0) -> asum g l = 0.
Proof.
  intros K V g l. induction l as [|[k v] r IH]; intro H; cbn; [reflexivity|].
  rewrite (H k v) by (left; reflexivity). rewrite IH; [reflexivity|]. intros k' v' Hin. apply H. right. exact Hin.
Qed.

Lemma csum_zero_if : forall f code, (forall i, In i code -> f i = 0) -> csum f code = 0.
Proof.
  intros f code. induction code as [|j r IH]; intro H; cbn; [reflexivity|].
  rewrite (H j) by (left; reflexivity). rewrite IH; [reflexivity|]. intros i Hin. apply H. right. exact Hin.
Qed.

Lemma relay_load_nonneg : forall st k, 0 <= relay_load st k.
Proof.
  intros st k. unfold relay_load.
  pose proof (asum_nonneg (live_i k) (items st) (live_i_nonneg k)).
  pose proof (tsum_nonneg (hold_i k) (threads st) (hold_i_nonneg k)). lia.
Qed.

Lemma relay_load_zero : forall st k, relay_load st k = 0 <-> no_live_item st k /\ no_held_unit st k.
Proof.
  intros st k. unfold relay_load.
  pose proof (asum_nonneg (live_i k) (items st) (live_i_nonneg k)) as Ha.
  pose proof (tsum_nonneg (hold_i k) (threads st) (hold_i_nonneg k)) as Ht. split.
  - intro H. assert (H1 : asum (live_i k) (items st) = 0) by lia. assert (H2 : tsum (hold_i k) (threads st) = 0) by lia. split.
    + intros t it Hin Hk. pose proof (asum_zero_all (live_i k) (items st) (live_i_nonneg k) H1 t it Hin) as Hz.
      unfold live_i in Hz. rewrite Hk, Z.eqb_refl in Hz. cbn in Hz. destruct (it_tomb it); [reflexivity|discriminate].
    + intros th code i Hin Hi. unfold tsum in H2.
      pose proof (asum_zero_all (fun _ c => csum (hold_i k) c) (threads st)
                    (fun _ c => csum_nonneg (hold_i k) c (hold_i_nonneg k)) H2 th code Hin) as Hz. cbn in Hz.
      exact (csum_zero_all (hold_i k) code (hold_i_nonneg k) Hz i Hi).
  - intros [Hl Hh]. rewrite (asum_zero_if (live_i k) (items st)).
    + unfold tsum. rewrite (asum_zero_if (fun _ c => csum (hold_i k) c) (threads st)); [reflexivity|].
      intros th code Hin. apply csum_zero_if. intros i Hi. exact (Hh th code i Hin Hi).
    + intros t it Hin. unfold live_i. destruct (key_conn t =? k) eqn:E; [|reflexivity].
      apply Z.eqb_eq in E. rewrite (Hl t it Hin E). reflexivity.
Qed.

(* C09_pending_exact, as the sweep reads it *)
Lemma relay_count_exact : forall cf ls st, run_fresh cf RelayItems.init ls = Some st ->
  forall k, relay_count st k = wrapU 32 (relay_load st k).
Proof. intros cf ls st H k. rewrite gen_count. exact (pending_exact_thm cf ls st H k). Qed.

Lemma wrapU32_small : forall x, 0 <= x < 2 ^ 32 -> wrapU 32 x = x.
Proof. intros x Hx. unfold wrapU. apply Z.mod_small. exact Hx. Qed.

(* every relayed call of the connection has ended, whichever way, and no goroutine is still on
   its way to decrementPending: canClose *)
Theorem relay_ended_can_close : forall cf ls st, run_fresh cf RelayItems.init ls = Some st ->
  forall k, no_live_item st k -> no_held_unit st k ->
  relay_count st k = 0 /\ relayCanClose false (relay_count st k) = true.
Proof.
  intros cf ls st H k Hl Hh. rewrite (relay_count_exact cf ls st H k).
  rewrite (proj2 (relay_load_zero st k) (conj Hl Hh)). split; reflexivity.
Qed.

(* ... and conversely (fewer than 2^32 calls in flight on the connection) *)
Theorem relay_can_close_ended : forall cf ls st, run_fresh cf RelayItems.init ls = Some st ->
  forall k, relay_load st k < 2 ^ 32 ->
  (relayCanClose false (relay_count st k) = true <-> no_live_item st k /\ no_held_unit st k).
Proof.
  intros cf ls st H k Hb. rewrite (relay_count_exact cf ls st H k).
  pose proof (relay_load_nonneg st k) as Hn. rewrite wrapU32_small by lia.
  rewrite <- relay_load_zero. unfold relayCanClose. rewrite Z.eqb_eq. tauto.
Qed.

(* The sweep on the combined state: C19_sweep_iff with "no relayed call" spelled out in terms of
   the relay's items and goroutines. *)
Theorem relay_sweep_iff : forall cf ls st, run_fresh cf RelayItems.init ls = Some st ->
  forall mi s id c,
  NoDup (map fst (ch_conns s)) -> min_duration < mi <= max_duration ->
  lookup id (ch_conns s) = Some c -> 0 <= k_inb c -> 0 <= k_outb c ->
  k_relay c = Some (relay_count st id) -> relay_load st id < 2 ^ 32 ->
  exists c', lookup id (ch_conns (sweep mi s)) = Some c' /\
    ((is_active c = true /\ is_active c' = false) <->
     (k_tracked c = true /\ k_state c = c_connectionActive /\ k_inb c = 0 /\ k_outb c = 0 /\
      (no_live_item st id /\ no_held_unit st id) /\ ch_now s - Z.max (k_lr c) (k_lw c) >= mi)) /\
    (is_active c = true /\ is_active c' = false -> c' = conn_close c) /\
    (~ (is_active c = true /\ is_active c' = false) -> c' = c).
Proof.
  intros cf ls st H mi s id c Hnd Hmi L Hi Ho Hr Hb.
  assert (Hok : counts_ok c).
  { unfold counts_ok. rewrite Hr. repeat split; try assumption.
    rewrite (relay_count_exact cf ls st H id). unfold wrapU. apply Z.mod_pos_bound. lia. }
  destruct (sweep_iff mi s id c Hnd Hmi L Hok) as (c' & L' & Hiff & Hyes & Hno).
  exists c'. split; [exact L'|].
  assert (Hsc : should_close (ch_now s) mi c <->
    (k_tracked c = true /\ k_state c = c_connectionActive /\ k_inb c = 0 /\ k_outb c = 0 /\
      (no_live_item st id /\ no_held_unit st id) /\ ch_now s - Z.max (k_lr c) (k_lw c) >= mi)).
  { unfold should_close, relay_idle. rewrite Hr.
    pose proof (relay_can_close_ended cf ls st H id Hb) as Hc. unfold relayCanClose in Hc. rewrite Z.eqb_eq in Hc.
    rewrite <- Hc. tauto. }
  split; [rewrite Hiff; exact Hsc|]. split.
  - intro Hcl. apply Hyes. apply Hiff. exact Hcl.
  - intro Hn. apply Hno. intro Hs. apply Hn. apply Hiff. exact Hs.
Qed.

(* The "if" direction on its own, without any bound: a relay connection whose relayed calls have
   all ended -- by completion, by the relay's timeout, by a cancel, by a failed send towards a
   slow destination or source, by a rejection, by the loss of the other connection: every path
   of the relay model -- and that is Active, without local calls and silent for MaxIdleTime IS
   closed by the sweep. *)
Theorem relay_ended_swept : forall cf ls st, run_fresh cf RelayItems.init ls = Some st ->
  forall mi s id c,
  NoDup (map fst (ch_conns s)) -> min_duration < mi <= max_duration ->
  lookup id (ch_conns s) = Some c -> k_relay c = Some (relay_count st id) ->
  no_live_item st id -> no_held_unit st id ->
  k_tracked c = true -> k_state c = c_connectionActive -> k_inb c = 0 -> k_outb c = 0 ->
  ch_now s - Z.max (k_lr c) (k_lw c) >= mi ->
  lookup id (ch_conns (sweep mi s)) = Some (conn_close c) /\ is_active (conn_close c) = false.
Proof.
  intros cf ls st H mi s id c Hnd Hmi L Hr Hl Hh Ht Hs Hi Ho Hidle.
  destruct (relay_ended_can_close cf ls st H id Hl Hh) as [Hz _].
  assert (Hok : counts_ok c). { unfold counts_ok. rewrite Hr, Hz, Hi, Ho. repeat split; lia. }
  destruct (sweep_iff mi s id c Hnd Hmi L Hok) as (c' & L' & Hiff & Hyes & _).
  assert (Hsc : should_close (ch_now s) mi c).
  { unfold should_close, relay_idle. rewrite Hr, Hz. repeat split; assumption. }
  rewrite (Hyes Hsc) in L'. split; [exact L'|].
  destruct (proj2 Hiff Hsc) as [_ Hc]. rewrite (Hyes Hsc) in Hc. exact Hc.
Qed.

(* The same for the whole channel once the relay is at rest: no relay goroutine has anything left
   to do and no timeout timer is pending (tombstones may still await collection).  Then EVERY
   connection of the relaying channel that is Active, without local calls and silent for
   MaxIdleTime is closed by the next sweep. *)
Theorem relay_quiescent_swept : forall cf ls st, run_fresh cf RelayItems.init ls = Some st -> quiescent st ->
  forall mi s, NoDup (map fst (ch_conns s)) -> min_duration < mi <= max_duration ->
  linked {| rc_relay := st; rc_chan := s |} ->
  forall id c, lookup id (ch_conns s) = Some c ->
  k_tracked c = true -> k_state c = c_connectionActive -> k_inb c = 0 -> k_outb c = 0 ->
  ch_now s - Z.max (k_lr c) (k_lw c) >= mi ->
  lookup id (ch_conns (rc_chan (rsweep mi {| rc_relay := st; rc_chan := s |}))) = Some (conn_close c) /\
  is_active (conn_close c) = false.
Proof.
  intros cf ls st H Hq mi s Hnd Hmi Hlk id c L Ht Hs Hi Ho Hidle. cbn [rsweep rc_chan rc_relay].
  destruct (reach_both _ _ _ H) as [HI HT].
  apply (relay_ended_swept cf ls st H mi s id c Hnd Hmi L (Hlk id c L)); try assumption.
  - intros t it Hin _. exact (quiescent_no_live st HI HT Hq t it Hin).
  - intros th code i Hin _. destruct Hq as [Hth _]. rewrite Hth in Hin. contradiction.
Qed.

(* [link] produces a linked combined state and changes nothing else *)
Lemma lookup_link : forall st l id,
  lookup id (map (fun ic => (fst ic, link_conn st (fst ic) (snd ic))) l) =
  match lookup id l with Some c => Some (link_conn st id c) | None => None end.
Proof.
  intros st l id. induction l as [|[i c] r IH]; cbn [map lookup fst snd]; [reflexivity|].
  destruct (i =? id) eqn:E; [apply Z.eqb_eq in E; subst; reflexivity|exact IH].
Qed.

Lemma link_linked : forall st s, linked (link st s).
Proof.
  intros st s id c. cbn [link rc_chan rc_relay link_chan ch_conns]. rewrite lookup_link.
  destruct (lookup id (ch_conns s)) as [c0|]; [|discriminate]. intro E. inversion E. reflexivity.
Qed.

(* ---- non-vacuity: a relayed call that ends by the relay's timeout ------------------------- *)
(* caller connection 0, callee connection 1; the call req is forwarded, nobody answers, both
   timers fire; afterwards neither connection has a live item or a held unit *)
Definition tmo_cf : RelayItems.config := {| cf_maxtombs := 100; cf_cancel := false |}.
Definition tmo_req : frame := {| f_mt := c_messageTypeCallReq; f_id := 7; f_flags := 0; f_code := 0; f_wf := true |}.
Definition tmo_env : env := {| e_start := 0; e_code := 0; e_dest := 1; e_mode := 0 |}.
Fixpoint steps (t : tid) (n : nat) : list label := match n with O => [] | S m => LStep t true :: steps t m end.
Definition tmo_labels : list label :=
  LArrive 0 tmo_req tmo_env :: steps (TR 0) 10 ++
  [LFire 1] ++ steps (TT 1) 4 ++ [LFire 2] ++ steps (TT 2) 7.
Definition tmo_inflight : list label := LArrive 0 tmo_req tmo_env :: steps (TR 0) 10.
Definition state_after (ls : list label) : state :=
  match run_fresh tmo_cf RelayItems.init ls with Some st => st | None => RelayItems.init end.

(* two relay connections that last carried a call frame at time 0; now = 200, MaxIdleTime = 100 *)
Definition tmo_conn : conn :=
  {| k_state := c_connectionActive; k_lr := 0; k_lw := 0; k_inb := 0; k_outb := 0; k_pings := 0; k_relay := Some 0;
     k_stopped := false; k_tracked := true; k_hstatus := 0; k_health := hl_init |}.
Definition tmo_chan : chan := {| ch_now := 200; ch_conns := [(0, tmo_conn); (1, tmo_conn)] |}.

(* ---- the theorems over the combined state ------------------------------------------------- *)
Theorem combined_ended_swept : forall cf ls rc, run_fresh cf RelayItems.init ls = Some (rc_relay rc) -> linked rc ->
  forall mi id c,
  NoDup (map fst (ch_conns (rc_chan rc))) -> min_duration < mi <= max_duration ->
  lookup id (ch_conns (rc_chan rc)) = Some c ->
  no_live_item (rc_relay rc) id -> no_held_unit (rc_relay rc) id ->
  k_tracked c = true -> k_state c = c_connectionActive -> k_inb c = 0 -> k_outb c = 0 ->
  ch_now (rc_chan rc) - Z.max (k_lr c) (k_lw c) >= mi ->
  lookup id (ch_conns (rc_chan (rsweep mi rc))) = Some (conn_close c) /\ is_active (conn_close c) = false.
Proof.
  intros cf ls rc H Hlk mi id c Hnd Hmi L Hl Hh Ht Hs Hi Ho Hidle. cbn [rsweep rc_chan].
  exact (relay_ended_swept cf ls (rc_relay rc) H mi (rc_chan rc) id c Hnd Hmi L (Hlk id c L) Hl Hh Ht Hs Hi Ho Hidle).
Qed.

Theorem combined_sweep_iff : forall cf ls rc, run_fresh cf RelayItems.init ls = Some (rc_relay rc) -> linked rc ->
  forall mi id c,
  NoDup (map fst (ch_conns (rc_chan rc))) -> min_duration < mi <= max_duration ->
  lookup id (ch_conns (rc_chan rc)) = Some c -> 0 <= k_inb c -> 0 <= k_outb c ->
  relay_load (rc_relay rc) id < 2 ^ 32 ->
  exists c', lookup id (ch_conns (rc_chan (rsweep mi rc))) = Some c' /\
    ((is_active c = true /\ is_active c' = false) <->
     (k_tracked c = true /\ k_state c = c_connectionActive /\ k_inb c = 0 /\ k_outb c = 0 /\
      (no_live_item (rc_relay rc) id /\ no_held_unit (rc_relay rc) id) /\
      ch_now (rc_chan rc) - Z.max (k_lr c) (k_lw c) >= mi)) /\
    (is_active c = true /\ is_active c' = false -> c' = conn_close c) /\
    (~ (is_active c = true /\ is_active c' = false) -> c' = c).
Proof.
  intros cf ls rc H Hlk mi id c Hnd Hmi L Hi Ho Hb. cbn [rsweep rc_chan].
  exact (relay_sweep_iff cf ls (rc_relay rc) H mi (rc_chan rc) id c Hnd Hmi L Hi Ho (Hlk id c L) Hb).
Qed.

(* ---- the statements of Props/C19.v, fifth part -------------------------------------------- *)
Theorem gen_relay_ends :
  (forall cf st t o room p,
     p - decs (key_conn t) (snd (exec cf st (IEntomb t (FromTimeout o)) room)) =
     sweepRelayTimeoutPending (took (snd (items_entomb cf st t))) o p) /\
  (forall cf st t r room p,
     p - decs (key_conn t) (snd (exec cf st (IEntomb t (FromFail r)) room)) =
     sweepRelayFailPending true true (took (snd (items_entomb cf st t))) (orig_of (snd (items_entomb cf st t)))
       (r =? reason_source_slow) p) /\
  (forall cf st t r room,
     snd (exec cf st (IFailGet t r) room) = (if took (snd (items_get st t true)) then [IEntomb t (FromFail r)] else []) /\
     (forall found stopped ok orig slow p, found && stopped = false -> sweepRelayFailPending found stopped ok orig slow p = p)) /\
  (forall cf st t lk room p,
     p - decs (key_conn t) (snd (exec cf st (IDelete t lk) room)) =
     sweepRelayFinishPending (took (snd (items_delete_call st t lk))) (orig_of (snd (items_delete_call st t lk))) p) /\
  (forall cf st k f e c room p,
     p - decs k (snd (exec cf st (IGetDest k f e c) room)) = sweepRelayNoDestPending (get_dest_rejects st k f e) p) /\
  (forall cf st k f e c d room p,
     p - decs k (snd (exec cf st (IRemoteCan k f e c d) room)) =
     sweepRelayNoDestPending (negb (relayCanHandleNewCall (c_state (get_conn st d)))) p).
Proof.
  split; [exact gen_timeout_end|]. split; [exact gen_fail_end|]. split; [exact gen_fail_get|].
  split; [exact gen_finish_end|]. split; [exact gen_no_dest_end|exact gen_remote_inactive_end].
Qed.

Theorem gen_relay_counter :
  (forall cf st k room,
     c_pending (get_conn (fst (exec cf st (IDec k) room)) k) = wrapU 32 (sweepRelayDecrement (c_pending (get_conn st k))) /\
     snd (exec cf st (IDec k) room) = [ICheck k]) /\
  (forall cf st k f e c room,
     c_pending (get_conn (fst (exec cf st (ICanHandle k f e c) room)) k) =
     (if relayCanHandleNewCall (c_state (get_conn st k))
      then wrapU 32 (sweepRelayAdmitPending true (c_pending (get_conn st k)))
      else sweepRelayAdmitPending false (c_pending (get_conn st k)))) /\
  (forall cf st k f e c d room,
     c_pending (get_conn (fst (exec cf st (IRemoteCan k f e c d) room)) d) =
     (if relayCanHandleNewCall (c_state (get_conn st d))
      then wrapU 32 (sweepRelayAdmitPending true (c_pending (get_conn st d)))
      else sweepRelayAdmitPending false (c_pending (get_conn st d)))) /\
  (forall st k, relay_count st k = c_pending (get_conn st k)) /\
  (forall st id c, k_relay c = Some (relay_count st id) ->
     relay_has_pending st id c = has_pending_calls c /\
     relay_has_pending st id c = ((k_inb c >? 0) || (k_outb c >? 0) || negb (c_pending (get_conn st id) =? 0))).
Proof.
  split; [exact gen_decrement|]. split; [exact gen_admission|]. split; [exact gen_admission_remote|].
  split; [exact gen_count|exact gen_relay_has_pending].
Qed.

Theorem relay_can_close_iff : forall cf ls st, run_fresh cf RelayItems.init ls = Some st -> forall k,
  (no_live_item st k -> no_held_unit st k -> relay_count st k = 0 /\ relayCanClose false (relay_count st k) = true) /\
  (relay_load st k < 2 ^ 32 ->
   (relayCanClose false (relay_count st k) = true <-> no_live_item st k /\ no_held_unit st k)).
Proof.
  intros cf ls st H k. split; [exact (relay_ended_can_close cf ls st H k)|exact (relay_can_close_ended cf ls st H k)].
Qed.
