(* Property C04, clause (c): the lock-discipline obligations over the table regenerated from the
   Go source (Gen/GenLockSites.v), and the meaning of the discipline against a small semantics of
   a readers-writer mutex (Spec/LockSpec.v): a write section excludes every other section. *)
From Coq Require Import ZArith List Bool Lia Arith.
From Verif Require Import Spec.LockSpec Model.LockDiscipline Gen.GenLockSites.
Import ListNotations.

(* ---------------------------------------------------------------- the table *)

(* stated first so that a broken discipline is reported with the numbers of the offending rows
   (the comments of Gen/GenLockSites.v carry the same numbers) *)
Lemma lock_offenders_none : lk_offenders lk_exceptions lock_sites = [].
Proof. vm_compute. reflexivity. Qed.

Lemma lock_discipline_b : lk_discipline lk_exceptions lock_sites = true.
Proof. vm_compute. reflexivity. Qed.

Lemma lock_exceptions_needed_b : lk_exceptions_needed lk_exceptions lock_sites = true.
Proof. vm_compute. reflexivity. Qed.

Lemma lock_fields_covered_b :
  forallb (fun f => existsb (lz_eqb f) lock_fields && lk_field_covered lock_sites f) lk_required_fields = true.
Proof. vm_compute. reflexivity. Qed.

Lemma lk_sufficient_spec : forall a m, lk_sufficient a m = true ->
  (a = LkWrite -> m = LkW) /\ (a = LkRead -> m = LkR \/ m = LkW).
Proof.
  intros a m H. destruct a, m; cbn in H; try discriminate; split; intros E; try discriminate; auto.
Qed.

Theorem lock_discipline : forall s, In s lock_sites -> lk_excepted lk_exceptions s = false ->
  (lk_kind s = LkWrite -> lk_effective s = LkW) /\
  (lk_kind s = LkRead -> lk_effective s = LkR \/ lk_effective s = LkW).
Proof.
  intros s Hin Hex.
  pose proof lock_discipline_b as H. unfold lk_discipline in H.
  rewrite forallb_forall in H. specialize (H s Hin). unfold lk_site_ok in H.
  rewrite Hex, orb_false_r in H. apply lk_sufficient_spec. exact H.
Qed.

Theorem lock_exceptions_needed : forall e, In e lk_exceptions ->
  exists s, In s lock_sites /\ lk_matches e s = true /\ lk_sufficient (lk_kind s) (lk_effective s) = false.
Proof.
  intros e Hin.
  pose proof lock_exceptions_needed_b as H. unfold lk_exceptions_needed in H.
  rewrite forallb_forall in H. specialize (H e Hin).
  apply existsb_exists in H. destruct H as [s [Hs Hm]].
  apply andb_true_iff in Hm. destruct Hm as [Hm Hn]. apply negb_true_iff in Hn.
  exists s. auto.
Qed.

Theorem lock_fields_covered : forall f, In f lk_required_fields ->
  In f lock_fields /\
  exists s, In s lock_sites /\ lk_field s = f /\ lk_sufficient (lk_kind s) (lk_effective s) = true.
Proof.
  intros f Hin.
  pose proof lock_fields_covered_b as H. rewrite forallb_forall in H. specialize (H f Hin).
  apply andb_true_iff in H. destruct H as [H1 H2].
  assert (Heq : forall a b, lz_eqb a b = true -> a = b).
  { induction a as [|x a IH]; destruct b as [|y b]; cbn; intros E; try discriminate; auto.
    apply andb_true_iff in E. destruct E as [E1 E2]. apply Z.eqb_eq in E1. rewrite (IH b E2), E1. reflexivity. }
  split.
  - apply existsb_exists in H1. destruct H1 as [g [Hg E]]. rewrite (Heq _ _ E). exact Hg.
  - unfold lk_field_covered in H2. apply existsb_exists in H2. destruct H2 as [s [Hs E]].
    apply andb_true_iff in E. destruct E as [E1 E2]. exists s. split; [exact Hs|]. split; [|exact E2].
    symmetry. apply Heq. exact E1.
Qed.

(* ---------------------------------------------------------------- what the discipline buys *)

Definition inside_r (t : lk_thread) : nat := match t with (LkR, true) => 1 | _ => 0 end.
Definition inside_w (t : lk_thread) : nat := match t with (LkW, true) => 1 | _ => 0 end.
Fixpoint n_r (ts : list lk_thread) : nat := match ts with [] => 0 | t :: r => inside_r t + n_r r end.
Fixpoint n_w (ts : list lk_thread) : nat := match ts with [] => 0 | t :: r => inside_w t + n_w r end.

Definition rw_inv (s : rw) (ts : list lk_thread) : Prop :=
  rw_readers s = n_r ts /\ (rw_writer s = true <-> n_w ts = 1) /\ n_w ts <= 1 /\ (n_w ts = 1 -> n_r ts = 0).

Lemma rw_step_counts : forall s ts s' ts', rw_step s ts s' ts' ->
  exists m, (rw_acquire s m = Some s' /\ n_r ts' = n_r ts + inside_r (m, true) /\ n_w ts' = n_w ts + inside_w (m, true)) \/
            (rw_release s m = Some s' /\ n_r ts = n_r ts' + inside_r (m, true) /\ n_w ts = n_w ts' + inside_w (m, true)).
Proof.
  intros s ts s' ts' H. induction H as [s s' m rest Ha | s s' m rest Hr | s s' t rest rest' H IH].
  - exists m. left. split; [exact Ha|]. destruct m; cbn; lia.
  - exists m. right. split; [exact Hr|]. destruct m; cbn; lia.
  - destruct IH as [m [[Ha [Er Ew]] | [Hr [Er Ew]]]]; exists m; [left | right]; (split; [assumption|]); cbn [n_r n_w]; lia.
Qed.

Lemma rw_inv_init : forall ms, rw_inv (mkRw O false) (map (fun m => (m, false)) ms).
Proof.
  intros ms. assert (E : n_r (map (fun m => (m, false)) ms) = 0 /\ n_w (map (fun m => (m, false)) ms) = 0).
  { induction ms as [|m ms IH]; [split; reflexivity|]. destruct IH as [I1 I2]. cbn [map n_r n_w]. rewrite I1, I2. destruct m; cbn; auto. }
  destruct E as [E1 E2]. unfold rw_inv. rewrite E1, E2. cbn. repeat split; try lia; intros H; discriminate.
Qed.

Lemma rw_inv_step : forall s ts s' ts', rw_inv s ts -> rw_step s ts s' ts' -> rw_inv s' ts'.
Proof.
  intros s ts s' ts' [Ir [Iw [I1 I0]]] H.
  destruct (rw_step_counts _ _ _ _ H) as [m [[Ha [Er Ew]] | [Hr [Er Ew]]]].
  - destruct m; cbn in Ha, Er, Ew.
    + inversion Ha; subst s'. unfold rw_inv. rewrite Er, Ew, !Nat.add_0_r. auto.
    + destruct (rw_writer s) eqn:Ws; [discriminate|]. inversion Ha; subst s'. clear Ha.
      assert (Hw0 : n_w ts <> 1) by (intros E; apply Iw in E; discriminate).
      unfold rw_inv. cbn. split; [lia|]. split; [split; [discriminate | intros E; lia]|]. split; lia.
    + destruct (rw_writer s) eqn:Ws; [discriminate|]. destruct (rw_readers s) eqn:Rs; [|discriminate].
      inversion Ha; subst s'. clear Ha.
      assert (Hw0 : n_w ts <> 1) by (intros E; apply Iw in E; discriminate).
      unfold rw_inv. cbn. split; [lia|]. split; [split; intros _; [lia | reflexivity]|]. split; lia.
  - destruct m; cbn in Hr, Er, Ew.
    + inversion Hr; subst s'. unfold rw_inv. assert (n_r ts' = n_r ts) by lia. assert (n_w ts' = n_w ts) by lia.
      rewrite H0, H1. auto.
    + destruct (rw_readers s) eqn:Rs; [discriminate|]. inversion Hr; subst s'. clear Hr.
      unfold rw_inv. cbn. split; [lia|]. assert (E : n_w ts' = n_w ts) by lia. rewrite E.
      split; [exact Iw|]. split; [exact I1|]. intros E1. specialize (I0 E1). lia.
    + destruct (rw_writer s) eqn:Ws; [|discriminate]. inversion Hr; subst s'. clear Hr.
      assert (E1 : n_w ts = 1) by (apply Iw; reflexivity).
      unfold rw_inv. cbn. split; [specialize (I0 E1); lia|].
      split; [split; [discriminate | intros E; lia]|]. split; lia.
Qed.

Lemma rw_reach_inv : forall s ts, rw_reach s ts -> rw_inv s ts.
Proof.
  intros s ts H. induction H as [ms | s ts s' ts' _ IH Hs]; [apply rw_inv_init | eapply rw_inv_step; eauto].
Qed.

Lemma n_ge_nth : forall ts i t, nth_error ts i = Some t -> inside_r t <= n_r ts /\ inside_w t <= n_w ts.
Proof.
  induction ts as [|a ts IH]; intros [|i] t H; cbn in H; try discriminate.
  - inversion H; subst a. cbn [n_r n_w]. lia.
  - destruct (IH i t H) as [H1 H2]. cbn [n_r n_w]. lia.
Qed.

Lemma n_two : forall ts i j t u, i <> j -> nth_error ts i = Some t -> nth_error ts j = Some u ->
  inside_r t + inside_r u <= n_r ts /\ inside_w t + inside_w u <= n_w ts.
Proof.
  induction ts as [|a ts IH]; intros [|i] [|j] t u Hij Hi Hj; cbn in Hi, Hj; try discriminate; try congruence.
  - inversion Hi; subst a. destruct (n_ge_nth _ _ _ Hj) as [H1 H2]. cbn [n_r n_w]. lia.
  - inversion Hj; subst a. destruct (n_ge_nth _ _ _ Hi) as [H1 H2]. cbn [n_r n_w]. lia.
  - assert (Hij' : i <> j) by congruence. destruct (IH i j t u Hij' Hi Hj) as [H1 H2]. cbn [n_r n_w]. lia.
Qed.

(* a thread inside a WRITE section excludes every other thread that took the mutex in any mode *)
Theorem rw_exclusion : forall s ts, rw_reach s ts ->
  forall i j m, i <> j -> nth_error ts i = Some (LkW, true) -> nth_error ts j = Some (m, true) -> m = LkNone.
Proof.
  intros s ts H i j m Hij Hi Hj.
  destruct (rw_reach_inv _ _ H) as [_ [_ [I1 I0]]].
  destruct (n_two _ _ _ _ _ Hij Hi Hj) as [H1 H2].
  destruct m; [reflexivity | |]; cbn in H1, H2.
  - assert (E : n_w ts = 1) by lia. specialize (I0 E). lia.
  - lia.
Qed.

(* ... hence two non-excepted sites of the table of which one is a write are never occupied together *)
Theorem lock_sites_exclusive : forall s1 s2, In s1 lock_sites -> In s2 lock_sites ->
  lk_excepted lk_exceptions s1 = false -> lk_excepted lk_exceptions s2 = false ->
  lk_kind s1 = LkWrite ->
  forall st ts, rw_reach st ts ->
  forall i j, i <> j -> nth_error ts i = Some (lk_effective s1, true) -> nth_error ts j = Some (lk_effective s2, true) -> False.
Proof.
  intros s1 s2 H1 H2 E1 E2 Hw st ts Hr i j Hij Hi Hj.
  destruct (lock_discipline s1 H1 E1) as [W1 _]. rewrite (W1 Hw) in Hi.
  pose proof (rw_exclusion _ _ Hr i j _ Hij Hi Hj) as Hm.
  destruct (lock_discipline s2 H2 E2) as [W2 R2].
  destruct (lk_kind s2); [destruct (R2 eq_refl) as [E | E] | pose proof (W2 eq_refl) as E]; rewrite E in Hm; discriminate.
Qed.

(* non-vacuity of the semantics: a reader and a writer can each get in, one after the other *)
Example rw_example : rw_reach (mkRw 0 true) [(LkR, false); (LkW, true)].
Proof.
  eapply rw_next. eapply rw_next. eapply rw_next. apply (rw_init [LkR; LkW]).
  - cbn. apply rw_enter. reflexivity.
  - apply rw_leave. reflexivity.
  - apply rw_other. apply rw_enter. reflexivity.
Qed.

Example lock_sites_example :
  existsb (fun s => lz_eqb (lk_field s) lkn_exchanges &&
                    lz_eqb (lk_fn s) lkn_handleCancel &&
                    lk_acc_eqb (lk_kind s) LkRead) lock_sites = true /\
  existsb (fun s => lz_eqb (lk_field s) lkn_exchanges &&
                    lz_eqb (lk_fn s) lkn_deleteExchange &&
                    lk_acc_eqb (lk_kind s) LkWrite) lock_sites = true.
Proof. vm_compute. split; reflexivity. Qed.
