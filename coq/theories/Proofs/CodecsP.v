From Coq Require Import ZArith List Bool Lia ZifyBool.
From Verif Require Import Base.Wrap Base.Bytes Base.Wire Model.TypedBuf Model.Messages Model.Codecs
  Spec.Protocol Proofs.CodecP Proofs.FrameP.
Import ListNotations.
Local Open Scope Z_scope.

(* ---------------- thrift application headers ---------------- *)
Definition s_theaders (h : kvs) : list Z :=
  be 2 (slen h) ++ flat_map (fun kv => s_str2 (fst kv) ++ s_str2 (snd kv)) h.

Lemma w_theaders_writes h : kvs16_ok h -> writes (w_theaders h) (s_theaders h).
Proof.
  intros [A B]. unfold w_theaders, s_theaders. apply seq_writes; [apply w_uint_writes|]. apply w_kv16s_writes, B.
Qed.

Lemma theaders_size_spec h : theaders_size h = zlen (s_theaders h).
Proof.
  unfold theaders_size, s_theaders. rewrite zlen_app, zlen_be. f_equal.
  induction h as [|[k v] h IH]; cbn [fold_right flat_map fst snd]; [reflexivity|].
  rewrite IH, !zlen_app. unfold s_str2. rewrite !zlen_app, !zlen_be. lia.
Qed.

Theorem write_theaders_spec h : kvs16_ok h -> write_theaders h = Some (s_theaders h).
Proof.
  intros H. unfold write_theaders. destruct (w_theaders_writes h H) as [W _].
  rewrite W; cbn [werr wroom wb wout app]; [reflexivity|reflexivity|]. rewrite theaders_size_spec. lia.
Qed.

Lemma r_theaders_sticky : rsticky r_theaders.
Proof.
  apply bind_sticky; [apply r_uint_sticky|]. intros n. destruct (n =? 0); [apply ret_sticky|].
  apply bind_sticky; [apply r_kv16s_sticky|intros; apply ret_sticky].
Qed.

Theorem r_theaders_nonempty h : kvs16_ok h -> h <> [] -> consumes r_theaders (s_theaders h) (Some h).
Proof.
  intros [A B] Hne. unfold r_theaders, s_theaders. eapply consumes_bind.
  - apply r_uint_consumes. unfold u_ok. pose proof (zlen_nonneg h). change (256 ^ Z.of_nat 2) with 65536. unfold slen, zlen in *. lia.
  - assert (E : (slen h =? 0) = false).
    { apply Z.eqb_neq. destruct h; [congruence|]. unfold slen. cbn [length]. lia. }
    rewrite E. unfold slen. rewrite Nat2Z.id.
    apply (consumes_bind_ret (r_kv16s (length h)) (fun p => Some p)). apply r_kv16s_consumes, B.
  - intros n. destruct (n =? 0); [apply ret_sticky|]. apply bind_sticky; [apply r_kv16s_sticky|intros; apply ret_sticky].
Qed.

(* a zero count decodes to the nil map and consumes exactly the two count bytes *)
Theorem r_theaders_empty rest : r_theaders (rb (s_theaders [] ++ rest)) = (None, rb rest).
Proof. reflexivity. Qed.

(* ---------------- key/value iterator ---------------- *)
(* What one pair looks like in the buffer *)
Definition s_pair (kv : list Z * list Z) : list Z := s_str2 (fst kv) ++ s_str2 (snd kv).

Lemma kv_next_pair left k v rest : 0 < left -> zlen k <= 65535 -> zlen v <= 65535 ->
  kv_next left (s_pair (k, v) ++ rest) = Some (inr (k, v, left - 1, rest)).
Proof.
  intros Hl Hk Hv. unfold kv_next. replace (left <=? 0) with false by lia.
  destruct (r_len16_consumes k Hk) as [Ck _]. destruct (r_len16_consumes v Hv) as [Cv _].
  unfold r_len16, r_string in Ck, Cv. unfold s_pair. cbn [fst snd]. rewrite <- app_assoc.
  rewrite Ck. rewrite Cv. reflexivity.
Qed.

(* completeness: over an encoding of [h] (followed by anything) the iterator yields
   exactly h, in order, and ends with io.EOF *)
Lemma kv_iter_loop_complete : forall h fuel rest,
  Forall (fun kv => str16_ok (fst kv) /\ str16_ok (snd kv)) h -> (length h < fuel)%nat ->
  kv_iter_loop fuel (zlen h) (flat_map s_pair h ++ rest) = (h, true).
Proof.
  induction h as [|[k v] h IH]; intros fuel rest Hok Hf.
  - destruct fuel; [cbn in Hf; lia|]. reflexivity.
  - destruct fuel; [cbn in Hf; lia|]. inversion Hok as [|? ? [[Hk _] [Hv _]] Hok']; subst.
    cbn [kv_iter_loop flat_map]. rewrite <- app_assoc.
    rewrite kv_next_pair; auto.
    2:{ unfold zlen. cbn [length]. lia. }
    replace (zlen ((k, v) :: h) - 1) with (zlen h) by (unfold zlen; cbn [length]; lia).
    rewrite IH; auto. cbn in Hf. lia.
Qed.

Theorem kv_iter_complete h rest : kvs16_ok h ->
  kv_iter (s_theaders h ++ rest) = (h, true).
Proof.
  intros [A B]. unfold s_theaders. pose proof (zlen_nonneg h) as Hn.
  assert (E : exists a b, be 2 (slen h) = [a; b] /\ unbe [a; b] = zlen h).
  { exists (slen h / 256 mod 256), (slen h mod 256). split; [reflexivity|].
    change [slen h / 256 mod 256; slen h mod 256] with (be 2 (slen h)). apply unbe_be.
    change (256 ^ Z.of_nat 2) with 65536. unfold slen, zlen in *. lia. }
  destruct E as [a [b [E1 E2]]]. rewrite E1. cbn [app kv_iter]. rewrite E2.
  apply kv_iter_loop_complete; auto. unfold zlen. rewrite Nat2Z.id. lia.
Qed.

(* soundness on ARBITRARY buffers: whatever the iterator yields is literally present in
   the buffer, in order, right after the count; it yields at most `count` pairs, exactly
   `count` when it ends with EOF *)
Lemma bytes_ok_firstn n l : bytes_ok l = true -> bytes_ok (firstn n l) = true.
Proof.
  intros H. rewrite <- (firstn_skipn n l) in H. rewrite bytes_ok_app in H. apply andb_true_iff in H. tauto.
Qed.
Lemma bytes_ok_skipn n l : bytes_ok l = true -> bytes_ok (skipn n l) = true.
Proof.
  intros H. rewrite <- (firstn_skipn n l) in H. rewrite bytes_ok_app in H. apply andb_true_iff in H. tauto.
Qed.

Lemma split_len16 rem : bytes_ok rem = true -> (2 <= length rem)%nat ->
  let kl := unbe (firstn 2 rem) in
  (Z.to_nat kl <= length (skipn 2 rem))%nat ->
  let s := firstn (Z.to_nat kl) (skipn 2 rem) in
  rem = s_str2 s ++ skipn (Z.to_nat kl) (skipn 2 rem) /\ zlen s <= 65535.
Proof.
  intros Hb L1 kl L2 s.
  assert (F : length (firstn 2 rem) = 2%nat) by (rewrite firstn_length; lia).
  pose proof (unbe_range (firstn 2 rem) (bytes_ok_firstn 2 rem Hb)) as R. rewrite F in R.
  change (256 ^ Z.of_nat 2) with 65536 in R. fold kl in R.
  assert (Ls : length s = Z.to_nat kl) by (unfold s; rewrite firstn_length; lia).
  assert (Zs : zlen s = kl) by (unfold zlen; rewrite Ls; lia).
  split; [|lia].
  unfold s_str2. unfold slen. fold (zlen s). rewrite Zs.
  pose proof (be_unbe (firstn 2 rem) (bytes_ok_firstn 2 rem Hb)) as E. rewrite F in E. fold kl in E. rewrite E.
  rewrite <- app_assoc. unfold s. rewrite firstn_skipn, firstn_skipn. reflexivity.
Qed.

Lemma kv_next_sound left rem k v left' rem' : bytes_ok rem = true ->
  kv_next left rem = Some (inr (k, v, left', rem')) ->
  rem = s_pair (k, v) ++ rem' /\ left' = left - 1 /\ 0 < left /\ zlen k <= 65535 /\ zlen v <= 65535 /\ bytes_ok rem' = true.
Proof.
  intros Hb. unfold kv_next. destruct (left <=? 0) eqn:El; [discriminate|].
  unfold bindR, r_u16, r_uint, bindR, r_bytes, rb. cbn [rerr rrem].
  destruct (Nat.ltb_spec (length rem) 2) as [L1|L1]; cbn [rerr rrem]; [cbn; discriminate|].
  set (kl := unbe (firstn 2 rem)).
  destruct (Nat.ltb_spec (length (skipn 2 rem)) (Z.to_nat kl)) as [L2|L2]; cbn [rerr rrem]; [cbn; discriminate|].
  set (r2 := skipn (Z.to_nat kl) (skipn 2 rem)).
  destruct (Nat.ltb_spec (length r2) 2) as [L3|L3]; cbn [rerr rrem]; [cbn; discriminate|].
  set (vl := unbe (firstn 2 r2)).
  destruct (Nat.ltb_spec (length (skipn 2 r2)) (Z.to_nat vl)) as [L4|L4]; cbn [rerr rrem]; [discriminate|].
  intros H. inversion H; subst k v left' rem'. clear H.
  destruct (split_len16 rem Hb L1 L2) as [E1 K1]. fold kl in E1, K1. fold r2 in E1.
  assert (Hb2 : bytes_ok r2 = true) by (unfold r2; apply bytes_ok_skipn, bytes_ok_skipn, Hb).
  destruct (split_len16 r2 Hb2 L3 L4) as [E2 K2]. fold vl in E2, K2.
  split; [|split; [reflexivity|split; [lia|split; [exact K1|split; [exact K2|exact (bytes_ok_skipn (Z.to_nat vl) (skipn 2 r2) (bytes_ok_skipn 2 r2 Hb2))]]]]].
  change (rem = s_pair (firstn (Z.to_nat kl) (skipn 2 rem), firstn (Z.to_nat vl) (skipn 2 r2)) ++ skipn (Z.to_nat vl) (skipn 2 r2)).
  unfold s_pair. cbn [fst snd]. rewrite <- app_assoc. rewrite <- E2. exact E1.
Qed.

Lemma kv_iter_loop_sound : forall fuel left rem ps fin, bytes_ok rem = true ->
  kv_iter_loop fuel left rem = (ps, fin) ->
  exists rest, rem = flat_map s_pair ps ++ rest /\
    (ps <> [] -> zlen ps <= left) /\
    Forall (fun kv => zlen (fst kv) <= 65535 /\ zlen (snd kv) <= 65535) ps /\
    (fin = true -> (Z.to_nat left < fuel)%nat -> zlen ps = Z.max left 0).
Proof.
  induction fuel as [|fuel IH]; intros left rem ps fin Hb H; cbn [kv_iter_loop] in H.
  - inversion H; subst. exists rem. repeat split; auto; try congruence. intros; lia.
  - destruct (kv_next left rem) as [[u|[[[k v] left'] rem']]|] eqn:E.
    + inversion H; subst. exists rem. repeat split; auto; congruence.
    + destruct (kv_iter_loop fuel left' rem') as [ps' fin'] eqn:E2. inversion H; subst ps fin. clear H.
      destruct (kv_next_sound _ _ _ _ _ _ Hb E) as [A [B [C [D [D2 Hb']]]]].
      destruct (IH left' rem' ps' fin' Hb' E2) as [rest [R1 [R2 [R3 R4]]]].
      exists rest. split; [|split; [|split]].
      * cbn [flat_map]. rewrite <- app_assoc, <- R1. exact A.
      * intros _. unfold zlen in *. cbn [length]. destruct ps'; [cbn; lia|]. specialize (R2 ltac:(congruence)). cbn [length] in *. lia.
      * constructor; auto.
      * intros F Hf. specialize (R4 F ltac:(lia)). unfold zlen in *. cbn [length]. lia.
    + inversion H; subst. exists rem. repeat split; auto; try congruence.
      intros _ _. unfold kv_next in E. destruct (left <=? 0) eqn:El.
      * unfold zlen. cbn. lia.
      * destruct ((kl <- r_u16;; r_bytes (Z.to_nat kl)) (rb rem)) as [k1 r1].
        destruct ((vl <- r_u16;; r_bytes (Z.to_nat vl)) r1) as [v1 r2]. destruct (rerr r2); discriminate.
Qed.

Theorem kv_iter_sound buf ps fin : bytes_ok buf = true -> kv_iter buf = (ps, fin) ->
  (ps = [] /\ (length buf < 2)%nat) \/
  exists count rest, 0 <= count <= 65535 /\ buf = be 2 count ++ flat_map s_pair ps ++ rest /\
    zlen ps <= count /\ (fin = true -> zlen ps = count).
Proof.
  intros Hb H. destruct buf as [|a [|b rem]]; cbn [kv_iter] in H.
  - inversion H. left. cbn. split; [reflexivity|lia].
  - inversion H. left. cbn. split; [reflexivity|lia].
  - right. set (n := unbe [a; b]) in *.
    assert (Hab : bytes_ok [a; b] = true).
    { unfold bytes_ok in *. cbn [forallb] in *. apply andb_true_iff in Hb as [A Hb]. apply andb_true_iff in Hb as [B _]. rewrite A, B. reflexivity. }
    pose proof (unbe_range [a; b] Hab) as R. cbn [length] in R. change (256 ^ Z.of_nat 2) with 65536 in R. fold n in R.
    assert (Hr : bytes_ok rem = true).
    { unfold bytes_ok in *. cbn [forallb] in Hb. apply andb_true_iff in Hb as [_ Hb]. apply andb_true_iff in Hb as [_ Hb]. exact Hb. }
    destruct (kv_iter_loop_sound _ _ _ _ _ Hr H) as [rest [R1 [R2 [R3 R4]]]].
    exists n, rest. split; [lia|]. split; [|split].
    + pose proof (be_unbe [a; b] Hab) as E. cbn [length] in E. fold n in E. rewrite E. cbn [app]. rewrite R1. reflexivity.
    + destruct ps; [unfold zlen; cbn [length]; lia|]. apply R2. congruence.
    + intros F. rewrite (R4 F ltac:(lia)). lia.
Qed.

(* ---------------- uvarint ---------------- *)
Lemma lor_disjoint acc y s : 0 <= s -> 0 <= acc < 2 ^ s -> 0 <= y -> Z.lor acc (y * 2 ^ s) = acc + y * 2 ^ s.
Proof.
  intros Hs Ha Hy.
  assert (L : Z.land acc (y * 2 ^ s) = 0).
  { apply Z.bits_inj'. intros n Hn. rewrite Z.land_spec, Z.bits_0.
    destruct (Z_lt_le_dec n s) as [A|A].
    - rewrite Z.mul_pow2_bits_low by lia. apply andb_false_r.
    - destruct (Z.eq_dec acc 0) as [->|Hne]; [rewrite Z.bits_0; reflexivity|].
      rewrite (Z.bits_above_log2 acc n); [reflexivity|lia|].
      assert (Z.log2 acc < s) by (apply Z.log2_lt_pow2; lia). lia. }
  rewrite <- Z.lxor_lor by exact L. symmetry. apply Z.add_nocarry_lxor. exact L.
Qed.

Lemma r_u8_byte b rest : 0 <= b < 256 -> r_u8 (rb (b :: rest)) = (b, rb rest).
Proof. intros H. destruct (r_u8_consumes b) as [C _]; [apply u_ok_1; exact H|]. apply (C rest). Qed.

Lemma uvarint_loop_ok : forall n i acc s x rest,
  Z.of_nat n = 10 - i -> 0 <= i -> s = 7 * i -> 0 <= acc < 2 ^ s -> 0 <= x -> x * 2 ^ s + acc < 2 ^ 64 ->
  r_uvarint_loop n i acc s (rb (put_uvarint n x ++ rest)) = (acc + x * 2 ^ s, rb rest).
Proof.
  induction n as [|n IH]; intros i acc s x rest Hn Hi Hs Ha Hx Hb.
  - (* i = 10: s = 70, x * 2^70 < 2^64 forces x = 0 *)
    assert (i = 10) by lia. subst i. subst s. change (7 * 10) with 70 in *. assert (x = 0).
    { destruct (Z.eq_dec x 0); auto. exfalso.
      assert (1 * 2 ^ 70 <= x * 2 ^ 70) by (apply Z.mul_le_mono_nonneg_r; lia).
      change (2 ^ 70) with 1180591620717411303424 in *. change (2 ^ 64) with 18446744073709551616 in *. lia. }
    subst x.
    cbn. f_equal. lia.
  - assert (P : 0 < 2 ^ s) by (apply Z.pow_pos_nonneg; lia).
    cbn [put_uvarint r_uvarint_loop]. destruct (x <? 128) eqn:Ex.
    + cbn [app]. rewrite r_u8_byte by lia. cbn [rerr rb]. rewrite Ex.
      assert (E9 : ((i =? 9) && (x >? 1)) = false).
      { destruct (i =? 9) eqn:E; [|reflexivity]. apply Z.eqb_eq in E. subst i. subst s. change (7 * 9) with 63 in *.
        destruct (x >? 1) eqn:F; [|reflexivity]. change (2 ^ 64) with (2 * 2 ^ 63) in Hb. nia. }
      rewrite E9. rewrite Z.shiftl_mul_pow2 by lia. rewrite wrapU_id; [|lia|split; nia].
      rewrite lor_disjoint by lia. reflexivity.
    + cbn [app]. pose proof (Z.mod_pos_bound x 128 ltac:(lia)) as Hm.
      rewrite r_u8_byte by lia. cbn [rerr rb].
      replace (x mod 128 + 128 <? 128) with false by lia.
      assert (Hl : Z.land (x mod 128 + 128) 127 = x mod 128).
      { change 127 with (Z.ones 7). rewrite Z.land_ones by lia. change (2 ^ 7) with 128.
        rewrite Z.add_mod by lia. rewrite Z.mod_mod by lia. rewrite Z.mod_same by lia. rewrite Z.add_0_r. apply Z.mod_mod. lia. }
      rewrite Hl. rewrite Z.shiftl_mul_pow2 by lia.
      pose proof (Z.div_mod x 128 ltac:(lia)) as Hd.
      assert (Hq : 0 <= x / 128) by (apply Z.div_pos; lia).
      rewrite wrapU_id; [|lia|split; nia].
      rewrite lor_disjoint by lia.
      assert (E2 : 2 ^ (s + 7) = 2 ^ s * 128) by (rewrite Z.pow_add_r by lia; reflexivity).
      rewrite IH.
      * f_equal. rewrite E2. nia.
      * lia.
      * lia.
      * lia.
      * rewrite E2. nia.
      * exact Hq.
      * rewrite E2. nia.
Qed.

Theorem uvarint_roundtrip x rest : 0 <= x < 2 ^ 64 ->
  r_uvarint (rb (put_uvarint 10 x ++ rest)) = (x, rb rest).
Proof.
  intros H. unfold r_uvarint. rewrite (uvarint_loop_ok 10 0 0 0 x rest); try lia; try (cbn; lia).
  f_equal. cbn. lia.
Qed.

(* ---------------- HTTP byte layer ---------------- *)
(* ReadBytes with a Go int never panics: the guard excludes exactly the slice failures *)
Theorem r_bytes_go_total n r : r_bytes_go n r <> None.
Proof.
  unfold r_bytes_go. destruct (rerr r); [discriminate|].
  destruct ((n <? 0) || (zlen (rrem r) <? n)) eqn:G; [discriminate|].
  unfold slice_to. rewrite G. discriminate.
Qed.

Theorem read_http_request_total b : read_http_request b <> None.
Proof.
  unfold read_http_request. destruct (r_len8 (rb b)) as [m r1]. unfold r_varint_string.
  destruct (r_uvarint r1) as [len r2].
  pose proof (r_bytes_go_total (wrapS 64 len) r2) as T.
  destruct (r_bytes_go (wrapS 64 len) r2) as [[u r3]|]; [|congruence].
  destruct (read_http_headers r3). discriminate.
Qed.

Theorem read_http_response_total b : read_http_response b <> None.
Proof.
  unfold read_http_response. destruct (r_u16 (rb b)) as [m r1]. unfold r_varint_string.
  destruct (r_uvarint r1) as [len r2].
  pose proof (r_bytes_go_total (wrapS 64 len) r2) as T.
  destruct (r_bytes_go (wrapS 64 len) r2) as [[u r3]|]; [|congruence].
  destruct (read_http_headers r3). discriminate.
Qed.

Lemma r_bytes_go_ok s rest : r_bytes_go (zlen s) (rb (s ++ rest)) = Some (s, rb rest).
Proof.
  unfold r_bytes_go, rb. cbn [rerr rrem]. pose proof (zlen_nonneg s). pose proof (zlen_nonneg rest).
  replace ((zlen s <? 0) || (zlen (s ++ rest) <? zlen s)) with false by (rewrite zlen_app; lia).
  unfold slice_to. replace ((zlen s <? 0) || (zlen (s ++ rest) <? zlen s)) with false by (rewrite zlen_app; lia).
  unfold zlen. rewrite Nat2Z.id, firstn_app, Nat.sub_diag, firstn_all, skipn_app, Nat.sub_diag, skipn_all. cbn. rewrite app_nil_r. reflexivity.
Qed.

Lemma r_varint_string_ok s rest : zlen s < 2 ^ 62 ->
  r_varint_string (rb (put_uvarint 10 (zlen s) ++ s ++ rest)) = Some (s, rb rest).
Proof.
  intros H. unfold r_varint_string. pose proof (zlen_nonneg s).
  rewrite uvarint_roundtrip by (change (2 ^ 64) with (4 * 2 ^ 62); lia).
  rewrite wrapS_id by (change (2 ^ (64 - 1)) with (2 * 2 ^ 62); lia). apply r_bytes_go_ok.
Qed.

Definition s_http_headers (h : hdrs) : list Z :=
  be 2 (zlen (flat_hdrs h)) ++ flat_map (fun kv => s_str2 (fst kv) ++ s_str2 (snd kv)) (flat_hdrs h).

Lemma w_http_headers_ok h w : kvs16_ok (flat_hdrs h) -> werr w = 0 ->
  zlen (s_http_headers h) <= wroom w ->
  w_http_headers h w = mkW (wout w ++ s_http_headers h) (wroom w - zlen (s_http_headers h)) 0.
Proof.
  intros [A B] Hw Hr. unfold w_http_headers, s_http_headers in *.
  set (P := flat_map (fun kv : list Z * list Z => s_str2 (fst kv) ++ s_str2 (snd kv)) (flat_hdrs h)) in *.
  rewrite zlen_app, zlen_be in Hr. change (Z.of_nat 2) with 2 in Hr.
  pose proof (zlen_nonneg (flat_hdrs h)). pose proof (zlen_nonneg P).
  assert (Z2 : zlen [0; 0] = 2) by reflexivity.
  destruct (w_bytes_writes [0; 0]) as [W1 _]. rewrite (W1 w Hw) by lia.
  destruct (w_kv16s_writes _ B) as [W2 _]. fold P in W2. rewrite W2; cbn [werr wroom wout]; [|reflexivity|lia].
  rewrite Hw. cbn [Z.eqb andb]. rewrite wrapU_id by (change (2 ^ 16) with 65536; lia).
  f_equal.
  - rewrite <- !app_assoc. rewrite firstn_app, Nat.sub_diag, firstn_all. cbn [firstn]. rewrite app_nil_r.
    rewrite skipn_app. replace (length (wout w) + 2 - length (wout w))%nat with 2%nat by lia.
    rewrite skipn_all2 by lia. cbn [skipn app]. reflexivity.
  - rewrite zlen_app, zlen_be. change (Z.of_nat 2) with 2. lia.
Qed.

Lemma read_http_headers_ok h rest : kvs16_ok (flat_hdrs h) ->
  read_http_headers (rb (s_http_headers h ++ rest)) = (flat_hdrs h, rb rest).
Proof.
  intros [A B]. unfold read_http_headers, s_http_headers. pose proof (zlen_nonneg (flat_hdrs h)).
  assert (C : consumes (n <- r_u16;; r_kv16s (Z.to_nat n))
                (be 2 (zlen (flat_hdrs h)) ++ flat_map (fun kv => s_str2 (fst kv) ++ s_str2 (snd kv)) (flat_hdrs h)) (flat_hdrs h)).
  { eapply consumes_bind.
    - apply r_uint_consumes. unfold u_ok. change (256 ^ Z.of_nat 2) with 65536. lia.
    - unfold zlen. rewrite Nat2Z.id. apply r_kv16s_consumes, B.
    - intros; apply r_kv16s_sticky. }
  destruct C as [C _]. apply C.
Qed.

(* request: method~1 url~varint headers; response: status:2 message~varint headers *)
Definition s_http_request (method url : list Z) (h : hdrs) : list Z :=
  s_str1 method ++ (put_uvarint 10 (zlen url) ++ url) ++ s_http_headers h.
Definition s_http_response (status : Z) (msg : list Z) (h : hdrs) : list Z :=
  be 2 status ++ (put_uvarint 10 (zlen msg) ++ msg) ++ s_http_headers h.

Theorem http_request_roundtrip method url h :
  zlen method <= 255 -> kvs16_ok (flat_hdrs h) -> zlen (s_http_request method url h) <= http_buf_size ->
  write_http_request method url h = (s_http_request method url h, 0) /\
  read_http_request (s_http_request method url h) = Some (method, url, flat_hdrs h, false).
Proof.
  intros Hm Hh Hs. split.
  - unfold write_http_request, s_http_request in *. unfold seqW.
    destruct (w_len8_writes method Hm) as [W1 _].
    rewrite !zlen_app in Hs. pose proof (zlen_nonneg (s_http_headers h)). pose proof (zlen_nonneg url).
    pose proof (zlen_nonneg (put_uvarint 10 (zlen url))). pose proof (zlen_nonneg (s_str1 method)).
    rewrite W1; cbn [werr wroom wb wout app]; [|reflexivity|lia].
    unfold w_varint_string, seqW.
    destruct (w_bytes_writes (put_uvarint 10 (zlen url))) as [W2 _]. rewrite W2; cbn [werr wroom wout]; [|reflexivity|lia].
    destruct (w_bytes_writes url) as [W3 _]. rewrite W3; cbn [werr wroom wout]; [|reflexivity|lia].
    rewrite w_http_headers_ok; cbn [werr wroom wout]; [|exact Hh|reflexivity|lia].
    rewrite <- !app_assoc. reflexivity.
  - unfold read_http_request, s_http_request. destruct (r_len8_consumes method Hm) as [C _].
    rewrite <- !app_assoc. rewrite C. rewrite r_varint_string_ok.
    + rewrite <- (app_nil_r (s_http_headers h)). rewrite read_http_headers_ok by exact Hh. reflexivity.
    + unfold http_buf_size, s_http_request in Hs. rewrite !zlen_app in Hs. pose proof (zlen_nonneg (s_http_headers h)).
      pose proof (zlen_nonneg (put_uvarint 10 (zlen url))). pose proof (zlen_nonneg (s_str1 method)).
      change (2 ^ 62) with 4611686018427387904. lia.
Qed.

Theorem http_response_roundtrip status msg h :
  0 <= status < 65536 -> kvs16_ok (flat_hdrs h) -> zlen (s_http_response status msg h) <= http_buf_size ->
  write_http_response status msg h = (s_http_response status msg h, 0) /\
  read_http_response (s_http_response status msg h) = Some (status, msg, flat_hdrs h, false).
Proof.
  intros Hm Hh Hs. split.
  - unfold write_http_response, s_http_response in *. unfold seqW.
    destruct (w_uint_writes 2 status) as [W1 _].
    rewrite !zlen_app in Hs. pose proof (zlen_nonneg (s_http_headers h)). pose proof (zlen_nonneg msg).
    pose proof (zlen_nonneg (put_uvarint 10 (zlen msg))). rewrite zlen_be in Hs.
    unfold w_u16. rewrite W1; cbn [werr wroom wb wout app]; [|reflexivity|rewrite zlen_be; lia].
    unfold w_varint_string, seqW. rewrite zlen_be.
    destruct (w_bytes_writes (put_uvarint 10 (zlen msg))) as [W2 _]. rewrite W2; cbn [werr wroom wout]; [|reflexivity|lia].
    destruct (w_bytes_writes msg) as [W3 _]. rewrite W3; cbn [werr wroom wout]; [|reflexivity|lia].
    rewrite w_http_headers_ok; cbn [werr wroom wout]; [|exact Hh|reflexivity|lia].
    rewrite <- !app_assoc. reflexivity.
  - unfold read_http_response, s_http_response.
    destruct (r_uint_consumes 2 status) as [C _]; [unfold u_ok; change (256 ^ Z.of_nat 2) with 65536; lia|].
    rewrite <- !app_assoc. unfold r_u16. rewrite C. rewrite r_varint_string_ok.
    + rewrite <- (app_nil_r (s_http_headers h)). rewrite read_http_headers_ok by exact Hh. reflexivity.
    + unfold http_buf_size, s_http_response in Hs. rewrite !zlen_app in Hs. pose proof (zlen_nonneg (s_http_headers h)).
      pose proof (zlen_nonneg (put_uvarint 10 (zlen msg))). rewrite zlen_be in Hs.
      change (2 ^ 62) with 4611686018427387904. lia.
Qed.
