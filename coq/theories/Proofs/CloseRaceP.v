(* The closerace entry point (Model/CloseRace.v): on the whole domain of the engine the model's
   observable EQUALS the specification written from the property statement, and the entry point
   only visits reachable states of the connection system (the states the C07 theorems are about).
   This file depends on Gen/GenConsts.v only (not on Gen/GenClose.v): it still builds when a
   statement tie of the close decisions is broken, so that the driver can report a disagreement
   between the implementation and run_closerace as a concrete failing input. *)
From Coq Require Import ZArith List Bool Lia.
From Verif Require Import Base.Wrap Base.Wire Gen.GenConsts Model.CloseKernel Model.ConnClose Model.CloseRace
  Proofs.CloseKernelP Proofs.ConnCloseP Proofs.ConnCloseXP.
Import ListNotations.
Local Open Scope Z_scope.

(* the numbers the specification uses are the protocol's *)
Lemma race_spec_numbers : sA = 1 /\ sCl = 4 /\ eDeclined = 4.
Proof. repeat split; reflexivity. Qed.

(* ---------- finite enumeration of integer ranges ---------- *)
Definition zrange (lo : Z) (n : nat) : list Z := map (fun i => lo + Z.of_nat i) (seq 0 n).

Lemma zrange_in : forall lo n x, lo <= x < lo + Z.of_nat n -> In x (zrange lo n).
Proof.
  intros lo n x H. unfold zrange. apply in_map_iff. exists (Z.to_nat (x - lo)). split; [lia|].
  apply in_seq. lia.
Qed.

(* ---------- model = specification ---------- *)
Definition race_agree (kind k code pos : Z) : bool :=
  if list_eq_dec Z.eq_dec (run_closerace [kind; k; code; pos]) (spec_closerace kind k code) then true else false.

Lemma race_agree_eq : forall kind k code pos, race_agree kind k code pos = true ->
  run_closerace [kind; k; code; pos] = spec_closerace kind k code.
Proof. intros kind k code pos H. unfold race_agree in H. destruct (list_eq_dec _ _ _); [assumption|discriminate]. Qed.

Lemma run_closerace_tail : forall kind k code pos rest,
  run_closerace (kind :: k :: code :: pos :: rest) = run_closerace [kind; k; code; pos].
Proof. reflexivity. Qed.

(* kinds other than 2 do not look at code and pos *)
Lemma race_state_nocode : forall kind k code pos, kind <> 2 -> race_state kind k code pos = race_state kind k 0 0.
Proof.
  intros kind k code pos H. unfold race_state. apply Z.eqb_neq in H. rewrite H. reflexivity.
Qed.

Lemma race_spec_nocode : forall kind k code, kind <> 2 -> spec_closerace kind k code = spec_closerace kind k 0.
Proof.
  intros kind k code H. unfold spec_closerace. apply Z.eqb_neq in H. rewrite H. reflexivity.
Qed.

Lemma race_other_kinds :
  forallb (fun kind => forallb (fun k => race_agree kind k 0 0) (zrange 0 4)) [0; 1; 3; 4; 5; 6; 7; 8; 9] = true.
Proof. vm_compute. reflexivity. Qed.

Lemma race_kind2 :
  forallb (fun k => forallb (fun pos => forallb (fun code => race_agree 2 k code pos) (zrange 0 256))
                            (zrange 0 (S (Z.to_nat k)))) (zrange 0 4) = true.
Proof. vm_compute. reflexivity. Qed.

(* MODEL = SPECIFICATION on the domain of the engine: every scenario kind, 0..3 other calls in
   flight, every one-byte error code, every position of the target in the completion order. *)
Theorem closerace_spec : forall kind k code pos rest,
  0 <= kind <= 9 -> 0 <= k <= 3 -> 0 <= code <= 255 -> 0 <= pos <= k ->
  run_closerace (kind :: k :: code :: pos :: rest) = spec_closerace kind k code.
Proof.
  intros kind k code pos rest Hkind Hk Hcode Hpos. rewrite run_closerace_tail.
  assert (Ik : In k (zrange 0 4)) by (apply zrange_in; lia).
  destruct (Z.eq_dec kind 2) as [E|E].
  - subst kind. apply race_agree_eq.
    pose proof race_kind2 as H. rewrite forallb_forall in H. specialize (H k Ik).
    rewrite forallb_forall in H. specialize (H pos ltac:(apply zrange_in; lia)).
    rewrite forallb_forall in H. apply H. apply zrange_in. lia.
  - assert (Ikind : In kind [0; 1; 3; 4; 5; 6; 7; 8; 9]) by (cbn; lia).
    pose proof race_other_kinds as H. rewrite forallb_forall in H. specialize (H kind Ikind).
    rewrite forallb_forall in H. specialize (H k Ik). apply race_agree_eq in H.
    unfold run_closerace in *. rewrite (race_state_nocode kind k code pos E), (race_spec_nocode kind k code E). exact H.
Qed.

(* ---------- the entry point stays inside the reachable states ---------- *)
Lemma race_op_reach : forall relay s k m, Reach step (init relay) s -> Reach step (init relay) (race_op s k m).
Proof.
  intros relay s k m Hr. unfold race_op. destruct (step s (LSpawn k)) as [s1|] eqn:E; [|exact Hr].
  apply run_to_reach. eapply reach_step; eauto.
Qed.

Lemma race_fold_reach : forall relay (f : sys -> Z -> sys) ids s,
  (forall s id, Reach step (init relay) s -> Reach step (init relay) (f s id)) ->
  Reach step (init relay) s -> Reach step (init relay) (fold_left f ids s).
Proof.
  intros relay f ids. induction ids as [|id ids IH]; intros s Hf Hr; cbn [fold_left]; [exact Hr|].
  apply IH; [exact Hf|apply Hf; exact Hr].
Qed.

Lemma race_finish_reach : forall relay s id code, Reach step (init relay) s -> Reach step (init relay) (race_finish s id code).
Proof.
  intros relay s id code Hr. unfold race_finish. apply race_op_reach. destruct (code =? 0); apply race_op_reach; exact Hr.
Qed.

Theorem closerace_reachable : forall kind k code pos, Reach step (init false) (race_state kind k code pos).
Proof.
  intros kind k code pos.
  assert (H0 : Reach step (init false) (init false)) by (exists []; reflexivity).
  assert (Hd : forall s ids, Reach step (init false) s -> Reach step (init false) (race_dispatch s ids)).
  { intros s ids Hr. unfold race_dispatch. apply race_fold_reach; [|exact Hr]. intros; apply race_op_reach; assumption. }
  assert (Hf : forall s ids, Reach step (init false) s -> Reach step (init false) (race_finish_all s ids)).
  { intros s ids Hr. unfold race_finish_all. apply race_fold_reach; [|exact Hr]. intros; apply race_finish_reach; assumption. }
  unfold race_state.
  destruct ((kind =? 0) || (kind =? 1)).
  - apply Hf. unfold race_resume. apply run_to_reach. apply race_op_reach. apply race_op_reach. apply Hd. exact H0.
  - destruct (kind =? 2).
    + apply race_fold_reach; [intros; apply race_finish_reach; assumption|].
      apply race_op_reach. apply Hd. exact H0.
    + destruct (kind =? 3).
      * apply Hf. apply race_op_reach. apply race_op_reach. apply Hd. exact H0.
      * destruct (kind =? 4).
        -- repeat apply race_op_reach. exact H0.
        -- destruct ((kind =? 6) || (kind =? 8)).
           ++ apply race_fold_reach; [intros; apply race_op_reach; assumption|].
              unfold race_resume. apply run_to_reach. apply race_op_reach. apply race_op_reach.
              apply race_fold_reach; [intros; apply race_op_reach; assumption|exact H0].
           ++ destruct ((kind =? 7) || (kind =? 9)).
              ** apply Hf. unfold race_resume. apply run_to_reach. apply race_op_reach. apply race_op_reach. apply Hd. exact H0.
              ** apply Hf. apply race_op_reach. apply Hd. exact H0.
Qed.
