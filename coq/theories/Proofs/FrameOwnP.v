(* Proofs for property C12 over Model/FrameOwn.v.

   Method: the ghost owner of a token is read off the history ([own_of]); the invariant
   [Inv] says that every reference the concrete state keeps (queue membership, fragment
   pointers of readers, the fragment of a writer) agrees with the ghost owner.  Since the
   owner is a function, references are exclusive, and a release or access through a
   reference finds the token live.  Each step of the model is a short composition of
   primitives; each primitive has a preservation lemma. *)
From Coq Require Import ZArith List Bool Lia.
From Verif Require Import Base.Wrap Base.Wire Gen.GenConsts Spec.FrameOwnSpec Model.FrameOwn.
Import ListNotations.
Local Open Scope Z_scope.

(* ------------------------------------------------------------------ histories *)

Fixpoint own_of (tr : list ev) (t : Z) : place :=
  match tr with
  | [] => PFree
  | EGet _ t' p :: r => if t =? t' then p else own_of r t
  | EMov t' p :: r => if t =? t' then p else own_of r t
  | EAcc _ :: r => own_of r t
  | ERel _ t' :: r => if t =? t' then PReleased else own_of r t
  end.

Definition live (p : place) : Prop := p <> PFree /\ p <> PReleased.

Definition transient (p : place) : Prop :=
  match p with PReader _ | PWriter _ | PLocal _ => True | _ => False end.

Lemma transient_live p : transient p -> live p.
Proof. destruct p; cbn; intros H; try contradiction; split; discriminate. Qed.

Definition ev_wf (e : ev) : Prop :=
  match e with EGet _ _ p | EMov _ p => live p | _ => True end.

(* well-formed history, newest event first *)
Fixpoint tr_ok (tr : list ev) : Prop :=
  match tr with
  | [] => True
  | e :: r => tr_ok r /\
      match e with
      | EGet _ t _ => ~ In t (toks r)
      | _ => In (ev_tok e) (gets r) /\ ~ In (ev_tok e) (rels r)
      end
  end.

Lemma gets_toks tr t : In t (gets tr) -> In t (toks tr).
Proof.
  induction tr as [|e r IH]; cbn; [tauto|]. intros H. apply in_app_or in H as [H|H].
  - destruct e; cbn in H; try contradiction. destruct H as [H|[]]. left. exact H.
  - right. apply IH. exact H.
Qed.

Lemma rels_toks tr t : In t (rels tr) -> In t (toks tr).
Proof.
  induction tr as [|e r IH]; cbn; [tauto|]. intros H. apply in_app_or in H as [H|H].
  - destruct e; cbn in H; try contradiction. destruct H as [H|[]]. left. exact H.
  - right. apply IH. exact H.
Qed.

Lemma own_free tr t : ~ In t (toks tr) -> own_of tr t = PFree.
Proof.
  induction tr as [|e r IH]; cbn; [reflexivity|]. intros H.
  assert (H1 : ev_tok e <> t) by tauto. assert (H2 : ~ In t (toks r)) by tauto.
  destruct e; cbn in H1; try destruct (Z.eqb_spec t t0); try congruence; auto.
Qed.

(* In a well-formed history every token that occurs was obtained first. *)
Lemma toks_gets tr t : tr_ok tr -> In t (toks tr) -> In t (gets tr).
Proof.
  induction tr as [|e r IH]; cbn; [tauto|]. intros [Ok He] H.
  destruct e as [s t' p|t' p|t'|s t']; cbn in *.
  - destruct H as [H|H]; [left; exact H|right; apply IH; assumption].
  - destruct H as [H|H]; [subst; apply He|apply IH; assumption].
  - destruct H as [H|H]; [subst; apply He|apply IH; assumption].
  - destruct H as [H|H]; [subst; apply He|apply IH; assumption].
Qed.

Lemma own_live_in tr t : own_of tr t <> PFree -> In t (toks tr).
Proof.
  intros H. destruct (in_dec Z.eq_dec t (toks tr)) as [i|n]; [exact i|].
  exfalso. apply H. apply own_free. exact n.
Qed.

Lemma own_released tr t : Forall ev_wf tr -> own_of tr t = PReleased -> In t (rels tr).
Proof.
  induction tr as [|e r IH]; cbn; [discriminate|]. intros W H. inversion W as [|? ? We Wr]; subst.
  destruct e as [s t' p|t' p|t'|s t']; cbn in *.
  - destruct (Z.eqb_spec t t'); [exfalso; apply We; exact H|auto].
  - destruct (Z.eqb_spec t t'); [exfalso; apply We; exact H|auto].
  - auto.
  - destruct (Z.eqb_spec t t'); [left; congruence|right; auto].
Qed.

Lemma rels_released tr t : tr_ok tr -> In t (rels tr) -> own_of tr t = PReleased.
Proof.
  induction tr as [|e r IH]; cbn; [tauto|]. intros [Ok He] H.
  destruct e as [s t' p|t' p|t'|s t']; cbn in *.
  - destruct (Z.eqb_spec t t'); [subst; exfalso; apply He; apply rels_toks; exact H|auto].
  - destruct (Z.eqb_spec t t'); [subst; exfalso; apply He; exact H|auto].
  - auto.
  - destruct (Z.eqb_spec t t'); [reflexivity|]. destruct H as [H|H]; [congruence|auto].
Qed.

(* trace part of the invariant *)
Record TInv (tr : list ev) (next : Z) : Prop := {
  t_next : 0 <= next;
  t_toks : forall t, In t (toks tr) -> 0 <= t < next;
  t_wf : Forall ev_wf tr;
  t_ok : tr_ok tr
}.

Lemma tinv_live_ok tr next t : TInv tr next -> live (own_of tr t) ->
  In t (gets tr) /\ ~ In t (rels tr).
Proof.
  intros T [L1 L2]. split.
  - apply toks_gets; [apply T|]. apply own_live_in. exact L1.
  - intros H. apply L2. apply rels_released; [apply T|exact H].
Qed.

Lemma tinv_get tr next site p : TInv tr next -> live p -> TInv (EGet site next p :: tr) (next + 1).
Proof.
  intros T L. constructor.
  - pose proof (t_next _ _ T). lia.
  - cbn. intros t [H|H]; [pose proof (t_next _ _ T); lia|]. pose proof (t_toks _ _ T t H). lia.
  - constructor; [exact L|apply T].
  - cbn. split; [apply T|]. intros H. pose proof (t_toks _ _ T _ H). lia.
Qed.

Lemma tinv_mov tr next t p : TInv tr next -> live (own_of tr t) -> live p -> TInv (EMov t p :: tr) next.
Proof.
  intros T L Lp. pose proof (tinv_live_ok _ _ _ T L) as [G R]. constructor.
  - apply T.
  - cbn. intros t' [H|H]; [subst; apply (t_toks _ _ T); apply gets_toks; exact G|apply T; exact H].
  - constructor; [exact Lp|apply T].
  - cbn. split; [apply T|]. split; assumption.
Qed.

Lemma tinv_acc tr next t : TInv tr next -> live (own_of tr t) -> TInv (EAcc t :: tr) next.
Proof.
  intros T L. pose proof (tinv_live_ok _ _ _ T L) as [G R]. constructor.
  - apply T.
  - cbn. intros t' [H|H]; [subst; apply (t_toks _ _ T); apply gets_toks; exact G|apply T; exact H].
  - constructor; [exact I|apply T].
  - cbn. split; [apply T|]. split; assumption.
Qed.

Lemma tinv_rel tr next s t : TInv tr next -> live (own_of tr t) -> TInv (ERel s t :: tr) next.
Proof.
  intros T L. pose proof (tinv_live_ok _ _ _ T L) as [G R]. constructor.
  - apply T.
  - cbn. intros t' [H|H]; [subst; apply (t_toks _ _ T); apply gets_toks; exact G|apply T; exact H].
  - constructor; [exact I|apply T].
  - cbn. split; [apply T|]. split; assumption.
Qed.

Lemma tinv_fresh tr next t : TInv tr next -> next <= t -> own_of tr t = PFree.
Proof.
  intros T H. apply own_free. intros H1. pose proof (t_toks _ _ T _ H1). lia.
Qed.

(* ------------------------------------------------------------------ the invariant *)

Definition O (s : st) (t : Z) : place := own_of (s_trace s) t.

(* every reference the state keeps agrees with the ghost owner *)
Record SInv (s : st) : Prop := {
  i_q : forall k t, In t (x_q (s_mex s k)) -> O s t = PMex k;
  i_qnd : forall k, NoDup (x_q (s_mex s k));
  i_send : forall c t, In t (s_send s c) -> O s t = PSend c;
  i_sendnd : forall c, NoDup (s_send s c);
  i_init : forall k t, r_init (s_rdr s k) = Some t ->
             O s t = PFrag k /\ s_fdone s t = false /\ r_prev (s_rdr s k) = None /\ r_cur (s_rdr s k) = None;
  i_prev : forall k t, r_prev (s_rdr s k) = Some t -> s_fdone s t = true \/ O s t = PFrag k;
  i_cur : forall k t, r_cur (s_rdr s k) = Some t -> s_fdone s t = true \/ O s t = PFrag k;
  i_done : forall t, s_fdone s t = true -> O s t = PReleased;
  i_w : forall k t, w_cur (s_wr s k) = Some t -> w_sent (s_wr s k) = false -> O s t = PWFrag k;
  i_live : forall k t, r_err (s_rdr s k) = false -> r_complete (s_rdr s k) = false -> r_quit (s_rdr s k) = false ->
             r_cur (s_rdr s k) = Some t -> s_fdone s t = false
}.

Definition Inv (s : st) : Prop := TInv (s_trace s) (s_next s) /\ SInv s.

(* no reference of the state claims t *)
Record unref (s : st) (t : Z) : Prop := {
  u_q : forall k, ~ In t (x_q (s_mex s k));
  u_send : forall c, ~ In t (s_send s c);
  u_init : forall k, r_init (s_rdr s k) <> Some t;
  u_prev : forall k, r_prev (s_rdr s k) = Some t -> s_fdone s t = true;
  u_cur : forall k, r_cur (s_rdr s k) = Some t -> s_fdone s t = true;
  u_w : forall k, w_cur (s_wr s k) = Some t -> w_sent (s_wr s k) = true
}.

Lemma transient_unref s t : SInv s -> transient (O s t) -> unref s t.
Proof.
  intros S T. constructor.
  - intros k H. rewrite (i_q _ S _ _ H) in T. exact T.
  - intros c H. rewrite (i_send _ S _ _ H) in T. exact T.
  - intros k H. destruct (i_init _ S _ _ H) as [E _]. rewrite E in T. exact T.
  - intros k H. destruct (i_prev _ S _ _ H) as [E|E]; [exact E|]. rewrite E in T. contradiction.
  - intros k H. destruct (i_cur _ S _ _ H) as [E|E]; [exact E|]. rewrite E in T. contradiction.
  - intros k H. destruct (w_sent (s_wr s k)) eqn:E; [reflexivity|].
    rewrite (i_w _ S _ _ H E) in T. contradiction.
Qed.

Lemma init_inv cap : Inv (init cap).
Proof.
  split.
  - constructor; cbn; try tauto; try lia. constructor.
  - constructor; cbn; intros; try contradiction; try discriminate; try constructor.
Qed.

Ltac zeq := repeat match goal with
  | |- context [?a =? ?b] => destruct (Z.eqb_spec a b); subst
  | H : context [?a =? ?b] |- _ => destruct (Z.eqb_spec a b); subst
  end.

Ltac sinv S := first
  [ eapply (i_q _ S); eassumption | apply (i_qnd _ S) | eapply (i_send _ S); eassumption | apply (i_sendnd _ S)
  | eapply (i_init _ S); eassumption | eapply (i_prev _ S); eassumption | eapply (i_cur _ S); eassumption
  | eapply (i_done _ S); eassumption | eapply (i_w _ S); eassumption | eapply (i_live _ S); eassumption ].

(* ---- primitives that only touch the history ---- *)

Lemma inv_get site p s : transient p -> Inv s ->
  Inv (p_get site p s) /\ O (p_get site p s) (s_next s) = p.
Proof.
  intros Tp [T S]. pose proof (tinv_fresh _ _ (s_next s) T (Z.le_refl _)) as Fr.
  assert (NF : forall t, O s t <> PFree -> t <> s_next s) by (intros t H E; subst; apply H; exact Fr).
  split; [split|].
  - cbn. apply tinv_get; [exact T|apply transient_live; exact Tp].
  - constructor; unfold O; cbn; intros.
    + zeq; [exfalso; eapply NF; [|reflexivity]; fold (O s (s_next s)); rewrite (i_q _ S _ _ H); discriminate|apply S; assumption].
    + apply S.
    + zeq; [exfalso; eapply NF; [|reflexivity]; fold (O s (s_next s)); rewrite (i_send _ S _ _ H); discriminate|apply S; assumption].
    + apply S.
    + destruct (i_init _ S _ _ H) as (E & R). zeq; [exfalso; eapply NF; [|reflexivity]; fold (O s (s_next s)); rewrite E; discriminate|].
      split; [exact E|exact R].
    + destruct (i_prev _ S _ _ H) as [E|E]; [left; exact E|right]. zeq; [exfalso; eapply NF; [|reflexivity]; fold (O s (s_next s)); rewrite E; discriminate|exact E].
    + destruct (i_cur _ S _ _ H) as [E|E]; [left; exact E|right]. zeq; [exfalso; eapply NF; [|reflexivity]; fold (O s (s_next s)); rewrite E; discriminate|exact E].
    + pose proof (i_done _ S _ H) as E. zeq; [exfalso; eapply NF; [|reflexivity]; fold (O s (s_next s)); rewrite E; discriminate|exact E].
    + pose proof (i_w _ S _ _ H H0) as E. zeq; [exfalso; eapply NF; [|reflexivity]; fold (O s (s_next s)); rewrite E; discriminate|exact E].
    + eapply (i_live _ S); eassumption.
  - unfold O. cbn. rewrite Z.eqb_refl. reflexivity.
Qed.

Lemma O_acc t s t' : O (p_acc t s) t' = O s t'.
Proof. reflexivity. Qed.

Lemma inv_acc t s : Inv s -> live (O s t) -> Inv (p_acc t s).
Proof.
  intros [T S] L. split.
  - cbn. apply tinv_acc; assumption.
  - destruct S. constructor; unfold O in *; cbn; assumption.
Qed.

(* release of a token nothing refers to *)
Lemma inv_rel site t s : Inv s -> live (O s t) -> unref s t -> Inv (p_rel site t s).
Proof.
  intros [T S] L U. split.
  - cbn. apply tinv_rel; assumption.
  - constructor; unfold O; cbn; intros.
    + zeq; [exfalso; eapply (u_q _ _ U); eassumption|apply S; assumption].
    + apply S.
    + zeq; [exfalso; eapply (u_send _ _ U); eassumption|apply S; assumption].
    + apply S.
    + zeq; [exfalso; eapply (u_init _ _ U); eassumption|apply S; assumption].
    + zeq; [left; eapply (u_prev _ _ U); eassumption|apply (i_prev _ S); assumption].
    + zeq; [left; eapply (u_cur _ _ U); eassumption|apply (i_cur _ S); assumption].
    + zeq; [reflexivity|apply S; assumption].
    + zeq; [rewrite (u_w _ _ U _ H) in H0; discriminate|apply S; assumption].
    + eapply (i_live _ S); eassumption.
Qed.

Lemma O_rel_other site t s t' : t' <> t -> O (p_rel site t s) t' = O s t'.
Proof. intros H. unfold O. cbn. destruct (Z.eqb_spec t' t); [contradiction|reflexivity]. Qed.

(* ---- queues ---- *)

Lemma NoDup_snoc (l : list Z) x : NoDup l -> ~ In x l -> NoDup (l ++ [x]).
Proof.
  induction l as [|y l IH]; cbn; intros N H; [repeat constructor; simpl; tauto|].
  inversion N; subst. constructor; [|apply IH; tauto].
  intros H1. apply in_app_or in H1 as [H1|[H1|[]]]; [contradiction|subst; tauto].
Qed.

Lemma live_not_done s t : SInv s -> live (O s t) -> s_fdone s t = false.
Proof.
  intros S [_ L]. destruct (s_fdone s t) eqn:E; [|reflexivity]. exfalso. apply L. apply S. exact E.
Qed.

Lemma inv_push_mex k t s : Inv s -> live (O s t) -> unref s t -> Inv (push_mex k t s).
Proof.
  intros [T S] L U. pose proof (live_not_done _ _ S L) as ND. split.
  - cbn. apply tinv_mov; [exact T|exact L|split; discriminate].
  - constructor; unfold O; cbn; unfold fupd; intros.
    + destruct (Z.eqb_spec k0 k); subst.
      * cbn in H. apply in_app_or in H as [H|[H|[]]]; zeq; try reflexivity; try congruence.
        apply S. exact H.
      * zeq; [exfalso; eapply (u_q _ _ U); eassumption|apply S; assumption].
    + destruct (Z.eqb_spec k0 k); subst; [|apply S]. cbn.
      apply NoDup_snoc; [apply S|apply (u_q _ _ U)].
    + zeq; [exfalso; eapply (u_send _ _ U); eassumption|apply S; assumption].
    + apply S.
    + zeq; [exfalso; eapply (u_init _ _ U); eassumption|apply S; assumption].
    + zeq; [left; eapply (u_prev _ _ U); eassumption|apply (i_prev _ S); assumption].
    + zeq; [left; eapply (u_cur _ _ U); eassumption|apply (i_cur _ S); assumption].
    + zeq; [congruence|apply S; assumption].
    + zeq; [rewrite (u_w _ _ U _ H) in H0; discriminate|apply S; assumption].
    + eapply (i_live _ S); eassumption.
Qed.

Lemma inv_push_send c t s : Inv s -> live (O s t) -> unref s t -> Inv (push_send c t s).
Proof.
  intros [T S] L U. pose proof (live_not_done _ _ S L) as ND. split.
  - cbn. apply tinv_mov; [exact T|exact L|split; discriminate].
  - constructor; unfold O; cbn; unfold fupd; intros.
    + zeq; [exfalso; eapply (u_q _ _ U); eassumption|apply S; assumption].
    + apply S.
    + destruct (Z.eqb_spec c0 c); subst.
      * apply in_app_or in H as [H|[H|[]]]; zeq; try reflexivity; try congruence.
        apply S. exact H.
      * zeq; [exfalso; eapply (u_send _ _ U); eassumption|apply S; assumption].
    + destruct (Z.eqb_spec c0 c); subst; [|apply S].
      apply NoDup_snoc; [apply S|apply (u_send _ _ U)].
    + zeq; [exfalso; eapply (u_init _ _ U); eassumption|apply S; assumption].
    + zeq; [left; eapply (u_prev _ _ U); eassumption|apply (i_prev _ S); assumption].
    + zeq; [left; eapply (u_cur _ _ U); eassumption|apply (i_cur _ S); assumption].
    + zeq; [congruence|apply S; assumption].
    + zeq; [rewrite (u_w _ _ U _ H) in H0; discriminate|apply S; assumption].
    + eapply (i_live _ S); eassumption.
Qed.

(* frame := <-recvCh : the reference moves into a local variable *)
Lemma inv_pop_mex k t q p s : Inv s -> x_q (s_mex s k) = t :: q -> transient p ->
  Inv (pop_mex k t q p s) /\ O (pop_mex k t q p s) t = p.
Proof.
  intros [T S] E Tp.
  assert (Ot : O s t = PMex k) by (apply S; rewrite E; left; reflexivity).
  pose proof (i_qnd _ S k) as ND. rewrite E in ND. inversion ND as [|? ? Nin ND']; subst.
  split; [split|].
  - cbn. apply tinv_mov; [exact T| |apply transient_live; exact Tp]. fold (O s t). rewrite Ot. split; discriminate.
  - constructor; unfold O; cbn; unfold fupd; intros.
    + destruct (Z.eqb_spec k0 k); subst.
      * cbn in H. zeq; [contradiction|]. apply S. rewrite E. right. exact H.
      * zeq; [|apply S; assumption]. pose proof (i_q _ S _ _ H) as E1. rewrite Ot in E1. congruence.
    + destruct (Z.eqb_spec k0 k); subst; [exact ND'|apply S].
    + zeq; [|apply S; assumption]. pose proof (i_send _ S _ _ H) as E1. rewrite Ot in E1. discriminate.
    + apply S.
    + destruct (i_init _ S _ _ H) as (E1 & R). zeq; [rewrite Ot in E1; discriminate|]. split; assumption.
    + destruct (i_prev _ S _ _ H) as [E1|E1]; [left; exact E1|right]. zeq; [rewrite Ot in E1; discriminate|exact E1].
    + destruct (i_cur _ S _ _ H) as [E1|E1]; [left; exact E1|right]. zeq; [rewrite Ot in E1; discriminate|exact E1].
    + pose proof (i_done _ S _ H) as E1. zeq; [rewrite Ot in E1; discriminate|exact E1].
    + pose proof (i_w _ S _ _ H H0) as E1. zeq; [rewrite Ot in E1; discriminate|exact E1].
    + eapply (i_live _ S); eassumption.
  - unfold O. cbn. rewrite Z.eqb_refl. reflexivity.
Qed.

Lemma inv_pop_send c t q p s : Inv s -> s_send s c = t :: q -> transient p ->
  Inv (pop_send c t q p s) /\ O (pop_send c t q p s) t = p.
Proof.
  intros [T S] E Tp.
  assert (Ot : O s t = PSend c) by (apply S; rewrite E; left; reflexivity).
  pose proof (i_sendnd _ S c) as ND. rewrite E in ND. inversion ND as [|? ? Nin ND']; subst.
  split; [split|].
  - cbn. apply tinv_mov; [exact T| |apply transient_live; exact Tp]. fold (O s t). rewrite Ot. split; discriminate.
  - constructor; unfold O; cbn; unfold fupd; intros.
    + zeq; [|apply S; assumption]. pose proof (i_q _ S _ _ H) as E1. rewrite Ot in E1. discriminate.
    + apply S.
    + destruct (Z.eqb_spec c0 c); subst.
      * zeq; [contradiction|]. apply S. rewrite E. right. exact H.
      * zeq; [|apply S; assumption]. pose proof (i_send _ S _ _ H) as E1. rewrite Ot in E1. congruence.
    + destruct (Z.eqb_spec c0 c); subst; [exact ND'|apply S].
    + destruct (i_init _ S _ _ H) as (E1 & R). zeq; [rewrite Ot in E1; discriminate|]. split; assumption.
    + destruct (i_prev _ S _ _ H) as [E1|E1]; [left; exact E1|right]. zeq; [rewrite Ot in E1; discriminate|exact E1].
    + destruct (i_cur _ S _ _ H) as [E1|E1]; [left; exact E1|right]. zeq; [rewrite Ot in E1; discriminate|exact E1].
    + pose proof (i_done _ S _ H) as E1. zeq; [rewrite Ot in E1; discriminate|exact E1].
    + pose proof (i_w _ S _ _ H H0) as E1. zeq; [rewrite Ot in E1; discriminate|exact E1].
    + eapply (i_live _ S); eassumption.
  - unfold O. cbn. rewrite Z.eqb_refl. reflexivity.
Qed.

(* ---- updates of one record ---- *)

Lemma inv_set_mex s k m : Inv s -> x_q m = x_q (s_mex s k) -> Inv (set_mex s k m).
Proof.
  intros [T S] E. split; [exact T|].
  constructor; unfold O; cbn; unfold fupd; intros; try (sinv S).
  - destruct (Z.eqb_spec k0 k); subst; [rewrite E in H|]; apply S; assumption.
  - destruct (Z.eqb_spec k0 k); subst; [rewrite E|]; apply S.
Qed.

Lemma inv_shutdown s k : Inv s -> Inv (mex_shutdown k s).
Proof. intros I. apply inv_set_mex; [exact I|reflexivity]. Qed.

Lemma inv_set_rdr s k r : Inv s ->
  (forall t, r_init r = Some t -> O s t = PFrag k /\ s_fdone s t = false /\ r_prev r = None /\ r_cur r = None) ->
  (forall t, r_prev r = Some t -> s_fdone s t = true \/ O s t = PFrag k) ->
  (forall t, r_cur r = Some t -> s_fdone s t = true \/ O s t = PFrag k) ->
  (forall t, r_err r = false -> r_complete r = false -> r_quit r = false -> r_cur r = Some t -> s_fdone s t = false) ->
  Inv (set_rdr s k r).
Proof.
  intros [T S] Hi Hp Hc Hl. split; [exact T|].
  constructor; unfold O; cbn; unfold fupd; intros; try (sinv S).
  - destruct (Z.eqb_spec k0 k); subst; [apply Hi; assumption|apply S; assumption].
  - destruct (Z.eqb_spec k0 k); subst; [apply Hp; assumption|apply (i_prev _ S); assumption].
  - destruct (Z.eqb_spec k0 k); subst; [apply Hc; assumption|apply (i_cur _ S); assumption].
  - destruct (Z.eqb_spec k0 k); subst; [apply Hl; assumption|eapply (i_live _ S); eassumption].
Qed.

Lemma inv_set_wr s k w : Inv s ->
  (forall t, w_cur w = Some t -> w_sent w = false -> O s t = PWFrag k) -> Inv (set_wr s k w).
Proof.
  intros [T S] Hw. split; [exact T|].
  constructor; unfold O; cbn; unfold fupd; intros; try (sinv S).
  destruct (Z.eqb_spec k0 k); subst; [apply Hw; assumption|apply S; assumption].
Qed.

Lemma inv_set_ty s t ty : Inv s -> Inv (set_ty s t ty).
Proof.
  intros [T S]. split; [exact T|]. destruct S. constructor; unfold O in *; cbn; assumption.
Qed.
Lemma inv_set_stop s c : Inv s -> Inv (set_stop s c).
Proof.
  intros [T S]. split; [exact T|]. destruct S. constructor; unfold O in *; cbn; assumption.
Qed.
Lemma inv_set_wexit s c : Inv s -> Inv (set_wexit s c).
Proof.
  intros [T S]. split; [exact T|]. destruct S. constructor; unfold O in *; cbn; assumption.
Qed.

(* readableFragment.done() through a pointer that is stale-or-owning, when no reader that
   may still read has it as current fragment *)
Lemma inv_frag_done t s k : Inv s ->
  (s_fdone s t = true \/ O s t = PFrag k) ->
  (forall k', r_init (s_rdr s k') <> Some t) ->
  (forall k', r_cur (s_rdr s k') = Some t ->
     r_err (s_rdr s k') = true \/ r_complete (s_rdr s k') = true \/ r_quit (s_rdr s k') = true) ->
  Inv (frag_done t s).
Proof.
  intros I Hd Hi Hc. unfold frag_done. destruct (s_fdone s t) eqn:D; [exact I|].
  destruct Hd as [Hd|Ot]; [discriminate|]. destruct I as [T S]. split.
  - cbn. apply tinv_rel; [exact T|]. fold (O s t). rewrite Ot. split; discriminate.
  - constructor; unfold O; cbn; unfold fupd; intros.
    + zeq; [|apply S; assumption]. pose proof (i_q _ S _ _ H) as E1. rewrite Ot in E1. discriminate.
    + apply S.
    + zeq; [|apply S; assumption]. pose proof (i_send _ S _ _ H) as E1. rewrite Ot in E1. discriminate.
    + apply S.
    + zeq; [exfalso; eapply Hi; eassumption|apply S; assumption].
    + zeq; [left; reflexivity|apply (i_prev _ S); assumption].
    + zeq; [left; reflexivity|apply (i_cur _ S); assumption].
    + zeq; [reflexivity|apply S; assumption].
    + zeq; [|apply S; assumption]. pose proof (i_w _ S _ _ H H0) as E1. rewrite Ot in E1. discriminate.
    + zeq; [|eapply (i_live _ S); eassumption].
      destruct (Hc _ H2) as [E|[E|E]]; congruence.
Qed.

Lemma inv_set_mex_nil s k m : Inv s -> x_q m = [] -> Inv (set_mex s k m).
Proof.
  intros [T S] E. split; [exact T|].
  constructor; unfold O; cbn; unfold fupd; intros; try (sinv S).
  - destruct (Z.eqb_spec k0 k); subst; [rewrite E in H; contradiction|apply S; assumption].
  - destruct (Z.eqb_spec k0 k); subst; [rewrite E; constructor|apply S].
Qed.

(* a reader record whose pointers are old ones or nil and whose flags only grow *)
Lemma inv_rdr_weaken s k r' : Inv s ->
  let r := s_rdr s k in
  (r_init r' = r_init r \/ r_init r' = None) -> (r_prev r' = r_prev r \/ r_prev r' = None) ->
  (r_cur r' = r_cur r \/ r_cur r' = None) ->
  (r_err r = true -> r_err r' = true) -> (r_complete r = true -> r_complete r' = true) ->
  (r_quit r = true -> r_quit r' = true) -> Inv (set_rdr s k r').
Proof.
  intros I r Hi Hp Hc He Hcp Hq. pose proof I as [T S]. apply inv_set_rdr; [exact I| | | |].
  - intros t H. destruct Hi as [Hi|Hi]; [|congruence]. rewrite Hi in H. destruct (i_init _ S _ _ H) as (A & B & C & D).
    split; [exact A|]. split; [exact B|]. fold r in C, D. split; [destruct Hp; congruence|destruct Hc; congruence].
  - intros t H. destruct Hp as [Hp|Hp]; [|congruence]. rewrite Hp in H. apply (i_prev _ S); exact H.
  - intros t H. destruct Hc as [Hc|Hc]; [|congruence]. rewrite Hc in H. apply (i_cur _ S); exact H.
  - intros t E1 E2 E3 H. destruct Hc as [Hc|Hc]; [|congruence]. rewrite Hc in H.
    apply (i_live _ S k); fold r; try exact H.
    + destruct (r_err r); [rewrite He in E1 by reflexivity; discriminate|reflexivity].
    + destruct (r_complete r); [rewrite Hcp in E2 by reflexivity; discriminate|reflexivity].
    + destruct (r_quit r); [rewrite Hq in E3 by reflexivity; discriminate|reflexivity].
Qed.

Lemma inv_fail_reader s k : Inv s -> Inv (fail_reader k s).
Proof.
  intros I. unfold fail_reader. apply inv_rdr_weaken; [apply inv_shutdown; exact I| | | | | |]; cbn; auto.
Qed.

(* the fragment of a freshly parsed frame becomes the reader's current/previous fragment,
   or the initial fragment of a new call *)
Lemma inv_attach k t s r' : Inv s -> transient (O s t) ->
  (forall t', r_init r' = Some t' -> t' = t /\ r_prev r' = None /\ r_cur r' = None) ->
  (forall t', r_prev r' = Some t' -> t' = t) -> (forall t', r_cur r' = Some t' -> t' = t) ->
  Inv (emit (EMov t (PFrag k)) (set_rdr s k r')).
Proof.
  intros [T S] Tr Hi Hp Hc. pose proof (transient_unref _ _ S Tr) as U.
  pose proof (transient_live _ Tr) as L. pose proof (live_not_done _ _ S L) as ND. split.
  - cbn. apply tinv_mov; [exact T|exact L|split; discriminate].
  - constructor; unfold O; cbn; unfold fupd; intros.
    + zeq; [exfalso; eapply (u_q _ _ U); eassumption|apply S; assumption].
    + apply S.
    + zeq; [exfalso; eapply (u_send _ _ U); eassumption|apply S; assumption].
    + apply S.
    + destruct (Z.eqb_spec k0 k); subst.
      * destruct (Hi _ H) as (E & R). subst. rewrite Z.eqb_refl. split; [reflexivity|]. split; [exact ND|exact R].
      * zeq; [exfalso; eapply (u_init _ _ U); eassumption|apply S; assumption].
    + destruct (Z.eqb_spec k0 k); subst.
      * rewrite (Hp _ H). rewrite Z.eqb_refl. right. reflexivity.
      * zeq; [left; eapply (u_prev _ _ U); eassumption|apply (i_prev _ S); assumption].
    + destruct (Z.eqb_spec k0 k); subst.
      * rewrite (Hc _ H). rewrite Z.eqb_refl. right. reflexivity.
      * zeq; [left; eapply (u_cur _ _ U); eassumption|apply (i_cur _ S); assumption].
    + zeq; [congruence|apply S; assumption].
    + zeq; [rewrite (u_w _ _ U _ H) in H0; discriminate|apply S; assumption].
    + destruct (Z.eqb_spec k0 k); subst.
      * rewrite (Hc _ H2). exact ND.
      * eapply (i_live _ S); eassumption.
Qed.

Lemma inv_wattach k t s w' : Inv s -> transient (O s t) ->
  (forall t', w_cur w' = Some t' -> t' = t) ->
  Inv (emit (EMov t (PWFrag k)) (set_wr s k w')).
Proof.
  intros [T S] Tr Hw. pose proof (transient_unref _ _ S Tr) as U.
  pose proof (transient_live _ Tr) as L. pose proof (live_not_done _ _ S L) as ND. split.
  - cbn. apply tinv_mov; [exact T|exact L|split; discriminate].
  - constructor; unfold O; cbn; unfold fupd; intros.
    + zeq; [exfalso; eapply (u_q _ _ U); eassumption|apply S; assumption].
    + apply S.
    + zeq; [exfalso; eapply (u_send _ _ U); eassumption|apply S; assumption].
    + apply S.
    + zeq; [exfalso; eapply (u_init _ _ U); eassumption|apply S; assumption].
    + zeq; [left; eapply (u_prev _ _ U); eassumption|apply (i_prev _ S); assumption].
    + zeq; [left; eapply (u_cur _ _ U); eassumption|apply (i_cur _ S); assumption].
    + zeq; [congruence|apply S; assumption].
    + destruct (Z.eqb_spec k0 k); subst.
      * rewrite (Hw _ H). rewrite Z.eqb_refl. reflexivity.
      * zeq; [rewrite (u_w _ _ U _ H) in H0; discriminate|apply S; assumption].
    + eapply (i_live _ S); eassumption.
Qed.

(* ---- derived forms ---- *)

Lemma inv_get_acc site p s : transient p -> Inv s ->
  Inv (p_acc (s_next s) (p_get site p s)) /\ O (p_acc (s_next s) (p_get site p s)) (s_next s) = p.
Proof.
  intros Tp I. destruct (inv_get site p s Tp I) as [I1 O1]. split; [|exact O1].
  apply inv_acc; [exact I1|]. rewrite O1. apply transient_live. exact Tp.
Qed.

Lemma inv_rel_tr site t s : Inv s -> transient (O s t) -> Inv (p_rel site t s).
Proof.
  intros I Tr. apply inv_rel; [exact I|apply transient_live; exact Tr|apply transient_unref; [apply I|exact Tr]].
Qed.
Lemma inv_push_mex_tr k t s : Inv s -> transient (O s t) -> Inv (push_mex k t s).
Proof.
  intros I Tr. apply inv_push_mex; [exact I|apply transient_live; exact Tr|apply transient_unref; [apply I|exact Tr]].
Qed.
Lemma inv_push_send_tr c t s : Inv s -> transient (O s t) -> Inv (push_send c t s).
Proof.
  intros I Tr. apply inv_push_send; [exact I|apply transient_live; exact Tr|apply transient_unref; [apply I|exact Tr]].
Qed.

Lemma inv_frag_done_k t s k : Inv s ->
  (s_fdone s t = true \/ O s t = PFrag k) ->
  r_init (s_rdr s k) <> Some t ->
  (r_cur (s_rdr s k) = Some t ->
     r_err (s_rdr s k) = true \/ r_complete (s_rdr s k) = true \/ r_quit (s_rdr s k) = true) ->
  Inv (frag_done t s).
Proof.
  intros I Hd Hi Hc. destruct (s_fdone s t) eqn:D.
  - unfold frag_done. rewrite D. exact I.
  - destruct Hd as [Hd|Ot]; [discriminate|]. pose proof I as [T S].
    apply (inv_frag_done t s k I); [right; exact Ot| |].
    + intros k' H. destruct (Z.eq_dec k' k) as [->|N]; [contradiction|].
      destruct (i_init _ S _ _ H) as (E & _). rewrite Ot in E. congruence.
    + intros k' H. destruct (Z.eq_dec k' k) as [->|N]; [auto|].
      destruct (i_cur _ S _ _ H) as [E|E]; [congruence|]. rewrite Ot in E. congruence.
Qed.

Lemma inv_release_prev k s : Inv s -> Inv (release_prev k true s).
Proof.
  intros I. pose proof I as [T S]. unfold release_prev.
  set (r := s_rdr s k).
  assert (I1 : Inv (set_rdr s k (rd_set r (r_init r) None (r_cur r) (r_err r) (r_complete r) true))).
  { apply inv_rdr_weaken; cbn; auto. }
  destruct (r_prev r) as [t|] eqn:P; [|exact I1].
  apply (inv_frag_done_k t _ k I1).
  - apply (i_prev _ S k). exact P.
  - cbn. unfold fupd. rewrite Z.eqb_refl. cbn. intros H. fold r in H.
    destruct (i_init _ S _ _ H) as (_ & _ & E & _). fold r in E. congruence.
  - cbn. unfold fupd. rewrite Z.eqb_refl. cbn. auto.
Qed.

Lemma wfrag_unref s k t : SInv s -> O s t = PWFrag k -> w_sent (s_wr s k) = true -> unref s t.
Proof.
  intros S Ot Hs. constructor.
  - intros k' H. rewrite (i_q _ S _ _ H) in Ot. discriminate.
  - intros c H. rewrite (i_send _ S _ _ H) in Ot. discriminate.
  - intros k' H. destruct (i_init _ S _ _ H) as [E _]. rewrite E in Ot. discriminate.
  - intros k' H. destruct (i_prev _ S _ _ H) as [E|E]; [exact E|]. rewrite E in Ot. discriminate.
  - intros k' H. destruct (i_cur _ S _ _ H) as [E|E]; [exact E|]. rewrite E in Ot. discriminate.
  - intros k' H. destruct (w_sent (s_wr s k')) eqn:E; [reflexivity|].
    rewrite (i_w _ S _ _ H E) in Ot. injection Ot as ->. congruence.
Qed.

(* ------------------------------------------------------------------ steps preserve the invariant *)

Ltac some H := injection H as <-.
Ltac tr1 := cbn; exact I.

Lemma step_inv_simple s l s' : Inv s -> step false s l = Some s' ->
  match l with
  | LLocal _ _ | LReadFail _ | LReadRel _ _ | LReadLeak _ | LReadFwd _ _ _ | LRelaySend _ _ | LRfsFrag _ _ _
  | LConnSysErr _ _ _ | LSendMsg _ _ | LCtx _ | LErrN _ | LExpire _ | LShutdown _ | LStop _ | LWExit _
  | LNewMex _ _ _ | LRespErr _ => Inv s'
  | _ => True
  end.
Proof.
  intros I H. destruct l; try exact Logic.I; unfold step in H.
  - (* LLocal *)
    destruct (which =? 0); some H;
      (apply inv_rel_tr; [apply inv_get_acc; [exact Logic.I|exact I]|]);
      rewrite (proj2 (inv_get_acc _ (PLocal c) s Logic.I I)); exact Logic.I.
  - (* LReadFail *)
    some H. apply inv_rel_tr; [apply inv_get_acc; [exact Logic.I|exact I]|].
    rewrite (proj2 (inv_get_acc _ (PReader c) s Logic.I I)); exact Logic.I.
  - (* LReadRel *)
    some H. apply inv_rel_tr; [apply inv_get_acc; [exact Logic.I|exact I]|].
    rewrite (proj2 (inv_get_acc _ (PReader c) s Logic.I I)); exact Logic.I.
  - (* LReadLeak *)
    some H. apply inv_get_acc; [exact Logic.I|exact I].
  - (* LReadFwd *)
    destruct (inv_get_acc S_rf_get (PReader c) s Logic.I I) as [I1 O1].
    set (s1 := set_ty (p_acc (s_next s) (p_get S_rf_get (PReader c) s)) (s_next s) ty) in *.
    assert (I2 : Inv s1) by (apply inv_set_ty; exact I1).
    assert (O2 : transient (O s1 (s_next s))) by (unfold s1, O in *; cbn in *; rewrite O1; exact Logic.I).
    destruct ko as [k|]; [|some H; exact I2].
    destruct (negb (x_live (s_mex s k))); [some H; exact I2|].
    destruct (x_ctx (s_mex s k)); [some H; apply inv_rel_tr; assumption|].
    destruct (x_dropped (s_mex s k)); [some H; apply inv_rel_tr; assumption|].
    destruct (mex_room (s_mex s k)); [some H; apply inv_push_mex_tr; assumption|].
    destruct (x_errn (s_mex s k)); [|discriminate]. some H.
    apply inv_rel_tr; [apply inv_set_mex; [exact I2|reflexivity]|exact O2].
  - (* LRelaySend *)
    destruct (inv_get_acc S_rf_get (PReader c) s Logic.I I) as [I1 O1].
    destruct (send_room s d); some H; [apply inv_push_send_tr|apply inv_rel_tr]; try exact I1; rewrite O1; exact Logic.I.
  - (* LRfsFrag *)
    destruct (inv_get_acc S_rfs_get (PLocal c) s Logic.I I) as [I1 O1].
    destruct swallowed; [some H; exact I1|].
    destruct (send_room s d); some H; [apply inv_push_send_tr|apply inv_rel_tr]; try exact I1; rewrite O1; exact Logic.I.
  - (* LConnSysErr *)
    destruct (inv_get_acc S_sse_get (PLocal c) s Logic.I I) as [I1 O1].
    destruct (wok && negb closed && send_room s c); some H; [apply inv_push_send_tr|apply inv_rel_tr]; try exact I1; rewrite O1; exact Logic.I.
  - (* LSendMsg *)
    destruct (inv_get_acc S_sm_get (PLocal c) s Logic.I I) as [I1 O1].
    destruct (negb wok); [some H; apply inv_rel_tr; [exact I1|rewrite O1; exact Logic.I]|].
    destruct (send_room s c); some H; [apply inv_push_send_tr; [exact I1|rewrite O1; exact Logic.I]|exact I1].
  - (* LNewMex *)
    destruct (x_used (s_mex s k)); [discriminate|]. some H.
    apply inv_set_wr; [|cbn; discriminate].
    apply inv_set_rdr; cbn; try discriminate.
    apply inv_set_mex_nil; [exact I|reflexivity].
  - some H. apply inv_set_mex; [exact I|reflexivity].
  - some H. apply inv_set_mex; [exact I|reflexivity].
  - some H. apply inv_set_mex; [exact I|reflexivity].
  - some H. apply inv_shutdown; exact I.
  - (* LRespErr *)
    some H. apply inv_set_wr; [exact I|]. cbn. intros t H1 H2. apply I; assumption.
  - some H. apply inv_set_stop; exact I.
  - destruct (_ && _ && _); [some H; apply inv_set_wexit; exact I|discriminate].
Qed.

Lemma step_inv_callreq s c k s' : Inv s -> step false s (LReadCallReq c k) = Some s' -> Inv s'.
Proof.
  intros I H. unfold step in H. destruct (x_used (s_mex s k)); [discriminate|]. some H.
  destruct (inv_get_acc S_rf_get (PReader c) s Logic.I I) as [I1 O1].
  apply inv_attach.
  - apply inv_set_wr; [|cbn; discriminate]. apply inv_set_mex_nil; [exact I1|reflexivity].
  - unfold O in *. cbn in *. rewrite O1. exact Logic.I.
  - cbn. intros t' E. injection E as <-. auto.
  - cbn. discriminate.
  - cbn. discriminate.
Qed.

Lemma step_inv_writer s l s' : Inv s -> step false s l = Some s' ->
  match l with
  | LWrite _ _ | LDrain _ | LRecvMsg _ | LWNew _ _ | LWAcc _ | LWFlush _ _ => Inv s'
  | _ => True
  end.
Proof.
  intros I H. destruct l; try exact Logic.I; unfold step in H.
  - (* LRecvMsg *)
    destruct (x_ctx (s_mex s k)); [some H; exact I|].
    destruct (x_q (s_mex s k)) as [|t q] eqn:Q.
    + destruct (x_errn (s_mex s k)); [some H; exact I|discriminate].
    + destruct (inv_pop_mex k t q (PLocal k) s I Q Logic.I) as [I1 O1].
      assert (I2 : Inv (p_acc t (pop_mex k t q (PLocal k) s))).
      { apply inv_acc; [exact I1|]. rewrite O1. split; discriminate. }
      destruct (s_ty s t =? 0); [some H; apply inv_rel_tr; [exact I2|]; rewrite O_acc, O1; exact Logic.I|].
      destruct (s_ty s t =? 1); [some H; apply inv_rel_tr; [exact I2|]; rewrite O_acc, O1; exact Logic.I|].
      some H. exact I1.
  - (* LWNew *)
    destruct (negb (x_used (s_mex s k))); [discriminate|].
    destruct (w_err (s_wr s k) || w_complete (s_wr s k)); [discriminate|].
    destruct (match w_cur (s_wr s k) with Some _ => negb (w_sent (s_wr s k)) | None => false end) eqn:G; [discriminate|].
    destruct (x_ctx (s_mex s k) || x_errn (s_mex s k)).
    + some H. apply inv_set_wr; [apply inv_shutdown; exact I|]. cbn. intros t H1 H2. apply I; assumption.
    + destruct (inv_get_acc S_rrw_get (PLocal k) s Logic.I I) as [I1 O1].
      destruct wok; some H.
      * apply inv_wattach; [exact I1|rewrite O1; exact Logic.I|]. cbn. intros t' E. congruence.
      * apply inv_shutdown. apply inv_set_wr; [exact I1|]. cbn. discriminate.
  - (* LWAcc *)
    destruct (w_err (s_wr s k) || w_complete (s_wr s k) || w_sent (s_wr s k)) eqn:G; [discriminate|].
    destruct (w_cur (s_wr s k)) as [t|] eqn:C; [|discriminate]. some H.
    apply inv_acc; [exact I|]. apply orb_false_iff in G as [_ G].
    rewrite (i_w _ (proj2 I) _ _ C G). split; discriminate.
  - (* LWFlush *)
    destruct (w_err (s_wr s k) || w_complete (s_wr s k) || w_sent (s_wr s k)) eqn:G; [discriminate|].
    destruct (w_cur (s_wr s k)) as [t|] eqn:C; [|discriminate].
    apply orb_false_iff in G as [_ G].
    pose proof (i_w _ (proj2 I) _ _ C G) as Ot.
    assert (I1 : Inv (p_acc t s)) by (apply inv_acc; [exact I|rewrite Ot; split; discriminate]).
    destruct (x_ctx (s_mex s k) || x_errn (s_mex s k)).
    + some H. apply inv_shutdown. apply inv_set_wr; [exact I1|]. cbn. intros t' E _. injection E as <-. exact Ot.
    + destruct (send_room s (x_conn (s_mex s k))); [|discriminate]. some H.
      set (s2 := set_wr (p_acc t s) k (wr_set (s_wr s k) (Some t) true false last)).
      assert (I2 : Inv s2) by (apply inv_set_wr; [exact I1|cbn; discriminate]).
      assert (I3 : Inv (push_send (x_conn (s_mex s k)) t s2)).
      { apply inv_push_send; [exact I2|unfold s2, O in *; cbn; rewrite Ot; split; discriminate|].
        apply (wfrag_unref s2 k t); [apply I2|exact Ot|]. unfold s2. cbn. unfold fupd. rewrite Z.eqb_refl. reflexivity. }
      destruct (last && w_inbound (s_wr s k)); [apply inv_shutdown|]; exact I3.
  - (* LWrite *)
    destruct (s_wexit s c); [discriminate|].
    destruct (s_send s c) as [|t q] eqn:Q; [discriminate|].
    destruct (inv_pop_send c t q (PWriter c) s I Q Logic.I) as [I1 O1].
    assert (I2 : Inv (p_rel S_wf_rel t (p_acc t (pop_send c t q (PWriter c) s)))).
    { apply inv_rel_tr; [apply inv_acc; [exact I1|rewrite O1; split; discriminate]|]. rewrite O_acc, O1. exact Logic.I. }
    destruct werr; some H; [apply inv_set_wexit|]; exact I2.
  - (* LDrain *)
    destruct (s_stop s c && s_wexit s c); [|discriminate].
    destruct (s_send s c) as [|t q] eqn:Q; [discriminate|]. some H.
    destruct (inv_pop_send c t q (PWriter c) s I Q Logic.I) as [I1 O1].
    apply inv_rel_tr; [exact I1|rewrite O1; exact Logic.I].
Qed.

Lemma rd_set_same r : rd_set r (r_init r) (r_prev r) (r_cur r) (r_err r) (r_complete r) (r_quit r) = r.
Proof. destruct r; reflexivity. Qed.

Lemma frag_done_fields t s :
  s_mex (frag_done t s) = s_mex s /\ s_rdr (frag_done t s) = s_rdr s /\ s_wr (frag_done t s) = s_wr s /\
  s_send (frag_done t s) = s_send s /\ s_ty (frag_done t s) = s_ty s /\ s_next (frag_done t s) = s_next s.
Proof. unfold frag_done. destruct (s_fdone s t); cbn; repeat split; reflexivity. Qed.

Lemma fetch_done_inv k s : Inv s ->
  Inv (fetch_done k s) /\
  s_mex (fetch_done k s) = s_mex s /\ s_ty (fetch_done k s) = s_ty s /\
  let r := s_rdr s k in
  s_rdr (fetch_done k s) k = rd_set r (r_init r) (r_prev r) None (r_err r) (r_complete r) (r_quit r).
Proof.
  intros I. pose proof I as [T S]. unfold fetch_done. set (r := s_rdr s k).
  cbv zeta. destruct (r_cur r) as [t0|] eqn:C.
  - set (s0 := set_rdr s k (rd_set r (r_init r) (r_prev r) None (r_err r) (r_complete r) (r_quit r))).
    assert (I0 : Inv s0) by (apply inv_rdr_weaken; cbn; auto).
    destruct (frag_done_fields t0 s0) as (E1 & E2 & _ & _ & E5 & _).
    split; [|rewrite E1, E2, E5; unfold s0; cbn; unfold fupd; rewrite Z.eqb_refl; auto].
    apply (inv_frag_done_k t0 s0 k I0).
    + apply (i_cur _ S k). exact C.
    + unfold s0. cbn. unfold fupd. rewrite Z.eqb_refl. cbn. intros H.
      destruct (i_init _ S _ _ H) as (_ & _ & _ & E). fold r in E. congruence.
    + unfold s0. cbn. unfold fupd. rewrite Z.eqb_refl. cbn. discriminate.
  - split; [exact I|]. split; [reflexivity|]. split; [reflexivity|]. cbn.
    rewrite <- C. fold r. rewrite rd_set_same. reflexivity.
Qed.

Lemma step_inv_reader s l s' : Inv s -> app_ok s l = true -> step false s l = Some s' ->
  match l with
  | LAcc _ | LCloseLast _ | LRespSysErr _ | LDispatchFail _ => Inv s'
  | _ => True
  end.
Proof.
  intros I A H. pose proof I as [T S]. destruct l; try exact Logic.I; unfold step in H; cbn in A.
  - (* LAcc *)
    destruct (r_err (s_rdr s k) || r_complete (s_rdr s k)) eqn:G; [discriminate|].
    apply orb_false_iff in G as [G1 G2]. apply negb_true_iff in A.
    destruct (r_cur (s_rdr s k)) as [t|] eqn:C; [|discriminate]. some H.
    apply inv_acc; [exact I|].
    pose proof (i_live _ S k t G1 G2 A C) as ND.
    destruct (i_cur _ S _ _ C) as [E|E]; [congruence|]. rewrite E. split; discriminate.
  - (* LCloseLast *)
    destruct (r_err (s_rdr s k) || r_complete (s_rdr s k)) eqn:G; [discriminate|].
    destruct (r_cur (s_rdr s k)) as [t|] eqn:C; [|discriminate]. some H.
    set (s1 := if r_inbound (s_rdr s k) then s else mex_shutdown k s).
    assert (I1 : Inv s1) by (unfold s1; destruct (r_inbound (s_rdr s k)); [exact I|apply inv_shutdown; exact I]).
    assert (R1 : s_rdr s1 = s_rdr s) by (unfold s1; destruct (r_inbound (s_rdr s k)); reflexivity).
    assert (F1 : s_fdone s1 = s_fdone s) by (unfold s1; destruct (r_inbound (s_rdr s k)); reflexivity).
    assert (O1 : forall x, O s1 x = O s x) by (unfold s1; destruct (r_inbound (s_rdr s k)); reflexivity).
    set (r1 := s_rdr s1 k).
    set (s2 := set_rdr s1 k (rd_set r1 (r_init r1) (r_prev r1) (r_cur r1) (r_err r1) true (r_quit r1))).
    assert (I2 : Inv s2) by (apply inv_rdr_weaken; cbn; auto).
    apply (inv_frag_done_k t s2 k I2).
    + unfold s2. cbn. rewrite F1. unfold O. cbn. fold (O s1 t). rewrite O1. apply (i_cur _ S k). exact C.
    + unfold s2. cbn. unfold fupd. rewrite Z.eqb_refl. cbn. unfold r1. rewrite R1. intros E.
      destruct (i_init _ S _ _ E) as (_ & _ & _ & E'). congruence.
    + unfold s2. cbn. unfold fupd. rewrite Z.eqb_refl. cbn. auto.
  - (* LRespSysErr *)
    destruct (w_err (s_wr s k)); [some H; exact I|]. some H.
    apply inv_release_prev. apply inv_shutdown. apply inv_set_wr; [exact I|].
    cbn. intros t H1 H2. apply S; assumption.
  - (* LDispatchFail *)
    some H. apply inv_release_prev. exact I.
Qed.

Lemma parse_chunks_inv k pok t s : Inv s -> O s t = PFrag k -> Inv (parse_chunks k pok t s).
Proof.
  intros I Ot. unfold parse_chunks. cbv zeta.
  assert (I1 : Inv (p_acc t s)) by (apply inv_acc; [exact I|rewrite Ot; split; discriminate]).
  destruct pok; [exact I1|]. apply inv_rdr_weaken; cbn; auto.
Qed.

Lemma step_inv_fetch s k a b c s' : Inv s -> step false s (LFetch k a b c) = Some s' -> Inv s'.
Proof.
  intros I H. unfold step in H. cbv zeta in H.
  destruct (r_err (s_rdr s k) || r_complete (s_rdr s k)); [discriminate|].
  destruct (fetch_done_inv k s I) as (I1 & M1 & Y1 & R1). cbv zeta in R1.
  set (s1 := fetch_done k s) in *. pose proof I1 as [T1 S1].
  destruct (r_init (s_rdr s1 k)) as [t|] eqn:Ini.
  - (* the initial fragment *)
    some H. destruct (i_init _ S1 _ _ Ini) as (Ot & ND & _ & _).
    apply parse_chunks_inv.
    + apply inv_set_rdr; [exact I1|cbn; discriminate| | |]; cbn.
      * intros t' E. injection E as <-. right. exact Ot.
      * intros t' E. injection E as <-. right. exact Ot.
      * intros t' _ _ _ E. injection E as <-. exact ND.
    + exact Ot.
  - destruct (x_ctx (s_mex s1 k)); [some H; apply inv_fail_reader; exact I1|].
    destruct (x_q (s_mex s1 k)) as [|t q] eqn:Q.
    + destruct (x_errn (s_mex s1 k)); [some H; apply inv_fail_reader; exact I1|discriminate].
    + destruct (inv_pop_mex k t q (PLocal k) s1 I1 Q Logic.I) as [I2 O2].
      set (s2 := pop_mex k t q (PLocal k) s1) in *.
      assert (I3 : Inv (p_acc t s2)) by (apply inv_acc; [exact I2|rewrite O2; split; discriminate]).
      destruct (s_ty s t =? 0).
      * destruct a; some H; [|apply inv_fail_reader; exact I3].
        apply parse_chunks_inv; [|unfold O; cbn; rewrite Z.eqb_refl; reflexivity].
        apply inv_attach; [exact I3|rewrite O_acc, O2; exact Logic.I| | |]; cbn.
        -- discriminate.
        -- intros t' E. congruence.
        -- intros t' E. congruence.
      * destruct (s_ty s t =? 1); some H; [|apply inv_fail_reader; exact I2].
        assert (I4 : Inv (p_rel S_rpf_rel t (p_acc t s2))).
        { apply inv_rel_tr; [exact I3|rewrite O_acc, O2; exact Logic.I]. }
        apply inv_rdr_weaken; cbn; auto.
        destruct (r_inbound (s_rdr s k) && c); [exact I4|apply inv_shutdown; exact I4].
Qed.

Theorem step_inv s l s' : Inv s -> app_ok s l = true -> step false s l = Some s' -> Inv s'.
Proof.
  intros I A H.
  pose proof (step_inv_simple s l s' I H) as H1.
  pose proof (step_inv_writer s l s' I H) as H2.
  pose proof (step_inv_reader s l s' I A H) as H3.
  destruct l; try exact H1; try exact H2; try exact H3.
  - eapply step_inv_callreq; eassumption.
  - eapply step_inv_fetch; eassumption.
Qed.

Theorem run_inv ls : forall s s', Inv s -> run false s ls = Some s' -> Inv s'.
Proof.
  induction ls as [|l r IH]; cbn; intros s s' I H; [some H; exact I|].
  destruct (app_ok s l) eqn:A; [|discriminate].
  destruct (step false s l) as [s1|] eqn:E; [|discriminate].
  eapply IH; [|exact H]. eapply step_inv; eassumption.
Qed.

(* ------------------------------------------------------------------ from tr_ok to the specification *)

Lemma rels_app a b : rels (a ++ b) = rels a ++ rels b.
Proof. unfold rels. apply flat_map_app. Qed.
Lemma gets_app a b : gets (a ++ b) = gets a ++ gets b.
Proof. unfold gets. apply flat_map_app. Qed.
Lemma toks_app a b : toks (a ++ b) = toks a ++ toks b.
Proof. unfold toks. apply map_app. Qed.

Lemma rels_rev tr : rels (rev tr) = rev (rels tr).
Proof.
  induction tr as [|e r IH]; [reflexivity|]. cbn [rev]. rewrite rels_app, IH. cbn.
  destruct e; cbn; rewrite ?app_nil_r; reflexivity.
Qed.
Lemma gets_rev tr : gets (rev tr) = rev (gets tr).
Proof.
  induction tr as [|e r IH]; [reflexivity|]. cbn [rev]. rewrite gets_app, IH. cbn.
  destruct e; cbn; rewrite ?app_nil_r; reflexivity.
Qed.
Lemma toks_rev tr : toks (rev tr) = rev (toks tr).
Proof. unfold toks. apply map_rev. Qed.

Lemma tr_ok_nodup_rels tr : tr_ok tr -> NoDup (rels tr).
Proof.
  induction tr as [|e r IH]; cbn; [constructor|]. intros [Ok He].
  destruct e; cbn; try (apply IH; exact Ok). constructor; [apply He|apply IH; exact Ok].
Qed.

Lemma tr_ok_app a b : tr_ok (a ++ b) -> tr_ok b.
Proof. induction a as [|e a IH]; cbn; [tauto|]. intros [H _]. apply IH. exact H. Qed.

Theorem ok_at_most_once tr : tr_ok tr -> released_at_most_once (rev tr).
Proof.
  intros H. unfold released_at_most_once. rewrite rels_rev. apply NoDup_rev. apply tr_ok_nodup_rels. exact H.
Qed.

(* events newer than a release of t do not concern t *)
Lemma tr_ok_after_rel a s t b : tr_ok (a ++ ERel s t :: b) -> ~ In t (toks a).
Proof.
  induction a as [|e a IH]; cbn; [tauto|]. intros [Ok He] [H|H]; [|exact (IH Ok H)].
  destruct e as [s' t' p|t' p|t'|s' t']; cbn in H; subst t'.
  - apply He. rewrite toks_app. apply in_or_app. right. left. reflexivity.
  - destruct He as [_ He]. apply He. rewrite rels_app. apply in_or_app. right. left. reflexivity.
  - destruct He as [_ He]. apply He. rewrite rels_app. apply in_or_app. right. left. reflexivity.
  - destruct He as [_ He]. apply He. rewrite rels_app. apply in_or_app. right. left. reflexivity.
Qed.

Theorem ok_no_use_after_release tr : tr_ok tr -> no_use_after_release (rev tr).
Proof.
  intros H h1 s t h2 E.
  assert (E' : tr = rev h2 ++ ERel s t :: rev h1).
  { rewrite <- (rev_involutive tr), E, rev_app_distr. cbn. rewrite <- app_assoc. reflexivity. }
  rewrite E' in H. intros Hin. apply (tr_ok_after_rel _ _ _ _ H).
  rewrite toks_rev. rewrite <- in_rev. exact Hin.
Qed.

Theorem ok_only_pool_frames tr : tr_ok tr -> only_pool_frames (rev tr).
Proof.
  intros H h1 e h2 E.
  assert (E' : tr = rev h2 ++ e :: rev h1).
  { rewrite <- (rev_involutive tr), E, rev_app_distr. cbn. rewrite <- app_assoc. reflexivity. }
  rewrite E' in H. apply tr_ok_app in H. cbn in H. destruct H as [_ He].
  destruct e; cbn in *.
  - rewrite toks_rev in He. intros Hin. apply He. apply in_rev. rewrite rev_involutive. exact Hin.
  - destruct He as [He _]. rewrite gets_rev in He. apply in_rev in He. exact He.
  - destruct He as [He _]. rewrite gets_rev in He. apply in_rev in He. exact He.
  - destruct He as [He _]. rewrite gets_rev in He. apply in_rev in He. exact He.
Qed.

Theorem safety cap ls s : run false (init cap) ls = Some s ->
  released_at_most_once (history s) /\ no_use_after_release (history s) /\ only_pool_frames (history s).
Proof.
  intros H. pose proof (run_inv ls _ _ (init_inv cap) H) as [T _]. pose proof (t_ok _ _ T) as Ok.
  unfold history. split; [apply ok_at_most_once; exact Ok|].
  split; [apply ok_no_use_after_release; exact Ok|apply ok_only_pool_frames; exact Ok].
Qed.

(* the executable check is the same predicate *)
Lemma mem_in t l : mem t l = true <-> In t l.
Proof.
  unfold mem. rewrite existsb_exists. split.
  - intros (x & Hx & E). apply Z.eqb_eq in E. subst. exact Hx.
  - intros H. exists t. split; [exact H|apply Z.eqb_refl].
Qed.

Lemma tr_okb_ok tr : tr_okb tr = true <-> tr_ok tr.
Proof.
  induction tr as [|e r IH]; cbn; [tauto|]. rewrite andb_true_iff, IH.
  destruct e; cbn; rewrite ?andb_true_iff, ?negb_true_iff, <- ?not_true_iff_false, ?mem_in; tauto.
Qed.

(* ------------------------------------------------------------------ no frame is lost *)

(* [ex] = the token the acting goroutine holds in a local variable in the middle of a step *)
Definition accounted (s : st) (ex : option Z) (t : Z) : Prop :=
  match O s t with
  | PFree | PReleased => True
  | PMex k => In t (x_q (s_mex s k))
  | PSend c => In t (s_send s c)
  | PFrag k => rdr_holds s k t
  | PWFrag k => wr_holds s k t
  | PReader _ | PWriter _ | PLocal _ => ex = Some t
  end.

Record CInv (s : st) (ex : option Z) : Prop := {
  c_acc : forall t, accounted s ex t;
  c_alias : forall k t, r_prev (s_rdr s k) = Some t -> s_fdone s t = false -> r_cur (s_rdr s k) = Some t;
  c_unused : forall k, x_used (s_mex s k) = false ->
               x_q (s_mex s k) = [] /\ r_init (s_rdr s k) = None /\ r_prev (s_rdr s k) = None /\ w_cur (s_wr s k) = None;
  c_liveused : forall k, x_live (s_mex s k) = true -> x_used (s_mex s k) = true
}.

Lemma cinv_init cap : CInv (init cap) None.
Proof. constructor; cbn; intros; try discriminate; auto. Qed.

Lemma cinv_get site p s : transient p -> Inv s -> CInv s None -> CInv (p_get site p s) (Some (s_next s)).
Proof.
  intros Tp [T S] C.
  constructor; [|apply C|apply C|apply C]. intros t. pose proof (c_acc _ _ C t) as A.
  unfold accounted, O in *. cbn. destruct (Z.eqb_spec t (s_next s)); subst.
  - destruct p; try contradiction; reflexivity.
  - destruct (own_of (s_trace s) t); try exact A; discriminate.
Qed.

Lemma cinv_acc t s ex : CInv s ex -> CInv (p_acc t s) ex.
Proof. intros C. destruct C. constructor; assumption. Qed.

Lemma cinv_get_acc site p s : transient p -> Inv s -> CInv s None ->
  CInv (p_acc (s_next s) (p_get site p s)) (Some (s_next s)).
Proof. intros Tp I C. apply cinv_acc. apply cinv_get; assumption. Qed.

(* the exceptional token is unique *)
Lemma cinv_ex_unique s t t' : CInv s (Some t) -> transient (O s t') -> t' = t.
Proof.
  intros C Tr. pose proof (c_acc _ _ C t') as A. unfold accounted in A.
  destruct (O s t'); try contradiction; congruence.
Qed.

Lemma cinv_rel_tr site t s : CInv s (Some t) -> transient (O s t) -> CInv (p_rel site t s) None.
Proof.
  intros C Tr. constructor; [|apply C|apply C|apply C]. intros t'. pose proof (c_acc _ _ C t') as A.
  unfold accounted, O in *. cbn. destruct (Z.eqb_spec t' t); subst; [exact Logic.I|].
  destruct (own_of (s_trace s) t') eqn:E; try exact A; congruence.
Qed.

Lemma cinv_push_mex_tr k t s : CInv s (Some t) -> transient (O s t) -> x_used (s_mex s k) = true ->
  CInv (push_mex k t s) None.
Proof.
  intros C Tr U. constructor.
  - intros t'. pose proof (c_acc _ _ C t') as A.
    unfold accounted, O in *. cbn. unfold fupd. destruct (Z.eqb_spec t' t); subst.
    + rewrite Z.eqb_refl. cbn. apply in_or_app. right. left. reflexivity.
    + destruct (own_of (s_trace s) t') eqn:E; try exact A; try congruence.
      destruct (Z.eqb_spec k0 k); subst; [cbn; apply in_or_app; left; exact A|exact A].
  - apply C.
  - intros k' H. cbn in *. unfold fupd in *. destruct (Z.eqb_spec k' k); subst; [|apply C; exact H].
    cbn in H. congruence.
  - intros k' H. cbn in *. unfold fupd in *. destruct (Z.eqb_spec k' k); subst; [exact U|apply C; exact H].
Qed.

Lemma cinv_push_send_tr c t s : CInv s (Some t) -> transient (O s t) -> CInv (push_send c t s) None.
Proof.
  intros C Tr. constructor; [|apply C|apply C|apply C].
  intros t'. pose proof (c_acc _ _ C t') as A.
  unfold accounted, O in *. cbn. unfold fupd. destruct (Z.eqb_spec t' t); subst.
  - rewrite Z.eqb_refl. apply in_or_app. right. left. reflexivity.
  - destruct (own_of (s_trace s) t') eqn:E; try exact A; try congruence.
    destruct (Z.eqb_spec c0 c); subst; [apply in_or_app; left; exact A|exact A].
Qed.

Lemma cinv_pop_mex k t q p s : Inv s -> CInv s None -> x_q (s_mex s k) = t :: q -> transient p ->
  CInv (pop_mex k t q p s) (Some t).
Proof.
  intros [T S] C Q Tp. constructor.
  - intros t'. pose proof (c_acc _ _ C t') as A.
    unfold accounted, O in *. cbn. unfold fupd. destruct (Z.eqb_spec t' t); subst.
    + destruct p; try contradiction; reflexivity.
    + destruct (own_of (s_trace s) t') eqn:E; try exact A; try congruence.
      destruct (Z.eqb_spec k0 k); subst; [|exact A]. cbn. rewrite Q in A. destruct A as [A|A]; [congruence|exact A].
  - apply C.
  - intros k' H. cbn in *. unfold fupd in *. destruct (Z.eqb_spec k' k); subst; [|apply C; exact H].
    cbn in H. destruct (c_unused _ _ C k H) as (Q' & _). rewrite Q in Q'. discriminate.
  - intros k' H. cbn in *. unfold fupd in *. destruct (Z.eqb_spec k' k); subst; [|apply C; exact H].
    cbn in *. apply C. exact H.
Qed.

Lemma cinv_pop_send c t q p s : CInv s None -> s_send s c = t :: q -> transient p ->
  CInv (pop_send c t q p s) (Some t).
Proof.
  intros C Q Tp. constructor; [|apply C|apply C|apply C].
  intros t'. pose proof (c_acc _ _ C t') as A.
  unfold accounted, O in *. cbn. unfold fupd. destruct (Z.eqb_spec t' t); subst.
  - destruct p; try contradiction; reflexivity.
  - destruct (own_of (s_trace s) t') eqn:E; try exact A; try congruence.
    destruct (Z.eqb_spec c0 c); subst; [|exact A]. rewrite Q in A. destruct A as [A|A]; [congruence|exact A].
Qed.

(* exchange flags *)
Lemma cinv_set_mex s k m ex : CInv s ex -> x_q m = x_q (s_mex s k) -> x_used m = x_used (s_mex s k) ->
  (x_live m = true -> x_live (s_mex s k) = true) -> CInv (set_mex s k m) ex.
Proof.
  intros C Q U L. constructor.
  - intros t. pose proof (c_acc _ _ C t) as A. unfold accounted, O in *. cbn. unfold fupd.
    destruct (own_of (s_trace s) t) eqn:E; try exact A.
    destruct (Z.eqb_spec k0 k); subst; [rewrite Q|]; exact A.
  - apply C.
  - intros k' H. cbn in *. unfold fupd in *. destruct (Z.eqb_spec k' k); subst; [|apply C; exact H].
    rewrite U in H. rewrite Q. apply C. exact H.
  - intros k' H. cbn in *. unfold fupd in *. destruct (Z.eqb_spec k' k); subst; [|apply C; exact H].
    rewrite U. apply C. apply L. exact H.
Qed.

Lemma cinv_shutdown s k ex : CInv s ex -> CInv (mex_shutdown k s) ex.
Proof. intros C. apply cinv_set_mex; [exact C|reflexivity|reflexivity|cbn; discriminate]. Qed.

Lemma cinv_misc s ex :
  CInv s ex -> (forall t ty, CInv (set_ty s t ty) ex) /\ (forall c, CInv (set_stop s c) ex) /\ (forall c, CInv (set_wexit s c) ex).
Proof. intros C. destruct C. split; [|split]; intros; constructor; assumption. Qed.

(* readableFragment.done(): the frame is released, nothing else changes *)
Lemma cinv_frag_done t s ex : CInv s ex -> CInv (frag_done t s) ex.
Proof.
  intros C. unfold frag_done. destruct (s_fdone s t) eqn:D; [exact C|]. constructor.
  - intros t'. pose proof (c_acc _ _ C t') as A. unfold accounted, O, rdr_holds in *. cbn. unfold fupd.
    destruct (Z.eqb_spec t' t); subst; [exact Logic.I|].
    destruct (own_of (s_trace s) t') eqn:E; exact A.
  - intros k t' H1 H2. cbn in *. unfold fupd in *. destruct (Z.eqb_spec t' t); subst; [discriminate|].
    apply C; assumption.
  - apply C.
  - apply C.
Qed.

Lemma cinv_set_rdr s k r' ex : CInv s ex ->
  (forall t, rdr_holds s k t -> r_init r' = Some t \/ (r_prev r' = Some t /\ s_fdone s t = false)) ->
  (forall t, r_prev r' = Some t -> s_fdone s t = false -> r_cur r' = Some t) ->
  (x_used (s_mex s k) = false -> r_init r' = None /\ r_prev r' = None) ->
  CInv (set_rdr s k r') ex.
Proof.
  intros C Hh Ha Hu. constructor.
  - intros t. pose proof (c_acc _ _ C t) as A. unfold accounted, O, rdr_holds in *. cbn. unfold fupd.
    destruct (own_of (s_trace s) t) eqn:E; try exact A.
    destruct (Z.eqb_spec k0 k); subst; [apply Hh; exact A|exact A].
  - intros k' t H1 H2. cbn in *. unfold fupd in *. destruct (Z.eqb_spec k' k); subst; [apply Ha; assumption|apply C; assumption].
  - intros k' H. cbn in *. unfold fupd in *. destruct (Z.eqb_spec k' k); subst; [|apply C; exact H].
    destruct (c_unused _ _ C k H) as (Q & _ & _ & W). destruct (Hu H) as [A B]. auto.
  - apply C.
Qed.

(* same pointers except possibly curFragment, flags arbitrary *)
Lemma cinv_rdr_weaken s k r' ex : CInv s ex ->
  r_init r' = r_init (s_rdr s k) -> r_prev r' = r_prev (s_rdr s k) ->
  (forall t, r_prev r' = Some t -> s_fdone s t = false -> r_cur r' = Some t) ->
  CInv (set_rdr s k r') ex.
Proof.
  intros C Hi Hp Ha. apply cinv_set_rdr; [exact C| |exact Ha|].
  - unfold rdr_holds. rewrite Hi, Hp. tauto.
  - intros U. destruct (c_unused _ _ C k U) as (_ & A & B & _). rewrite Hi, Hp. auto.
Qed.

Lemma cinv_set_wr s k w' ex : CInv s ex ->
  (forall t, wr_holds s k t -> w_cur w' = Some t /\ w_sent w' = false) ->
  (x_used (s_mex s k) = false -> w_cur w' = None) ->
  CInv (set_wr s k w') ex.
Proof.
  intros C Hh Hu. constructor.
  - intros t. pose proof (c_acc _ _ C t) as A. unfold accounted, O, wr_holds in *. cbn. unfold fupd.
    destruct (own_of (s_trace s) t) eqn:E; try exact A.
    destruct (Z.eqb_spec k0 k); subst; [apply Hh; exact A|exact A].
  - apply C.
  - intros k' H. cbn in *. unfold fupd in *. destruct (Z.eqb_spec k' k); subst; [|apply C; exact H].
    destruct (c_unused _ _ C k H) as (Q & A & B & _). auto.
  - apply C.
Qed.

(* a new exchange record for a key that has not been used *)
Lemma cinv_new_mex s k m ex : CInv s ex -> x_used (s_mex s k) = false -> x_q m = [] -> x_used m = true ->
  CInv (set_mex s k m) ex.
Proof.
  intros C U Q Um. destruct (c_unused _ _ C k U) as (Q0 & _). constructor.
  - intros t. pose proof (c_acc _ _ C t) as A. unfold accounted, O in *. cbn. unfold fupd.
    destruct (own_of (s_trace s) t) eqn:E; try exact A.
    destruct (Z.eqb_spec k0 k); subst; [rewrite Q0 in A; contradiction|exact A].
  - apply C.
  - intros k' H. cbn in *. unfold fupd in *. destruct (Z.eqb_spec k' k); subst; [congruence|apply C; exact H].
  - intros k' H. cbn in *. unfold fupd in *. destruct (Z.eqb_spec k' k); subst; [exact Um|apply C; exact H].
Qed.

Lemma cinv_attach k t s r' : CInv s (Some t) -> transient (O s t) ->
  (forall t', ~ rdr_holds s k t') ->
  (r_init r' = Some t \/ (r_prev r' = Some t /\ s_fdone s t = false)) ->
  (forall t', r_prev r' = Some t' -> s_fdone s t' = false -> r_cur r' = Some t') ->
  x_used (s_mex s k) = true ->
  CInv (emit (EMov t (PFrag k)) (set_rdr s k r')) None.
Proof.
  intros C Tr Hn Hh Ha U. constructor.
  - intros t'. pose proof (c_acc _ _ C t') as A. unfold accounted, O, rdr_holds in *. cbn. unfold fupd.
    destruct (Z.eqb_spec t' t); subst.
    + rewrite Z.eqb_refl. exact Hh.
    + destruct (own_of (s_trace s) t') eqn:E; try exact A; try congruence.
      destruct (Z.eqb_spec k0 k); subst; [exfalso; apply (Hn t'); exact A|exact A].
  - intros k' t' H1 H2. cbn in *. unfold fupd in *. destruct (Z.eqb_spec k' k); subst; [apply Ha; assumption|apply C; assumption].
  - intros k' H. cbn in *. unfold fupd in *. destruct (Z.eqb_spec k' k); subst; [congruence|apply C; exact H].
  - apply C.
Qed.

Lemma cinv_wattach k t s w' : CInv s (Some t) -> transient (O s t) ->
  (forall t', ~ wr_holds s k t') -> w_cur w' = Some t -> w_sent w' = false -> x_used (s_mex s k) = true ->
  CInv (emit (EMov t (PWFrag k)) (set_wr s k w')) None.
Proof.
  intros C Tr Hn Hc Hs U. constructor.
  - intros t'. pose proof (c_acc _ _ C t') as A. unfold accounted, O, wr_holds in *. cbn. unfold fupd.
    destruct (Z.eqb_spec t' t); subst.
    + rewrite Z.eqb_refl. auto.
    + destruct (own_of (s_trace s) t') eqn:E; try exact A; try congruence.
      destruct (Z.eqb_spec k0 k); subst; [exfalso; apply (Hn t'); exact A|exact A].
  - apply C.
  - intros k' H. cbn in *. unfold fupd in *. destruct (Z.eqb_spec k' k); subst; [congruence|apply C; exact H].
  - apply C.
Qed.

(* flushFragment: the writer's fragment goes to the send queue *)
Lemma cinv_flush s k t c w' : CInv s None -> O s t = PWFrag k -> x_used (s_mex s k) = true ->
  CInv (push_send c t (set_wr s k w')) None.
Proof.
  intros C Ot U. pose proof (c_acc _ _ C t) as At. unfold accounted in At. rewrite Ot in At. constructor.
  - intros t'. pose proof (c_acc _ _ C t') as A. unfold accounted, O, wr_holds in *. cbn. unfold fupd.
    destruct (Z.eqb_spec t' t); subst.
    + rewrite Z.eqb_refl. apply in_or_app. right. left. reflexivity.
    + destruct (own_of (s_trace s) t') eqn:E; try exact A; try congruence.
      * destruct (Z.eqb_spec c0 c); subst; [apply in_or_app; left; exact A|exact A].
      * destruct (Z.eqb_spec k0 k); subst; [|exact A]. destruct A as [A _], At as [At _]. congruence.
  - apply C.
  - intros k' H. cbn in *. unfold fupd in *. destruct (Z.eqb_spec k' k); subst; [congruence|apply C; exact H].
  - apply C.
Qed.

(* ------------------------------------------------------------------ steps that lose nothing keep every frame accounted *)

Lemma step_cinv_simple s l s' : Inv s -> CInv s None -> loses s l = false -> step false s l = Some s' ->
  match l with
  | LLocal _ _ | LReadFail _ | LReadRel _ _ | LReadLeak _ | LReadFwd _ _ _ | LRelaySend _ _ | LRfsFrag _ _ _
  | LConnSysErr _ _ _ | LSendMsg _ _ | LCtx _ | LErrN _ | LExpire _ | LShutdown _ | LStop _ | LWExit _
  | LNewMex _ _ _ | LRespErr _ => CInv s' None
  | _ => True
  end.
Proof.
  intros I C NL H. destruct l; try exact Logic.I; unfold step in H; cbn in NL.
  - (* LLocal *)
    pose proof (inv_get_acc (if which =? 0 then S_pr_get else S_pw_get) (PLocal c) s Logic.I I) as [I1 O1].
    destruct (which =? 0); some H; (apply cinv_rel_tr; [apply cinv_get_acc; [exact Logic.I|exact I|exact C]|]);
      rewrite O1; exact Logic.I.
  - (* LReadFail *)
    pose proof (inv_get_acc S_rf_get (PReader c) s Logic.I I) as [I1 O1].
    some H. apply cinv_rel_tr; [apply cinv_get_acc; [exact Logic.I|exact I|exact C]|]. rewrite O1. exact Logic.I.
  - (* LReadRel *)
    pose proof (inv_get_acc S_rf_get (PReader c) s Logic.I I) as [I1 O1].
    some H. apply cinv_rel_tr; [apply cinv_get_acc; [exact Logic.I|exact I|exact C]|]. rewrite O1. exact Logic.I.
  - (* LReadLeak *) discriminate.
  - (* LReadFwd *)
    destruct ko as [k|]; [|discriminate]. apply negb_false_iff in NL. rewrite NL in H. cbn in H.
    destruct (inv_get_acc S_rf_get (PReader c) s Logic.I I) as [I1 O1].
    pose proof (cinv_get_acc S_rf_get (PReader c) s Logic.I I C) as C1.
    set (s1 := set_ty (p_acc (s_next s) (p_get S_rf_get (PReader c) s)) (s_next s) ty) in *.
    assert (C2 : CInv s1 (Some (s_next s))) by (apply cinv_misc; exact C1).
    assert (O2 : transient (O s1 (s_next s))) by (unfold s1, O in *; cbn in *; rewrite O1; exact Logic.I).
    destruct (x_ctx (s_mex s k)); [some H; apply cinv_rel_tr; assumption|].
    destruct (x_dropped (s_mex s k)); [some H; apply cinv_rel_tr; assumption|].
    destruct (mex_room (s_mex s k)).
    + some H. apply cinv_push_mex_tr; [assumption|assumption|]. unfold s1. cbn. apply C. exact NL.
    + destruct (x_errn (s_mex s k)); [|discriminate]. some H.
      apply cinv_rel_tr; [|exact O2].
      apply cinv_set_mex; [exact C2|reflexivity|reflexivity|]. cbn. intros _. exact NL.
  - (* LRelaySend *)
    destruct (inv_get_acc S_rf_get (PReader c) s Logic.I I) as [I1 O1].
    pose proof (cinv_get_acc S_rf_get (PReader c) s Logic.I I C) as C1.
    destruct (send_room s d); some H; [apply cinv_push_send_tr|apply cinv_rel_tr]; try exact C1; rewrite O1; exact Logic.I.
  - (* LRfsFrag *)
    subst swallowed.
    destruct (inv_get_acc S_rfs_get (PLocal c) s Logic.I I) as [I1 O1].
    pose proof (cinv_get_acc S_rfs_get (PLocal c) s Logic.I I C) as C1.
    destruct (send_room s d); some H; [apply cinv_push_send_tr|apply cinv_rel_tr]; try exact C1; rewrite O1; exact Logic.I.
  - (* LConnSysErr *)
    destruct (inv_get_acc S_sse_get (PLocal c) s Logic.I I) as [I1 O1].
    pose proof (cinv_get_acc S_sse_get (PLocal c) s Logic.I I C) as C1.
    destruct (wok && negb closed && send_room s c); some H; [apply cinv_push_send_tr|apply cinv_rel_tr]; try exact C1; rewrite O1; exact Logic.I.
  - (* LSendMsg *)
    destruct (inv_get_acc S_sm_get (PLocal c) s Logic.I I) as [I1 O1].
    pose proof (cinv_get_acc S_sm_get (PLocal c) s Logic.I I C) as C1.
    destruct wok; cbn in H, NL.
    + apply negb_false_iff in NL. rewrite NL in H. some H. apply cinv_push_send_tr; [exact C1|rewrite O1; exact Logic.I].
    + some H. apply cinv_rel_tr; [exact C1|rewrite O1; exact Logic.I].
  - (* LNewMex *)
    destruct (x_used (s_mex s k)) eqn:U; [discriminate|]. some H.
    destruct (c_unused _ _ C k U) as (Q & Ri & Rp & Wc).
    apply cinv_set_wr; [|intros t [E _]; cbn in E; congruence|auto].
    apply cinv_set_rdr; [|intros t [E|[E _]]; cbn in E; congruence|cbn; discriminate|auto].
    apply cinv_new_mex; [exact C|exact U|reflexivity|reflexivity].
  - some H. apply cinv_set_mex; [exact C|reflexivity|reflexivity|auto].
  - some H. apply cinv_set_mex; [exact C|reflexivity|reflexivity|auto].
  - some H. apply cinv_set_mex; [exact C|reflexivity|reflexivity|cbn; discriminate].
  - some H. apply cinv_shutdown; exact C.
  - (* LRespErr *)
    some H. apply cinv_set_wr; [exact C|intros t [A B]; auto|]. intros U. cbn. apply C. exact U.
  - some H. apply cinv_misc; exact C.
  - destruct (_ && _ && _); [some H; apply cinv_misc; exact C|discriminate].
Qed.

Lemma step_cinv_callreq s c k s' : Inv s -> CInv s None -> step false s (LReadCallReq c k) = Some s' -> CInv s' None.
Proof.
  intros I C H. unfold step in H. destruct (x_used (s_mex s k)) eqn:U; [discriminate|]. some H.
  destruct (inv_get_acc S_rf_get (PReader c) s Logic.I I) as [I1 O1].
  pose proof (cinv_get_acc S_rf_get (PReader c) s Logic.I I C) as C1.
  destruct (c_unused _ _ C k U) as (Q & Ri & Rp & Wc).
  apply cinv_attach.
  - apply cinv_set_wr; [|intros t [E _]; cbn in E; congruence|cbn; unfold fupd; rewrite Z.eqb_refl; cbn; discriminate].
    apply cinv_new_mex; [exact C1|exact U|reflexivity|reflexivity].
  - unfold O in *. cbn in *. rewrite O1. exact Logic.I.
  - intros t' [E|[E _]]; cbn in E; congruence.
  - left. reflexivity.
  - cbn. discriminate.
  - cbn. unfold fupd. rewrite Z.eqb_refl. reflexivity.
Qed.

Lemma used_shutdown k s k' : x_used (s_mex (mex_shutdown k s) k') = x_used (s_mex s k').
Proof. cbn. unfold fupd. destruct (Z.eqb_spec k' k); subst; reflexivity. Qed.

Lemma step_cinv_writer s l s' : Inv s -> CInv s None -> loses s l = false -> step false s l = Some s' ->
  match l with
  | LWrite _ _ | LDrain _ | LRecvMsg _ | LWNew _ _ | LWAcc _ | LWFlush _ _ => CInv s' None
  | _ => True
  end.
Proof.
  intros I C NL H. pose proof I as [T S]. destruct l; try exact Logic.I; unfold step in H; cbn in NL.
  - (* LRecvMsg *)
    destruct (x_ctx (s_mex s k)); [some H; exact C|].
    destruct (x_q (s_mex s k)) as [|t q] eqn:Q.
    + destruct (x_errn (s_mex s k)); [some H; exact C|discriminate].
    + destruct (inv_pop_mex k t q (PLocal k) s I Q Logic.I) as [I1 O1].
      pose proof (cinv_pop_mex k t q (PLocal k) s I C Q Logic.I) as C1.
      cbn in NL.
      destruct (s_ty s t =? 0); [some H; apply cinv_rel_tr; [apply cinv_acc; exact C1|rewrite O_acc, O1; exact Logic.I]|].
      destruct (s_ty s t =? 1); [some H; apply cinv_rel_tr; [apply cinv_acc; exact C1|rewrite O_acc, O1; exact Logic.I]|].
      discriminate.
  - (* LWNew *)
    destruct (negb (x_used (s_mex s k))) eqn:U; [discriminate|]. apply negb_false_iff in U.
    destruct (w_err (s_wr s k) || w_complete (s_wr s k)); [discriminate|].
    destruct (match w_cur (s_wr s k) with Some _ => negb (w_sent (s_wr s k)) | None => false end) eqn:G; [discriminate|].
    destruct (x_ctx (s_mex s k) || x_errn (s_mex s k)).
    + some H. apply cinv_set_wr; [apply cinv_shutdown; exact C|intros t [A B]; auto|rewrite used_shutdown; congruence].
    + cbn in NL. rewrite andb_true_r in NL. apply negb_false_iff in NL. subst wok.
      destruct (inv_get_acc S_rrw_get (PLocal k) s Logic.I I) as [I1 O1].
      pose proof (cinv_get_acc S_rrw_get (PLocal k) s Logic.I I C) as C1.
      some H. apply cinv_wattach; [exact C1|rewrite O1; exact Logic.I| |reflexivity|reflexivity|exact U].
      intros t' [A B]. cbn in A, B. rewrite A, B in G. discriminate.
  - (* LWAcc *)
    destruct (w_err (s_wr s k) || w_complete (s_wr s k) || w_sent (s_wr s k)); [discriminate|].
    destruct (w_cur (s_wr s k)); [|discriminate]. some H. apply cinv_acc. exact C.
  - (* LWFlush *)
    destruct (w_err (s_wr s k) || w_complete (s_wr s k) || w_sent (s_wr s k)) eqn:G; [discriminate|].
    destruct (w_cur (s_wr s k)) as [t|] eqn:Cu; [|discriminate].
    apply orb_false_iff in G as [_ G].
    pose proof (i_w _ S _ _ Cu G) as Ot.
    assert (U : x_used (s_mex s k) = true).
    { destruct (x_used (s_mex s k)) eqn:U; [reflexivity|]. destruct (c_unused _ _ C k U) as (_ & _ & _ & W). congruence. }
    destruct (x_ctx (s_mex s k) || x_errn (s_mex s k)).
    + some H. apply cinv_shutdown. apply cinv_set_wr; [apply cinv_acc; exact C| |cbn; congruence].
      intros t' [A B]. cbn in A. cbn. split; [congruence|reflexivity].
    + destruct (send_room s (x_conn (s_mex s k))); [|discriminate]. some H.
      assert (C3 : CInv (push_send (x_conn (s_mex s k)) t (set_wr (p_acc t s) k (wr_set (s_wr s k) (Some t) true false last))) None).
      { apply cinv_flush; [apply cinv_acc; exact C|exact Ot|exact U]. }
      destruct (last && w_inbound (s_wr s k)); [apply cinv_shutdown|]; exact C3.
  - (* LWrite *)
    destruct (s_wexit s c); [discriminate|].
    destruct (s_send s c) as [|t q] eqn:Q; [discriminate|].
    destruct (inv_pop_send c t q (PWriter c) s I Q Logic.I) as [I1 O1].
    pose proof (cinv_pop_send c t q (PWriter c) s C Q Logic.I) as C1.
    assert (C2 : CInv (p_rel S_wf_rel t (p_acc t (pop_send c t q (PWriter c) s))) None).
    { apply cinv_rel_tr; [apply cinv_acc; exact C1|rewrite O_acc, O1; exact Logic.I]. }
    destruct werr; some H; [apply cinv_misc|]; exact C2.
  - (* LDrain *)
    destruct (s_stop s c && s_wexit s c); [|discriminate].
    destruct (s_send s c) as [|t q] eqn:Q; [discriminate|]. some H.
    destruct (inv_pop_send c t q (PWriter c) s I Q Logic.I) as [I1 O1].
    apply cinv_rel_tr; [apply cinv_pop_send; [exact C|exact Q|exact Logic.I]|rewrite O1; exact Logic.I].
Qed.

Lemma cinv_release_prev k q s ex : Inv s -> CInv s ex -> CInv (release_prev k q s) ex.
Proof.
  intros [T S] C. unfold release_prev. set (r := s_rdr s k).
  assert (C1 : forall t, r_prev r = Some t -> s_fdone s t = true ->
            CInv (set_rdr s k (rd_set r (r_init r) None (r_cur r) (r_err r) (r_complete r) q)) ex).
  { intros t P D. apply cinv_set_rdr; [exact C| |cbn; discriminate|].
    - intros t' [E|[E1 E2]]; [left; exact E|]. fold r in E1. congruence.
    - intros U. cbn. destruct (c_unused _ _ C k U) as (_ & A & _). auto. }
  destruct (r_prev r) as [t|] eqn:P.
  - unfold frag_done. cbn [s_fdone set_rdr]. destruct (s_fdone s t) eqn:D; [apply (C1 t); auto|].
    destruct (i_prev _ S k t P) as [E|Ot]; [congruence|]. constructor.
    + intros t'. pose proof (c_acc _ _ C t') as A. unfold accounted, O, rdr_holds in *. cbn. unfold fupd.
      destruct (Z.eqb_spec t' t); subst; [exact Logic.I|].
      destruct (own_of (s_trace s) t') eqn:E; try exact A.
      destruct (Z.eqb_spec k0 k); subst; [|exact A]. cbn. fold r in A. destruct A as [A|[A _]]; [left; exact A|congruence].
    + intros k' t' H1 H2. cbn in *. unfold fupd in *. destruct (Z.eqb_spec k' k); subst; [cbn in H1; discriminate|].
      destruct (Z.eqb_spec t' t); subst; [discriminate|]. apply C; assumption.
    + intros k' U. cbn in *. unfold fupd in *. destruct (Z.eqb_spec k' k); subst; [|apply C; exact U].
      destruct (c_unused _ _ C k U) as (A & B & _ & D'). cbn. fold r in B. auto.
    + apply C.
  - apply cinv_set_rdr; [exact C| |cbn; discriminate|].
    + intros t' [E|[E1 E2]]; [left; exact E|]. fold r in E1. congruence.
    + intros U. cbn. destruct (c_unused _ _ C k U) as (_ & A & _). auto.
Qed.

Lemma cinv_fetch_done k s ex : Inv s -> CInv s ex ->
  CInv (fetch_done k s) ex /\
  (forall t, r_prev (s_rdr (fetch_done k s) k) = Some t -> s_fdone (fetch_done k s) t = true).
Proof.
  intros [T S] C. unfold fetch_done. set (r := s_rdr s k).
  destruct (r_cur r) as [t0|] eqn:Cu.
  - assert (Ini : r_init r = None).
    { destruct (r_init r) as [ti|] eqn:E; [|reflexivity]. destruct (i_init _ S k ti E) as (_ & _ & _ & X). fold r in X. congruence. }
    unfold frag_done. cbn [s_fdone set_rdr]. destruct (s_fdone s t0) eqn:D.
    + split.
      * apply cinv_rdr_weaken; [exact C|reflexivity|reflexivity|]. cbn. intros t P Dt.
        pose proof (c_alias _ _ C k t P Dt) as X. fold r in X. congruence.
      * cbn. unfold fupd. rewrite Z.eqb_refl. cbn. intros t P.
        destruct (s_fdone s t) eqn:Dt; [reflexivity|]. pose proof (c_alias _ _ C k t P Dt) as X. fold r in X. congruence.
    + split.
      * constructor.
        -- intros t'. pose proof (c_acc _ _ C t') as A. unfold accounted, O, rdr_holds in *. cbn. unfold fupd.
           destruct (Z.eqb_spec t' t0); subst; [exact Logic.I|].
           destruct (own_of (s_trace s) t') eqn:E; try exact A.
           destruct (Z.eqb_spec k0 k); subst; exact A.
        -- intros k' t' H1 H2. cbn in *. unfold fupd in *. destruct (Z.eqb_spec t' t0); subst; [discriminate|].
           destruct (Z.eqb_spec k' k); subst; [|apply C; assumption]. cbn in *.
           pose proof (c_alias _ _ C k t' H1 H2) as X. fold r in X. congruence.
        -- intros k' U. cbn in *. unfold fupd in *. destruct (Z.eqb_spec k' k); subst; [|apply C; exact U].
           destruct (c_unused _ _ C k U) as (A & B & B' & D'). cbn. auto.
        -- apply C.
      * cbn. unfold fupd. rewrite Z.eqb_refl. cbn. intros t P.
        destruct (Z.eqb_spec t t0); [reflexivity|].
        destruct (s_fdone s t) eqn:Dt; [reflexivity|]. pose proof (c_alias _ _ C k t P Dt) as X. fold r in X. congruence.
  - split; [exact C|]. intros t P. destruct (s_fdone s t) eqn:Dt; [reflexivity|].
    pose proof (c_alias _ _ C k t P Dt) as X. fold r in X. congruence.
Qed.

Lemma step_cinv_reader s l s' : Inv s -> CInv s None -> step false s l = Some s' ->
  match l with
  | LAcc _ | LCloseLast _ | LRespSysErr _ | LDispatchFail _ => CInv s' None
  | _ => True
  end.
Proof.
  intros I C H. pose proof I as [T S]. destruct l; try exact Logic.I; unfold step in H.
  - (* LAcc *)
    destruct (r_err (s_rdr s k) || r_complete (s_rdr s k)); [discriminate|].
    destruct (r_cur (s_rdr s k)); [|discriminate]. some H. apply cinv_acc. exact C.
  - (* LCloseLast *)
    destruct (r_err (s_rdr s k) || r_complete (s_rdr s k)); [discriminate|].
    destruct (r_cur (s_rdr s k)) as [t|] eqn:Cu; [|discriminate]. some H.
    apply cinv_frag_done.
    set (s1 := if r_inbound (s_rdr s k) then s else mex_shutdown k s).
    assert (C1 : CInv s1 None) by (unfold s1; destruct (r_inbound (s_rdr s k)); [exact C|apply cinv_shutdown; exact C]).
    assert (R1 : s_rdr s1 = s_rdr s) by (unfold s1; destruct (r_inbound (s_rdr s k)); reflexivity).
    assert (F1 : s_fdone s1 = s_fdone s) by (unfold s1; destruct (r_inbound (s_rdr s k)); reflexivity).
    apply cinv_rdr_weaken; [exact C1|reflexivity|reflexivity|]. cbn. rewrite R1, F1. apply C.
  - (* LRespSysErr *)
    destruct (w_err (s_wr s k)); [some H; exact C|]. some H.
    assert (I1 : Inv (set_wr s k (wr_set (s_wr s k) (w_cur (s_wr s k)) (w_sent (s_wr s k)) false true))).
    { apply inv_set_wr; [exact I|]. cbn. intros t H1 H2. apply S; assumption. }
    apply cinv_release_prev; [apply inv_shutdown; exact I1|]. apply cinv_shutdown.
    apply cinv_set_wr; [exact C|intros t [A B]; auto|]. intros U. cbn. apply C. exact U.
  - (* LDispatchFail *)
    some H. apply cinv_release_prev; assumption.
Qed.

Lemma cinv_fail_reader k s ex : CInv s ex ->
  (forall t, r_prev (s_rdr s k) = Some t -> s_fdone s t = true) -> CInv (fail_reader k s) ex.
Proof.
  intros C Hp. unfold fail_reader. apply cinv_rdr_weaken; [apply cinv_shutdown; exact C|reflexivity|reflexivity|].
  cbn. intros t P D. rewrite (Hp t P) in D. discriminate.
Qed.

Lemma cinv_parse_chunks k pok t s ex : CInv s ex -> CInv (parse_chunks k pok t s) ex.
Proof.
  intros C. unfold parse_chunks. cbv zeta. destruct pok; [apply cinv_acc; exact C|].
  apply cinv_rdr_weaken; [apply cinv_acc; exact C|reflexivity|reflexivity|]. cbn. apply C.
Qed.

Lemma step_cinv_fetch s k a b c s' : Inv s -> CInv s None -> loses s (LFetch k a b c) = false ->
  step false s (LFetch k a b c) = Some s' -> CInv s' None.
Proof.
  intros I C NL H. unfold step in H. cbv zeta in H. cbn in NL.
  destruct (r_err (s_rdr s k) || r_complete (s_rdr s k)); [discriminate|].
  destruct (fetch_done_inv k s I) as (I1 & M1 & Y1 & R1). cbv zeta in R1.
  destruct (cinv_fetch_done k s None I C) as (C1 & P1).
  set (s1 := fetch_done k s) in *. pose proof I1 as [T1 S1].
  assert (Ini : r_init (s_rdr s1 k) = r_init (s_rdr s k)) by (rewrite R1; reflexivity).
  assert (U1 : x_used (s_mex s1 k) = x_used (s_mex s k)) by (rewrite M1; reflexivity).
  destruct (r_init (s_rdr s1 k)) as [t|] eqn:Ini1.
  - (* the initial fragment *)
    some H. destruct (i_init _ S1 _ _ Ini1) as (Ot & ND & Pv & Cv).
    apply cinv_parse_chunks. apply cinv_set_rdr; [exact C1| |cbn; auto|].
    + cbn. intros t' [E|[E _]]; [right; split; congruence|congruence].
    + intros U. destruct (c_unused _ _ C1 k U) as (_ & X & _). congruence.
  - rewrite <- Ini in NL. rewrite <- M1 in NL.
    destruct (x_ctx (s_mex s1 k)) eqn:Cx; [some H; apply cinv_fail_reader; assumption|].
    destruct (x_q (s_mex s1 k)) as [|t q] eqn:Q.
    + destruct (x_errn (s_mex s1 k)); [some H; apply cinv_fail_reader; assumption|discriminate].
    + destruct (inv_pop_mex k t q (PLocal k) s1 I1 Q Logic.I) as [I2 O2].
      pose proof (cinv_pop_mex k t q (PLocal k) s1 I1 C1 Q Logic.I) as C2.
      assert (Uk : x_used (s_mex s1 k) = true).
      { destruct (x_used (s_mex s1 k)) eqn:U; [reflexivity|]. destruct (c_unused _ _ C1 k U) as (X & _). congruence. }
      set (s2 := pop_mex k t q (PLocal k) s1) in *. cbn in NL.
      destruct (s_ty s t =? 0).
      * apply negb_false_iff in NL. subst a. some H.
        apply cinv_parse_chunks. apply cinv_attach; [apply cinv_acc; exact C2|rewrite O_acc, O2; exact Logic.I| | |cbn; auto|].
        -- intros t' [E|[E D]]; cbn in E; [congruence|]. cbn in D. rewrite (P1 t' E) in D. discriminate.
        -- right. split; [reflexivity|]. cbn. apply (live_not_done s2); [apply I2|rewrite O2; split; discriminate].
        -- cbn. unfold fupd. rewrite Z.eqb_refl. cbn. exact Uk.
      * apply negb_false_iff in NL. rewrite NL in H. some H.
        assert (C4 : CInv (p_rel S_rpf_rel t (p_acc t s2)) None).
        { apply cinv_rel_tr; [apply cinv_acc; exact C2|rewrite O_acc, O2; exact Logic.I]. }
        set (s4 := if r_inbound (s_rdr s k) && c then p_rel S_rpf_rel t (p_acc t s2) else mex_shutdown k (p_rel S_rpf_rel t (p_acc t s2))).
        assert (C5 : CInv s4 None) by (unfold s4; destruct (r_inbound (s_rdr s k) && c); [exact C4|apply cinv_shutdown; exact C4]).
        assert (R4 : s_rdr s4 = s_rdr s1) by (unfold s4; destruct (r_inbound (s_rdr s k) && c); reflexivity).
        assert (F4 : s_fdone s4 = s_fdone s1) by (unfold s4; destruct (r_inbound (s_rdr s k) && c); reflexivity).
        apply cinv_rdr_weaken; [exact C5|reflexivity|reflexivity|]. cbn. rewrite R4, F4.
        intros t' P D. rewrite (P1 t' P) in D. discriminate.
Qed.

Theorem step_cinv s l s' : Inv s -> CInv s None -> app_ok s l = true -> loses s l = false ->
  step false s l = Some s' -> CInv s' None.
Proof.
  intros I C A NL H.
  pose proof (step_cinv_simple s l s' I C NL H) as H1.
  pose proof (step_cinv_writer s l s' I C NL H) as H2.
  pose proof (step_cinv_reader s l s' I C H) as H3.
  destruct l; try exact H1; try exact H2; try exact H3.
  - eapply step_cinv_callreq; eassumption.
  - eapply step_cinv_fetch; eassumption.
Qed.

Theorem run_noloss_inv ls : forall s s', Inv s -> CInv s None -> run_noloss s ls = Some s' -> Inv s' /\ CInv s' None.
Proof.
  induction ls as [|l r IH]; cbn; intros s s' I C H; [some H; split; assumption|].
  destruct (app_ok s l) eqn:A; [|discriminate]. destruct (loses s l) eqn:NL; [discriminate|]. cbn in H.
  destruct (step false s l) as [s1|] eqn:E; [|discriminate].
  eapply IH; [| |exact H]; [eapply step_inv|eapply step_cinv]; eassumption.
Qed.

Lemma own_not_free tr t : tr_ok tr -> Forall ev_wf tr -> In t (toks tr) -> own_of tr t <> PFree.
Proof.
  induction tr as [|e r IH]; cbn; [tauto|]. intros [Ok He] W X. inversion W as [|? ? We Wr]; subst.
  destruct e as [s0 t' p|t' p|t'|s0 t']; cbn in *.
  - destruct (Z.eqb_spec t t'); [apply We|]. destruct X; [congruence|auto].
  - destruct (Z.eqb_spec t t'); [apply We|]. destruct X; [congruence|auto].
  - destruct X as [X|X]; [subst|auto]. apply IH; [exact Ok|exact Wr|]. apply gets_toks. apply He.
  - destruct (Z.eqb_spec t t'); [discriminate|]. destruct X; [congruence|auto].
Qed.

(* every frame obtained is released or still referenced by a queue, a reader or a writer *)
Theorem no_loss cap ls s : run_noloss (init cap) ls = Some s ->
  forall t, In t (gets (history s)) -> In t (rels (history s)) \/ held s t.
Proof.
  intros H t G. destruct (run_noloss_inv ls _ _ (init_inv cap) (cinv_init cap) H) as [[T S] C].
  unfold history in *. rewrite gets_rev in G. apply in_rev in G. rewrite rels_rev.
  pose proof (c_acc _ _ C t) as A. unfold accounted in A.
  assert (NF : O s t <> PFree).
  { apply own_not_free; [apply T|apply T|apply gets_toks; exact G]. }
  destruct (O s t) eqn:E; try congruence.
  - left. rewrite <- in_rev. apply own_released; [apply T|exact E].
  - right. left. exists k. auto.
  - right. left. exists k. auto.
  - right. right. exists c. exact A.
  - right. left. exists k. auto.
Qed.

Theorem noloss_quiescent cap ls s : run_noloss (init cap) ls = Some s -> quiescent s -> all_released (history s).
Proof.
  intros H Q t G. destruct (no_loss cap ls s H t G) as [R|Hd]; [exact R|]. exfalso. exact (Q t Hd).
Qed.

(* a run_noloss run is a run *)
Lemma run_noloss_run ls : forall s s', run_noloss s ls = Some s' -> run false s ls = Some s'.
Proof.
  induction ls as [|l r IH]; cbn; intros s s' H; [exact H|].
  destruct (app_ok s l); [|discriminate]. destruct (loses s l); [discriminate|]. cbn in H.
  destruct (step false s l); [|discriminate]. apply IH. exact H.
Qed.

(* ------------------------------------------------------------------ the site table *)

From Verif Require Import Gen.GenSites.

(* the model's site table is exactly the list of FramePool Get/Release call sites that go2v
   extracts from the source on this run: a new, removed or moved call site breaks this proof *)
Lemma site_table_is_generated : map snd site_table = pool_sites.
Proof. vm_compute. reflexivity. Qed.

Lemma site_numbers : map fst site_table = map Z.of_nat (seq 1 (length pool_sites)).
Proof. vm_compute. reflexivity. Qed.

Definition site_known (e : ev) : Prop :=
  match e with EGet x _ _ | ERel x _ => In x (map fst site_table) | _ => True end.

Lemma frag_done_sites t s : Forall site_known (s_trace s) -> Forall site_known (s_trace (frag_done t s)).
Proof.
  intros K. unfold frag_done. destruct (s_fdone s t); [exact K|]. cbn. constructor; [|exact K].
  vm_compute. tauto.
Qed.

Lemma fetch_done_sites k s : Forall site_known (s_trace s) -> Forall site_known (s_trace (fetch_done k s)).
Proof. intros K. unfold fetch_done. destruct (r_cur (s_rdr s k)); [apply frag_done_sites|]; exact K. Qed.
Lemma parse_chunks_sites k pok t s : Forall site_known (s_trace s) -> Forall site_known (s_trace (parse_chunks k pok t s)).
Proof. intros K. unfold parse_chunks. cbv zeta. destruct pok; cbn; constructor; try exact K; exact Logic.I. Qed.
Lemma release_prev_sites k q s : Forall site_known (s_trace s) -> Forall site_known (s_trace (release_prev k q s)).
Proof. intros K. unfold release_prev. cbv zeta. destruct (r_prev (s_rdr s k)); [apply frag_done_sites|]; exact K. Qed.

Ltac sites_tac K :=
  repeat first
    [ exact K
    | apply frag_done_sites
    | apply fetch_done_sites
    | apply parse_chunks_sites
    | apply release_prev_sites
    | match goal with
      | |- Forall site_known (s_trace (if ?b then _ else _)) => destruct b
      | |- Forall site_known (s_trace (match ?x with Some _ => _ | None => _ end)) => destruct x
      | |- Forall site_known (ERel (if ?b then _ else _) _ :: _) => destruct b
      | |- Forall site_known (_ :: _) => constructor; [vm_compute; tauto|]
      end
    | progress cbn [s_trace emit p_get p_acc p_rel push_mex push_send pop_mex pop_send set_mex set_rdr set_wr
                    set_send set_stop set_wexit set_fdone set_ty bump mex_shutdown fail_reader] ].

(* every Get/Release event of the repaired model names a site of the table *)
Lemma step_sites s l s' : step false s l = Some s' -> Forall site_known (s_trace s) -> Forall site_known (s_trace s').
Proof.
  intros H K. destruct l; unfold step in H; cbv zeta in H;
    repeat match type of H with
    | (if ?b then _ else _) = Some _ => destruct b
    | match ?x with Some _ => _ | None => _ end = Some _ => destruct x
    | match ?x with [] => _ | _ :: _ => _ end = Some _ => destruct x
    | None = Some _ => discriminate H
    end; try (some H); sites_tac K.
Qed.

Theorem run_sites ls : forall s s', run false s ls = Some s' -> Forall site_known (s_trace s) -> Forall site_known (s_trace s').
Proof.
  induction ls as [|l r IH]; cbn; intros s s' H K; [some H; exact K|].
  destruct (app_ok s l); [|discriminate]. destruct (step false s l) as [s1|] eqn:E; [|discriminate].
  eapply IH; [exact H|]. eapply step_sites; eassumption.
Qed.

(* ------------------------------------------------------------------ what the pinned tree did, and why the application contract is needed *)

Definition pinned_witness : list label :=
  [LReadCallReq 1 7; LFetch 7 true true true; LReadFwd 1 (Some 7) 0; LFetch 7 true false true; LDispatchFail 7].

(* dispatchInbound as on the pinned tree: arg1 continues in a second fragment whose checksum
   does not match; the initial frame, already released by the reader, is released again *)
Theorem pinned_double_release :
  exists s, run true (init 8) pinned_witness = Some s /\ ~ released_at_most_once (history s).
Proof.
  eexists. split; [vm_compute; reflexivity|]. intros N. vm_compute in N.
  inversion N as [|? ? Hn _]. apply Hn. left. reflexivity.
Qed.

(* the same schedule on the repaired code *)
Lemma repaired_witness_ok :
  exists s, run false (init 8) pinned_witness = Some s /\ rels (history s) = [0; 1] /\ gets (history s) = [0; 1].
Proof. eexists. split; [vm_compute; reflexivity|]. split; reflexivity. Qed.

(* a handler that goes on reading the request after InboundCallResponse.SendSystemError makes
   fragmentingReader.Read copy out of a released frame: app_ok is needed *)
Theorem contract_needed :
  exists s, run_any false (init 8) [LReadCallReq 1 7; LFetch 7 true true true; LRespSysErr 7; LAcc 7] = Some s /\
            ~ no_use_after_release (history s).
Proof.
  eexists. split; [vm_compute; reflexivity|]. intros N. vm_compute in N.
  refine (N [EGet 3 0 (PReader 1); EAcc 0; EMov 0 (PFrag 7); EAcc 0] 19 0 [EAcc 0] eq_refl _).
  left. reflexivity.
Qed.

(* ------------------------------------------------------------------ statements as used by Props/C12.v *)

Theorem at_most_once_thm : forall cap ls s,
  run false (init cap) ls = Some s -> released_at_most_once (history s).
Proof. intros cap ls s H. exact (proj1 (safety cap ls s H)). Qed.

Theorem no_use_after_release_thm : forall cap ls s,
  run false (init cap) ls = Some s -> no_use_after_release (history s).
Proof. intros cap ls s H. exact (proj1 (proj2 (safety cap ls s H))). Qed.

Theorem only_pool_frames_thm : forall cap ls s,
  run false (init cap) ls = Some s -> only_pool_frames (history s).
Proof. intros cap ls s H. exact (proj2 (proj2 (safety cap ls s H))). Qed.

Theorem noloss_is_run_thm : forall cap ls s, run_noloss (init cap) ls = Some s -> run false (init cap) ls = Some s.
Proof. intros cap ls s. exact (run_noloss_run ls (init cap) s). Qed.

Theorem sites_known_thm : forall cap ls s,
  run false (init cap) ls = Some s -> Forall site_known (s_trace s).
Proof. intros cap ls s H. exact (run_sites ls (init cap) s H (Forall_nil _)). Qed.
