(* C06, in-place accessors: the functions REGENERATED from the source on every run
   (Gen/GenC06InPlace.v, go2v/c06inplace.go: callReqSpan, lazyCallReq.Span / TTL / SetTTL / Service /
   HasMoreFragments, lazyError.Code, isCallResOK, lazyCallRes.OK, hasMoreFragments, finishesCall,
   Frame.SizedPayload / messageType) are the hand model Model/C06InPlace.v -- and therefore
   (Proofs/C06InPlaceP.v) return the fields of the message at the places the specification puts
   them.  A Frame is seen as its header and its payload bytes ([]byte holds bytes: Go typing). *)
From Coq Require Import ZArith List Bool Lia ZifyBool.
From Verif Require Import Base.Wrap Base.Bytes Base.GoSem Gen.GenConsts Gen.GenTypedBuf Gen.GenMessages
  Gen.GenC06InPlace Model.TypedBuf Model.Messages Spec.Protocol Spec.C06InPlaceSpec Model.C06InPlace
  Proofs.CodecP Proofs.GenTypedBufP Proofs.GenMessagesP Proofs.C06InPlaceP.
Import ListNotations.
Local Open Scope Z_scope.

Definition ip_frame (h : FrameHeader) (p : list Z) : Frame := mk_Frame h (Some p).

Lemma ip_bs_slice p lo hi : bs_slice (Some p) lo hi = option_map Some (ip_slice p lo hi).
Proof. unfold bs_slice, ip_slice, bs_len, bs_list. destruct (_ || _ || _); reflexivity. Qed.
Lemma ip_bs_index p i : bs_index (Some p) i = ip_index p i.
Proof. reflexivity. Qed.

Lemma ip_bytes_ok_slice p lo hi b : bytes_ok p = true -> ip_slice p lo hi = Some b -> bytes_ok b = true.
Proof.
  intros H. unfold ip_slice. destruct (_ || _ || _); [discriminate|]. intros E. inversion E; subst b.
  rewrite <- (firstn_skipn (Z.to_nat lo) p) in H. rewrite bytes_ok_app in H. apply andb_true_iff in H. destruct H as [_ H].
  rewrite <- (firstn_skipn (Z.to_nat (hi - lo)) (skipn (Z.to_nat lo) p)) in H. rewrite bytes_ok_app in H.
  apply andb_true_iff in H. tauto.
Qed.

Lemma ip_slice_len p lo hi b : ip_slice p lo hi = Some b -> zlen b = hi - lo.
Proof.
  unfold ip_slice. destruct (_ || _ || _) eqn:B; [discriminate|]. intros E. injection E as <-.
  rewrite zlen_firstn; [reflexivity|]. rewrite zlen_skipn by lia. lia.
Qed.

Section Tie.
  Variables (h : FrameHeader) (p : list Z).
  Hypothesis Hp : bytes_ok p = true.
  Let f := ip_frame h p.

  (* messages.go callReqSpan *)
  Lemma gen_callReqSpan : option_map absSpan (ip_callReqSpan f) = ip_span p.
  Proof.
    unfold ip_callReqSpan, ip_span, f, ip_frame. cbn [Frame_Payload]. rewrite ip_bs_slice.
    change (c_u_spanIndex + c_u_spanLength) with 30.
    destruct (ip_slice p c_u_spanIndex 30) as [b|] eqn:E; cbn [option_map]; [|reflexivity].
    unfold NewReadBuffer.
    destruct (Span_read_agrees (mk_Span 0 0 0 0) (mk_ReadBuffer (Some b) 0)) as [e [x [g' [R [A _]]]]].
    { unfold bokR. cbn. exact (ip_bytes_ok_slice _ _ _ _ Hp E). }
    rewrite R. cbn [option_map]. change (absR (mk_ReadBuffer (Some b) 0)) with (rb b) in A.
    rewrite <- A. reflexivity.
  Qed.

  (* relay_messages.go lazyCallReq.Span *)
  Lemma gen_lazyCallReq_Span : option_map absSpan (ip_lazyCallReq_Span (mk_lazyCallReq f)) = ip_span p.
  Proof.
    unfold ip_lazyCallReq_Span. cbn [lazyCallReq_Frame]. rewrite <- gen_callReqSpan.
    destruct (ip_callReqSpan f); reflexivity.
  Qed.

  (* lazyCallReq.TTL *)
  Lemma gen_lazyCallReq_TTL : ip_lazyCallReq_TTL (mk_lazyCallReq f) = ip_ttl p.
  Proof.
    unfold ip_lazyCallReq_TTL, ip_ttl, f, ip_frame. cbn [lazyCallReq_Frame Frame_Payload]. rewrite ip_bs_slice.
    change (c_u_ttlIndex + c_u_ttlLen) with 5.
    destruct (ip_slice p c_u_ttlIndex 5) as [b|]; cbn [option_map]; [|reflexivity].
    unfold be_get, bs_len, bs_list. change (Z.of_nat 4) with 4. unfold ms_ns.
    destruct (zlen b <? 4); reflexivity.
  Qed.

  (* lazyCallReq.SetTTL: the payload afterwards; the header is not touched *)
  Lemma gen_lazyCallReq_SetTTL d :
    option_map (fun r => (Frame_Header (lazyCallReq_Frame r), bs_list (Frame_Payload (lazyCallReq_Frame r))))
               (ip_lazyCallReq_SetTTL (mk_lazyCallReq f) d)
    = option_map (fun q => (h, q)) (ip_set_ttl p d).
  Proof.
    unfold ip_lazyCallReq_SetTTL, ip_set_ttl, f, ip_frame, bs_put. cbn [lazyCallReq_Frame Frame_Payload]. rewrite ip_bs_slice.
    change (c_u_ttlIndex + c_u_ttlLen) with 5.
    destruct (ip_slice p c_u_ttlIndex 5) as [b|] eqn:E; cbn [option_map]; [|reflexivity].
    assert (Lb : zlen b = 4).
    { exact (ip_slice_len _ _ _ _ E). }
    rewrite Lb. change (5 - c_u_ttlIndex <? Z.of_nat 4) with false. change (4 <? 4) with false. cbv iota.
    cbn [option_map set_lazyCallReq_Frame set_Frame_Payload lazyCallReq_Frame Frame_Header Frame_Payload bs_list].
    unfold splice, ms_ns. rewrite be_length. reflexivity.
  Qed.

  (* lazyCallReq.Service *)
  Lemma gen_lazyCallReq_Service : option_map bs_list (ip_lazyCallReq_Service (mk_lazyCallReq f)) = ip_service p.
  Proof.
    unfold ip_lazyCallReq_Service, ip_service, f, ip_frame. cbn [lazyCallReq_Frame Frame_Payload]. rewrite ip_bs_index.
    destruct (ip_index p c_u_serviceLenIndex) as [l|]; [|reflexivity].
    rewrite ip_bs_slice. destruct (ip_slice p _ _); reflexivity.
  Qed.

  (* hasMoreFragments, lazyCallReq.HasMoreFragments *)
  Lemma gen_hasMoreFragments : ip_hasMoreFragments f = ip_more p /\ ip_lazyCallReq_HasMoreFragments (mk_lazyCallReq f) = ip_more p.
  Proof.
    unfold ip_hasMoreFragments, ip_lazyCallReq_HasMoreFragments, ip_more, f, ip_frame.
    cbn [lazyCallReq_Frame Frame_Payload]. rewrite ip_bs_index. split; destruct (ip_index p c_u_flagsIndex); reflexivity.
  Qed.

  (* lazyError.Code *)
  Lemma gen_lazyError_Code : ip_lazyError_Code (mk_lazyError f) = ip_err_code p.
  Proof.
    unfold ip_lazyError_Code, ip_err_code, f, ip_frame. cbn [lazyError_Frame Frame_Payload]. rewrite ip_bs_index.
    destruct (ip_index p c_u_errCodeIndex); reflexivity.
  Qed.

  (* isCallResOK, lazyCallRes.OK *)
  Lemma gen_isCallResOK : ip_isCallResOK f = ip_res_ok p /\ ip_lazyCallRes_OK (mk_lazyCallRes f) = ip_res_ok p.
  Proof.
    unfold ip_lazyCallRes_OK, ip_isCallResOK, ip_res_ok, f, ip_frame. cbn [lazyCallRes_Frame Frame_Payload]. rewrite ip_bs_index.
    split; destruct (ip_index p c_u_resCodeIndex); reflexivity.
  Qed.

  (* finishesCall *)
  Lemma gen_finishesCall : ip_finishesCall f = ip_finishes (FrameHeader_messageType h) p.
  Proof.
    unfold ip_finishesCall, ip_Frame_messageType, ip_finishes, f, ip_frame. cbn [Frame_Header Frame_Payload].
    destruct (_ || _); [reflexivity|]. destruct (_ || _); [|reflexivity].
    rewrite ip_bs_index. destruct (ip_index p c_u_flagsIndex); reflexivity.
  Qed.

  (* Frame.SizedPayload: the first size-16 bytes of the payload (uint16 arithmetic) *)
  Lemma gen_SizedPayload :
    option_map bs_list (ip_Frame_SizedPayload f) = ip_slice p 0 (wrapU 16 (FrameHeader_size h - 16)).
  Proof.
    unfold ip_Frame_SizedPayload, ip_FrameHeader_PayloadSize, f, ip_frame. cbn [Frame_Header Frame_Payload].
    change c_FrameHeaderSize with 16. rewrite ip_bs_slice. destruct (ip_slice p 0 _); reflexivity.
  Qed.
End Tie.

(* ---- the composition used by the library: the in-place decoders of the REGENERATED code on a
   payload laid out by the specification ---- *)
Section OnSpec.
  Variables (h : FrameHeader) (flags ttl_ms a b c d : Z) (service rest : list Z).
  Hypothesis Ha : u_ok 8 a.  Hypothesis Hb : u_ok 8 b.  Hypothesis Hc : u_ok 8 c.  Hypothesis Hd : u_ok 1 d.
  Hypothesis Hf : 0 <= flags < 256.
  Hypothesis Httl : 0 <= ttl_ms < 4294967296.
  Hypothesis Hsvc : zlen service <= 255.
  Hypothesis Hbs : bytes_ok service = true.  Hypothesis Hbr : bytes_ok rest = true.
  Let tr := s_tracing a b c d.
  Let p := s_ip_callreq flags ttl_ms tr service rest.
  Let f := ip_frame h p.

  Lemma ip_spec_payload_bytes : bytes_ok p = true.
  Proof.
    unfold p, s_ip_callreq, tr, s_tracing, s_str1. rewrite !bytes_ok_app, !be_bytes_ok, Hbs, Hbr.
    unfold u_ok in Hd. change (256 ^ Z.of_nat 1) with 256 in Hd. pose proof (zlen_nonneg service).
    unfold slen. fold (zlen service). cbn [bytes_ok forallb]. unfold byte_ok.
    repeat (apply andb_true_iff; split); try reflexivity; lia.
  Qed.

  (* callReqSpan / Span(): the Go struct's spanID, parentID, traceID, flags are the specification's
     spanid, parentid, traceid, traceflags *)
  Lemma gen_span_on_spec :
    exists s, ip_callReqSpan f = Some s /\ ip_lazyCallReq_Span (mk_lazyCallReq f) = Some s /\
              Span_spanID s = a /\ Span_parentID s = b /\ Span_traceID s = c /\ Span_flags s = d.
  Proof.
    pose proof (gen_callReqSpan h p ip_spec_payload_bytes) as G. fold f in G.
    assert (S : ip_span p = Some (mkSpan a b c d)) by exact (ip_span_spec flags ttl_ms a b c d service rest Ha Hb Hc Hd).
    rewrite S in G.
    destruct (ip_callReqSpan f) as [s|] eqn:E; [|discriminate]. cbn [option_map] in G.
    exists s. split; [reflexivity|]. split.
    - unfold ip_lazyCallReq_Span. cbn [lazyCallReq_Frame]. rewrite E. reflexivity.
    - unfold absSpan in G. inversion G. repeat split.
  Qed.

  Lemma gen_ttl_on_spec : ip_lazyCallReq_TTL (mk_lazyCallReq f) = Some (ttl_ms * 1000000).
  Proof.
    unfold f. rewrite gen_lazyCallReq_TTL. exact (ip_ttl_spec flags ttl_ms a b c d service rest Httl).
  Qed.

  Lemma gen_service_on_spec : option_map bs_list (ip_lazyCallReq_Service (mk_lazyCallReq f)) = Some service.
  Proof.
    unfold f. rewrite gen_lazyCallReq_Service. exact (ip_service_spec flags ttl_ms a b c d service rest Hsvc).
  Qed.

  Lemma gen_set_ttl_on_spec dns : 0 <= dns < 4294967296000000 ->
    option_map (fun r => (Frame_Header (lazyCallReq_Frame r), bs_list (Frame_Payload (lazyCallReq_Frame r))))
               (ip_lazyCallReq_SetTTL (mk_lazyCallReq f) dns)
    = Some (h, s_ip_callreq flags (dns / 1000000) tr service rest).
  Proof.
    intros Hd'. unfold f. rewrite gen_lazyCallReq_SetTTL.
    assert (S : ip_set_ttl p dns = Some (s_ip_callreq flags (dns / 1000000) tr service rest))
      by exact (ip_set_ttl_spec flags ttl_ms a b c d service rest dns Hd').
    rewrite S. reflexivity.
  Qed.

  Lemma gen_more_on_spec : ip_hasMoreFragments f = Some (s_ip_more flags) /\
                           ip_lazyCallReq_HasMoreFragments (mk_lazyCallReq f) = Some (s_ip_more flags).
  Proof.
    destruct (gen_hasMoreFragments h p) as [A B]. fold f in A, B. rewrite A, B.
    assert (S : ip_more p = Some (s_ip_more flags)) by exact (ip_more_spec flags _ Hf).
    rewrite S. split; reflexivity.
  Qed.

  (* the error frame the library builds from that span (SendSystemError: errorMessage.write with
     tracing = callReqSpan(frame)) is code:1 ++ THE CALL'S 25 tracing bytes ++ message~2 *)
  Lemma gen_error_frame_on_spec s id code msg g :
    ip_callReqSpan f = Some s -> wfW g -> 0 <= code < 256 -> zlen msg <= 65535 -> bytes_ok msg = true ->
    WriteBuffer_err g = 0 -> zlen (s_error code tr msg) <= rs_len (WriteBuffer_remaining g) ->
    exists e g', errorMessage_write (mk_errorMessage id code s msg) g = Some (e, g') /\
                 wout (absW g') = wout (absW g) ++ s_error code tr msg /\ werr (absW g') = 0.
  Proof.
    intros E W Hc' Hm Hbm Herr Hroom.
    destruct gen_span_on_spec as [s' [E' [_ [S1 [S2 [S3 S4]]]]]]. rewrite E in E'. inversion E'; subst s'.
    destruct (errorMessage_write_agrees (mk_errorMessage id code s msg) g W) as [e [g' [R [W' [A _]]]]].
    { cbn [errorMessage_tracing]. rewrite S4. unfold u_ok in Hd. change (256 ^ Z.of_nat 1) with 256 in Hd. exact Hd. }
    exists e, g'. split; [exact R|]. rewrite A.
    pose proof (w_error_writes (absError (mk_errorMessage id code s msg))) as [Wr _].
    { unfold absError, absSpan, error_ok, span_ok, str16_ok. cbn. rewrite S1, S2, S3, S4. repeat split; try apply Ha; try apply Hb; try apply Hc; try apply Hd; try lia. exact Hbm. }
    unfold spec_error, spec_span, absError, absSpan in Wr. cbn [em_code em_span em_msg sp_span sp_parent sp_trace sp_flags
      errorMessage_errCode errorMessage_tracing errorMessage_message] in Wr. rewrite S1, S2, S3, S4 in Wr. fold tr in Wr.
    unfold absError, absSpan. cbn [errorMessage_errCode errorMessage_tracing errorMessage_message]. rewrite S1, S2, S3, S4.
    rewrite Wr; [split; reflexivity| |].
    - unfold absW. cbn [werr]. rewrite Herr. reflexivity.
    - unfold absW. cbn [wroom]. exact Hroom.
  Qed.
End OnSpec.

(* the offsets of relay_messages.go are the places of the specification's layout
   flags:1 ttl:4 tracing:25 service~1 ... / flags:1 code:1 ... / code:1 ... *)
Lemma ip_offsets :
  [c_u_flagsIndex; c_u_ttlIndex; c_u_ttlLen; c_u_spanIndex; c_u_spanLength; c_u_serviceLenIndex; c_u_serviceNameIndex;
   c_u_resCodeIndex; c_u_resCodeOK; c_u_errCodeIndex; c_hasMoreFragmentsFlag]
  = [0; 1; 4; 5; 25; 30; 31; 1; 0; 0; 1].
Proof. reflexivity. Qed.

Theorem inplace_generated :
  (forall h p, bytes_ok p = true -> option_map absSpan (ip_callReqSpan (ip_frame h p)) = ip_span p) /\
  (forall h p, bytes_ok p = true -> option_map absSpan (ip_lazyCallReq_Span (mk_lazyCallReq (ip_frame h p))) = ip_span p) /\
  (forall h p, ip_lazyCallReq_TTL (mk_lazyCallReq (ip_frame h p)) = ip_ttl p) /\
  (forall h p d,
     option_map (fun r => (Frame_Header (lazyCallReq_Frame r), bs_list (Frame_Payload (lazyCallReq_Frame r))))
                (ip_lazyCallReq_SetTTL (mk_lazyCallReq (ip_frame h p)) d) = option_map (fun q => (h, q)) (ip_set_ttl p d)) /\
  (forall h p, option_map bs_list (ip_lazyCallReq_Service (mk_lazyCallReq (ip_frame h p))) = ip_service p) /\
  (forall h p, ip_hasMoreFragments (ip_frame h p) = ip_more p /\
               ip_lazyCallReq_HasMoreFragments (mk_lazyCallReq (ip_frame h p)) = ip_more p) /\
  (forall h p, ip_lazyError_Code (mk_lazyError (ip_frame h p)) = ip_err_code p) /\
  (forall h p, ip_isCallResOK (ip_frame h p) = ip_res_ok p /\ ip_lazyCallRes_OK (mk_lazyCallRes (ip_frame h p)) = ip_res_ok p) /\
  (forall h p, ip_finishesCall (ip_frame h p) = ip_finishes (FrameHeader_messageType h) p) /\
  (forall h p, option_map bs_list (ip_Frame_SizedPayload (ip_frame h p)) = ip_slice p 0 (wrapU 16 (FrameHeader_size h - 16))).
Proof.
  split; [exact gen_callReqSpan|]. split; [exact gen_lazyCallReq_Span|]. split; [exact gen_lazyCallReq_TTL|].
  split; [exact gen_lazyCallReq_SetTTL|]. split; [exact gen_lazyCallReq_Service|]. split; [exact gen_hasMoreFragments|].
  split; [exact gen_lazyError_Code|]. split; [exact gen_isCallResOK|]. split; [exact gen_finishesCall|]. exact gen_SizedPayload.
Qed.

(* ---- the in-place parts of the relay's hand model (Model/RelayLazy.v, properties C08 / C14:
   span_of, lazy_ttl_ms + lazyTTL, set_ttl, lz_service -- totalised there) are this model, hence the
   regenerated code, on every payload long enough not to panic ---- *)
From Verif Require Import Gen.GenRelayFwd Model.RelayLazy.

Lemma ip_slice_total p lo hi : 0 <= lo <= hi -> hi <= zlen p -> ip_slice p lo hi = Some (slice p lo hi).
Proof.
  intros A B. unfold ip_slice, slice.
  match goal with |- (if ?x then _ else _) = _ => destruct x eqn:E end; [lia|reflexivity].
Qed.

Lemma ip_relaylazy_agree p : 30 <= zlen p ->
  ip_span p = Some (span_of p) /\
  ip_ttl p = Some (lazyTTL (lazy_ttl_ms p)) /\
  (forall d, ip_set_ttl p d = Some (set_ttl p d)).
Proof.
  intros L. unfold ip_span, ip_ttl, ip_set_ttl, span_of, lazy_ttl_ms, lazyTTL, set_ttl.
  rewrite !ip_slice_total by (change c_u_spanIndex with 5; change c_u_spanLength with 25;
                              change c_u_ttlIndex with 1; change c_u_ttlLen with 4; lia).
  assert (L4 : zlen (slice p c_u_ttlIndex (c_u_ttlIndex + c_u_ttlLen)) = 4).
  { transitivity (c_u_ttlIndex + c_u_ttlLen - c_u_ttlIndex); [|reflexivity].
    apply (ip_slice_len p). apply ip_slice_total; change c_u_ttlIndex with 1; change c_u_ttlLen with 4; lia. }
  rewrite L4. change (4 <? 4) with false. cbv iota.
  split; [reflexivity|]. split; [|reflexivity].
  change 4%nat with (Z.to_nat 4). rewrite firstn_all_z by lia. reflexivity.
Qed.

(* closed forms for Props/C06.v *)
Theorem inplace_span_generated : forall h flags ttl_ms a b c d service rest,
  u_ok 8 a -> u_ok 8 b -> u_ok 8 c -> u_ok 1 d -> 0 <= flags < 256 ->
  zlen service <= 255 -> bytes_ok service = true -> bytes_ok rest = true ->
  let f := ip_frame h (s_ip_callreq flags ttl_ms (s_tracing a b c d) service rest) in
  exists s, ip_callReqSpan f = Some s /\ ip_lazyCallReq_Span (mk_lazyCallReq f) = Some s /\
            Span_spanID s = a /\ Span_parentID s = b /\ Span_traceID s = c /\ Span_flags s = d.
Proof. exact gen_span_on_spec. Qed.

Theorem inplace_error_frame_generated : forall h flags ttl_ms a b c d service rest,
  u_ok 8 a -> u_ok 8 b -> u_ok 8 c -> u_ok 1 d -> 0 <= flags < 256 ->
  zlen service <= 255 -> bytes_ok service = true -> bytes_ok rest = true ->
  forall s id code msg g,
  ip_callReqSpan (ip_frame h (s_ip_callreq flags ttl_ms (s_tracing a b c d) service rest)) = Some s ->
  wfW g -> 0 <= code < 256 -> zlen msg <= 65535 -> bytes_ok msg = true ->
  WriteBuffer_err g = 0 -> zlen (s_error code (s_tracing a b c d) msg) <= rs_len (WriteBuffer_remaining g) ->
  exists e g', errorMessage_write (mk_errorMessage id code s msg) g = Some (e, g') /\
               wout (absW g') = wout (absW g) ++ s_error code (s_tracing a b c d) msg /\ werr (absW g') = 0.
Proof. exact gen_error_frame_on_spec. Qed.
