(* C07, third strengthening: the two wrong variants of channel.go (Model/ClosePinned3.v).
   1. with both flags false the variant system has exactly the runs of [cstep] (so every C07 theorem
      about the channel is a theorem about [vstep false false]);
   2. serve_late refutes C07_chan_monotone and lets a connection in after Close;
   3. read_first refutes C07_chan_reaches_closed -- both with the concrete schedules that the
      chanclose engine forces on the implementation. *)
From Coq Require Import ZArith List Bool Lia.
From Verif Require Import Base.Wrap Gen.GenConsts Model.CloseKernel Model.ChanClose Model.ClosePinned3
  Proofs.CloseKernelP Proofs.ChanCloseP.
Import ListNotations.
Local Open Scope Z_scope.

(* ---------- the flags set to false: the unchanged model ---------- *)

Lemma vtstep_ff : forall s p arg, vtstep false false s (VN p) arg = vlift (ctstep s p arg).
Proof. intros s p arg. destruct p; reflexivity. Qed.

Lemma upd_map : forall (A B : Type) (f : A -> B) (l : list A) n x, upd (map f l) n (f x) = map f (upd l n x).
Proof.
  intros A B f l. induction l as [|y r IH]; intros n x; [destruct n; reflexivity|].
  destruct n; cbn [map upd]; [reflexivity|]. rewrite IH. reflexivity.
Qed.

Definition vembed_opt (o : option csys) : option vsys := match o with Some s => Some (vembed s) | None => None end.

Lemma vstep_ff : forall s l, vstep false false (vembed s) l = vembed_opt (cstep s l).
Proof.
  intros s l. unfold vembed. destruct l; cbn [vstep cstep vsh vthr csh cthr vembed_opt].
  - destruct ((chst (csh s) =? hClient) && negb (lis (csh s))); reflexivity.
  - cbn [vembed_opt]. unfold vembed. cbn [csh cthr]. rewrite map_app. reflexivity.
  - destruct ((c <? length (cstates (csh s)))%nat && (cstate (csh s) c <? v) && (v <=? kCl)); reflexivity.
  - unfold vembed. cbn [csh cthr]. rewrite map_app. reflexivity.
  - destruct (c <? length (cstates (csh s)))%nat; [|reflexivity].
    cbn [vembed_opt]. unfold vembed. cbn [csh cthr]. rewrite map_app. reflexivity.
  - unfold vembed. cbn [csh cthr]. rewrite map_app. reflexivity.
  - rewrite nth_error_map. destruct (nth_error (cthr s) tid) as [p|]; cbn [option_map]; [|reflexivity].
    rewrite vtstep_ff. destruct (ctstep (csh s) p arg) as [[sh' p']|]; cbn [vlift vembed_opt]; [|reflexivity].
    unfold vembed. cbn [csh cthr]. rewrite upd_map. reflexivity.
  - unfold vembed. cbn [csh cthr]. rewrite map_app. reflexivity.
  - unfold vembed. cbn [csh cthr]. rewrite map_app. reflexivity.
Qed.

Lemma vrun_ff : forall ls s, run (vstep false false) (vembed s) ls = vembed_opt (run cstep s ls).
Proof.
  induction ls as [|l ls IH] using rev_ind; intros s; [reflexivity|].
  rewrite !run_snoc. rewrite IH. destruct (run cstep s ls) as [m|]; cbn [vembed_opt]; [apply vstep_ff|reflexivity].
Qed.

Lemma pinned3_false_is_model :
  (forall ls, run (vstep false false) vinit ls = vembed_opt (run cstep cinit ls)) /\
  (forall s, Reach cstep cinit s -> Reach (vstep false false) vinit (vembed s)).
Proof.
  split.
  - intros ls. exact (vrun_ff ls cinit).
  - intros s [ls H]. exists ls. change vinit with (vembed cinit). rewrite vrun_ff, H. reflexivity.
Qed.

(* ---------- serve_late: Serve on a draining client channel takes it back to Listening ---------- *)

(* a client channel connects out (connection 0 is added); Close: StartClose, closes connection 0
   (-> StartClose), nothing inbound: the connection reaches InboundClosed, its callback moves the
   channel to InboundClosed; an outbound call is still in flight. *)
Definition serve_late_prefix : list clabel :=
  [LNewConn; LRunC 0 0; LClose; LRunC 1 0; LRunC 1 0; LRunC 1 0; LConnMove 0 3; LCallback 0;
   LRunC 2 0; LRunC 2 0; LRunC 2 0; LRunC 2 3; LRunC 2 0].
(* Serve; then a connection completes its handshake *)
Definition serve_late_suffix : list clabel := [LServe; LRunC 3 0; LNewConn; LRunC 4 0].

Lemma chan_monotone_serve_late_refuted : exists s1 s2,
  run (vstep true false) vinit serve_late_prefix = Some s1 /\
  run (vstep true false) s1 serve_late_suffix = Some s2 /\
  chst (vsh s1) = hIC /\ chst (vsh s2) = hListening /\ ~ (chst (vsh s1) <= chst (vsh s2)) /\
  nth_error (vthr s2) 3 = Some (VN (CDone oSrvOk)) /\
  nth_error (vthr s2) 4 = Some (VN (CDone oAdded)) /\ conns (vsh s2) = [0%nat; 1%nat].
Proof.
  eexists. eexists. split; [vm_compute; reflexivity|]. split; [vm_compute; reflexivity|].
  vm_compute. repeat split. intros H. apply H. reflexivity.
Qed.

(* the model on the same schedule: Serve fails with errInvalidStateForOp, the state stays InboundClosed,
   the new connection is refused *)
Lemma serve_late_witness_model : exists s2,
  run (vstep false false) vinit (serve_late_prefix ++ serve_late_suffix) = Some s2 /\
  chst (vsh s2) = hIC /\ nth_error (vthr s2) 3 = Some (VN (CDone oSrvInvalid)) /\
  nth_error (vthr s2) 4 = Some (VN (PAd2 1)) /\ conns (vsh s2) = [0%nat].
Proof. eexists. split; [vm_compute; reflexivity|]. vm_compute. repeat split. Qed.

(* ---------- read_first: the callback's stale state read loses the close ---------- *)

(* listen; connection 0 is added; the connection closes on its own (remote hang-up): its callback
   reads the channel state (Listening) and is about to remove the connection; Close: the
   connection is still tracked, so StartClose and the rest is left to the callback (c.close() has
   no effect on a closed connection); the callback removes the connection, looks at the state it
   read on entry and returns.  Nothing is left to run. *)
Definition read_first_witness : list clabel :=
  [LListen; LNewConn; LRunC 0 0; LConnMove 0 4; LCallback 0; LRunC 1 0;
   LClose; LRunC 2 0; LRunC 2 0; LRunC 2 0;
   LRunC 1 0; LRunC 1 0].

Lemma chan_reaches_closed_read_first_refuted : exists s,
  Reach (vstep false true) vinit s /\
  hSC <= chst (vsh s) /\
  (forall c, In c (conns (vsh s)) -> cstate (vsh s) c = kCl) /\
  g_owed (vsh s) = [] /\
  (forall n p, nth_error (vthr s) n = Some p -> exists o, p = VN (CDone o)) /\
  ~ (chst (vsh s) = hCl /\ g_closed (vsh s) = 1) /\
  chst (vsh s) = hSC /\ conns (vsh s) = [] /\ g_closed (vsh s) = 0.
Proof.
  assert (H : exists s, run (vstep false true) vinit read_first_witness = Some s) by (eexists; vm_compute; reflexivity).
  destruct H as [s H]. exists s. split; [exists read_first_witness; exact H|].
  revert H. vm_compute. intros H. inversion H; subst; clear H. cbn.
  split; [discriminate|]. split; [intros c []|]. split; [reflexivity|]. split.
  - intros n p Hn. do 3 (destruct n as [|n]; [inversion Hn; eexists; reflexivity|]). destruct n; discriminate Hn.
  - split; [intros [Hc _]; discriminate Hc|]. repeat split.
Qed.

(* the model on the same schedule (one more step: the callback has a scan and an update to do) closes the channel *)
Lemma read_first_witness_model : exists s,
  run (vstep false false) vinit (read_first_witness ++ [LRunC 1 0; LRunC 1 4; LRunC 1 0; LRunC 1 0]) = Some s /\
  chst (vsh s) = hCl /\ g_closed (vsh s) = 1 /\ conns (vsh s) = [].
Proof. eexists. split; [vm_compute; reflexivity|]. vm_compute. repeat split. Qed.
