(* C06, in-place accessors: the hand model (Model/C06InPlace.v) on the payload the SPECIFICATION
   encoder lays out returns the fields of the message -- the offsets the code uses are the places
   Spec/Protocol.v puts the fields.  Independent of the regenerated functions (Gen/GenC06InPlace.v):
   this file is the dependency of the spec_sub c06inplace. *)
From Coq Require Import ZArith List Bool Lia ZifyBool.
From Verif Require Import Base.Wrap Base.Bytes Base.Wire Gen.GenConsts Model.TypedBuf Model.Messages
  Spec.Protocol Spec.ProtocolCall Spec.C06InPlaceSpec Model.C06InPlace Proofs.CodecP.
Import ListNotations.
Local Open Scope Z_scope.

(* ---- slices / indices of a concatenation ---- *)
Lemma ip_zlen_len {A} (l : list A) : Z.to_nat (zlen l) = length l.
Proof. unfold zlen. apply Nat2Z.id. Qed.

Lemma ip_slice_mid a b c : ip_slice (a ++ b ++ c) (zlen a) (zlen a + zlen b) = Some b.
Proof.
  unfold ip_slice. pose proof (zlen_nonneg a). pose proof (zlen_nonneg b). pose proof (zlen_nonneg c).
  rewrite !zlen_app.
  match goal with |- (if ?x then _ else _) = _ => destruct x eqn:E end; [lia|].
  replace (zlen a + zlen b - zlen a) with (zlen b) by lia. rewrite !ip_zlen_len.
  rewrite skipn_app, skipn_all, Nat.sub_diag. cbn [skipn app].
  rewrite firstn_app, firstn_all, Nat.sub_diag. cbn [firstn]. rewrite app_nil_r. reflexivity.
Qed.

Lemma ip_index_mid a x c : ip_index (a ++ x :: c) (zlen a) = Some x.
Proof.
  unfold ip_index. pose proof (zlen_nonneg a). pose proof (zlen_nonneg c).
  rewrite zlen_app. unfold zlen at 3. cbn [length]. fold (zlen c).
  match goal with |- (if ?x then _ else _) = _ => destruct x eqn:E end; [lia|].
  rewrite ip_zlen_len, app_nth2, Nat.sub_diag by lia. reflexivity.
Qed.

Lemma ip_zlen_tracing a b c d : zlen (s_tracing a b c d) = 25.
Proof. unfold s_tracing. rewrite !zlen_app, !zlen_be. reflexivity. Qed.

Lemma ip_id_ok hi lo : 0 <= hi < 4294967296 -> 0 <= lo < 4294967296 -> u_ok 8 (s_ip_id hi lo).
Proof. unfold u_ok, s_ip_id. intros A B. change (256 ^ Z.of_nat 8) with 18446744073709551616. lia. Qed.

Lemma ip_halves_id hi lo : 0 <= hi < 4294967296 -> 0 <= lo < 4294967296 -> ip_halves (s_ip_id hi lo) = [hi; lo].
Proof.
  unfold ip_halves, s_ip_id. intros A B.
  rewrite Z.div_add_l, Z.div_small, Z.add_0_r by lia.
  rewrite Z.add_comm, Z.mod_add, Z.mod_small by lia. reflexivity.
Qed.

(* ---- call req: flags:1 ttl:4 tracing:25 service~1 rest ---- *)
Section CallReq.
  Variables (flags ttl_ms a b c d : Z) (service rest : list Z).
  Hypothesis Ha : u_ok 8 a.  Hypothesis Hb : u_ok 8 b.  Hypothesis Hc : u_ok 8 c.  Hypothesis Hd : u_ok 1 d.
  Hypothesis Httl : 0 <= ttl_ms < 4294967296.
  Hypothesis Hsvc : zlen service <= 255.
  Let tr := s_tracing a b c d.
  Let p := s_ip_callreq flags ttl_ms tr service rest.

  (* callReqSpan / lazyCallReq.Span: the four fields in WIRE order spanid parentid traceid flags *)
  Lemma ip_span_spec : ip_span p = Some (mkSpan a b c d).
  Proof.
    unfold ip_span, p, s_ip_callreq.
    change c_u_spanIndex with (zlen ([flags] ++ be 4 ttl_ms)) at 1.
    replace (c_u_spanIndex + c_u_spanLength) with (zlen ([flags] ++ be 4 ttl_ms) + zlen tr)
      by (unfold tr; rewrite ip_zlen_tracing; reflexivity).
    replace ([flags] ++ be 4 ttl_ms ++ tr ++ s_str1 service ++ rest)
      with (([flags] ++ be 4 ttl_ms) ++ tr ++ (s_str1 service ++ rest)) by (rewrite <- !app_assoc; reflexivity).
    rewrite ip_slice_mid.
    pose proof (r_span_consumes (mkSpan a b c d)) as [C _]; [repeat split; cbn; try apply Ha; try apply Hb; try apply Hc; apply Hd|].
    specialize (C []). rewrite app_nil_r in C. unfold spec_span in C. cbn [sp_span sp_parent sp_trace sp_flags] in C.
    unfold tr. rewrite C. reflexivity.
  Qed.

  (* lazyCallReq.TTL: the ttl field, in nanoseconds *)
  Lemma ip_ttl_spec : ip_ttl p = Some (ttl_ms * 1000000).
  Proof.
    unfold ip_ttl, p, s_ip_callreq.
    change c_u_ttlIndex with (zlen [flags]) at 1.
    change (c_u_ttlIndex + c_u_ttlLen) with (zlen [flags] + zlen (be 4 ttl_ms)).
    rewrite ip_slice_mid. rewrite zlen_be. cbn [Z.ltb Z.of_nat Pos.of_succ_nat Pos.succ Z.compare Pos.compare Pos.compare_cont].
    change (firstn 4 (be 4 ttl_ms)) with (firstn (length (be 4 ttl_ms)) (be 4 ttl_ms)). rewrite firstn_all.
    rewrite unbe_be by (unfold u_ok; change (256 ^ Z.of_nat 4) with 4294967296; lia).
    unfold ms_ns. rewrite (wrapS_id 64 ttl_ms) by (change (2 ^ (64 - 1)) with 9223372036854775808; change (2 ^ 32) with 4294967296; change (2 ^ 8) with 256; lia). rewrite wrapS_id by (change (2 ^ (64 - 1)) with 9223372036854775808; change (2 ^ 32) with 4294967296; change (2 ^ 8) with 256; lia). reflexivity.
  Qed.

  (* lazyCallReq.SetTTL(d): only the ttl field changes *)
  Lemma ip_set_ttl_spec dns : 0 <= dns < 4294967296000000 ->
    ip_set_ttl p dns = Some (s_ip_callreq flags (dns / 1000000) tr service rest).
  Proof.
    intros Hdn. unfold ip_set_ttl, p, s_ip_callreq.
    change c_u_ttlIndex with (zlen [flags]) at 1.
    change (c_u_ttlIndex + c_u_ttlLen) with (zlen [flags] + zlen (be 4 ttl_ms)).
    rewrite ip_slice_mid. rewrite zlen_be. cbn [Z.ltb Z.of_nat Pos.of_succ_nat Pos.succ Z.compare Pos.compare Pos.compare_cont].
    change (Z.to_nat c_u_ttlIndex) with 1%nat. cbn [firstn skipn app Nat.add].
    replace (skipn 4 (be 4 ttl_ms ++ tr ++ s_str1 service ++ rest)) with (tr ++ s_str1 service ++ rest).
    2:{ change 4%nat with (length (be 4 ttl_ms)) at 1. rewrite skipn_app, skipn_all, Nat.sub_diag. reflexivity. }
    unfold ms_ns. rewrite Z.quot_div_nonneg by lia.
    assert (0 <= dns / 1000000 < 4294967296) by (split; [apply Z.div_pos; lia|apply Z.div_lt_upper_bound; lia]).
    rewrite wrapS_id by (change (2 ^ (64 - 1)) with 9223372036854775808; change (2 ^ 32) with 4294967296; change (2 ^ 8) with 256; lia). rewrite wrapU_id by (change (2 ^ (64 - 1)) with 9223372036854775808; change (2 ^ 32) with 4294967296; change (2 ^ 8) with 256; lia). reflexivity.
  Qed.

  (* lazyCallReq.Service *)
  Lemma ip_service_spec : ip_service p = Some service.
  Proof.
    unfold ip_service, p, s_ip_callreq, s_str1.
    assert (L30 : zlen ([flags] ++ be 4 ttl_ms ++ tr) = 30).
    { rewrite !zlen_app, zlen_be. unfold tr. rewrite ip_zlen_tracing. reflexivity. }
    replace ([flags] ++ be 4 ttl_ms ++ tr ++ ([slen service] ++ service) ++ rest)
      with (([flags] ++ be 4 ttl_ms ++ tr) ++ slen service :: (service ++ rest))
      by (rewrite <- !app_assoc; reflexivity).
    change c_u_serviceLenIndex with 30. rewrite <- L30 at 1. rewrite ip_index_mid.
    pose proof (zlen_nonneg service) as N. unfold slen. fold (zlen service).
    rewrite (wrapS_id 64 (zlen service)) by (change (2 ^ (64 - 1)) with 9223372036854775808; change (2 ^ 32) with 4294967296; change (2 ^ 8) with 256; lia). change c_u_serviceNameIndex with 31.
    rewrite wrapS_id by (change (2 ^ (64 - 1)) with 9223372036854775808; change (2 ^ 32) with 4294967296; change (2 ^ 8) with 256; lia).
    replace (([flags] ++ be 4 ttl_ms ++ tr) ++ zlen service :: service ++ rest)
      with ((([flags] ++ be 4 ttl_ms ++ tr) ++ [zlen service]) ++ service ++ rest)
      by (rewrite <- !app_assoc; reflexivity).
    assert (L31 : zlen (([flags] ++ be 4 ttl_ms ++ tr) ++ [zlen service]) = 31).
    { rewrite zlen_app, L30. reflexivity. }
    rewrite <- L31. apply ip_slice_mid.
  Qed.

  (* the error frame answered for this call req carries THE CALL'S tracing bytes *)
  Lemma ip_error_payload_spec code msg : 0 <= code < 256 -> zlen msg <= 65491 -> bytes_ok msg = true ->
    ip_error_payload p code msg = Some (s_error code tr msg).
  Proof.
    intros Hcode Hm Hb'. unfold ip_error_payload. rewrite ip_span_spec.
    pose proof (w_error_writes (mkErr code (mkSpan a b c d) msg)) as [W _].
    { unfold error_ok, span_ok, str16_ok, u_ok; cbn. repeat split; try apply Ha; try apply Hb; try apply Hc; try apply Hd; try lia. exact Hb'. }
    unfold spec_error, spec_span in W. cbn [em_code em_span em_msg sp_span sp_parent sp_trace sp_flags] in W. fold tr in W.
    specialize (W (wb 65519) eq_refl).
    assert (L : zlen (s_error code tr msg) = 28 + zlen msg).
    { unfold s_error, s_str2. rewrite !zlen_app, zlen_be. unfold tr. rewrite ip_zlen_tracing. unfold zlen at 1. cbn [length]. unfold slen. fold (zlen msg). lia. }
    rewrite W by (cbn [wroom wb]; lia). cbn [werr wout wb app]. reflexivity.
  Qed.
End CallReq.

(* hasMoreFragments / finishesCall / isCallResOK / lazyError.Code on a payload that starts with the byte(s) *)
Lemma ip_land1 flags : 0 <= flags < 256 -> (Z.land flags 1 =? 0) = negb (Z.odd flags).
Proof.
  intros H. change 1 with (Z.ones 1). rewrite Z.land_ones by lia. change (2 ^ 1) with 2.
  rewrite Zmod_odd. destruct (Z.odd flags); reflexivity.
Qed.

Lemma ip_more_spec flags r : 0 <= flags < 256 -> ip_more (flags :: r) = Some (s_ip_more flags).
Proof.
  intros H. unfold ip_more, s_ip_more. change (ip_index (flags :: r) c_u_flagsIndex) with (Some flags). cbv iota beta.
  change c_hasMoreFragmentsFlag with 1. rewrite ip_land1 by exact H. rewrite negb_involutive. reflexivity.
Qed.

Lemma ip_finishes_spec mtype flags r : 0 <= flags < 256 ->
  ip_finishes mtype (flags :: r) = Some (s_ip_finishes mtype flags).
Proof.
  intros H. unfold ip_finishes, s_ip_finishes, s_ip_more.
  change c_messageTypeError with 255. change c_messageTypeCancel with 192.
  change c_messageTypeCallRes with 4. change c_messageTypeCallResContinue with 20.
  destruct ((mtype =? 255) || (mtype =? 192)); [reflexivity|].
  destruct ((mtype =? 4) || (mtype =? 20)); [|reflexivity].
  change (ip_index (flags :: r) c_u_flagsIndex) with (Some flags). cbv iota beta.
  change c_hasMoreFragmentsFlag with 1. rewrite ip_land1 by exact H. reflexivity.
Qed.

Lemma ip_res_ok_spec flags code r : ip_res_ok (s_ip_callres flags code r) = Some (code =? 0).
Proof.
  unfold ip_res_ok, s_ip_callres. change c_u_resCodeIndex with (zlen [flags]).
  change ([flags] ++ [code] ++ r) with ([flags] ++ code :: r). rewrite ip_index_mid. reflexivity.
Qed.

Lemma ip_err_code_spec code tr msg : 0 <= code < 256 -> ip_err_code (s_error code tr msg) = Some code.
Proof. intros H. unfold ip_err_code, s_error. cbn [app]. change (ip_index (code :: _) c_u_errCodeIndex) with (Some code) at 1. cbv iota beta. rewrite wrapU_id by (change (2 ^ (64 - 1)) with 9223372036854775808; change (2 ^ 32) with 4294967296; change (2 ^ 8) with 256; lia). reflexivity. Qed.

(* ---- the harness observable: model on the specified payload = the fields ---- *)
Lemma ip_obs_spec k : s_ip_case_ok k = true -> ip_obs k = s_ip_obs k.
Proof.
  destruct k as [flags ttl_ms sh sl ph pl th tl tflags new_ttl code service rest msg
                | mtype flags code rest | code sh sl ph pl th tl tflags msg | scenario id sh sl ph pl th tl tflags];
    unfold s_ip_case_ok, s_ip_halves, s_ip_u8, s_ip_u32, slen; cbn [forallb]; intros H;
    rewrite ?andb_true_iff in H; rewrite ?Z.leb_le, ?Z.ltb_lt in H; decompose [and] H; clear H.
  - fold (zlen service) in *; fold (zlen msg) in *.
    assert (Ua : u_ok 8 (s_ip_id sh sl)) by (apply ip_id_ok; lia).
    assert (Ub : u_ok 8 (s_ip_id ph pl)) by (apply ip_id_ok; lia).
    assert (Uc : u_ok 8 (s_ip_id th tl)) by (apply ip_id_ok; lia).
    assert (Ud : u_ok 1 tflags) by (unfold u_ok; change (256 ^ Z.of_nat 1) with 256; lia).
    assert (Uf : 0 <= flags < 256) by lia.
    assert (Ut : 0 <= ttl_ms < 4294967296) by lia.
    unfold ip_obs, s_ip_obs, ip_case_payload.
    rewrite (ip_span_spec flags ttl_ms _ _ _ _ service rest Ua Ub Uc Ud).
    rewrite (ip_ttl_spec flags ttl_ms _ _ _ _ service rest Ut).
    rewrite (ip_service_spec flags ttl_ms _ _ _ _ service rest) by assumption.
    rewrite (ip_set_ttl_spec flags ttl_ms _ _ _ _ service rest new_ttl) by lia.
    rewrite (ip_error_payload_spec flags ttl_ms _ _ _ _ service rest Ua Ub Uc Ud code msg) by (try lia; assumption).
    unfold s_ip_callreq at 1 2. cbn [app]. rewrite ip_more_spec, ip_finishes_spec by exact Uf.
    unfold ip_opt, ip_put_span. cbn [sp_span sp_parent sp_trace sp_flags].
    rewrite !ip_halves_id by lia. reflexivity.
  - assert (Uf : 0 <= flags < 256) by lia.
    unfold ip_obs, s_ip_obs, ip_case_payload. rewrite ip_res_ok_spec.
    unfold s_ip_callres. cbn [app]. rewrite ip_more_spec, ip_finishes_spec by exact Uf. reflexivity.
  - fold (zlen msg) in *. assert (Uc : 0 <= code < 256) by lia.
    unfold ip_obs, s_ip_obs, ip_case_payload. rewrite ip_err_code_spec by exact Uc.
    unfold s_error. cbn [app]. rewrite ip_finishes_spec by exact Uc. reflexivity.
  - assert (Ua : u_ok 8 (s_ip_id sh sl)) by (apply ip_id_ok; lia).
    assert (Ub : u_ok 8 (s_ip_id ph pl)) by (apply ip_id_ok; lia).
    assert (Uc : u_ok 8 (s_ip_id th tl)) by (apply ip_id_ok; lia).
    assert (Ud : u_ok 1 tflags) by (unfold u_ok; change (256 ^ Z.of_nat 1) with 256; lia).
    unfold ip_obs, s_ip_obs, ip_case_payload.
    rewrite (ip_span_spec 0 0 _ _ _ _ [] [] Ua Ub Uc Ud). cbn [option_map ip_opt].
    pose proof (w_span_writes (mkSpan (s_ip_id sh sl) (s_ip_id ph pl) (s_ip_id th tl) tflags) Ud) as [W _].
    unfold spec_span in W. cbn [sp_span sp_parent sp_trace sp_flags] in W.
    rewrite (W (wb c_u_spanLength) eq_refl) by (rewrite ip_zlen_tracing; cbn [wroom wb]; change c_u_spanLength with 25; lia). reflexivity.
Qed.

(* the entry point replayed against the implementation IS the specified observable, for every case *)
Theorem run_c06inplace_spec : forall c, run_c06inplace c = s_run_c06inplace c.
Proof.
  intros c. unfold run_c06inplace, s_run_c06inplace.
  destruct (s_ip_parse c) as [k|] eqn:E; [|reflexivity].
  apply ip_obs_spec. unfold s_ip_parse in E.
  destruct (match c with [] => None | kind :: r => _ end) as [k'|]; [|discriminate].
  destruct (s_ip_case_ok k') eqn:O; [|discriminate]. inversion E; subst k'. exact O.
Qed.

(* the complete call req of Spec/ProtocolCall.v is an instance of the layout used above *)
Lemma s_ip_callreq_full : forall flags ttl tr service h ct cs a1 a2 a3,
  s_callreq_full flags ttl tr service h ct cs a1 a2 a3
  = s_ip_callreq flags ttl tr service (s_headers1 h ++ s_call_args ct cs a1 a2 a3).
Proof. intros. unfold s_callreq_full, s_ip_callreq. reflexivity. Qed.

(* the call req accessors together *)
Theorem ip_callreq_fields : forall flags ttl_ms a b c d service rest,
  u_ok 8 a -> u_ok 8 b -> u_ok 8 c -> u_ok 1 d -> 0 <= ttl_ms < 4294967296 -> zlen service <= 255 ->
  let tr := s_tracing a b c d in
  let p := s_ip_callreq flags ttl_ms tr service rest in
  ip_span p = Some (mkSpan a b c d) /\
  ip_ttl p = Some (ttl_ms * 1000000) /\
  ip_service p = Some service /\
  (forall dns, 0 <= dns < 4294967296000000 ->
     ip_set_ttl p dns = Some (s_ip_callreq flags (dns / 1000000) tr service rest)) /\
  (forall code msg, 0 <= code < 256 -> zlen msg <= 65491 -> bytes_ok msg = true ->
     ip_error_payload p code msg = Some (s_error code tr msg)).
Proof.
  intros flags ttl_ms a b c d service rest Ha Hb Hc Hd Ht Hs. cbv zeta.
  split; [exact (ip_span_spec flags ttl_ms a b c d service rest Ha Hb Hc Hd)|].
  split; [exact (ip_ttl_spec flags ttl_ms a b c d service rest Ht)|].
  split; [exact (ip_service_spec flags ttl_ms a b c d service rest Hs)|].
  split; [exact (ip_set_ttl_spec flags ttl_ms a b c d service rest)|].
  exact (ip_error_payload_spec flags ttl_ms a b c d service rest Ha Hb Hc Hd).
Qed.

Theorem ip_byte_fields :
  (forall flags r, 0 <= flags < 256 -> ip_more (flags :: r) = Some (s_ip_more flags)) /\
  (forall mtype flags r, 0 <= flags < 256 -> ip_finishes mtype (flags :: r) = Some (s_ip_finishes mtype flags)) /\
  (forall flags code r, ip_res_ok (s_ip_callres flags code r) = Some (code =? 0)) /\
  (forall code tr msg, 0 <= code < 256 -> ip_err_code (s_error code tr msg) = Some code).
Proof. exact (conj ip_more_spec (conj ip_finishes_spec (conj ip_res_ok_spec ip_err_code_spec))). Qed.

Theorem run_c06ipwire_spec : forall c, run_c06ipwire c = s_run_c06inplace c.
Proof. exact run_c06inplace_spec. Qed.
