(* Proofs about Model/Idle.v and Model/IdleHealthSys.v: activity stamps, the sweep decision,
   run invariants. *)
From Coq Require Import ZArith List Bool Lia ZifyBool.
From Verif Require Import Base.Wrap Base.Wire Gen.GenConsts Gen.GenFrame Gen.GenHealthIdle
  Spec.IdleHealthSpec Model.Health Model.Idle Model.IdleHealthSys.
Import ListNotations.
Local Open Scope Z_scope.

(* ---- generated definitions against the literal specification -------------------------- *)
Lemma is_call_frame_gen mt : isMessageTypeCall mt = is_call_frame mt.
Proof.
  unfold isMessageTypeCall, is_call_frame, c_messageTypeCallReq, c_messageTypeCallReqContinue,
    c_messageTypeCallRes, c_messageTypeCallResContinue, c_messageTypeError.
  destruct (mt =? 3) eqn:E1; destruct (mt =? 4) eqn:E2; destruct (mt =? 19) eqn:E3;
    destruct (mt =? 20) eqn:E4; destruct (mt =? 255) eqn:E5; reflexivity.
Qed.

Lemma unix_nano_id t : ts_ok t -> unix_nano t = t.
Proof. intros H. unfold unix_nano. apply wrapS_id; [lia|]. unfold ts_ok in H. simpl. lia. Qed.

(* Time.Sub saturates; against a bound that is itself a Duration above the minimum the
   comparison is exact *)
Lemma time_sub_ge t u m : min_duration < m <= max_duration -> (time_sub t u >=? m) = (t - u >=? m).
Proof.
  intros Hm. unfold time_sub.
  destruct (t - u <? min_duration) eqn:E1; [lia|].
  destruct (max_duration <? t - u) eqn:E2; [lia|reflexivity].
Qed.

(* ---- lookup / update ------------------------------------------------------------------- *)
Lemma update_keys id c l : map fst (update id c l) = map fst l.
Proof.
  induction l as [|[i c0] r IH]; [reflexivity|]. cbn [update].
  destruct (i =? id); cbn [map fst]; [reflexivity| now rewrite IH].
Qed.

Lemma lookup_update_same id c l c0 : lookup id l = Some c0 -> lookup id (update id c l) = Some c.
Proof.
  induction l as [|[i c1] r IH]; cbn [lookup update]; [discriminate|].
  destruct (i =? id) eqn:E; cbn [lookup]; rewrite E; [reflexivity|exact IH].
Qed.

Lemma lookup_update_other id id' c l : id' <> id -> lookup id (update id' c l) = lookup id l.
Proof.
  intros Hne. induction l as [|[i c1] r IH]; [reflexivity|]. cbn [lookup update].
  destruct (i =? id') eqn:E'; cbn [lookup].
  - destruct (i =? id) eqn:E; [lia|reflexivity].
  - destruct (i =? id); [reflexivity|exact IH].
Qed.

Lemma lookup_none_notin id l : lookup id l = None <-> ~ In id (map fst l).
Proof.
  induction l as [|[i c] r IH]; cbn [lookup map fst In]; [tauto|].
  destruct (i =? id) eqn:E.
  - split; [discriminate|]. intros H. exfalso. apply H. left. lia.
  - rewrite IH. split; intros H; [intros [H1|H1]; [lia|tauto]|tauto].
Qed.

Lemma lookup_app_fresh id l c : lookup id l = None -> lookup id (l ++ [(id, c)]) = Some c.
Proof.
  induction l as [|[i c0] r IH]; cbn [lookup app]; [rewrite Z.eqb_refl; reflexivity|].
  destruct (i =? id); [discriminate|exact IH].
Qed.

Lemma lookup_app_other id id' l c : id' <> id -> lookup id (l ++ [(id', c)]) = lookup id l.
Proof.
  intros Hne. induction l as [|[i c0] r IH]; cbn [lookup app].
  - destruct (id' =? id) eqn:E; [lia|reflexivity].
  - destruct (i =? id); [reflexivity|exact IH].
Qed.

(* ---- per-connection facts ---------------------------------------------------------------- *)
Lemma ces_cases c :
  check_exchanges_state c = k_state c \/ check_exchanges_state c = c_connectionInboundClosed
  \/ check_exchanges_state c = c_connectionClosed.
Proof.
  unfold check_exchanges_state.
  repeat match goal with |- context [if ?b then _ else _] => destruct b end; auto.
Qed.

Lemma ces_not_active c : k_state c <> c_connectionActive -> check_exchanges_state c <> c_connectionActive.
Proof.
  intros H. destruct (ces_cases c) as [E|[E|E]]; rewrite E; [exact H| |]; unfold c_connectionInboundClosed, c_connectionClosed, c_connectionActive; lia.
Qed.

(* the stamps are touched by updateLastActivity* only *)
Definition stamps (c : conn) : Z * Z := (k_lr c, k_lw c).

Lemma stamps_check c : stamps (check_exchanges c) = stamps c.
Proof. unfold check_exchanges. destruct (_ && _); reflexivity. Qed.
Lemma stamps_close c : stamps (conn_close c) = stamps c.
Proof. unfold conn_close. destruct (_ =? _); [rewrite stamps_check|]; reflexivity. Qed.
Lemma stamps_error c : stamps (conn_error c) = stamps c.
Proof. unfold conn_error. rewrite stamps_check. cbn. apply stamps_close. Qed.
Lemma stamps_pend w d c : stamps (pend w d c) = stamps c.
Proof.
  unfold pend.
  repeat match goal with
         | |- context [if ?b then _ else _] => destruct b
         | |- context [match k_relay c with _ => _ end] => destruct (k_relay c)
         end; try rewrite stamps_check; reflexivity.
Qed.
Lemma stamps_set_health hs l c : stamps (set_health hs l c) = stamps c.
Proof. reflexivity. Qed.
Lemma stamps_after_ping F o c : stamps (after_ping F o c) = stamps c.
Proof.
  unfold after_ping. destruct (health_iter F o (k_health c)) as [l closed].
  destruct closed; destruct (_ =? _);
    rewrite ?stamps_set_health, ?stamps_close, ?stamps_set_health; reflexivity.
Qed.
Lemma stamps_set_counts a b p r c : stamps (set_counts a b p r c) = stamps c.
Proof. reflexivity. Qed.
Lemma stamps_ping_start F sent c : stamps (ping_start F sent c) = stamps c.
Proof.
  unfold ping_start. destruct (negb _); [reflexivity|]. destruct sent; [reflexivity|].
  cbv zeta. rewrite stamps_set_health, stamps_after_ping, stamps_check, stamps_set_counts, stamps_error.
  reflexivity.
Qed.
Lemma stamps_ping_end F o c : stamps (ping_end F o c) = stamps c.
Proof.
  unfold ping_end. destruct (negb _); [reflexivity|]. cbv zeta.
  rewrite stamps_after_ping, stamps_check. reflexivity.
Qed.

(* ---- channel-level lookups --------------------------------------------------------------- *)
Lemma on_conn_lookup id id' f s :
  lookup id (ch_conns (on_conn id' f s)) =
  if id' =? id then option_map f (lookup id (ch_conns s)) else lookup id (ch_conns s).
Proof.
  unfold on_conn. destruct (id' =? id) eqn:E.
  - assert (id' = id) by lia. subst id'.
    destruct (lookup id (ch_conns s)) as [c|] eqn:L; cbn [ch_conns option_map]; [|exact L].
    now apply lookup_update_same with (c0 := c).
  - destruct (lookup id' (ch_conns s)) as [c|] eqn:L; cbn [ch_conns]; [|reflexivity].
    apply lookup_update_other. lia.
Qed.

Lemma on_conn_now id f s : ch_now (on_conn id f s) = ch_now s.
Proof. unfold on_conn. destruct (lookup id (ch_conns s)); reflexivity. Qed.

Lemma on_conn_keys id f s : map fst (ch_conns (on_conn id f s)) = map fst (ch_conns s).
Proof. unfold on_conn. destruct (lookup id (ch_conns s)); [apply update_keys|reflexivity]. Qed.

Lemma sweep_one_keys l id : map fst (sweep_close_one l id) = map fst l.
Proof.
  unfold sweep_close_one. destruct (lookup id l); [|reflexivity].
  destruct (negb _); [reflexivity|]. destruct (has_pending_calls _); [reflexivity|apply update_keys].
Qed.

Lemma sweep_fold_keys cands : forall l, map fst (fold_left sweep_close_one cands l) = map fst l.
Proof.
  induction cands as [|i r IH]; intros l; [reflexivity|]. cbn [fold_left]. rewrite IH. apply sweep_one_keys.
Qed.

Lemma sweep_one_stamps l id' id :
  option_map stamps (lookup id (sweep_close_one l id')) = option_map stamps (lookup id l).
Proof.
  unfold sweep_close_one. destruct (lookup id' l) as [c'|] eqn:L; [|reflexivity].
  destruct (negb _); [reflexivity|]. destruct (has_pending_calls _); [reflexivity|].
  destruct (Z.eq_dec id' id) as [->|Hne].
  - rewrite (lookup_update_same _ _ _ _ L), L. cbn [option_map]. now rewrite stamps_close.
  - now rewrite lookup_update_other.
Qed.

Lemma sweep_fold_stamps cands : forall l id,
  option_map stamps (lookup id (fold_left sweep_close_one cands l)) = option_map stamps (lookup id l).
Proof.
  induction cands as [|i r IH]; intros l id; [reflexivity|]. cbn [fold_left]. rewrite IH. apply sweep_one_stamps.
Qed.

(* ---- C19_stamp: max(lastActivityRead, lastActivityWrite) is the last call activity ------ *)
Definition stamp_rel (id : Z) (s : chan) (cur : option Z) : Prop :=
  match lookup id (ch_conns s), cur with
  | Some c, Some la => la = Z.max (k_lr c) (k_lw c) /\ k_lr c <= ch_now s /\ k_lw c <= ch_now s
  | None, None => True
  | _, _ => False
  end.

(* stamp_rel only looks at the clock and at the stamps of connection id *)
Lemma stamp_rel_ext id s s' cur :
  ch_now s' = ch_now s ->
  option_map stamps (lookup id (ch_conns s')) = option_map stamps (lookup id (ch_conns s)) ->
  stamp_rel id s cur -> stamp_rel id s' cur.
Proof.
  unfold stamp_rel. intros Hn Hl.
  destruct (lookup id (ch_conns s)) as [c|]; destruct (lookup id (ch_conns s')) as [c'|]; cbn [option_map] in Hl;
    try discriminate; [|tauto].
  unfold stamps in Hl. injection Hl as H1 H2. rewrite Hn, H1, H2. tauto.
Qed.

Lemma on_conn_stamps id id' f s :
  (forall c, stamps (f c) = stamps c) ->
  option_map stamps (lookup id (ch_conns (on_conn id' f s))) = option_map stamps (lookup id (ch_conns s)).
Proof.
  intros Hf. rewrite on_conn_lookup. destruct (id' =? id); [|reflexivity].
  destruct (lookup id (ch_conns s)); cbn [option_map]; [now rewrite Hf|reflexivity].
Qed.

Lemma stamp_gen cf id : forall h s cur,
  clock_ok (ch_now s) h -> stamp_rel id s cur ->
  stamp_rel id (fold_left (step cf) h s) (last_call_activity id (ch_now s) cur h).
Proof.
  induction h as [|e r IH]; intros s cur Hc Hr; [exact Hr|].
  cbn [fold_left].
  destruct e as [dt|i rl|i mt|i mt|i w d|i| |i sent|i o]; cbn [clock_ok] in Hc; cbn [last_call_activity].
  - (* advance *)
    destruct Hc as (Hts & Hdt & Hc).
    apply (IH {| ch_now := ch_now s + dt; ch_conns := ch_conns s |} cur Hc).
    unfold stamp_rel in *. cbn [ch_now ch_conns].
    destruct (lookup id (ch_conns s)); destruct cur; try tauto. lia.
  - (* new connection *)
    destruct Hc as (Hts & Hc).
    assert (Hn : ch_now (step cf s (ENewConn i rl)) = ch_now s).
    { cbn [step]. destruct (lookup i (ch_conns s)); reflexivity. }
    rewrite <- Hn in Hc |- *. apply IH; [exact Hc|]. rewrite Hn.
    unfold stamp_rel in *. cbn [step].
    destruct (lookup i (ch_conns s)) as [ci|] eqn:Li.
    + (* id exists: ignored *)
      destruct (lookup id (ch_conns s)) as [c|] eqn:L; destruct cur; try tauto.
      destruct (i =? id) eqn:E; [|exact I]. assert (i = id) by lia. subst i. congruence.
    + cbn [ch_conns ch_now]. destruct (Z.eq_dec i id) as [->|Hne].
      * rewrite (lookup_app_fresh _ _ _ Li). rewrite Li in Hr. destruct cur; [tauto|].
        rewrite Z.eqb_refl. cbn [new_conn k_lr k_lw]. rewrite unix_nano_id by exact Hts. lia.
      * rewrite lookup_app_other by exact Hne.
        destruct (lookup id (ch_conns s)); destruct cur; try tauto.
        destruct (i =? id) eqn:E; [lia|exact I].
  - (* read *)
    destruct Hc as (Hts & Hc).
    rewrite <- (on_conn_now i (update_read (ch_now s) mt) s) in Hc |- *.
    apply IH; [exact Hc|]. rewrite on_conn_now.
    unfold stamp_rel in *. rewrite on_conn_lookup, on_conn_now.
    destruct (i =? id) eqn:E.
    + destruct (lookup id (ch_conns s)) as [c|]; destruct cur as [la|]; cbn [option_map]; try tauto.
      unfold update_read. rewrite is_call_frame_gen. cbn [andb].
      destruct (is_call_frame mt); [|exact Hr].
      cbn [set_stamps k_lr k_lw]. rewrite unix_nano_id by exact Hts. lia.
    + destruct (lookup id (ch_conns s)); destruct cur; cbn [andb]; tauto.
  - (* write *)
    destruct Hc as (Hts & Hc).
    rewrite <- (on_conn_now i (update_write (ch_now s) mt) s) in Hc |- *.
    apply IH; [exact Hc|]. rewrite on_conn_now.
    unfold stamp_rel in *. rewrite on_conn_lookup, on_conn_now.
    destruct (i =? id) eqn:E.
    + destruct (lookup id (ch_conns s)) as [c|]; destruct cur as [la|]; cbn [option_map]; try tauto.
      unfold update_write. rewrite is_call_frame_gen. cbn [andb].
      destruct (is_call_frame mt); [|exact Hr].
      cbn [set_stamps k_lr k_lw]. rewrite unix_nano_id by exact Hts. lia.
    + destruct (lookup id (ch_conns s)); destruct cur; cbn [andb]; tauto.
  - (* pend *)
    destruct Hc as (Hts & Hc). cbn [step].
    rewrite <- (on_conn_now i (pend w d) s) in Hc |- *. apply IH; [exact Hc|].
    apply (stamp_rel_ext id s); [apply on_conn_now| |exact Hr].
    apply on_conn_stamps. apply stamps_pend.
  - (* close *)
    destruct Hc as (Hts & Hc). cbn [step].
    rewrite <- (on_conn_now i conn_close s) in Hc |- *. apply IH; [exact Hc|].
    apply (stamp_rel_ext id s); [apply on_conn_now| |exact Hr].
    apply on_conn_stamps. apply stamps_close.
  - (* tick *)
    destruct Hc as (Hts & Hc).
    assert (Hn : ch_now (step cf s ETick) = ch_now s).
    { cbn [step]. destruct (sweep_enabled cf); reflexivity. }
    rewrite <- Hn in Hc |- *. apply IH; [exact Hc|].
    apply (stamp_rel_ext id s); [exact Hn| |exact Hr].
    cbn [step]. destruct (sweep_enabled cf); [|reflexivity].
    unfold sweep. cbn [ch_conns]. apply sweep_fold_stamps.
  - (* ping start *)
    destruct Hc as (Hts & Hc). cbn [step].
    rewrite <- (on_conn_now i (ping_start (ho_failures (cf_health cf)) sent) s) in Hc |- *. apply IH; [exact Hc|].
    apply (stamp_rel_ext id s); [apply on_conn_now| |exact Hr].
    apply on_conn_stamps. apply stamps_ping_start.
  - (* ping end *)
    destruct Hc as (Hts & Hc). cbn [step].
    rewrite <- (on_conn_now i (ping_end (ho_failures (cf_health cf)) o) s) in Hc |- *. apply IH; [exact Hc|].
    apply (stamp_rel_ext id s); [apply on_conn_now| |exact Hr].
    apply on_conn_stamps. apply stamps_ping_end.
Qed.

Theorem stamp_is_last_call_activity cf t0 h id :
  clock_ok t0 h ->
  match lookup id (ch_conns (run cf t0 h)) with
  | Some c => last_call_activity id t0 None h = Some (Z.max (k_lr c) (k_lw c))
  | None => last_call_activity id t0 None h = None
  end.
Proof.
  intros Hc. pose proof (stamp_gen cf id h (init_chan t0) None Hc I) as H.
  unfold stamp_rel, run in *. cbn [ch_now init_chan] in H.
  destruct (lookup id (ch_conns (fold_left (step cf) h (init_chan t0))));
    destruct (last_call_activity id t0 None h); try tauto.
  destruct H as [-> _]. reflexivity.
Qed.

(* ---- the sweep decision ------------------------------------------------------------------ *)
Definition mem (id : Z) (l : list Z) : bool := existsb (Z.eqb id) l.

Lemma mem_in id l : mem id l = true <-> In id l.
Proof.
  unfold mem. rewrite existsb_exists. split.
  - intros (x & Hx & E). assert (id = x) by lia. now subst.
  - intros H. exists id. split; [exact H|apply Z.eqb_refl].
Qed.

(* second loop of checkIdleConnections on one candidate *)
Definition close_if_ok (c : conn) : conn :=
  if negb (is_active c) then c else if has_pending_calls c then c else conn_close c.

Lemma conn_close_not_active c : is_active (conn_close c) = false \/ conn_close c = c /\ is_active c = false.
Proof.
  unfold conn_close, is_active. destruct (k_state c =? c_connectionActive) eqn:E; [left|right; auto].
  unfold check_exchanges.
  set (c1 := set_state c_connectionStartClose c).
  assert (H : check_exchanges_state c1 <> c_connectionActive).
  { apply ces_not_active. cbn. unfold c_connectionStartClose, c_connectionActive. lia. }
  destruct (_ && _); cbn [set_tracked_h set_state k_state]; lia.
Qed.

Lemma close_if_ok_idem c : close_if_ok (close_if_ok c) = close_if_ok c.
Proof.
  unfold close_if_ok at 2. destruct (negb (is_active c)) eqn:E1.
  - unfold close_if_ok. now rewrite E1.
  - destruct (has_pending_calls c) eqn:E2.
    + unfold close_if_ok. now rewrite E1, E2.
    + unfold close_if_ok. destruct (conn_close_not_active c) as [H|[_ H]].
      * rewrite H, E1, E2. reflexivity.
      * rewrite H in E1. discriminate.
Qed.

Lemma sweep_one_lookup l id' id :
  lookup id (sweep_close_one l id') =
  if id' =? id then option_map close_if_ok (lookup id l) else lookup id l.
Proof.
  unfold sweep_close_one. destruct (id' =? id) eqn:E.
  - assert (id' = id) by lia. subst id'.
    destruct (lookup id l) as [c|] eqn:L; cbn [option_map]; [|exact L].
    unfold close_if_ok. destruct (negb (is_active c)); [exact L|].
    destruct (has_pending_calls c); [exact L|]. now apply lookup_update_same with (c0 := c).
  - destruct (lookup id' l) as [c|]; [|reflexivity].
    destruct (negb (is_active c)); [reflexivity|]. destruct (has_pending_calls c); [reflexivity|].
    apply lookup_update_other. lia.
Qed.

Lemma sweep_fold_lookup cands : forall l id,
  lookup id (fold_left sweep_close_one cands l) =
  if mem id cands then option_map close_if_ok (lookup id l) else lookup id l.
Proof.
  induction cands as [|i r IH]; intros l id; [reflexivity|].
  cbn [fold_left]. rewrite IH, sweep_one_lookup. unfold mem. cbn [existsb]. fold (mem id r).
  rewrite (Z.eqb_sym id i).
  destruct (i =? id); cbn [orb]; [|reflexivity].
  destruct (mem id r); [|reflexivity].
  destruct (lookup id l); cbn [option_map]; [|reflexivity]. now rewrite close_if_ok_idem.
Qed.

Lemma filter_keys_mem (p : Z * conn -> bool) id : forall l c,
  NoDup (map fst l) -> lookup id l = Some c ->
  mem id (map fst (filter p l)) = p (id, c).
Proof.
  induction l as [|[i c0] r IH]; intros c Hnd L; [discriminate|].
  cbn [map fst] in Hnd. inversion Hnd as [|? ? Hni Hnd']; subst.
  cbn [lookup] in L. cbn [filter].
  destruct (i =? id) eqn:E.
  - assert (i = id) by lia. subst i. injection L as ->.
    destruct (p (id, c)) eqn:P.
    + unfold mem. cbn [map fst existsb]. now rewrite Z.eqb_refl.
    + destruct (mem id (map fst (filter p r))) eqn:M; [|reflexivity].
      exfalso. apply mem_in in M. apply in_map_iff in M as ((j, cj) & Ej & Hin). cbn [fst] in Ej. subst j.
      apply filter_In in Hin as [Hin _]. apply Hni. apply in_map_iff. now exists (id, cj).
  - destruct (p (i, c0)).
    + unfold mem. cbn [map fst existsb]. rewrite (Z.eqb_sym id i), E. cbn [orb]. now apply IH.
    + now apply IH.
Qed.

Theorem sweep_lookup mi s id c :
  NoDup (map fst (ch_conns s)) -> lookup id (ch_conns s) = Some c ->
  lookup id (ch_conns (sweep mi s)) =
  Some (if k_tracked c && idle_candidate (ch_now s) mi c then close_if_ok c else c).
Proof.
  intros Hnd L. unfold sweep. cbn [ch_conns]. rewrite sweep_fold_lookup.
  unfold sweep_candidates. rewrite (filter_keys_mem _ id _ c Hnd L). cbn [snd]. rewrite L.
  destruct (_ && _); reflexivity.
Qed.

(* what the statement of C19 asks of a connection at a sweep *)
Definition relay_idle (c : conn) : Prop := match k_relay c with None => True | Some n => n = 0 end.
Definition should_close (now mi : Z) (c : conn) : Prop :=
  k_tracked c = true /\ k_state c = c_connectionActive /\ k_inb c = 0 /\ k_outb c = 0 /\ relay_idle c /\
  now - Z.max (k_lr c) (k_lw c) >= mi.

Definition counts_ok (c : conn) : Prop :=
  0 <= k_inb c /\ 0 <= k_outb c /\ match k_relay c with None => True | Some n => 0 <= n end.

Lemma should_close_dec now mi c :
  min_duration < mi <= max_duration -> counts_ok c ->
  (k_tracked c && idle_candidate now mi c && is_active c && negb (has_pending_calls c) = true)
  <-> should_close now mi c.
Proof.
  intros Hmi (Hi & Ho & Hr). unfold should_close, idle_candidate, is_active, has_pending_calls, relay_can_close, relay_idle.
  rewrite time_sub_ge by exact Hmi. unfold last_activity.
  assert (Hmax : (if k_lr c <? k_lw c then k_lw c else k_lr c) = Z.max (k_lr c) (k_lw c)).
  { destruct (k_lr c <? k_lw c) eqn:E; lia. }
  rewrite Hmax. unfold c_connectionActive.
  destruct (k_relay c) as [n|]; destruct (k_tracked c);
    destruct (k_inb c >? 0) eqn:Ea; destruct (k_outb c >? 0) eqn:Eb; cbn [orb negb andb];
    try (destruct (n =? 0) eqn:En; cbn [negb andb]);
    (split; [intros H; try discriminate; repeat split; lia | intros (H1 & H2 & H3 & H4 & H5 & H6); try discriminate; lia]).
Qed.

Theorem sweep_iff mi s id c :
  NoDup (map fst (ch_conns s)) -> min_duration < mi <= max_duration ->
  lookup id (ch_conns s) = Some c -> counts_ok c ->
  exists c', lookup id (ch_conns (sweep mi s)) = Some c' /\
    ((is_active c = true /\ is_active c' = false) <-> should_close (ch_now s) mi c) /\
    (should_close (ch_now s) mi c -> c' = conn_close c) /\
    (~ should_close (ch_now s) mi c -> c' = c).
Proof.
  intros Hnd Hmi L Hok. rewrite (sweep_lookup mi s id c Hnd L).
  pose proof (should_close_dec (ch_now s) mi c Hmi Hok) as Hd.
  set (B := k_tracked c && idle_candidate (ch_now s) mi c && is_active c && negb (has_pending_calls c)) in Hd.
  assert (HB : (if k_tracked c && idle_candidate (ch_now s) mi c then close_if_ok c else c)
               = if B then conn_close c else c).
  { unfold B, close_if_ok.
    destruct (k_tracked c && idle_candidate (ch_now s) mi c); destruct (is_active c);
      destruct (has_pending_calls c); reflexivity. }
  rewrite HB. eexists. split; [reflexivity|].
  destruct B eqn:EB.
  - assert (Hsc : should_close (ch_now s) mi c) by (apply Hd; reflexivity).
    assert (Hact : is_active c = true).
    { unfold B in EB. destruct (is_active c); [reflexivity|]. rewrite andb_false_r in EB. discriminate. }
    split; [|split].
    + split; [intros _; exact Hsc|]. intros _. split; [exact Hact|].
      destruct (conn_close_not_active c) as [H|[_ H]]; [exact H|congruence].
    + reflexivity.
    + intros Hn. exfalso. exact (Hn Hsc).
  - assert (Hsc : ~ should_close (ch_now s) mi c).
    { intros H. apply Hd in H. discriminate. }
    split; [|split].
    + split; [intros [H1 H2]; congruence|]. intros H. exfalso. exact (Hsc H).
    + intros H. exfalso. exact (Hsc H).
    + reflexivity.
Qed.

(* ---- invariants of runs ------------------------------------------------------------------ *)
Definition conn_wf (c : conn) : Prop :=
  counts_ok c /\ k_tracked c = negb (k_state c =? c_connectionClosed).

Lemma ces_closed_stays c : k_state c = c_connectionClosed -> check_exchanges_state c = c_connectionClosed.
Proof.
  intros H. unfold check_exchanges_state. rewrite H.
  unfold c_connectionClosed, c_connectionStartClose, c_connectionInboundClosed. cbn. reflexivity.
Qed.

Lemma wf_check c : conn_wf c -> conn_wf (check_exchanges c).
Proof.
  intros [Hc Ht]. unfold check_exchanges.
  destruct ((check_exchanges_state c =? c_connectionClosed) && negb (k_state c =? c_connectionClosed)) eqn:E.
  - split; [exact Hc|]. cbn [set_tracked_h set_state k_tracked k_state].
    apply andb_true_iff in E as [E _]. rewrite E. reflexivity.
  - split; [exact Hc|]. cbn [set_state k_tracked k_state]. rewrite Ht.
    destruct (k_state c =? c_connectionClosed) eqn:E1.
    + rewrite ces_closed_stays by lia. rewrite Z.eqb_refl. reflexivity.
    + cbn [negb andb] in E. rewrite andb_true_r in E. rewrite E. reflexivity.
Qed.

Lemma wf_close c : conn_wf c -> conn_wf (conn_close c).
Proof.
  intros H. unfold conn_close. destruct (k_state c =? c_connectionActive) eqn:E; [|exact H].
  apply wf_check. destruct H as [Hc Ht]. split; [exact Hc|]. cbn [set_state k_tracked k_state].
  rewrite Ht. unfold c_connectionActive, c_connectionClosed, c_connectionStartClose in *.
  assert (k_state c = 1) by lia. destruct (k_state c =? 4) eqn:E4; [lia|reflexivity].
Qed.

Lemma wf_error c : conn_wf c -> conn_wf (conn_error c).
Proof. intros H. unfold conn_error. apply wf_check. apply wf_close in H. exact H. Qed.

Lemma wf_set_counts a b p r c :
  conn_wf c -> 0 <= a -> 0 <= b -> match r with None => True | Some n => 0 <= n end ->
  conn_wf (set_counts a b p r c).
Proof. intros [Hc Ht] Ha Hb Hr. split; [|exact Ht]. unfold counts_ok. cbn. auto. Qed.

Lemma wf_pend w d c : conn_wf c -> conn_wf (pend w d c).
Proof.
  intros H. pose proof H as [(Hi & Ho & Hr) Ht]. unfold pend.
  destruct (w =? 0); [|destruct (w =? 1)].
  - destruct (d >? 0); [apply wf_set_counts; auto; lia|].
    destruct (k_inb c <=? 0) eqn:E; [exact H|]. apply wf_check, wf_set_counts; auto; lia.
  - destruct (d >? 0); [apply wf_set_counts; auto; lia|].
    destruct (k_outb c <=? 0) eqn:E; [exact H|]. apply wf_check, wf_set_counts; auto; lia.
  - destruct (k_relay c) as [n|] eqn:R; [|exact H].
    destruct (d >? 0); [apply wf_set_counts; auto; lia|].
    destruct (n <=? 0) eqn:E; [exact H|]. apply wf_check, wf_set_counts; auto; lia.
Qed.

Lemma wf_set_health hs l c : conn_wf c -> conn_wf (set_health hs l c).
Proof. intros H. exact H. Qed.

Lemma wf_after_ping F o c : conn_wf c -> conn_wf (after_ping F o c).
Proof.
  intros H. unfold after_ping. destruct (health_iter F o (k_health c)) as [l closed].
  destruct closed; destruct (_ =? _);
    repeat match goal with
           | |- conn_wf (set_health _ _ _) => apply wf_set_health
           | |- conn_wf (conn_close _) => apply wf_close
           end; exact H.
Qed.

Lemma wf_pings p c : conn_wf c -> conn_wf (set_counts (k_inb c) (k_outb c) p (k_relay c) c).
Proof. intros H. pose proof H as [(Hi & Ho & Hr) Ht]. apply wf_set_counts; auto. Qed.

Lemma wf_ping_start F sent c : conn_wf c -> conn_wf (ping_start F sent c).
Proof.
  intros H. unfold ping_start. destruct (negb _); [exact H|]. destruct sent.
  - apply wf_set_health, wf_pings, H.
  - cbv zeta. apply wf_set_health, wf_after_ping, wf_check, wf_pings, wf_error, wf_pings, H.
Qed.

Lemma wf_ping_end F o c : conn_wf c -> conn_wf (ping_end F o c).
Proof.
  intros H. unfold ping_end. destruct (negb _); [exact H|]. cbv zeta.
  apply wf_after_ping, wf_check, wf_pings, H.
Qed.

Lemma wf_update_read now mt c : conn_wf c -> conn_wf (update_read now mt c).
Proof. intros H. unfold update_read. destruct (isMessageTypeCall mt); exact H. Qed.
Lemma wf_update_write now mt c : conn_wf c -> conn_wf (update_write now mt c).
Proof. intros H. unfold update_write. destruct (isMessageTypeCall mt); exact H. Qed.

Lemma wf_new now relay h : conn_wf (new_conn now relay h).
Proof.
  split; [|reflexivity]. unfold counts_ok. cbn. destruct relay; lia.
Qed.

Definition chan_wf (s : chan) : Prop :=
  NoDup (map fst (ch_conns s)) /\ forall id c, lookup id (ch_conns s) = Some c -> conn_wf c.

Lemma wf_on_conn id f s : (forall c, conn_wf c -> conn_wf (f c)) -> chan_wf s -> chan_wf (on_conn id f s).
Proof.
  intros Hf [Hnd Hall]. split; [rewrite on_conn_keys; exact Hnd|].
  intros i c L. rewrite on_conn_lookup in L. destruct (id =? i).
  - destruct (lookup i (ch_conns s)) as [c0|] eqn:L0; cbn [option_map] in L; [|discriminate].
    injection L as <-. apply Hf. now apply (Hall i).
  - now apply (Hall i).
Qed.

Lemma wf_close_if_ok c : conn_wf c -> conn_wf (close_if_ok c).
Proof.
  intros H. unfold close_if_ok. destruct (negb _); [exact H|]. destruct (has_pending_calls c); [exact H|apply wf_close, H].
Qed.

Lemma NoDup_app_one {A} (l : list A) x : NoDup l -> ~ In x l -> NoDup (l ++ [x]).
Proof.
  induction l as [|a r IH]; intros Hnd Hni; cbn [app].
  - constructor; [intros []|constructor].
  - inversion Hnd as [|? ? Ha Hr]; subst. constructor.
    + rewrite in_app_iff. intros [H|[H|[]]]; [exact (Ha H)|]. subst. apply Hni. now left.
    + apply IH; [exact Hr|]. intros H. apply Hni. now right.
Qed.

Lemma wf_step cf s e : chan_wf s -> chan_wf (step cf s e).
Proof.
  intros H. destruct e as [dt|i rl|i mt|i mt|i w d|i| |i sent|i o]; cbn [step].
  - exact H.
  - destruct (lookup i (ch_conns s)) eqn:L; [exact H|]. destruct H as [Hnd Hall].
    split; cbn [ch_conns].
    + rewrite map_app. cbn [map fst]. apply NoDup_app_one; [exact Hnd|]. now apply lookup_none_notin.
    + intros id c Lc. destruct (Z.eq_dec i id) as [->|Hne].
      * rewrite lookup_app_fresh in Lc by exact L. injection Lc as <-. apply wf_new.
      * rewrite lookup_app_other in Lc by exact Hne. now apply (Hall id).
  - apply wf_on_conn; [intros c; apply wf_update_read|exact H].
  - apply wf_on_conn; [intros c; apply wf_update_write|exact H].
  - apply wf_on_conn; [intros c; apply wf_pend|exact H].
  - apply wf_on_conn; [intros c; apply wf_close|exact H].
  - destruct (sweep_enabled cf); [|exact H]. destruct H as [Hnd Hall]. split.
    + unfold sweep. cbn [ch_conns]. rewrite sweep_fold_keys. exact Hnd.
    + intros id c L. unfold sweep in L. cbn [ch_conns] in L. rewrite sweep_fold_lookup in L.
      destruct (mem id _).
      * destruct (lookup id (ch_conns s)) as [c0|] eqn:L0; cbn [option_map] in L; [|discriminate].
        injection L as <-. apply wf_close_if_ok. now apply (Hall id).
      * now apply (Hall id).
  - apply wf_on_conn; [intros c; apply wf_ping_start|exact H].
  - apply wf_on_conn; [intros c; apply wf_ping_end|exact H].
Qed.

Lemma wf_fold cf h : forall s, chan_wf s -> chan_wf (fold_left (step cf) h s).
Proof. induction h as [|e r IH]; intros s H; [exact H|]. cbn [fold_left]. apply IH, wf_step, H. Qed.

Lemma run_wf cf t0 h : chan_wf (run cf t0 h).
Proof. apply wf_fold. split; [constructor|]. intros id c L. discriminate. Qed.

Lemma now_fold cf h : forall s, ch_now (fold_left (step cf) h s) = clock (ch_now s) h.
Proof.
  induction h as [|e r IH]; intros s; [reflexivity|]. cbn [fold_left]. rewrite IH.
  destruct e; cbn [step clock]; try rewrite on_conn_now; try reflexivity.
  - destruct (lookup id (ch_conns s)); reflexivity.
  - destruct (sweep_enabled cf); reflexivity.
Qed.

Lemma run_now cf t0 h : ch_now (run cf t0 h) = clock t0 h.
Proof. unfold run. now rewrite now_fold. Qed.

(* ---- the sweep over histories -------------------------------------------------------------- *)
Lemma closed_between_in l l' id : NoDup (map fst l) ->
  In id (closed_between l l') <->
  exists c c', lookup id l = Some c /\ lookup id l' = Some c' /\ is_active c = true /\ is_active c' = false.
Proof.
  intros Hnd. unfold closed_between. rewrite <- mem_in.
  destruct (lookup id l) as [c|] eqn:L.
  - rewrite (filter_keys_mem _ id l c Hnd L). cbn [fst snd].
    destruct (lookup id l') as [c'|] eqn:L'.
    + split.
      * intros H. apply andb_true_iff in H as [H1 H2]. exists c, c'. repeat split; auto.
        now destruct (is_active c').
      * intros (c1 & c2 & E1 & E2 & H1 & H2). injection E1 as <-. injection E2 as <-. now rewrite H1, H2.
    + split; [rewrite andb_false_r; discriminate|]. intros (c1 & c2 & _ & E2 & _). discriminate.
  - split; [|intros (c1 & c2 & E1 & _); discriminate].
    intros H. exfalso. apply mem_in in H. apply in_map_iff in H as ((j & cj) & Ej & Hin). cbn [fst] in Ej. subst j.
    apply filter_In in Hin as [Hin _]. apply lookup_none_notin in L. apply L. apply in_map_iff. now exists (id, cj).
Qed.

Lemma enabled_max_idle cf :
  sweep_enabled cf = true -> idleCheckOk (cf_idle_interval cf) (cf_max_idle cf) = true -> 0 < cf_max_idle cf.
Proof.
  unfold sweep_enabled, idleCheckOk. intros H1 H2.
  destruct (cf_idle_interval cf <=? 0) eqn:E; [discriminate|].
  destruct ((cf_idle_interval cf >? 0) && (cf_max_idle cf <=? 0)) eqn:E2; [discriminate|]. lia.
Qed.

Theorem sweep_history cf t0 h id :
  clock_ok t0 h -> sweep_enabled cf = true ->
  idleCheckOk (cf_idle_interval cf) (cf_max_idle cf) = true -> cf_max_idle cf <= max_duration ->
  let s := run cf t0 h in
  let s' := step cf s ETick in
  (In id (closed_between (ch_conns s) (ch_conns s')) <->
   exists c la, lookup id (ch_conns s) = Some c /\ k_state c = c_connectionActive /\
     k_inb c = 0 /\ k_outb c = 0 /\ relay_idle c /\
     last_call_activity id t0 None h = Some la /\ clock t0 h - la >= cf_max_idle cf) /\
  (forall c, lookup id (ch_conns s) = Some c -> ~ In id (closed_between (ch_conns s) (ch_conns s')) ->
     lookup id (ch_conns s') = Some c).
Proof.
  intros Hc Hen Hok Hmax s s'.
  pose proof (run_wf cf t0 h) as [Hnd Hall]. fold s in Hnd, Hall.
  pose proof (enabled_max_idle cf Hen Hok) as Hpos.
  assert (Hmi : min_duration < cf_max_idle cf <= max_duration).
  { split; [|exact Hmax]. unfold min_duration. lia. }
  assert (Es' : s' = sweep (cf_max_idle cf) s). { unfold s'. cbn [step]. now rewrite Hen. }
  pose proof (stamp_is_last_call_activity cf t0 h id Hc) as Hst. fold s in Hst.
  rewrite closed_between_in by exact Hnd.
  destruct (lookup id (ch_conns s)) as [c|] eqn:L.
  2:{ split; [|intros c Lc; discriminate].
      split; [intros (c & c' & E & _); discriminate|intros (c & la & E & _); discriminate]. }
  destruct (Hall id c L) as [Hcnt Htr].
  destruct (sweep_iff (cf_max_idle cf) s id c Hnd Hmi L Hcnt) as (c' & L' & Hiff & Hyes & Hno).
  rewrite <- Es' in L'.
  assert (Hnow : ch_now s = clock t0 h) by apply run_now.
  assert (Hsc : should_close (ch_now s) (cf_max_idle cf) c <->
                (k_state c = c_connectionActive /\ k_inb c = 0 /\ k_outb c = 0 /\ relay_idle c /\
                 clock t0 h - Z.max (k_lr c) (k_lw c) >= cf_max_idle cf)).
  { unfold should_close. rewrite Hnow, Htr. split.
    - intros (_ & H2 & H3 & H4 & H5 & H6). tauto.
    - intros (H2 & H3 & H4 & H5 & H6). rewrite H2. repeat split; auto. }
  split.
  - split.
    + intros (c1 & c2 & E1 & E2 & H1 & H2). injection E1 as <-. rewrite L' in E2. injection E2 as <-.
      assert (Hs : should_close (ch_now s) (cf_max_idle cf) c) by (apply Hiff; auto).
      apply Hsc in Hs. exists c, (Z.max (k_lr c) (k_lw c)). tauto.
    + intros (c1 & la & E1 & H2 & H3 & H4 & H5 & Hla & H6). injection E1 as <-.
      rewrite Hst in Hla. injection Hla as <-.
      assert (Hs : should_close (ch_now s) (cf_max_idle cf) c) by (apply Hsc; tauto).
      exists c, c'. apply Hiff in Hs. tauto.
  - intros c0 E0 Hnot. injection E0 as <-. rewrite L'. f_equal. apply Hno. intros Hs.
    apply Hnot. apply closed_between_in; [exact Hnd|]. exists c, c'. apply Hiff in Hs. tauto.
Qed.

Theorem sweep_disabled cf s : sweep_enabled cf = false -> step cf s ETick = s.
Proof. intros H. cbn [step]. now rewrite H. Qed.

(* a connection closed by the sweep goes all the way to Closed (and is untracked) unless a
   ping is in flight, in which case it waits in InboundClosed for that ping *)
Lemma swept_state c :
  k_state c = c_connectionActive -> k_inb c = 0 -> k_outb c = 0 -> relay_idle c -> k_stopped c = false ->
  k_state (conn_close c) = (if k_pings c =? 0 then c_connectionClosed else c_connectionInboundClosed).
Proof.
  intros Hs Hi Ho Hr Hst. unfold conn_close. rewrite Hs, Z.eqb_refl. unfold check_exchanges.
  assert (E : check_exchanges_state (set_state c_connectionStartClose c) =
              if k_pings c =? 0 then c_connectionClosed else c_connectionInboundClosed).
  { unfold check_exchanges_state, relay_can_close, inb_count, outb_count, relay_idle in *.
    cbn [set_state k_state k_stopped k_relay k_inb k_outb k_pings]. rewrite Hst, Hi, Ho.
    unfold c_connectionStartClose, c_connectionClosed, c_connectionInboundClosed.
    destruct (k_relay c) as [n|]; [subst n|]; cbn; destruct (k_pings c =? 0) eqn:Ep;
      repeat match goal with |- context [?a + ?b =? 0] => replace (a + b =? 0) with (b =? 0) by lia end;
      rewrite ?Ep; reflexivity. }
  rewrite E. destruct (_ && _); cbn [set_tracked_h set_state k_state]; reflexivity.
Qed.
