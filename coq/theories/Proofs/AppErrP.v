(* Property C20, application errors in full: glue between the response representation of
   Model/ErrorPath.v (first call res fragment = flags, callRes{code,..}, [rest]) and the
   fragment lists of Model/Frag.v / Model/FragWire.v (property C01), and the end-to-end
   theorem [apperr_full]: a response written by the fragmenting writer with (or without)
   SetApplicationError, of any number of fragments, forwarded through live relays, reaches the
   caller with ApplicationError() = the handler's flag and exactly the handler's three
   arguments.  The existing models are used unchanged; the definitions below only connect them. *)
From Coq Require Import ZArith List Bool Lia ZifyBool.
From Verif Require Import Base.Wrap Base.Bytes Gen.GenConsts Gen.GenFrame Model.TypedBuf Model.Messages
  Model.ErrorPath Spec.Protocol Spec.ErrorSpec Proofs.CodecP Proofs.FrameP Proofs.ErrorPathP.
From Verif Require Import Model.Crc Model.Frag Model.FragWire Spec.FragSpec Spec.FragOk
  Proofs.FragWP Proofs.FragWireP Proofs.FragRP Proofs.FragRoundtrip.
Import ListNotations.
Local Open Scope Z_scope.

(* ------------------------------------------------------------------ *)
(* glue: a fragment of Model/Frag.v as ErrorPath's (flags, rest)         *)
(* ------------------------------------------------------------------ *)

(* the flags byte and the bytes behind the message header (checksum type, checksum, chunks)
   as finish + flushFragment lay them out (FragWire.enc_frag_payload) *)
Definition frag_flags (f : frag) : Z := if f_more f then c_hasMoreFragmentsFlag else 0.
Definition frag_rest (f : frag) : list Z := [f_ctype f] ++ f_ck f ++ enc_chunks (f_chunks f).

Lemma enc_frag_split msghdr f : enc_frag_payload msghdr f = [frag_flags f] ++ msghdr ++ frag_rest f.
Proof. reflexivity. Qed.

(* a call res continue fragment: flags, empty message body, rest (cf. ErrorPath.w_callres_fragment
   / callres_frame for the first fragment) *)
Definition w_cont_fragment (flags : Z) (rest : list Z) : wbuf -> wbuf := w_u8 flags >> w_nop >> w_bytes rest.
Definition callres_cont_frame (id flags : Z) (rest : list Z) : option (fheader * list Z) :=
  frame_write c_MaxFramePayloadSize (w_cont_fragment flags rest) c_messageTypeCallResContinue id.

(* the wire frames of a response whose fragments are [fs]: the first through ErrorPath's
   callres_frame (response code of [rs]), the others as continuation frames; None = some
   frame could not be built *)
Fixpoint resp_frames (first : bool) (sid : Z) (rs : resp) (hdrs : kvs) (fs : list frag) : option (list (list Z)) :=
  match fs with
  | [] => Some []
  | f :: r =>
      match (if first then callres_frame sid (frag_flags f) rs hdrs (frag_rest f)
             else callres_cont_frame sid (frag_flags f) (frag_rest f)) with
      | None => None
      | Some (h, p) =>
          match resp_frames false sid rs hdrs r with
          | None => None
          | Some ws => Some (frame_out h p :: ws)
          end
      end
  end.

(* every frame through the same chain of relays; None = some frame was not forwarded *)
Fixpoint relay_all (hops : list hop) (ws : list (list Z)) : option (list (list Z)) :=
  match ws with
  | [] => Some []
  | w :: r =>
      match relay_chain hops w with
      | None => None
      | Some w' => match relay_all hops r with None => None | Some r' => Some (w' :: r') end
      end
  end.

(* the caller's connection reads one frame (ReadIn, dispatch), the exchange [id] hands it to
   the response reader, which demands message type [mt] (mex.recvPeerFrameOfType) and parses it
   (parseInboundFragment: FragWire.parse_frag_payload) *)
Definition recv_fragment (id mt : Z) (wire : list Z) : option frag :=
  let '(code, h, payload, _) := frame_read_in wire in
  if negb (code =? 0) then None else
  match handle_frame false h payload with
  | AForward fid =>
      if fid =? id then
        match recv_peer_frame_of_type id mt (mkMex ENil [(h, payload)] ENil) with
        | RFrame _ p => let '(c, f) := parse_frag_payload mt p in if c =? 0 then Some f else None
        | _ => None
        end
      else None
  | _ => None
  end.

(* first a call res frame, then call res continue frames *)
Fixpoint recv_fragments (first : bool) (id : Z) (ws : list (list Z)) : option (list frag) :=
  match ws with
  | [] => Some []
  | w :: r =>
      match recv_fragment id (if first then c_messageTypeCallRes else c_messageTypeCallResContinue) w with
      | None => None
      | Some f => match recv_fragments false id r with None => None | Some fs => Some (f :: fs) end
      end
  end.

(* ------------------------------------------------------------------ *)
(* the frames in specification form                                     *)
(* ------------------------------------------------------------------ *)
Definition res_hdr (code : Z) (hdrs : kvs) : list Z := s_callres code (s_tracing 0 0 0 0) hdrs.

Fixpoint wire_frames (first : bool) (id code : Z) (hdrs : kvs) (fs : list frag) : list (list Z) :=
  match fs with
  | [] => []
  | f :: r => s_frame (if first then 4 else 20) id (enc_frag_payload (if first then res_hdr code hdrs else []) f)
              :: wire_frames false id code hdrs r
  end.

(* what the writer guarantees about each fragment, relative to the frame capacities *)
Section Wire.
  Variable kind : Z.
  Variable code : Z.
  Variable hdrs : kvs.
  Hypothesis Hkind : kind_ok kind.
  Hypothesis Hcode : u_ok 1 code.
  Hypothesis Hhdrs : kvs8_ok hdrs.

  Definition frag_wire_ok (first : bool) (f : frag) : Prop :=
    chunks_size (f_chunks f) <= frag_capacity (if first then res_hdr code hdrs else []) (ck_fresh kind) /\
    f_ctype f = kind /\ zlen (f_ck f) = ck_size (ck_fresh kind).

  Fixpoint frags_wire_ok (first : bool) (fs : list frag) : Prop :=
    match fs with [] => True | f :: r => frag_wire_ok first f /\ frags_wire_ok false r end.

  Lemma callres_hdr_ok : callres_ok (mkCallRes code zero_span hdrs).
  Proof. unfold callres_ok. cbn [cs_code cs_span cs_headers]. split; [exact Hcode|]. split; [apply zero_span_ok|exact Hhdrs]. Qed.

  Lemma frag_flags_ok f : u_ok 1 (frag_flags f).
  Proof. apply u_ok_1. unfold frag_flags, c_hasMoreFragmentsFlag. destruct (f_more f); lia. Qed.

  Lemma frag_flags_more f : hasMoreFragments (frag_flags f) = f_more f.
  Proof. unfold frag_flags. destruct (f_more f); reflexivity. Qed.

  Lemma payload_fits first f : frag_wire_ok first f ->
    zlen (enc_frag_payload (if first then res_hdr code hdrs else []) f) <= 65519.
  Proof.
    intros [Hs [_ Hk]].
    pose proof (frame_bytes_bound _ (ck_fresh kind) f Hs Hk) as B.
    unfold c_FrameHeaderSize, c_MaxFrameSize in B. lia.
  Qed.

  (* ---- sending: the frames are the specified ones ---- *)
  Lemma first_frame_out sid rs f :
    u_ok 4 sid -> response_code_of rs = code -> frag_wire_ok true f ->
    exists h p, callres_frame sid (frag_flags f) rs hdrs (frag_rest f) = Some (h, p) /\
                frame_out h p = s_frame 4 sid (enc_frag_payload (res_hdr code hdrs) f).
  Proof.
    intros Hid Hrc Hok. pose proof (payload_fits true f Hok) as Hl. cbv iota in Hl.
    pose proof (w_callres_fragment_writes (frag_flags f) rs hdrs (frag_rest f) (frag_flags_ok f) Hhdrs) as W.
    rewrite Hrc in W. change (s_callres_fragment (frag_flags f) code hdrs (frag_rest f))
      with (enc_frag_payload (res_hdr code hdrs) f) in W.
    set (body := enc_frag_payload (res_hdr code hdrs) f) in *.
    exists (mkFH (16 + zlen body) 4 0 sid), body. split.
    - unfold callres_frame. apply frame_write_ok; [exact W| |unfold c_MaxFramePayloadSize; lia].
      unfold c_MaxFramePayloadSize. exact Hl.
    - apply frame_out_spec; [apply u_ok_1; lia|exact Hl].
  Qed.

  Lemma cont_frame_out sid f :
    u_ok 4 sid -> frag_wire_ok false f ->
    exists h p, callres_cont_frame sid (frag_flags f) (frag_rest f) = Some (h, p) /\
                frame_out h p = s_frame 20 sid (enc_frag_payload [] f).
  Proof.
    intros Hid Hok. pose proof (payload_fits false f Hok) as Hl. cbv iota in Hl.
    assert (W : writes (w_cont_fragment (frag_flags f) (frag_rest f)) (enc_frag_payload [] f)).
    { rewrite enc_frag_split. unfold w_cont_fragment.
      apply seq_writes; [apply w_u8_writes, frag_flags_ok|].
      apply (seq_writes w_nop (w_bytes (frag_rest f)) [] (frag_rest f) w_nop_writes (w_bytes_writes _)). }
    set (body := enc_frag_payload [] f) in *.
    exists (mkFH (16 + zlen body) 20 0 sid), body. split.
    - unfold callres_cont_frame. apply frame_write_ok; [exact W| |unfold c_MaxFramePayloadSize; lia].
      unfold c_MaxFramePayloadSize. exact Hl.
    - apply frame_out_spec; [apply u_ok_1; lia|exact Hl].
  Qed.

  Lemma resp_frames_ok sid rs : u_ok 4 sid -> response_code_of rs = code ->
    forall fs first, frags_wire_ok first fs ->
    resp_frames first sid rs hdrs fs = Some (wire_frames first sid code hdrs fs).
  Proof.
    intros Hid Hrc. induction fs as [|f fs IH]; intros first Hok; [reflexivity|].
    cbn [frags_wire_ok] in Hok. destruct Hok as [Hf Hr]. cbn [resp_frames wire_frames].
    rewrite (IH false Hr). destruct first.
    - destruct (first_frame_out sid rs f Hid Hrc Hf) as (h & p & E & O). rewrite E, O. reflexivity.
    - destruct (cont_frame_out sid f Hid Hf) as (h & p & E & O). rewrite E, O. reflexivity.
  Qed.

  (* ---- relays: live hops forward every frame, only the id changes ---- *)
  Lemma item_live_weaken b it : item_live true it -> item_live b it.
  Proof. destruct it as [| |s r]; cbn [item_live]; [tauto|tauto|]. intros [A B]. split; [intros _; apply A; reflexivity|exact B]. Qed.

  Lemma hop_live_weaken b hp : hop_live true hp -> hop_live b hp.
  Proof. intros [A [B C]]. split; [|split]; [apply item_live_weaken, A|apply item_live_weaken, B|exact C]. Qed.

  Lemma relay_all_ok hops sid : u_ok 4 sid -> Forall (hop_live true) hops ->
    forall fs first, frags_wire_ok first fs ->
    relay_all hops (wire_frames first sid code hdrs fs) = Some (wire_frames first (final_id sid hops) code hdrs fs).
  Proof.
    intros Hid Hl. induction fs as [|f fs IH]; intros first Hok; [reflexivity|].
    cbn [frags_wire_ok] in Hok. destruct Hok as [Hf Hr]. cbn [relay_all wire_frames].
    pose proof (payload_fits first f Hf) as Hp.
    assert (Ht : u_ok 1 (if first then 4 else 20)) by (destruct first; apply u_ok_1; lia).
    destruct (relay_chain_forward hops _ sid _ Ht Hid Hp) as [E _].
    { eapply Forall_impl; [|exact Hl]. intros hp. apply hop_live_weaken. }
    rewrite E, (IH false Hr). reflexivity.
  Qed.

  (* ---- receiving: the fragment parser recovers each fragment ---- *)
  Lemma ck_size_checksum : ck_size (ck_fresh kind) = ChecksumSize kind.
  Proof. destruct Hkind as [-> | [-> | ->]]; reflexivity. Qed.

  Lemma parse_tail_ok first f : frag_wire_ok first f ->
    parse_frag_tail (frag_flags f) (rb (frag_rest f)) = (0, f).
  Proof.
    intros Hok. pose proof (payload_fits first f Hok) as Hp. destruct Hok as [Hs [Ht Hk]].
    assert (Hsz : zlen (enc_chunks (f_chunks f)) <= 65535).
    { rewrite enc_frag_split, !zlen_app in Hp. pose proof (zlen_nonneg (if first then res_hdr code hdrs else [])).
      pose proof (zlen_nonneg (f_ck f)). unfold frag_rest in Hp. rewrite !zlen_app in Hp.
      change (zlen [frag_flags f]) with 1 in Hp. change (zlen [f_ctype f]) with 1 in Hp. lia. }
    assert (Hr : 0 <= f_ctype f < 4) by (rewrite Ht; destruct Hkind as [-> | [-> | ->]]; lia).
    unfold parse_frag_tail, frag_rest. cbn [app]. rewrite r_u8_byte' by lia. cbn [rerr rb].
    unfold c_checksumCount. replace (f_ctype f >=? 4) with false by lia. cbn [andb].
    destruct (r_bytes_consumes (f_ck f)) as [B _].
    replace (Z.to_nat (ChecksumSize (f_ctype f))) with (length (f_ck f)).
    2:{ rewrite Ht, <- ck_size_checksum, <- Hk. unfold zlen. lia. }
    rewrite B. cbn [rerr rb rrem].
    rewrite parse_chunks_enc; [|exact Hsz|].
    - cbn [app]. f_equal. rewrite frag_flags_more. destruct f; reflexivity.
    - clear. induction (f_chunks f) as [|c cs IH]; [cbn; lia|].
      rewrite enc_chunks_cons, !app_length, be_length. cbn [length]. lia.
  Qed.

  Lemma parse_first_ok f : frag_wire_ok true f ->
    parse_frag_payload c_messageTypeCallRes (enc_frag_payload (res_hdr code hdrs) f) = (0, f).
  Proof.
    intros Hok. unfold parse_frag_payload. rewrite enc_frag_split. cbn [app].
    pose proof (frag_flags_ok f) as Hfl. unfold u_ok in Hfl. change (256 ^ Z.of_nat 1) with 256 in Hfl.
    rewrite r_u8_byte' by exact Hfl.
    change (c_messageTypeCallRes =? c_messageTypeCallReq) with false.
    change (c_messageTypeCallRes =? c_messageTypeCallRes) with true. cbv iota.
    destruct (r_callres_consumes _ callres_hdr_ok) as [C _].
    unfold spec_callres in C. cbn [cs_code cs_span cs_headers] in C.
    change (spec_span zero_span) with (s_tracing 0 0 0 0) in C. unfold res_hdr. rewrite C. cbn [snd rerr rb].
    exact (parse_tail_ok true f Hok).
  Qed.

  Lemma parse_cont_ok f : frag_wire_ok false f ->
    parse_frag_payload c_messageTypeCallResContinue (enc_frag_payload [] f) = (0, f).
  Proof.
    intros Hok. unfold parse_frag_payload. rewrite enc_frag_split. cbn [app].
    pose proof (frag_flags_ok f) as Hfl. unfold u_ok in Hfl. change (256 ^ Z.of_nat 1) with 256 in Hfl.
    rewrite r_u8_byte' by exact Hfl.
    change (c_messageTypeCallResContinue =? c_messageTypeCallReq) with false.
    change (c_messageTypeCallResContinue =? c_messageTypeCallRes) with false. cbv iota. cbn [rerr rb].
    exact (parse_tail_ok false f Hok).
  Qed.

  Lemma recv_fragment_ok first id f : u_ok 4 id -> frag_wire_ok first f ->
    recv_fragment id (if first then c_messageTypeCallRes else c_messageTypeCallResContinue)
      (s_frame (if first then 4 else 20) id (enc_frag_payload (if first then res_hdr code hdrs else []) f)) = Some f.
  Proof.
    intros Hid Hok. pose proof (payload_fits first f Hok) as Hp. unfold recv_fragment.
    rewrite <- (app_nil_r (s_frame _ _ _)).
    rewrite frame_read_in_spec; [|destruct first; apply u_ok_1; lia|exact Hid|exact Hp].
    cbn [Z.eqb negb]. destruct first.
    - unfold handle_frame. cbn [fh_type fh_id andb].
      change (4 =? c_messageTypeError) with false. change (4 =? c_messageTypeCallRes) with true. cbn [orb].
      rewrite Z.eqb_refl.
      unfold recv_peer_frame_of_type, recv_peer_frame. cbn [mx_ctx mx_queue is_nil negb fh_id fh_type].
      rewrite Z.eqb_refl. cbn [fh_type]. change (4 =? c_messageTypeCallRes) with true. cbv iota.
      rewrite (parse_first_ok f Hok). reflexivity.
    - unfold handle_frame. cbn [fh_type fh_id andb].
      change (20 =? c_messageTypeError) with false. change (20 =? c_messageTypeCallRes) with false.
      change (20 =? c_messageTypeCallResContinue) with true. cbn [orb].
      rewrite Z.eqb_refl.
      unfold recv_peer_frame_of_type, recv_peer_frame. cbn [mx_ctx mx_queue is_nil negb fh_id fh_type].
      rewrite Z.eqb_refl. cbn [fh_type]. change (20 =? c_messageTypeCallResContinue) with true. cbv iota.
      rewrite (parse_cont_ok f Hok). reflexivity.
  Qed.

  Lemma recv_fragments_ok id : u_ok 4 id ->
    forall fs first, frags_wire_ok first fs ->
    recv_fragments first id (wire_frames first id code hdrs fs) = Some fs.
  Proof.
    intros Hid. induction fs as [|f fs IH]; intros first Hok; [reflexivity|].
    cbn [frags_wire_ok] in Hok. destruct Hok as [Hf Hr]. cbn [recv_fragments wire_frames].
    rewrite (recv_fragment_ok first id f Hid Hf), (IH false Hr). reflexivity.
  Qed.

  (* ---- what the writer emits satisfies frags_wire_ok ---- *)
  Lemma ck_size_typecode c : ck_typecode c = kind -> ck_size c = ck_size (ck_fresh kind).
  Proof. unfold ck_typecode, ck_size, ck_fresh. cbn [ck_kind]. intros ->. reflexivity. Qed.

  Lemma zlen_ck_sum c : zlen (ck_sum c) = ck_size c.
  Proof. unfold ck_sum, ck_size. destruct (ck_kind c =? 0); [reflexivity|]. rewrite zlen_be. reflexivity. Qed.

  Lemma writer_frags_wire_ok capf :
    capf true <= frag_capacity (res_hdr code hdrs) (ck_fresh kind) ->
    capf false <= frag_capacity [] (ck_fresh kind) ->
    forall fs first c, frames_ok_from capf first fs -> ck_chain c fs -> ck_typecode c = kind ->
    frags_wire_ok first fs.
  Proof.
    intros C1 C2. induction fs as [|f fs IH]; intros first c Hf Hc Ht; [exact I|].
    cbn [frames_ok_from] in Hf. destruct Hf as (_ & Hs & _ & Hr).
    cbn [ck_chain] in Hc. destruct Hc as (K1 & K2 & K3).
    cbn [frags_wire_ok]. split.
    - unfold frag_wire_ok. split; [destruct first; lia|]. split; [rewrite K2; exact Ht|].
      rewrite K1, zlen_ck_sum. apply ck_size_typecode. rewrite ck_fold_typecode. exact Ht.
    - apply (IH false _ Hr K3). rewrite ck_fold_typecode. exact Ht.
  Qed.

  (* ---- relays in any state: a frame that comes out has only its id changed ---- *)
  Lemma relay_hop_remap hp t id p w :
    u_ok 1 t -> zlen p <= 65519 -> hop_ids_ok hp ->
    relay_hop hp (mkFH (16 + zlen p) t 0 id) p = HForward w ->
    w = s_frame t (hop_remap hp id) p /\ u_ok 4 (hop_remap hp id).
  Proof.
    intros Ht Hp Hok. unfold relay_hop, hop_remap. cbn [fh_type fh_size fh_res1]. unfold hop_ids_ok in Hok.
    destruct (hp_in hp) as [| |s1 r1]; try discriminate.
    destruct (finishesCall t (frame_flags p) && negb s1); [discriminate|].
    destruct (hp_out hp) as [| |s2 r2]; try discriminate.
    destruct (finishesCall t (frame_flags p) && negb s2); [discriminate|].
    destruct (hp_room hp <=? 0); [discriminate|].
    intros H. inversion H. split; [apply frame_out_spec; assumption|exact Hok].
  Qed.

  Lemma relay_chain_remap hops : forall t sid p w,
    u_ok 1 t -> u_ok 4 sid -> zlen p <= 65519 -> Forall hop_ids_ok hops ->
    relay_chain hops (s_frame t sid p) = Some w ->
    w = s_frame t (final_id sid hops) p /\ u_ok 4 (final_id sid hops).
  Proof.
    induction hops as [|hp hops IH]; intros t sid p w Ht Hs Hp Hok H.
    - cbn in H. inversion H. cbn. auto.
    - inversion Hok as [|? ? O1 O2]; subst. cbn [relay_chain] in H.
      rewrite <- (app_nil_r (s_frame t sid p)) in H. rewrite frame_read_in_spec in H by assumption.
      cbn [Z.eqb negb] in H.
      destruct (relay_hop hp (mkFH (16 + zlen p) t 0 sid) p) as [w1| |] eqn:R; try discriminate.
      destruct (relay_hop_remap hp t sid p w1 Ht Hp O1 R) as [-> U].
      exact (IH t (hop_remap hp sid) p w Ht U Hp O2 H).
  Qed.

  Lemma relay_all_remap hops sid : u_ok 4 sid -> Forall hop_ids_ok hops ->
    forall fs first ws', frags_wire_ok first fs ->
    relay_all hops (wire_frames first sid code hdrs fs) = Some ws' ->
    ws' = wire_frames first (final_id sid hops) code hdrs fs /\ (fs <> [] -> u_ok 4 (final_id sid hops)).
  Proof.
    intros Hid Hl. induction fs as [|f fs IH]; intros first ws' Hok H.
    - cbn in H. inversion H. split; [reflexivity|congruence].
    - cbn [frags_wire_ok] in Hok. destruct Hok as [Hf Hr]. cbn [relay_all wire_frames] in H.
      pose proof (payload_fits first f Hf) as Hp.
      assert (Ht : u_ok 1 (if first then 4 else 20)) by (destruct first; apply u_ok_1; lia).
      destruct (relay_chain hops (s_frame _ sid _)) as [w'|] eqn:E; [|discriminate].
      destruct (relay_chain_remap hops _ sid _ w' Ht Hid Hp Hl E) as [-> U].
      destruct (relay_all hops (wire_frames false sid code hdrs fs)) as [r'|] eqn:E2; [|discriminate].
      destruct (IH false r' Hr E2) as [-> _]. inversion H. split; [reflexivity|intros _; exact U].
  Qed.

  (* ---- the caller's side of a response that arrives as the specified frames ---- *)
  Lemma caller_ok cid f1 fs1 : u_ok 4 cid -> frags_wire_ok true (f1 :: fs1) ->
    caller_receive false cid waiting (hd [] (wire_frames true cid code hdrs (f1 :: fs1))) = (CRes code (frag_rest f1), false) /\
    recv_fragments true cid (wire_frames true cid code hdrs (f1 :: fs1)) = Some (f1 :: fs1).
  Proof.
    intros U W. split; [|apply recv_fragments_ok; assumption].
    cbn [wire_frames hd]. destruct W as [Wf _].
    pose proof (payload_fits true f1 Wf) as Hp. cbv iota in Hp.
    rewrite <- (app_nil_r (s_frame 4 cid _)).
    change (enc_frag_payload (res_hdr code hdrs) f1) with (s_callres_fragment (frag_flags f1) code hdrs (frag_rest f1)) in *.
    apply caller_receive_callres; [exact U|apply frag_flags_ok|apply callres_hdr_ok|exact Hp].
  Qed.
End Wire.

(* ------------------------------------------------------------------ *)
(* end to end                                                           *)
(* ------------------------------------------------------------------ *)

(* the caller's response reader on the fragments [fs] returns exactly b1, b2, b3: with ANY
   positive read sizes continued to end-of-stream (Begin / reads / Close all return nil), and
   through ArgReadHelper.Read with any buffer size; it ends Complete with every fragment released *)
Definition reads_back (fs : list frag) (b1 b2 b3 : list Z) : Prop :=
  (forall ns1 ns2 ns3,
     Forall (fun n => 0 < n) ns1 -> Forall (fun n => 0 < n) ns2 -> Forall (fun n => 0 < n) ns3 ->
     zsum ns1 > zlen b1 -> zsum ns2 > zlen b2 -> zsum ns3 > zlen b3 ->
     exists l1 st1 l2 st2 l3 st3,
       arg_read false ns1 (Frag.r_init fs) = Some (0, l1, 0, st1) /\
       arg_read false ns2 st1 = Some (0, l2, 0, st2) /\
       arg_read true ns3 st2 = Some (0, l3, 0, st3) /\
       data_of l1 = b1 /\ data_of l2 = b2 /\ data_of l3 = b3 /\
       r_final (Z.of_nat (length fs)) st3) /\
  (forall n1 n2 n3, 0 < n1 -> 0 < n2 -> 0 < n3 ->
     exists st1 st2 st3,
       arg_helper false n1 (Frag.r_init fs) = Some (0, b1, 0, st1) /\
       arg_helper false n2 st1 = Some (0, b2, 0, st2) /\
       arg_helper true n3 st2 = Some (0, b3, 0, st3) /\
       r_final (Z.of_nat (length fs)) st3).

(* the handler's side: [app] = whether SetApplicationError was called (before the arguments);
   the response is written by the fragmenting writer with any write/flush pattern a1 a2 a3,
   checksum [kind], fragment capacities [capf] between (3,5) and what a frame can hold *)
Lemma apperr_writer sid (app : bool) hdrs capf kind a1 a2 a3 :
  u_ok 4 sid -> kvs8_ok hdrs -> kind_ok kind ->
  let code := if app then 1 else 0 in
  3 <= capf true <= frag_capacity (s_callres code (s_tracing 0 0 0 0) hdrs) (ck_fresh kind) ->
  5 <= capf false <= frag_capacity [] (ck_fresh kind) ->
  forall rs, (if app then set_application_error (mkResp 0 false) else Some (mkResp 0 false)) = Some rs ->
  exists codes st f1 fs1,
    w_run capf (script3 a1 a2 a3) (Frag.w_init (ck_fresh kind)) [] = Some (codes, st) /\
    Forall (fun c => c = 0) codes /\ ws_out st = f1 :: fs1 /\
    frags_wire_ok kind code hdrs true (ws_out st) /\
    resp_frames true sid rs hdrs (ws_out st) = Some (wire_frames true sid code hdrs (ws_out st)) /\
    reads_back (ws_out st) (arg_bytes a1) (arg_bytes a2) (arg_bytes a3).
Proof.
  intros Hid Hh Hk code [C1 C1'] [C2 C2'] rs Hrs.
  assert (Hcode : u_ok 1 code) by (unfold code; destruct app; apply u_ok_1; lia).
  assert (Hrc : response_code_of rs = code).
  { unfold code. destruct app; cbn in Hrs; inversion Hrs; reflexivity. }
  destruct (writer_correct capf (ck_fresh kind) a1 a2 a3 C1 C2) as (codes & st & R & A0 & _ & _ & D & F & K).
  destruct (roundtrip_eof capf kind a1 a2 a3 C1 C2 Hk) as (codes1 & st1 & R1 & RE).
  rewrite R in R1. inversion R1; subst codes1 st1. clear R1.
  destruct (roundtrip_helper capf kind a1 a2 a3 C1 C2 Hk) as (codes2 & st2 & R2 & RH).
  rewrite R in R2. inversion R2; subst codes2 st2. clear R2.
  destruct F as [Fne Ff].
  assert (W : frags_wire_ok kind code hdrs true (ws_out st)).
  { apply (writer_frags_wire_ok kind code hdrs capf C1' C2' (ws_out st) true (ck_fresh kind) Ff K). reflexivity. }
  destruct (ws_out st) as [|f1 fs1] eqn:Eout; [congruence|].
  exists codes, st, f1, fs1. rewrite Eout.
  split; [exact R|]. split; [exact A0|]. split; [reflexivity|]. split; [exact W|].
  split; [eapply resp_frames_ok; eassumption|]. split; [exact RE|exact RH].
Qed.

(* LIVE relays: every frame is forwarded, and the caller gets flag and arguments *)
Theorem apperr_full : forall sid (app : bool) hdrs hops capf kind a1 a2 a3,
  u_ok 4 sid -> kvs8_ok hdrs -> kind_ok kind -> Forall (hop_live true) hops ->
  let code := if app then 1 else 0 in
  3 <= capf true <= frag_capacity (s_callres code (s_tracing 0 0 0 0) hdrs) (ck_fresh kind) ->
  5 <= capf false <= frag_capacity [] (ck_fresh kind) ->
  forall rs, (if app then set_application_error (mkResp 0 false) else Some (mkResp 0 false)) = Some rs ->
  let cid := final_id sid hops in
  exists codes st wires wires' f1 fs1,
    (* the handler's writer: no panic, every operation returns nil, at least one fragment *)
    w_run capf (script3 a1 a2 a3) (Frag.w_init (ck_fresh kind)) [] = Some (codes, st) /\
    Forall (fun c => c = 0) codes /\ ws_out st = f1 :: fs1 /\
    (* its fragments as frames (specified layout), through the relays *)
    resp_frames true sid rs hdrs (ws_out st) = Some wires /\
    wires = wire_frames true sid code hdrs (ws_out st) /\
    relay_all hops wires = Some wires' /\
    (* the caller: response code and flag from the first frame ... *)
    caller_receive false cid waiting (hd [] wires') = (CRes code (frag_rest f1), false) /\
    application_error code = app /\ spec_app_error code = app /\
    (* ... the same fragments, and exactly the handler's three arguments *)
    recv_fragments true cid wires' = Some (ws_out st) /\
    reads_back (ws_out st) (arg_bytes a1) (arg_bytes a2) (arg_bytes a3).
Proof.
  intros sid app hdrs hops capf kind a1 a2 a3 Hid Hh Hk Hl code C1 C2 rs Hrs cid.
  assert (Hcode : u_ok 1 code) by (unfold code; destruct app; apply u_ok_1; lia).
  destruct (apperr_writer sid app hdrs capf kind a1 a2 a3 Hid Hh Hk C1 C2 rs Hrs)
    as (codes & st & f1 & fs1 & R & A0 & Eout & W & S & RB).
  fold code in W, S.
  assert (U : u_ok 4 cid).
  { destruct (relay_chain_forward hops 4 sid [] ltac:(apply u_ok_1; lia) Hid ltac:(cbn; lia)) as [_ U]; [|exact U].
    eapply Forall_impl; [|exact Hl]. intros hp. apply hop_live_weaken. }
  exists codes, st, (wire_frames true sid code hdrs (ws_out st)), (wire_frames true cid code hdrs (ws_out st)), f1, fs1.
  split; [exact R|]. split; [exact A0|]. split; [exact Eout|]. split; [exact S|]. split; [reflexivity|].
  split; [eapply relay_all_ok; eassumption|].
  rewrite Eout in W |- *.
  destruct (caller_ok kind code hdrs Hk Hcode Hh cid f1 fs1 U W) as [CR RF].
  split; [exact CR|]. split; [unfold code; destruct app; reflexivity|].
  split; [unfold code; destruct app; reflexivity|]. split; [exact RF|].
  rewrite <- Eout. exact RB.
Qed.

(* relays in ANY state (items, tombs, timers, queues): the frames that the chain lets through
   have only their id changed, so whenever all frames of the response come out, the caller
   gets flag and arguments *)
Theorem apperr_forwarded : forall sid (app : bool) hdrs hops capf kind a1 a2 a3,
  u_ok 4 sid -> kvs8_ok hdrs -> kind_ok kind -> Forall hop_ids_ok hops ->
  let code := if app then 1 else 0 in
  3 <= capf true <= frag_capacity (s_callres code (s_tracing 0 0 0 0) hdrs) (ck_fresh kind) ->
  5 <= capf false <= frag_capacity [] (ck_fresh kind) ->
  forall rs, (if app then set_application_error (mkResp 0 false) else Some (mkResp 0 false)) = Some rs ->
  let cid := final_id sid hops in
  exists codes st wires f1 fs1,
    w_run capf (script3 a1 a2 a3) (Frag.w_init (ck_fresh kind)) [] = Some (codes, st) /\
    Forall (fun c => c = 0) codes /\ ws_out st = f1 :: fs1 /\
    resp_frames true sid rs hdrs (ws_out st) = Some wires /\
    reads_back (ws_out st) (arg_bytes a1) (arg_bytes a2) (arg_bytes a3) /\
    forall wires', relay_all hops wires = Some wires' ->
      caller_receive false cid waiting (hd [] wires') = (CRes code (frag_rest f1), false) /\
      application_error code = app /\ spec_app_error code = app /\
      recv_fragments true cid wires' = Some (ws_out st).
Proof.
  intros sid app hdrs hops capf kind a1 a2 a3 Hid Hh Hk Hl code C1 C2 rs Hrs cid.
  assert (Hcode : u_ok 1 code) by (unfold code; destruct app; apply u_ok_1; lia).
  destruct (apperr_writer sid app hdrs capf kind a1 a2 a3 Hid Hh Hk C1 C2 rs Hrs)
    as (codes & st & f1 & fs1 & R & A0 & Eout & W & S & RB).
  fold code in W, S.
  exists codes, st, (wire_frames true sid code hdrs (ws_out st)), f1, fs1.
  split; [exact R|]. split; [exact A0|]. split; [exact Eout|]. split; [exact S|]. split; [exact RB|].
  intros wires' H.
  destruct (relay_all_remap kind code hdrs hops sid Hid Hl (ws_out st) true wires' W H) as [-> U].
  rewrite Eout in W, U |- *. specialize (U ltac:(discriminate)).
  destruct (caller_ok kind code hdrs Hk Hcode Hh cid f1 fs1 U W) as [CR RF].
  split; [exact CR|]. split; [unfold code; destruct app; reflexivity|].
  split; [unfold code; destruct app; reflexivity|exact RF].
Qed.

Print Assumptions apperr_full.
Print Assumptions apperr_forwarded.

(* non-vacuity: an application-error response with 6-byte fragments (six frames), crc32c,
   through two relays: number of frames, what the caller's connection model returns for the
   first frame (code 1), and the observations of reading the three arguments from the received
   fragments (per operation: code, then for a read the length-prefixed data) *)
Example apperr_full_instance :
  let capf := fun first : bool => if first then 6 else 6 in
  let hops := [mkHop (ILive true 6) (ILive true 0) 1; mkHop (ILive true 7) (ILive true 0) 1] in
  let a2 := [IWrite [1; 2; 3]; IFlush; IWrite [4; 5]] in
  let a3 := [IWrite [6; 7; 8; 9; 10; 11; 12]] in
  match w_run capf (script3 [] a2 a3) (Frag.w_init (ck_fresh 3)) [] with
  | Some (_, st) =>
      match resp_frames true 5 (mkResp 0 true) [] (ws_out st) with
      | Some wires =>
          match relay_all hops wires with
          | Some wires' =>
              (length wires', fst (caller_receive false 7 waiting (hd [] wires')) ,
               match recv_fragments true 7 wires' with
               | Some fs => option_map fst
                              (FragWire.r_run [RBegin false; RHelper 4; RBegin false; RHelper 4; RBegin true; RHelper 4] (Frag.r_init fs) [])
               | None => None
               end)
          | None => (0%nat, CWait, None)
          end
      | None => (0%nat, CWait, None)
      end
  | None => (0%nat, CWait, None)
  end = (6%nat, CRes 1 [3; 3;248;159;82; 0;0; 0;2;1;2],
         Some [0; 0;0;  0; 0;5;1;2;3;4;5;  0; 0;7;6;7;8;9;10;11;12]).
Proof. vm_compute. reflexivity. Qed.
