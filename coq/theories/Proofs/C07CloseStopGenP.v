(* C07, fourth strengthening: the decisions of Model/C07CloseStop.v (idle sweeper start / Stop, the
   guards of stopHealthCheck, the locked region of Channel.Close) and the two admission re-checks of
   Model/ConnClose.v EQUAL the definitions regenerated from the Go source (Gen/GenC07Stop.v,
   go2v/c07stoptargets.go).  An edit of idle_sweep.go / health.go / channel.go / inbound.go /
   outbound.go that changes one of them changes the generated definition and breaks this file. *)
From Coq Require Import ZArith List Bool Lia.
From Verif Require Import Base.Wrap Base.Wire Gen.GenConsts Gen.GenC07Stop Model.CloseKernel Model.ConnClose
  Model.ChanClose Model.C07CloseStop.
Import ListNotations.
Local Open Scope Z_scope.

Lemma gen_sweep_start : forall w iv,
  sweep_start iv w =
    if c07SweepStartGuard (sw_started w) iv =? 1
    then (let '(st', cl') := c07SweepStartSets (sw_started w) (sw_closes w) in mkSw st' cl')
    else w.
Proof.
  intros w iv. unfold sweep_start, c07SweepStartGuard, c07SweepStartSets.
  destruct (sw_started w || (iv <=? 0)); reflexivity.
Qed.

(* idleSweep.Stop: the generated function gives the flag and the number of close() executed on the
   current stopCh; the second close of the same channel is the panic *)
Lemma gen_sweep_stop : forall w, 0 <= sw_closes w <= 1 ->
  sweep_stop w =
    (let '(st', cl') := c07SweepStop (sw_started w) (sw_closes w) in
     if 2 <=? cl' then None else Some (mkSw st' cl')).
Proof.
  intros [st0 cl0] H. cbn [sw_started sw_closes] in *. unfold sweep_stop, sweep_stop_v, c07SweepStop.
  cbn [sw_started sw_closes]. destruct st0; cbn [negb].
  - assert (E : cl0 = 0 \/ cl0 = 1) by lia. destruct E as [->| ->]; reflexivity.
  - assert (E : cl0 = 0 \/ cl0 = 1) by lia. destruct E as [->| ->]; reflexivity.
Qed.

Lemma gen_stop_health : (forall e, hc_guard1 e = c07StopHealthGuard e) /\ (forall c, hc_guard2 c = c07StopHealthRest c).
Proof. split; intros []; reflexivity. Qed.

Lemma gen_close_region : forall has_l n cur, close_region has_l n cur = c07CloseRegion has_l n cur.
Proof.
  intros has_l n cur. unfold close_region, c07CloseRegion, hCl, hSC.
  destruct (cur =? c_ChannelClosed); [reflexivity|].
  destruct has_l; destruct (n =? 0); destruct (cur <? c_ChannelStartClose); reflexivity.
Qed.

Lemma gen_rechecks_at : forall s n id,
  tstep s n (PR3 id) = (if c07CallReqRecheckAt (st s) =? 1
                        then Some (set_inb s (set_flag id (inb s)), PDone oDispatched id)
                        else Some (s, PR4 id)) /\
  tstep s n (PC3 id) = (if c07BeginCallRecheckAt (st s) =? 1
                        then Some (set_outb s (set_flag id (outb s)), PDone oBegun id)
                        else Some (s, PC4 id)).
Proof.
  intros s n id. cbn [tstep]. unfold c07CallReqRecheckAt, c07BeginCallRecheckAt, sA.
  destruct (st s =? c_connectionActive); split; reflexivity.
Qed.

Theorem c07stop_generated :
  (forall w iv,
     sweep_start iv w =
       if c07SweepStartGuard (sw_started w) iv =? 1
       then (let '(st', cl') := c07SweepStartSets (sw_started w) (sw_closes w) in mkSw st' cl')
       else w) /\
  (forall w, 0 <= sw_closes w <= 1 ->
     sweep_stop w =
       (let '(st', cl') := c07SweepStop (sw_started w) (sw_closes w) in
        if 2 <=? cl' then None else Some (mkSw st' cl'))) /\
  (forall e, hc_guard1 e = c07StopHealthGuard e) /\
  (forall c, hc_guard2 c = c07StopHealthRest c) /\
  (forall has_l n cur, close_region has_l n cur = c07CloseRegion has_l n cur) /\
  (forall s n id,
     tstep s n (PR3 id) = (if c07CallReqRecheckAt (st s) =? 1
                           then Some (set_inb s (set_flag id (inb s)), PDone oDispatched id)
                           else Some (s, PR4 id)) /\
     tstep s n (PC3 id) = (if c07BeginCallRecheckAt (st s) =? 1
                           then Some (set_outb s (set_flag id (outb s)), PDone oBegun id)
                           else Some (s, PC4 id))).
Proof.
  split; [exact gen_sweep_start|]. split; [exact gen_sweep_stop|].
  split; [exact (proj1 gen_stop_health)|]. split; [exact (proj2 gen_stop_health)|].
  split; [exact gen_close_region|exact gen_rechecks_at].
Qed.
