(* Property C05 (a) under every scheduling of the error notification against pending frames:
   C04's no-gap theorem over Model/Mex.v (every interleaving of arrivals, refusals and takes)
   composed with C05's reader theorems (cut_call_outcome, hostile_success_denote). *)
From Coq Require Import ZArith List Bool Lia.
From Verif Require Import Base.Wrap Base.Bytes Base.Wire Gen.GenConsts Gen.GenMex Gen.GenMexProg
  Model.Crc Model.Frag Model.FragWire Model.Cut Spec.FragSpec Spec.FragOk Spec.Demux Spec.ChanProg
  Proofs.FragRP Proofs.CutP Proofs.HostileP Model.Mex Proofs.MexP Model.MexProg Proofs.MexProgP Model.ErrQ.
Import ListNotations.
Local Open Scope Z_scope.

(* ---------------------------------------------------------------- the generated system *)
(* one step / a schedule of the system whose connection reader and receiver are the programs
   regenerated from mex.go *)
Definition prog_step (s : st) (l : label) : option st :=
  option_map fst (prog_step_obs mexForwardPeerFrame mexRecvPeerFrame s l).
Definition prog_run (ls : list label) : option st := run_from prog_step init ls.

Lemma prog_step_is_step s l : prog_step s l = step s l.
Proof. unfold prog_step, step. now rewrite prog_step_generated. Qed.

Lemma prog_run_from_is_run ls : forall s, run_from prog_step s ls = run_from step s ls.
Proof.
  induction ls as [|l r IH]; intros s; cbn [run_from]; [reflexivity|].
  rewrite prog_step_is_step. destruct (step s l); [apply IH|reflexivity].
Qed.

Theorem prog_run_is_run ls : prog_run ls = run ls.
Proof. apply prog_run_from_is_run. Qed.

(* ---------------------------------------------------------------- prefixes *)
(* the fragments carried by a sequence of frames (frame tag k |-> its fragment) *)
Definition frs_of (payload : Z -> frag) (l : list frame) : list frag := map payload (map f_tag l).

Lemma prefix_firstn {A} (a b : list A) : prefix a b -> a = firstn (length a) b.
Proof. intros [r ->]. rewrite firstn_app, Nat.sub_diag, firstn_all. cbn [firstn]. now rewrite app_nil_r. Qed.

Lemma prefix_len {A} (a b : list A) : prefix a b -> (length a <= length b)%nat.
Proof. intros [r ->]. rewrite app_length. lia. Qed.

Lemma firstn_prefix {A} k (l : list A) : prefix (firstn k l) l.
Proof. exists (skipn k l). symmetry. apply firstn_skipn. Qed.

Lemma frs_prefix payload a b : prefix a b -> prefix (frs_of payload a) (frs_of payload b).
Proof. intros [r ->]. exists (frs_of payload r). unfold frs_of. now rewrite !map_app. Qed.

(* what the receiver has consumed after any number of its takes is an in-order, gap-free
   initial part of the frames that arrived for its call *)
Lemma consumed_prefix ls s r e k :
  run ls = Some s -> nth_error (s_mexes s) r = Some e ->
  prefix (firstn k (g_received (m_g e))) (window e (s_wire s)).
Proof.
  intros Hrun He. destruct (no_gap _ _ _ _ Hrun He) as [Hp _].
  exact (prefix_trans _ _ _ (firstn_prefix k _) Hp).
Qed.

(* ---------------------------------------------------------------- success = the sent arguments *)
Theorem errq_success_is_sent : forall ls s r e (payload : Z -> frag) fs ck0 a1 a2 a3,
  prog_run ls = Some s -> nth_error (s_mexes s) r = Some e ->
  prefix (frs_of payload (window e (s_wire s))) fs ->
  wf fs -> ck_new (first_ctype fs) = Some ck0 -> ck_chain ck0 fs ->
  denote (chunks_of fs) = [a1; a2; a3] ->
  forall n1 n2 n3, 0 < n1 -> 0 < n2 -> 0 < n3 ->
  forall k, let got := frs_of payload (firstn k (g_received (m_g e))) in
    prefix got fs /\
    (call_outcome n1 n2 n3 got = OErr \/ call_outcome n1 n2 n3 got = OOk [a1; a2; a3]) /\
    (call_outcome n1 n2 n3 got <> OErr -> got = fs).
Proof.
  intros ls s r e payload fs ck0 a1 a2 a3 Hrun He Hsent Hwf Hck Hchain Hden n1 n2 n3 H1 H2 H3 k got.
  rewrite prog_run_is_run in Hrun.
  assert (Hp : prefix got fs).
  { exact (prefix_trans _ _ _ (frs_prefix payload _ _ (consumed_prefix ls s r e k Hrun He)) Hsent). }
  split; [exact Hp|].
  pose proof (prefix_len _ _ Hp) as Hl. pose proof (prefix_firstn _ _ Hp) as Hg.
  pose proof (cut_call_outcome fs ck0 a1 a2 a3 Hwf Hck Hchain Hden n1 n2 n3 H1 H2 H3 (length got) Hl) as Hout.
  rewrite <- Hg in Hout. destruct (length got <? length fs)%nat eqn:E.
  - split; [left; exact Hout|]. intros Hn. contradiction.
  - split; [right; exact Hout|]. intros _. apply Nat.ltb_ge in E.
    rewrite Hg. apply firstn_all2. exact E.
Qed.

(* ---------------------------------------------------------------- hostile frames *)
Theorem errq_success_is_denotation : forall ls s r e (payload : Z -> frag) n1 n2 n3 k args,
  0 < n1 -> 0 < n2 -> 0 < n3 ->
  prog_run ls = Some s -> nth_error (s_mexes s) r = Some e ->
  (forall t, frag_parsed (payload t)) ->
  call_outcome n1 n2 n3 (frs_of payload (firstn k (g_received (m_g e)))) = OOk args ->
  exists pre post c0, frs_of payload (window e (s_wire s)) = pre ++ post /\ wf pre /\
    ck_new (first_ctype pre) = Some c0 /\ ck_chain c0 pre /\ f_more (last pre dfrag) = false /\
    args = denote (chunks_of pre).
Proof.
  intros ls s r e payload n1 n2 n3 k args H1 H2 H3 Hrun He Hpar Hout.
  rewrite prog_run_is_run in Hrun.
  assert (Hp : Forall frag_parsed (frs_of payload (firstn k (g_received (m_g e))))).
  { unfold frs_of. apply Forall_forall. intros x Hx. apply in_map_iff in Hx. destruct Hx as (t & <- & _). apply Hpar. }
  destruct (hostile_success_denote n1 n2 n3 _ args H1 H2 H3 Hp Hout) as (pre & post & c0 & Hs & Hwf & Hn & Hc & Hl & Ha).
  destruct (frs_prefix payload _ _ (consumed_prefix ls s r e k Hrun He)) as [rest Hr].
  exists pre, (post ++ rest), c0. split; [|auto]. rewrite Hr, Hs. now rewrite app_assoc.
Qed.

(* ---------------------------------------------------------------- the code without frameDropped *)
(* four fragments without checksums: arg1 = [], arg2 = [3;4], arg3 = [5;6;7;8] one byte per fragment *)
Definition gap_fs : list frag :=
  [mkFrag true 0 [] [[]; [3; 4]; [5]]; mkFrag true 0 [] [[6]]; mkFrag true 0 [] [[7]]; mkFrag false 0 [] [[8]]].
Definition gap_payload (t : Z) : frag := nth (Z.to_nat (t - 1)) gap_fs dfrag.

Lemma gap_fs_premises :
  wf gap_fs /\ ck_new (first_ctype gap_fs) = Some (mkCk 0 0) /\ ck_chain (mkCk 0 0) gap_fs /\
  denote (chunks_of gap_fs) = [[]; [3; 4]; [5; 6; 7; 8]].
Proof.
  split; [|split; [reflexivity|split; [|reflexivity]]].
  - exists (fun _ => 100). unfold frames_ok, gap_fs. cbn [frames_ok_from f_chunks f_more]. ok_tac.
  - unfold gap_fs. cbn [ck_chain f_ck f_ctype f_chunks]. repeat split.
Qed.

Theorem errq_pinned_refuted : exists ls s e args,
  run_pinned ls = Some s /\ nth_error (s_mexes s) 0 = Some e /\
  frs_of gap_payload (window e (s_wire s)) = gap_fs /\
  call_outcome 512 512 512 (frs_of gap_payload (g_received (m_g e))) = OOk args /\
  args <> denote (chunks_of gap_fs).
Proof.
  exists gap_trace.
  destruct (run_pinned gap_trace) as [s|] eqn:E; [|vm_compute in E; discriminate].
  destruct (nth_error (s_mexes s) 0) as [e|] eqn:Ee.
  2:{ exfalso. vm_compute in E. inversion E; subst. discriminate. }
  exists s, e, [[]; [3; 4]; [5; 6; 8]]. split; [reflexivity|]. split; [exact Ee|].
  vm_compute in E. inversion E; subst. cbn in Ee. inversion Ee; subst.
  split; [vm_compute; reflexivity|]. split; [vm_compute; reflexivity|]. vm_compute. discriminate.
Qed.

(* the same schedule on the system regenerated from the source: frame 4 is refused *)
Example errq_gap_trace_generated : exists s e,
  prog_run (firstn 16 gap_trace) = Some s /\ nth_error (s_mexes s) 0 = Some e /\
  prog_step s LFwdSend = None /\ map f_tag (g_delivered (m_g e)) = [1; 2] /\ m_dropped e = true.
Proof. vm_compute. eexists. eexists. repeat split. Qed.

(* ---------------------------------------------------------------- the scenario model is a schedule *)
(* every state the scenario semantics of Model/ErrQ.v passes through is reached by a schedule of
   atomic steps of Model/Mex.v: the theorems above apply to what the engine compares the
   implementation with *)
Definition reach (s : st) : Prop := exists ls, run ls = Some s.

Lemma reach_step s l s' o : reach s -> step_obs true s l = Some (s', o) -> reach s'.
Proof.
  intros [ls Hr] Hs. exists (ls ++ [l]). unfold run.
  apply (run_from_app step ls [l] init s s' Hr). cbn [run_from]. unfold step. now rewrite Hs.
Qed.

Lemma try_labels_some s : forall ls s' o, try_labels true s ls = Some (s', o) ->
  exists l, step_obs true s l = Some (s', o).
Proof.
  unfold try_labels. intros ls.
  assert (G : forall acc s' o,
    fold_left (fun acc l => match acc with Some _ => acc | None => step_obs true s l end) ls acc = Some (s', o) ->
    acc = Some (s', o) \/ exists l, step_obs true s l = Some (s', o)).
  { induction ls as [|l r IH]; intros acc s' o H; cbn [fold_left] in H; [left; exact H|].
    destruct (IH _ _ _ H) as [E|E]; [|right; exact E].
    destruct acc as [a|]; [left; exact E|right; exists l; exact E]. }
  intros s' o H. destruct (G None s' o H) as [E|E]; [discriminate|exact E].
Qed.

Lemma reach_try s ls s' o : reach s -> try_labels true s ls = Some (s', o) -> reach s'.
Proof. intros Hr H. destruct (try_labels_some s ls s' o H) as [l Hl]. exact (reach_step _ _ _ _ Hr Hl). Qed.

Lemma reach_fwd s : reach s -> reach (fst (fwd_advance true s)).
Proof.
  intros Hr. unfold fwd_advance. destruct (s_reader s) as [|f [m|]|f m]; cbn [fst]; [exact Hr| | |].
  - destruct (step_obs true s LFwdCheck) as [[s1 [|c o]]|] eqn:E1; cbn [fst]; [| |exact Hr].
    + pose proof (reach_step _ _ _ _ Hr E1) as Hr1.
      destruct (try_labels true s1 [LFwdSend; LFwdCtxDone; LFwdErr]) as [[s2 o2]|] eqn:E2; cbn [fst]; [|exact Hr1].
      exact (reach_try _ _ _ _ Hr1 E2).
    + exact (reach_step _ _ _ _ Hr E1).
  - destruct (step_obs true s LFwdNil) as [[s1 o]|] eqn:E1; cbn [fst]; [|exact Hr]. exact (reach_step _ _ _ _ Hr E1).
  - destruct (try_labels true s [LFwdSend; LFwdCtxDone; LFwdErr]) as [[s2 o2]|] eqn:E2; cbn [fst]; [|exact Hr].
    exact (reach_try _ _ _ _ Hr E2).
Qed.

Lemma reach_cons s r : reach s -> reach (fst (cons_advance true s r)).
Proof.
  intros Hr. unfold cons_advance.
  assert (Hsel : forall s0, reach s0 ->
    reach (fst (match try_labels true s0 [LRecvFrame r; LRecvCtxDone r; LRecvErr r] with
                | Some (s', o) => (s', Some o) | None => (s0, None) end))).
  { intros s0 H0. destruct (try_labels true s0 _) as [[s' o]|] eqn:E; cbn [fst]; [|exact H0]. exact (reach_try _ _ _ _ H0 E). }
  destruct (nth_error (s_mexes s) r) as [e|]; [|exact Hr].
  destruct (m_cpc e); [exact (Hsel s Hr)|].
  destruct (step_obs true s (LRecvCheck r)) as [[s1 [|c o]]|] eqn:E1; cbn [fst]; [| |exact Hr].
  - exact (Hsel s1 (reach_step _ _ _ _ Hr E1)).
  - exact (reach_step _ _ _ _ Hr E1).
Qed.

Lemma reach_stop_all c s : reach s -> reach (stop_all c s).
Proof.
  intros Hr. unfold stop_all. destruct (step_obs true s (LStopCopy c)) as [[s1 o]|] eqn:E; [|exact Hr].
  pose proof (reach_step _ _ _ _ Hr E) as Hr1. clear E. generalize (s_stop s1). intros l. revert s1 Hr1.
  induction l as [|x l IH]; intros s1 Hr1; cbn [fold_left]; [exact Hr1|].
  apply IH. destruct (step_obs true s1 (LStopNotify 0)) as [[s2 o2]|] eqn:E2; [|exact Hr1].
  exact (reach_step _ _ _ _ Hr1 E2).
Qed.

Lemma reach_rd x : reach (x_st x) -> reach (x_st (fst (rd_advance x))).
Proof.
  intros Hr. unfold rd_advance. destruct (s_reader (x_st x)) eqn:Er.
  - destruct (x_wire x) as [|[f|c] w]; cbn [fst x_st]; [exact Hr| |].
    + destruct (step_obs true (x_st x) (LLookup f)) as [[s' o]|] eqn:E; cbn [fst x_st]; [|exact Hr].
      exact (reach_step _ _ _ _ Hr E).
    + exact (reach_stop_all c _ Hr).
  - pose proof (reach_fwd _ Hr) as H. destruct (fwd_advance true (x_st x)) as [s' o]. exact H.
  - pose proof (reach_fwd _ Hr) as H. destruct (fwd_advance true (x_st x)) as [s' o]. exact H.
Qed.

Lemma reach_cs x : reach (x_st x) -> reach (x_st (fst (cs_advance x))).
Proof.
  intros Hr. unfold cs_advance. destruct (negb (x_rerr x =? 0)).
  - destruct (x_want x); exact Hr.
  - pose proof (reach_cons _ 0%nat Hr) as H.
    destruct (in_recv (x_st x)), (x_want x); cbn [fst]; try exact Hr;
      destruct (cons_advance true (x_st x) 0) as [s' [[|[|p|p] o]|]]; exact H.
Qed.

Lemma reach_settle fuel : forall x, reach (x_st x) -> reach (x_st (x_settle fuel x)).
Proof.
  induction fuel as [|fuel IH]; intros x Hr; cbn [x_settle]; [exact Hr|].
  pose proof (reach_rd x Hr) as H1. destruct (rd_advance x) as [x1 p1]. cbn [fst] in H1.
  pose proof (reach_cs x1 H1) as H2. destruct (cs_advance x1) as [x2 p2]. cbn [fst] in H2.
  destruct (p1 || p2); [exact (IH x2 H2)|exact H2].
Qed.

Lemma reach_event id kind code n acc ev :
  reach (x_st (fst acc)) -> reach (x_st (fst (x_event id kind code n acc ev))).
Proof.
  destruct acc as [x next]. cbn [fst]. intros Hr. unfold x_event.
  destruct (ev =? 0).
  { destruct (next <=? n)%nat; cbn [fst]; [|exact Hr]. apply reach_settle. exact Hr. }
  destruct (ev =? 1); [cbn [fst]; apply reach_settle; exact Hr|].
  destruct (ev =? 2); [|exact Hr].
  destruct (kind =? 3); cbn [fst]; apply reach_settle; [exact Hr|].
  unfold x_set_st. cbn [x_st]. exact (reach_stop_all code _ Hr).
Qed.

Lemma reach_finish fuel n : forall x, reach (x_st x) -> reach (x_st (x_finish fuel n x)).
Proof.
  induction fuel as [|fuel IH]; intros x Hr; cbn [x_finish]; [exact Hr|].
  destruct (negb (x_rerr x =? 0)); [exact Hr|]. destruct (n <=? length (x_recvd x))%nat; [exact Hr|].
  destruct (negb (Nat.eqb (x_want x) 0) || in_recv (x_st x)); [exact Hr|].
  apply IH. apply reach_settle. exact Hr.
Qed.

Theorem errq_scenario_reachable : forall id cap kind code n evs,
  exists ls, prog_run ls = Some (x_st (x_run id cap kind code n evs)).
Proof.
  intros id cap kind code n evs.
  assert (H : reach (x_st (x_run id cap kind code n evs))).
  { unfold x_run.
    assert (H0 : reach (x_st (fst (x_init id cap, 1%nat)))).
    { cbn [fst]. unfold x_init. destruct (step_obs true init (LNew id cap)) as [[s o]|] eqn:E; cbn [x_st].
      - exact (reach_step init _ _ _ (ex_intro _ [] eq_refl) E).
      - exists []. reflexivity. }
    assert (H1 : forall evs acc, reach (x_st (fst acc)) -> reach (x_st (fst (fold_left (x_event id kind code n) evs acc)))).
    { induction evs0 as [|ev r IH]; intros acc Ha; cbn [fold_left]; [exact Ha|]. apply IH. apply reach_event. exact Ha. }
    specialize (H1 evs _ H0). destruct (fold_left (x_event id kind code n) evs (x_init id cap, 1%nat)) as [x next].
    cbn [fst] in H1. apply reach_finish. apply reach_settle. exact H1. }
  destruct H as [ls Hls]. exists ls. rewrite prog_run_is_run. exact Hls.
Qed.

(* ... so a success of the scenario model is the denotation of a checksum-verified well-formed
   message that is an initial part, in arrival order, of the frames that reached the exchange *)
Theorem errq_scenario_success : forall id cap kind code n evs (payload : Z -> frag) args,
  (forall t, frag_parsed (payload t)) ->
  let x := x_run id cap kind code n evs in
  call_outcome 512 512 512 (frs_of payload (x_recvd x)) = OOk args ->
  exists e pre post c0, nth_error (s_mexes (x_st x)) 0 = Some e /\
    frs_of payload (window e (s_wire (x_st x))) = pre ++ post /\ wf pre /\
    ck_new (first_ctype pre) = Some c0 /\ ck_chain c0 pre /\ f_more (last pre dfrag) = false /\
    args = denote (chunks_of pre).
Proof.
  intros id cap kind code n evs payload args Hpar x Hout.
  destruct (errq_scenario_reachable id cap kind code n evs) as [ls Hls]. fold x in Hls.
  unfold x_recvd in Hout. destruct (nth_error (s_mexes (x_st x)) 0) as [e|] eqn:He.
  - rewrite <- (firstn_all (g_received (m_g e))) in Hout.
    destruct (errq_success_is_denotation ls _ 0%nat e payload 512 512 512 _ args ltac:(lia) ltac:(lia) ltac:(lia) Hls He Hpar Hout)
      as (pre & post & c0 & H).
    exists e, pre, post, c0. split; [reflexivity|exact H].
  - exfalso. cbn in Hout. vm_compute in Hout. discriminate.
Qed.
