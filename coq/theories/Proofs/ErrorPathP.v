(* Proofs about the error path model (property C20). *)
From Coq Require Import ZArith List Bool Lia ZifyBool.
From Verif Require Import Base.Wrap Base.Bytes Gen.GenConsts Gen.GenRetry Gen.GenFrame Gen.GenErrors
  Model.TypedBuf Model.Messages Model.ErrorPath Spec.Protocol Spec.ErrorSpec Spec.RelayErrors
  Proofs.CodecP Proofs.FrameP.
Import ListNotations.
Local Open Scope Z_scope.

(* ---------------------------------------------------------------- names *)
Lemma code_names_tie :
  List.concat code_names = c_u_SystemErrCode_name_0 /\ code_string 255 = c_u_SystemErrCode_name_1 /\
  List.concat state_names = c_u_connectionState_name.
Proof. vm_compute. repeat split. Qed.

(* ---------------------------------------------------------------- error values *)
Lemma sys_code_sys c m : sys_code (ESys c m) = c.
Proof. reflexivity. Qed.
Lemma sys_message_sys c m : sys_message (ESys c m) = Some m.
Proof. reflexivity. Qed.
Lemma sys_code_nonsys e : is_sys e = false -> is_nil e = false -> sys_code e = 5.
Proof. destruct e; cbn; intros; try discriminate; reflexivity. Qed.
Lemma sys_message_nonsys e : is_sys e = false -> is_nil e = false -> sys_message e = Some (err_text e).
Proof. destruct e; cbn; intros; try discriminate; reflexivity. Qed.

Lemma new_wrapped_sys code c m : new_wrapped code (ESys c m) = ESys c m.
Proof. reflexivity. Qed.
Lemma new_wrapped_nonsys code e : is_sys e = false -> new_wrapped code e = ESys code (err_text e).
Proof. destruct e; cbn; intros; try discriminate; reflexivity. Qed.

(* a SystemError keeps its code through any number of wraps: the rule that made the relay's
   "selected remote inactive" error a network error although it was wrapped as declined *)
Lemma wrap_wrap_keeps_inner c1 c2 e : is_sys e = false ->
  sys_code (new_wrapped c1 (new_wrapped c2 e)) = c2.
Proof. intros H. rewrite (new_wrapped_nonsys c2 e H). reflexivity. Qed.

Lemma log_connection_error_nonsys e : is_sys e = false ->
  log_connection_error e = ESys 7 (err_text e).
Proof. destruct e; cbn; intros; try discriminate; reflexivity. Qed.
Lemma log_connection_error_sys c m : log_connection_error (ESys c m) = ESys c m.
Proof. reflexivity. Qed.

Lemma get_context_error_deadline : get_context_error ECtxDeadline = v_ErrTimeout.
Proof. reflexivity. Qed.
Lemma get_context_error_canceled : get_context_error ECtxCanceled = v_ErrRequestCancelled.
Proof. reflexivity. Qed.

(* ---------------------------------------------------------------- sizes *)
Lemma zlen_spec_span sp : zlen (spec_span sp) = 25.
Proof. unfold spec_span, s_tracing. rewrite !zlen_app, !zlen_be. reflexivity. Qed.

Lemma zlen_s_error code tr msg : zlen (s_error code tr msg) = 1 + zlen tr + 2 + zlen msg.
Proof. unfold s_error, s_str2. rewrite !zlen_app, zlen_be. unfold zlen at 1. cbn [length]. lia. Qed.

Definition msg_ok (m : list Z) : Prop := bytes_ok m = true.
Definition code_ok (c : Z) : Prop := 0 <= c < 256.

Lemma error_ok_intro code sp msg : code_ok code -> span_ok sp -> msg_ok msg -> zlen msg <= 65535 ->
  error_ok (mkErr code sp msg).
Proof.
  intros Hc Hs Hm Hl. unfold error_ok, str16_ok. cbn [em_code em_span em_msg]. split; [|split; [exact Hs|split; assumption]].
  apply u_ok_1. exact Hc.
Qed.

(* ---------------------------------------------------------------- sending *)
(* the largest message an error frame can carry *)
Definition max_error_msg : Z := c_MaxFramePayloadSize - 28.

Lemma error_frame_ok id sp e m :
  sys_message e = Some m -> code_ok (sys_code e) -> span_ok sp -> msg_ok m -> zlen m <= max_error_msg ->
  error_frame id sp e =
    Some (Some (mkFH (16 + zlen (s_error (sys_code e) (spec_span sp) m)) c_messageTypeError 0 id,
                s_error (sys_code e) (spec_span sp) m)).
Proof.
  intros Hm Hc Hs Hb Hl. unfold error_frame. rewrite Hm. unfold max_error_msg, c_MaxFramePayloadSize in Hl.
  assert (OK : error_ok (mkErr (sys_code e) sp m)) by (apply error_ok_intro; auto; lia).
  pose proof (w_error_writes _ OK) as W. unfold spec_error in W. cbn [em_code em_span em_msg] in W.
  rewrite (frame_write_ok _ _ _ c_messageTypeError id W).
  - reflexivity.
  - rewrite zlen_s_error, zlen_spec_span. unfold c_MaxFramePayloadSize. lia.
  - lia.
Qed.

Lemma send_ok c id sp e m :
  sys_message e = Some m -> code_ok (sys_code e) -> span_ok sp -> msg_ok m -> zlen m <= max_error_msg ->
  cn_state c <> c_connectionClosed -> 0 < cn_room c ->
  send_system_error c id sp e = Sent (s_frame 255 id (s_error (sys_code e) (spec_span sp) m)).
Proof.
  intros Hm Hc Hs Hb Hl Hst Hroom. unfold send_system_error.
  rewrite (error_frame_ok id sp e m Hm Hc Hs Hb Hl).
  destruct (cn_state c =? c_connectionClosed) eqn:E; [lia|].
  destruct (cn_room c <=? 0) eqn:R; [lia|].
  f_equal. apply frame_out_spec.
  - apply u_ok_1. unfold c_messageTypeError. lia.
  - rewrite zlen_s_error, zlen_spec_span. unfold max_error_msg, c_MaxFramePayloadSize in Hl. lia.
Qed.

(* a message that does not fit is refused at frame construction: nothing is sent *)
Lemma error_frame_too_long id sp e m :
  sys_message e = Some m -> code_ok (sys_code e) -> span_ok sp -> msg_ok m -> max_error_msg < zlen m ->
  error_frame id sp e = Some None.
Proof.
  intros Hm Hc Hs Hb Hl. unfold error_frame. rewrite Hm. unfold max_error_msg, c_MaxFramePayloadSize in Hl.
  destruct (Z_le_gt_dec (zlen m) 65535) as [L|L].
  - assert (OK : error_ok (mkErr (sys_code e) sp m)) by (apply error_ok_intro; auto).
    pose proof (w_error_writes _ OK) as W. unfold spec_error in W. cbn [em_code em_span em_msg] in W.
    rewrite (frame_write_full _ _ _ c_messageTypeError id W); [reflexivity|].
    rewrite zlen_s_error, zlen_spec_span. unfold c_MaxFramePayloadSize. lia.
  - (* longer than a uint16 length: errStringTooLong *)
    unfold frame_write, w_error. cbn [em_code em_span em_msg].
    assert (P : writes (w_u8 (sys_code e) >> w_span sp) ([sys_code e] ++ spec_span sp)).
    { apply seq_writes; [apply w_u8_writes; exact Hc|]. apply w_span_writes. destruct Hs as [_ [_ [_ F]]]. exact F. }
    destruct P as [P _].
    change ((w_u8 (sys_code e) >> w_span sp >> w_len16 m) (wb c_MaxFramePayloadSize))
      with (w_len16 m ((w_u8 (sys_code e) >> w_span sp) (wb c_MaxFramePayloadSize))).
    rewrite P.
    + rewrite w_len16_toolong; [reflexivity| lia | reflexivity].
    + reflexivity.
    + cbn [wroom wb]. rewrite zlen_app, zlen_spec_span. unfold zlen. cbn [length]. unfold c_MaxFramePayloadSize. lia.
Qed.

Lemma send_too_long c id sp e m :
  sys_message e = Some m -> code_ok (sys_code e) -> span_ok sp -> msg_ok m -> max_error_msg < zlen m ->
  send_system_error c id sp e = NotSent 1.
Proof.
  intros Hm Hc Hs Hb Hl. unfold send_system_error.
  rewrite (error_frame_too_long id sp e m Hm Hc Hs Hb Hl). reflexivity.
Qed.

(* ---------------------------------------------------------------- receiving *)
(* the exchange of a call that is waiting: live context, nothing queued, no connection error *)
Definition waiting : mex := mkMex ENil [] ENil.

Lemma r_error_spec code sp msg rest :
  error_ok (mkErr code sp msg) ->
  r_error (rb (s_error code (spec_span sp) msg ++ rest)) = (mkErr code sp msg, rb rest).
Proof. intros OK. destruct (r_error_consumes _ OK) as [C _]. exact (C rest). Qed.

(* handleError: an error frame is parsed; junk after the message is ignored *)
Lemma handle_error_spec id code sp msg junk :
  error_ok (mkErr code sp msg) ->
  handle_error id (s_error code (spec_span sp) msg ++ junk) =
    if code =? 255 then AClose 2 (ESys code msg) else AForward id.
Proof.
  intros OK. unfold handle_error. rewrite (r_error_spec code sp msg junk OK). cbn [rerr rb em_code em_msg].
  reflexivity.
Qed.

Lemma read_response_error_frame id h code sp msg junk :
  error_ok (mkErr code sp msg) -> fh_id h = id -> fh_type h = c_messageTypeError ->
  read_response id (mkMex ENil [(h, s_error code (spec_span sp) msg ++ junk)] ENil) = CErr (ESys code msg).
Proof.
  intros OK Hid Ht. unfold read_response, recv_peer_frame_of_type, recv_peer_frame.
  cbn [mx_ctx mx_queue is_nil negb]. rewrite Hid, Z.eqb_refl, Ht.
  cbn [Z.eqb c_messageTypeError c_messageTypeCallRes Pos.eqb].
  rewrite (r_error_spec code sp msg junk OK). reflexivity.
Qed.

(* direct path: the error frame arrives on the caller's (non-relay) connection *)
Lemma caller_receive_error id code sp msg rest :
  u_ok 4 id -> code_ok code -> span_ok sp -> msg_ok msg -> zlen msg <= max_error_msg ->
  caller_receive false id waiting (s_frame 255 id (s_error code (spec_span sp) msg) ++ rest) =
    (CErr (ESys code msg), code =? 255).
Proof.
  intros Hid Hc Hs Hm Hl. unfold max_error_msg, c_MaxFramePayloadSize in Hl.
  assert (OK : error_ok (mkErr code sp msg)) by (apply error_ok_intro; auto; lia).
  unfold caller_receive.
  rewrite frame_read_in_spec; [|apply u_ok_1; lia|exact Hid|rewrite zlen_s_error, zlen_spec_span; lia].
  cbn [Z.eqb negb]. unfold handle_frame. cbn [fh_type fh_id andb].
  change (255 =? c_messageTypeError) with true. cbn iota.
  rewrite <- (app_nil_r (s_error code (spec_span sp) msg)) at 1.
  rewrite (handle_error_spec id code sp msg [] OK).
  destruct (code =? 255) eqn:E.
  - (* protocol error: connection closed, the exchange is notified with the same system error *)
    apply Z.eqb_eq in E. subst code. reflexivity.
  - unfold waiting. cbn [mx_ctx mx_queue mx_err is_nil andb]. rewrite Z.eqb_refl.
    change (zlen (@nil (fheader * list Z)) <? c_mexChannelBufferSize) with true. cbn [andb app].
    rewrite <- (app_nil_r (s_error code (spec_span sp) msg)).
    rewrite (read_response_error_frame id _ code sp msg [] OK); reflexivity.
Qed.

(* on a connection of a relay channel an error frame never closes the connection: it is routed
   to the relayer *)
Lemma handle_frame_relay_error h payload :
  fh_type h = c_messageTypeError -> handle_frame true h payload = ARelay.
Proof. intros H. unfold handle_frame. rewrite H. reflexivity. Qed.

(* outside relay channels: which frames close the connection they arrive on *)
Lemma handle_frame_close h payload site e :
  handle_frame false h payload = AClose site e ->
  fh_type h = c_messageTypeError /\
  ((site = 1 /\ rerr (snd (r_error (rb payload))) = true) \/
   (site = 2 /\ exists m, e = ESys 255 m /\ em_code (fst (r_error (rb payload))) = 255)).
Proof.
  unfold handle_frame. cbn [andb].
  destruct (fh_type h =? c_messageTypeError) eqn:T.
  - apply Z.eqb_eq in T. intros H. split; [exact T|]. unfold handle_error in H.
    destruct (r_error (rb payload)) as [m r] eqn:R. cbn [fst snd].
    destruct (rerr r) eqn:Er.
    + left. inversion H. auto.
    + destruct (em_code m =? c_ErrCodeProtocol) eqn:P; [|discriminate].
      right. apply Z.eqb_eq in P. inversion H. split; [reflexivity|]. exists (em_msg m). rewrite P. auto.
  - destruct ((fh_type h =? c_messageTypeCallRes) || (fh_type h =? c_messageTypeCallResContinue)); discriminate.
Qed.

(* ---------------------------------------------------------------- relays *)
Definition item_live (finished : bool) (it : item) : Prop :=
  match it with ILive stoppable remap => (finished = true -> stoppable = true) /\ u_ok 4 remap | _ => False end.
Definition hop_live (finished : bool) (hp : hop) : Prop :=
  item_live finished (hp_in hp) /\ item_live finished (hp_out hp) /\ 0 < hp_room hp.
Definition hop_ids_ok (hp : hop) : Prop :=
  match hp_in hp with ILive _ remap => u_ok 4 remap | _ => True end.

Definition hop_remap (hp : hop) (id : Z) : Z := match hp_in hp with ILive _ r => r | _ => id end.
Definition final_id (sid : Z) (hops : list hop) : Z := fold_left (fun id hp => hop_remap hp id) hops sid.

Lemma relay_hop_forward hp t id p :
  u_ok 1 t -> zlen p <= 65519 -> hop_live (finishesCall t (frame_flags p)) hp ->
  relay_hop hp (mkFH (16 + zlen p) t 0 id) p = HForward (s_frame t (hop_remap hp id) p).
Proof.
  intros Ht Hp [Hi [Ho Hr]]. unfold relay_hop, hop_remap. cbn [fh_type fh_size fh_res1].
  destruct (hp_in hp) as [| |s1 r1]; try contradiction. destruct Hi as [S1 _].
  destruct (hp_out hp) as [| |s2 r2]; try contradiction. destruct Ho as [S2 _].
  destruct (finishesCall t (frame_flags p)) eqn:F.
  - rewrite (S1 eq_refl), (S2 eq_refl). cbn [negb andb].
    destruct (hp_room hp <=? 0) eqn:R; [lia|]. f_equal. apply frame_out_spec; assumption.
  - cbn [andb]. destruct (hp_room hp <=? 0) eqn:R; [lia|]. f_equal. apply frame_out_spec; assumption.
Qed.

(* whatever the state of the relay items: a frame that passes a hop keeps type and payload *)
Lemma relay_hop_transparent hp t id p w :
  u_ok 1 t -> zlen p <= 65519 -> hop_ids_ok hp ->
  relay_hop hp (mkFH (16 + zlen p) t 0 id) p = HForward w ->
  exists id', u_ok 4 id' /\ w = s_frame t id' p.
Proof.
  intros Ht Hp Hok. unfold relay_hop. cbn [fh_type fh_size fh_res1]. unfold hop_ids_ok in Hok.
  destruct (hp_in hp) as [| |s1 r1]; try discriminate.
  destruct (finishesCall t (frame_flags p) && negb s1); [discriminate|].
  destruct (hp_out hp) as [| |s2 r2]; try discriminate.
  destruct (finishesCall t (frame_flags p) && negb s2); [discriminate|].
  destruct (hp_room hp <=? 0); [discriminate|].
  intros H. inversion H. exists r1. split; [exact Hok|]. apply frame_out_spec; assumption.
Qed.

Lemma relay_chain_forward hops : forall t sid p,
  u_ok 1 t -> u_ok 4 sid -> zlen p <= 65519 ->
  Forall (hop_live (finishesCall t (frame_flags p))) hops ->
  relay_chain hops (s_frame t sid p) = Some (s_frame t (final_id sid hops) p) /\ u_ok 4 (final_id sid hops).
Proof.
  induction hops as [|hp hops IH]; intros t sid p Ht Hs Hp Hl.
  - cbn. auto.
  - inversion Hl as [|? ? L1 L2]; subst. cbn [relay_chain].
    rewrite <- (app_nil_r (s_frame t sid p)). rewrite frame_read_in_spec by assumption.
    cbn [Z.eqb negb]. rewrite (relay_hop_forward hp t sid p Ht Hp L1).
    assert (U : u_ok 4 (hop_remap hp sid)).
    { unfold hop_remap. destruct L1 as [Hi _]. destruct (hp_in hp); try contradiction. apply Hi. }
    destruct (IH t (hop_remap hp sid) p Ht U Hp L2) as [E F]. split; [exact E|exact F].
Qed.

Lemma relay_chain_transparent hops : forall t sid p w,
  u_ok 1 t -> u_ok 4 sid -> zlen p <= 65519 -> Forall hop_ids_ok hops ->
  relay_chain hops (s_frame t sid p) = Some w -> exists cid, u_ok 4 cid /\ w = s_frame t cid p.
Proof.
  induction hops as [|hp hops IH]; intros t sid p w Ht Hs Hp Hok H.
  - cbn in H. inversion H. exists sid. auto.
  - inversion Hok as [|? ? O1 O2]; subst. cbn [relay_chain] in H.
    rewrite <- (app_nil_r (s_frame t sid p)) in H. rewrite frame_read_in_spec in H by assumption.
    cbn [Z.eqb negb] in H.
    destruct (relay_hop hp (mkFH (16 + zlen p) t 0 sid) p) as [w1| |] eqn:R; try discriminate.
    destruct (relay_hop_transparent hp t sid p w1 Ht Hp O1 R) as [id' [U ->]].
    exact (IH t id' p w Ht U Hp O2 H).
Qed.

(* ---------------------------------------------------------------- end to end: system errors *)
Definition active_conn (c : conn) : Prop := cn_state c = c_connectionActive /\ 0 < cn_room c.

(* error frames finish a call *)
Lemma finishes_error p : finishesCall 255 (frame_flags p) = true.
Proof. reflexivity. Qed.

Theorem syserr_roundtrip c sid sp e m hops :
  sys_message e = Some m -> code_ok (sys_code e) -> span_ok sp -> msg_ok m -> u_ok 4 sid ->
  active_conn c -> Forall (hop_live true) hops ->
  (zlen m <= max_error_msg ->
     exists wire wire',
       send_system_error c sid sp e = Sent wire /\
       wire = s_frame 255 sid (s_error (sys_code e) (spec_span sp) m) /\
       relay_chain hops wire = Some wire' /\
       caller_receive false (final_id sid hops) waiting wire' = (CErr (ESys (sys_code e) m), sys_code e =? 255)) /\
  (max_error_msg < zlen m -> send_system_error c sid sp e = NotSent 1).
Proof.
  intros Hm Hc Hs Hb Hid [Hst Hroom] Hl. split.
  - intros Hlen.
    assert (Hp : zlen (s_error (sys_code e) (spec_span sp) m) <= 65519).
    { rewrite zlen_s_error, zlen_spec_span. unfold max_error_msg, c_MaxFramePayloadSize in Hlen. lia. }
    assert (Ht : u_ok 1 255) by (apply u_ok_1; lia).
    destruct (relay_chain_forward hops 255 sid _ Ht Hid Hp) as [E U].
    { rewrite finishes_error. exact Hl. }
    eexists. eexists. split; [|split; [reflexivity|split; [exact E|]]].
    + apply (send_ok c sid sp e m); auto. rewrite Hst. unfold c_connectionActive, c_connectionClosed. lia.
    + rewrite <- (app_nil_r (s_frame 255 _ _)). apply caller_receive_error; auto.
  - intros Hlen. apply (send_too_long c sid sp e m); auto.
Qed.

Lemma syserr_roundtrip_sys c sid sp code msg hops :
  code_ok code -> span_ok sp -> msg_ok msg -> u_ok 4 sid -> active_conn c -> Forall (hop_live true) hops ->
  (zlen msg <= c_MaxFramePayloadSize - 28 ->
     exists wire wire',
       send_system_error c sid sp (ESys code msg) = Sent wire /\
       wire = s_frame 255 sid (s_error code (spec_span sp) msg) /\
       relay_chain hops wire = Some wire' /\
       caller_receive false (final_id sid hops) waiting wire' = (CErr (ESys code msg), code =? 255)) /\
  (c_MaxFramePayloadSize - 28 < zlen msg -> send_system_error c sid sp (ESys code msg) = NotSent 1).
Proof. exact (syserr_roundtrip c sid sp (ESys code msg) msg hops eq_refl). Qed.

(* ---------------------------------------------------------------- call responses *)

Lemma set_application_error_ok st : st <= 1 ->
  set_application_error (mkResp st false) = Some (mkResp st true).
Proof. intros H. unfold set_application_error. cbn [rs_state]. destruct (st >? 1) eqn:E; [lia|reflexivity]. Qed.
Lemma set_application_error_late st app : 1 < st -> set_application_error (mkResp st app) = None.
Proof. intros H. unfold set_application_error. cbn [rs_state]. destruct (st >? 1) eqn:E; [reflexivity|lia]. Qed.

Definition s_callres_fragment (flags code : Z) (hdrs : kvs) (rest : list Z) : list Z :=
  [flags] ++ s_callres code (s_tracing 0 0 0 0) hdrs ++ rest.

Lemma zero_span_ok : span_ok zero_span.
Proof. unfold span_ok, zero_span, u_ok. cbn. repeat split; lia. Qed.

Lemma w_callres_fragment_writes flags rs hdrs rest :
  u_ok 1 flags -> kvs8_ok hdrs ->
  writes (w_callres_fragment flags rs hdrs rest) (s_callres_fragment flags (response_code_of rs) hdrs rest).
Proof.
  intros Hf Hh. unfold w_callres_fragment, s_callres_fragment.
  apply seq_writes; [apply w_u8_writes; exact Hf|].
  apply seq_writes; [|apply w_bytes_writes].
  assert (OK : callres_ok (mkCallRes (response_code_of rs) zero_span hdrs)).
  { unfold callres_ok. cbn [cs_code cs_span cs_headers]. split; [|split; [apply zero_span_ok|exact Hh]].
    unfold response_code_of, c_responseApplicationError, c_responseOK. destruct (rs_app rs); apply u_ok_1; lia. }
  exact (w_callres_writes _ OK).
Qed.

Lemma parse_callres_spec flags code hdrs rest :
  u_ok 1 flags -> callres_ok (mkCallRes code zero_span hdrs) ->
  parse_callres (s_callres_fragment flags code hdrs rest) = Some (flags, mkCallRes code zero_span hdrs, rest).
Proof.
  intros Hf OK. unfold parse_callres, s_callres_fragment.
  destruct (r_u8_consumes flags Hf) as [C1 _]. rewrite C1.
  destruct (r_callres_consumes _ OK) as [C2 _]. unfold spec_callres in C2. cbn [cs_code cs_span cs_headers] in C2.
  change (spec_span zero_span) with (s_tracing 0 0 0 0) in C2. rewrite C2. reflexivity.
Qed.

Lemma caller_receive_callres id flags code hdrs rest tail :
  u_ok 4 id -> u_ok 1 flags -> callres_ok (mkCallRes code zero_span hdrs) ->
  zlen (s_callres_fragment flags code hdrs rest) <= 65519 ->
  caller_receive false id waiting (s_frame 4 id (s_callres_fragment flags code hdrs rest) ++ tail) =
    (CRes code rest, false).
Proof.
  intros Hid Hf OK Hl. unfold caller_receive.
  rewrite frame_read_in_spec; [|apply u_ok_1; lia|exact Hid|exact Hl].
  cbn [Z.eqb negb]. unfold handle_frame. cbn [fh_type fh_id andb].
  change (4 =? c_messageTypeError) with false. change (4 =? c_messageTypeCallRes) with true. cbn [orb].
  unfold waiting. cbn [mx_ctx mx_queue mx_err is_nil andb]. rewrite Z.eqb_refl.
  change (zlen (@nil (fheader * list Z)) <? c_mexChannelBufferSize) with true. cbn [andb app].
  unfold read_response, recv_peer_frame_of_type, recv_peer_frame. cbn [mx_ctx mx_queue is_nil negb fh_id fh_type].
  rewrite Z.eqb_refl. cbn [fh_type]. change (4 =? c_messageTypeCallRes) with true. cbn iota.
  rewrite (parse_callres_spec flags code hdrs rest Hf OK). reflexivity.
Qed.

Theorem apperr_roundtrip sid flags (app : bool) hdrs rest hops :
  u_ok 4 sid -> u_ok 1 flags -> kvs8_ok hdrs ->
  zlen (s_callres_fragment flags (if app then 1 else 0) hdrs rest) <= 65519 ->
  Forall (hop_live (finishesCall 4 flags)) hops ->
  forall rs, (if app then set_application_error (mkResp 0 false) else Some (mkResp 0 false)) = Some rs ->
  exists h p wire',
    callres_frame sid flags rs hdrs rest = Some (h, p) /\
    frame_out h p = s_frame 4 sid (s_callres_fragment flags (if app then 1 else 0) hdrs rest) /\
    relay_chain hops (frame_out h p) = Some wire' /\
    caller_receive false (final_id sid hops) waiting wire' = (CRes (if app then 1 else 0) rest, false) /\
    application_error (if app then 1 else 0) = app /\ spec_app_error (if app then 1 else 0) = app.
Proof.
  intros Hid Hf Hh Hl Hhops rs Hrs.
  assert (Hcode : response_code_of rs = if app then 1 else 0).
  { destruct app; cbn in Hrs; inversion Hrs; reflexivity. }
  pose proof (w_callres_fragment_writes flags rs hdrs rest Hf Hh) as W. rewrite Hcode in W.
  set (body := s_callres_fragment flags (if app then 1 else 0) hdrs rest) in *.
  assert (Ht : u_ok 1 4) by (apply u_ok_1; lia).
  assert (FW : callres_frame sid flags rs hdrs rest = Some (mkFH (16 + zlen body) 4 0 sid, body)).
  { unfold callres_frame. apply frame_write_ok; [exact W| |unfold c_MaxFramePayloadSize; lia].
    unfold c_MaxFramePayloadSize. exact Hl. }
  assert (FO : frame_out (mkFH (16 + zlen body) 4 0 sid) body = s_frame 4 sid body) by (apply frame_out_spec; assumption).
  assert (FF : frame_flags body = flags) by reflexivity.
  destruct (relay_chain_forward hops 4 sid body Ht Hid Hl) as [E U]. { rewrite FF. exact Hhops. }
  exists (mkFH (16 + zlen body) 4 0 sid), body, (s_frame 4 (final_id sid hops) body).
  split; [exact FW|split; [exact FO|split; [rewrite FO; exact E|split]]].
  - rewrite <- (app_nil_r (s_frame 4 _ _)). apply caller_receive_callres; auto.
    unfold callres_ok. cbn [cs_code cs_span cs_headers]. split; [|split; [apply zero_span_ok|exact Hh]].
    destruct app; apply u_ok_1; lia.
  - destruct app; split; reflexivity.
Qed.

(* ---------------------------------------------------------------- local conditions *)
(* a done context wins over anything queued and over the connection's error *)
Lemma read_response_ctx id m :
  (mx_ctx m = ECtxDeadline -> read_response id m = CErr v_ErrTimeout) /\
  (mx_ctx m = ECtxCanceled -> read_response id m = CErr v_ErrRequestCancelled).
Proof.
  split; intros H; unfold read_response, recv_peer_frame_of_type, recv_peer_frame; rewrite H; reflexivity.
Qed.

Lemma read_response_conn_lost id e :
  is_sys e = false -> read_response id (notify waiting e) = CErr (ESys 7 (err_text e)).
Proof.
  intros H. unfold notify, waiting. cbn [mx_ctx mx_queue mx_err is_nil].
  rewrite (log_connection_error_nonsys e H). reflexivity.
Qed.

Lemma read_error_nonsys code h stream : is_sys (read_error code h stream) = false.
Proof.
  unfold read_error. destruct (code =? 1); [reflexivity|].
  destruct ((zlen stream =? 0) || (zlen stream =? c_FrameHeaderSize)); reflexivity.
Qed.

(* the stream ends before / inside a frame: the waiting caller gets a network error *)
Lemma caller_receive_cut id t fid p pre :
  u_ok 1 t -> u_ok 4 fid -> zlen p <= 65519 -> strict_prefix pre (s_frame t fid p) ->
  exists msg, caller_receive false id waiting pre = (CErr (ESys 7 msg), true).
Proof.
  intros Ht Hf Hp Hpre. pose proof (frame_read_in_prefix t fid p pre Ht Hf Hp Hpre) as E.
  unfold caller_receive. destruct (frame_read_in pre) as [[[code h] payload] rest]. cbn [fst] in E. subst code.
  cbn [Z.eqb negb]. eexists. rewrite read_response_conn_lost by apply read_error_nonsys. reflexivity.
Qed.

Lemma closing_peer_declined c id sp :
  cn_state c = c_connectionStartClose \/ cn_state c = c_connectionInboundClosed ->
  0 < cn_room c -> span_ok sp ->
  handle_call_req_state c id sp =
    Rejected (Sent (s_frame 255 id (s_error 4 (spec_span sp) (em_msg (mkErr 4 sp (sys_msg v_ErrChannelClosed)))))).
Proof.
  intros Hst Hroom Hs. unfold handle_call_req_state.
  assert (A : (cn_state c =? c_connectionActive) = false).
  { destruct Hst as [-> | ->]; reflexivity. }
  rewrite A.
  assert (B : ((cn_state c =? c_connectionStartClose) || (cn_state c =? c_connectionInboundClosed) || (cn_state c =? c_connectionClosed)) = true).
  { destruct Hst as [-> | ->]; reflexivity. }
  rewrite B. f_equal.
  rewrite (send_ok c id sp v_ErrChannelClosed (sys_msg v_ErrChannelClosed)); try reflexivity; auto.
  - unfold code_ok. change (sys_code v_ErrChannelClosed) with 4. lia.
  - vm_compute. discriminate.
  - destruct Hst as [-> | ->]; unfold c_connectionStartClose, c_connectionInboundClosed, c_connectionClosed; lia.
Qed.

Lemma closing_peer_closed c id sp : cn_state c = c_connectionClosed -> span_ok sp ->
  handle_call_req_state c id sp = Rejected (NotSent 2).
Proof.
  intros Hst Hs. unfold handle_call_req_state. rewrite Hst. cbn [Z.eqb c_connectionClosed c_connectionActive Pos.eqb orb].
  unfold send_system_error.
  rewrite (error_frame_ok id sp v_ErrChannelClosed (sys_msg v_ErrChannelClosed)); try reflexivity; auto.
  - rewrite Hst. reflexivity.
  - unfold code_ok. change (sys_code v_ErrChannelClosed) with 4. lia.
  - vm_compute. discriminate.
Qed.

(* beginCall: what a caller gets before anything is sent *)
Lemma begin_call_spec :
  (forall st hd ttl ctx,
     st = c_connectionStartClose \/ st = c_connectionInboundClosed \/ st = c_connectionClosed ->
     begin_call st hd ttl ctx = v_ErrConnectionClosed) /\
  (forall ttl ctx, begin_call c_connectionActive false ttl ctx = v_ErrTimeoutRequired) /\
  (forall ctx, begin_call c_connectionActive true true ctx = v_ErrTimeout) /\
  begin_call c_connectionActive true false ECtxDeadline = v_ErrTimeout /\
  begin_call c_connectionActive true false ECtxCanceled = v_ErrRequestCancelled /\
  begin_call c_connectionActive true false ENil = ENil /\
  sys_code v_ErrTimeout = spec_local_code LDeadline /\ sys_code v_ErrRequestCancelled = spec_local_code LCancelled.
Proof.
  split.
  { intros st hd ttl ctx [-> | [-> | ->]]; reflexivity. }
  repeat split.
Qed.

(* protocolError(id, err) for a non-system err: the peer is sent a protocol-error frame with the
   error's text, the connection's exchanges get the same system error *)
Lemma protocol_error_spec c id e :
  is_sys e = false -> msg_ok (err_text e) -> zlen (err_text e) <= max_error_msg ->
  cn_state c <> c_connectionClosed -> 0 < cn_room c ->
  protocol_error c id e =
    (ESys 255 (err_text e), Sent (s_frame 255 id (s_error 255 (spec_span zero_span) (err_text e)))).
Proof.
  intros Hs Hm Hl Hst Hroom. unfold protocol_error. change c_ErrCodeProtocol with 255.
  rewrite (new_wrapped_nonsys 255 e Hs). f_equal.
  apply (send_ok c id zero_span (ESys 255 (err_text e)) (err_text e)); auto.
  - unfold code_ok. rewrite sys_code_sys. lia.
  - apply zero_span_ok.
Qed.

(* ---------------------------------------------------------------- relay-originated errors *)
(* the situation a relay is in when a call req arrives, in the terms of Spec/RelayErrors.v;
   None = no failure (the call is handled locally, forwarded, or is a duplicate id, for which
   the code documents no error frame yet) *)
Definition env_site (env : callreq_env) : option relay_site :=
  if ce_local env then (if ce_fragmented env then Some RSLocalFragmented else None)
  else match ce_start env with
       | ENil =>
           if negb (ce_src_state env =? 1) then Some RSSourceInactive
           else if ce_dup env then None
           else if negb (ce_has_dest env) then Some RSBadHost
           else match ce_connect env with
                | ENil => if negb (ce_remote_state env =? 1) then Some RSRemoteInactive else None
                | ESys c _ => Some (RSConnectSystem c)
                | _ => Some RSConnectOther
                end
       | ESys c _ => if ce_ratelimit env then Some RSStartRateLimit else Some (RSStartSystem c)
       | _ => if ce_ratelimit env then Some RSStartRateLimit else Some RSStartOther
       end.

Theorem relay_callreq_codes env site :
  env_site env = Some site ->
  match relay_handle_callreq env with
  | RRError e close => spec_relay_code site = Some (sys_code e) /\
                       (close = true <-> site = RSStartSystem 255)
  | RRSilent => spec_relay_code site = None
  | _ => False
  end.
Proof.
  unfold env_site, relay_handle_callreq.
  destruct (ce_local env).
  { destruct (ce_fragmented env); intros H; inversion H. cbn. split; [reflexivity|]. split; discriminate. }
  destruct (ce_start env) as [|c m| | | |m n] eqn:S; cbn [is_nil negb is_sys].
  - destruct (ce_src_state env =? 1) eqn:A; cbn [negb].
    2:{ intros H; inversion H. change c_connectionActive with 1. rewrite A. cbn [negb].
        rewrite new_wrapped_nonsys by reflexivity. cbn. split; [reflexivity|]. split; discriminate. }
    change c_connectionActive with 1. rewrite A. cbn [negb].
    destruct (ce_dup env); [discriminate|].
    destruct (ce_has_dest env); cbn [negb].
    2:{ intros H; inversion H. cbn. split; [reflexivity|]. split; discriminate. }
    destruct (ce_connect env) as [|c m| | | |m n] eqn:Cn; cbn [is_nil negb].
    + destruct (ce_remote_state env =? 1) eqn:B; cbn [negb]; [discriminate|].
      intros H; inversion H. rewrite new_wrapped_nonsys by reflexivity. cbn. split; [reflexivity|]. split; discriminate.
    + intros H; inversion H. cbn. split; [reflexivity|]. split; discriminate.
    + intros H; inversion H. cbn. split; [reflexivity|]. split; discriminate.
    + intros H; inversion H. cbn. split; [reflexivity|]. split; discriminate.
    + intros H; inversion H. cbn. split; [reflexivity|]. split; discriminate.
    + intros H; inversion H. cbn. split; [reflexivity|]. split; discriminate.
  - destruct (ce_ratelimit env); intros H; inversion H; [reflexivity|].
    rewrite sys_code_sys. split; [reflexivity|]. change c_ErrCodeProtocol with 255.
    split.
    + intros E. apply Z.eqb_eq in E. subst c. reflexivity.
    + intros E. inversion E. reflexivity.
  - destruct (ce_ratelimit env); intros H; inversion H; [reflexivity|]. cbn. split; [reflexivity|]. split; discriminate.
  - destruct (ce_ratelimit env); intros H; inversion H; [reflexivity|]. cbn. split; [reflexivity|]. split; discriminate.
  - destruct (ce_ratelimit env); intros H; inversion H; [reflexivity|]. cbn. split; [reflexivity|]. split; discriminate.
  - destruct (ce_ratelimit env); intros H; inversion H; [reflexivity|]. cbn. split; [reflexivity|]. split; discriminate.
Qed.

Lemma starts_with_app {A} (a b : list A) : firstn (length a) (a ++ b) = a.
Proof. rewrite firstn_app, Nat.sub_diag, firstn_all. cbn. apply app_nil_r. Qed.

Theorem relay_timer_fail_codes :
  (* timeout: only the originating side, only when it won the race for the item *)
  (forall entombed orig, relay_timeout entombed orig =
     if entombed && orig then RRError v_ErrTimeout false else RRSilent) /\
  spec_relay_code RSTimeout = Some (sys_code v_ErrTimeout) /\
  (* frame not sent: unexpected + the reason text; nothing for a slow caller *)
  (forall reason e, reason <> c_u_relayErrorSourceConnSlow ->
     exists m, relay_fail true true true true reason e = RRError (EOther m 0) false /\
               sys_code (EOther m 0) = 5 /\ firstn (length reason) m = reason) /\
  (forall e, relay_fail true true true true c_u_relayErrorSourceConnSlow e = RRSilent) /\
  (forall found stopped entombed orig reason e,
     found && stopped && entombed && orig = false -> relay_fail found stopped entombed orig reason e = RRSilent) /\
  spec_relay_code RSDestSlow = Some 5 /\ spec_relay_reason RSDestSlow = c_u_relayErrorDestConnSlow /\
  spec_relay_code RSArg2ModifyFailed = Some 5 /\ spec_relay_reason RSArg2ModifyFailed = c_u_relayArg2ModifyFailed /\
  spec_relay_code RSSourceSlow = None.
Proof.
  split; [intros [] []; reflexivity|]. split; [reflexivity|].
  split.
  { intros reason e Hr. unfold relay_fail. cbn [negb].
    destruct (bytes_eqb reason c_u_relayErrorSourceConnSlow) eqn:E.
    - apply bytes_eqb_eq in E. contradiction.
    - eexists. split; [reflexivity|]. split; [reflexivity|]. apply starts_with_app. }
  split; [intros e; reflexivity|].
  split.
  { intros [] [] [] [] reason e H; try discriminate; reflexivity. }
  repeat split.
Qed.

(* a call reaching a closing peer: the declined error travels back to the caller, directly or
   through any number of relays *)
Lemma closing_peer_roundtrip c id sp hops :
  cn_state c = c_connectionStartClose \/ cn_state c = c_connectionInboundClosed ->
  0 < cn_room c -> span_ok sp -> u_ok 4 id -> Forall (hop_live true) hops ->
  exists wire wire' msg,
    handle_call_req_state c id sp = Rejected (Sent wire) /\
    relay_chain hops wire = Some wire' /\
    caller_receive false (final_id id hops) waiting wire' = (CErr (ESys 4 msg), false).
Proof.
  intros Hst Hroom Hs Hid Hl.
  set (M := sys_msg v_ErrChannelClosed).
  assert (HM : msg_ok M) by reflexivity.
  assert (HL : zlen M <= max_error_msg) by (vm_compute; discriminate).
  assert (Hp : zlen (s_error 4 (spec_span sp) M) <= 65519).
  { rewrite zlen_s_error, zlen_spec_span. unfold max_error_msg, c_MaxFramePayloadSize in HL. lia. }
  assert (Ht : u_ok 1 255) by (apply u_ok_1; lia).
  destruct (relay_chain_forward hops 255 id _ Ht Hid Hp) as [E U]. { rewrite finishes_error. exact Hl. }
  exists (s_frame 255 id (s_error 4 (spec_span sp) M)), (s_frame 255 (final_id id hops) (s_error 4 (spec_span sp) M)), M.
  split; [exact (closing_peer_declined c id sp Hst Hroom Hs)|split; [exact E|]].
  rewrite <- (app_nil_r (s_frame 255 _ _)).
  rewrite (caller_receive_error (final_id id hops) 4 sp M []); auto; try reflexivity; unfold code_ok; lia.
Qed.

(* ---------------------------------------------------------------- statements assembled for Props/C20.v *)
Lemma handler_plain_error e : is_sys e = false -> is_nil e = false ->
  sys_code e = 5 /\ sys_message e = Some (err_text e).
Proof. intros H1 H2. split; [exact (sys_code_nonsys e H1 H2)|exact (sys_message_nonsys e H1 H2)]. Qed.

Lemma local_map : forall cond,
  match cond with
  | LDeadline =>   (* whatever is queued or notified: a passed deadline wins *)
      forall id m, mx_ctx m = ECtxDeadline ->
        exists msg, read_response id m = CErr (ESys (spec_local_code cond) msg)
  | LCancelled =>
      forall id m, mx_ctx m = ECtxCanceled ->
        exists msg, read_response id m = CErr (ESys (spec_local_code cond) msg)
  | LConnLost =>   (* any non-system failure of the connection, wrapped with its text *)
      (forall id e, is_sys e = false ->
         read_response id (notify waiting e) = CErr (ESys (spec_local_code cond) (err_text e))) /\
      (forall id t fid p pre, u_ok 1 t -> u_ok 4 fid -> zlen p <= 65519 -> strict_prefix pre (s_frame t fid p) ->
         exists msg, caller_receive false id waiting pre = (CErr (ESys (spec_local_code cond) msg), true))
  | LClosingPeer => (* start-close / inbound-closed; the answer travels back through any relays *)
      forall c id sp hops,
        cn_state c = c_connectionStartClose \/ cn_state c = c_connectionInboundClosed ->
        0 < cn_room c -> span_ok sp -> u_ok 4 id -> Forall (hop_live true) hops ->
        exists wire wire' msg,
          handle_call_req_state c id sp = Rejected (Sent wire) /\
          relay_chain hops wire = Some wire' /\
          caller_receive false (final_id id hops) waiting wire' = (CErr (ESys (spec_local_code cond) msg), false)
  end.
Proof.
  intros [].
  - intros id m H. eexists. exact (proj1 (read_response_ctx id m) H).
  - intros id m H. eexists. exact (proj2 (read_response_ctx id m) H).
  - split; [exact read_response_conn_lost|exact caller_receive_cut].
  - exact closing_peer_roundtrip.
Qed.

Lemma protocol_frames :
  (forall id sp msg junk, error_ok (mkErr 255 sp msg) ->
     handle_error id (s_error 255 (spec_span sp) msg ++ junk) = AClose 2 (ESys 255 msg)) /\
  (forall h payload site e, handle_frame false h payload = AClose site e ->
     fh_type h = c_messageTypeError /\
     ((site = 1 /\ rerr (snd (r_error (rb payload))) = true) \/
      (site = 2 /\ exists m, e = ESys 255 m /\ em_code (fst (r_error (rb payload))) = 255))) /\
  (forall h payload, fh_type h = c_messageTypeError -> handle_frame true h payload = ARelay).
Proof.
  split; [|split; [exact handle_frame_close|exact handle_frame_relay_error]].
  intros id sp msg junk OK. exact (handle_error_spec id 255 sp msg junk OK).
Qed.
