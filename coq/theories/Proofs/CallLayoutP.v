(* The complete payload of an unfragmented call req / call res (property C06, fragment part
   included): the model of reqResWriter (Model/CallWire.v [call_frames]) -- newFragment (flags
   placeholder, message header, checksum type, checksum placeholder), the fragmenting writer of
   Model/Frag.v, and finish/flushFragment as laid out by Model/FragWire.v [enc_frag_payload] --
   emits, for three
   arguments that fit one fragment, exactly ONE frame whose bytes are those of the independent
   encoder Spec/ProtocolCall.v. *)
From Coq Require Import ZArith List Bool Lia ZifyBool.
From Verif Require Import Base.Wrap Base.Bytes Gen.GenConsts Gen.GenFrame Model.TypedBuf Model.Messages
  Model.Crc Model.Frag Model.FragWire Model.CallWire Spec.Protocol Spec.ProtocolCall Spec.FragSpec Spec.FragOk
  Proofs.CodecP Proofs.FrameP Proofs.FragWP Proofs.FragWireP Proofs.CkP Proofs.FragRoundtrip.
Import ListNotations.
Local Open Scope Z_scope.

(* ------------------------------------------------------------------ *)
(* newFragment leaves exactly frag_capacity bytes for chunks             *)
(* ------------------------------------------------------------------ *)

Lemma zlen_repeat {A} (x : A) n : zlen (repeat x n) = Z.of_nat n.
Proof. unfold zlen. rewrite repeat_length. reflexivity. Qed.

Lemma ck_size_range ck : 0 <= ck_size ck <= 4.
Proof. unfold ck_size. destruct (ck_kind ck =? 0); lia. Qed.

Lemma new_fragment_ok body hdr ck :
  writes body hdr -> 0 <= ck_typecode ck < 256 -> 0 <= frag_capacity hdr ck ->
  new_fragment body ck = Some (hdr, frag_capacity hdr ck).
Proof.
  intros [W _] Ht Hc. pose proof (ck_size_range ck) as Hs. pose proof (zlen_nonneg hdr) as Hh.
  unfold frag_capacity, c_MaxFramePayloadSize in Hc.
  unfold new_fragment, c_MaxFramePayloadSize.
  rewrite W; cbn [werr wroom wout]; [|reflexivity|lia].
  destruct (w_u8_writes (ck_typecode ck) Ht) as [W8 _].
  rewrite W8; cbn [werr wroom wout]; [|reflexivity|change (zlen [ck_typecode ck]) with 1; lia].
  change (zlen [ck_typecode ck]) with 1.
  destruct (w_bytes_writes (repeat 0 (Z.to_nat (ck_size ck)))) as [WB _].
  rewrite WB; cbn [werr wroom wout]; [|reflexivity|rewrite zlen_repeat; lia].
  rewrite zlen_repeat. cbn [Z.eqb app skipn]. f_equal. f_equal.
  unfold frag_capacity, c_MaxFramePayloadSize. lia.
Qed.

Lemma new_fragment_cont ck : 0 <= ck_typecode ck < 256 ->
  new_fragment w_nop ck = Some ([], frag_capacity [] ck).
Proof.
  intros Ht. apply new_fragment_ok; [exact w_nop_writes|exact Ht|].
  pose proof (ck_size_range ck). unfold frag_capacity, c_MaxFramePayloadSize. change (zlen (@nil Z)) with 0. lia.
Qed.

(* ------------------------------------------------------------------ *)
(* the writer on three arguments that fit one fragment                  *)
(* ------------------------------------------------------------------ *)

(* The three chunks (2-byte length + data each) fit the fragment, and after arg2 more than a
   chunk header is left.  (With an empty arg3 and an exact fit the Go writer's Close of arg2
   sees BytesRemaining = 2, flushes the fragment and opens a second one: [writer_exact_fit_two].) *)
Definition fits_one (cap : Z) (a1 a2 a3 : list Z) : Prop :=
  (2 + zlen a1) + (2 + zlen a2) + (2 + zlen a3) <= cap /\
  (2 + zlen a1) + (2 + zlen a2) + 2 < cap.

Section Single.
  Variable capf : bool -> Z.

  Lemma begin_first ck last : 2 < capf true ->
    w_begin capf last (Frag.w_init ck) =
    Some (0, mkWst (arg_state last) 0 [] true [[]] (capf true - 2) ck false).
  Proof.
    intros H. unfold w_begin, Frag.w_init. cbn [ws_err ws_state ws_has ws_chunks ws_room ws_out ws_ck ws_done].
    change (0 =? 0) with true. cbn [negb]. change (c_fragmentingWriteStart =? c_fragmentingWriteComplete) with false.
    change (is_writing c_fragmentingWriteStart) with false. change (c_fragmentingWriteStart =? c_fragmentingWriteStart) with true.
    cbv iota beta. change c_chunkHeaderSize with 2.
    replace (capf true <=? 2) with false by lia. reflexivity.
  Qed.

  Lemma begin_next last out chunks room ck done : 2 < room ->
    w_begin capf last (mkWst c_fragmentingWriteWaitingForArgument 0 out true chunks room ck done) =
    Some (0, mkWst (arg_state last) 0 out true (chunks ++ [[]]) (room - 2) ck done).
  Proof.
    intros H. unfold w_begin. cbn [ws_err ws_state ws_has ws_chunks ws_room ws_out ws_ck ws_done].
    change (0 =? 0) with true. cbn [negb].
    change (c_fragmentingWriteWaitingForArgument =? c_fragmentingWriteComplete) with false.
    change (is_writing c_fragmentingWriteWaitingForArgument) with false.
    cbv iota beta. change c_chunkHeaderSize with 2.
    replace (room <=? 2) with false by lia. reflexivity.
  Qed.

  (* a Write that fits the current fragment appends to the open chunk, no flush *)
  Lemma write_fits last out pre room ck done b : zlen b <= room ->
    w_write capf b (mkWst (arg_state last) 0 out true (pre ++ [[]]) room ck done) =
    Some (0, mkWst (arg_state last) 0 out true (pre ++ [b]) (room - zlen b) (ck_add ck b) done).
  Proof.
    intros H. pose proof (zlen_nonneg b) as Hb. unfold w_write.
    cbn [ws_err ws_state]. change (0 =? 0) with true. rewrite arg_state_writing. cbn [negb].
    cbn [w_write_loop ws_room ws_state ws_out ws_chunks ws_ck ws_done].
    replace (Z.min (zlen b) (Z.max room 0)) with (zlen b) by lia.
    rewrite Z.eqb_refl. rewrite firstn_all_z, app_last_snoc. reflexivity.
  Qed.

  Lemma close_keep out chunks room ck done : 2 < room ->
    w_close capf (mkWst (arg_state false) 0 out true chunks room ck done) =
    Some (0, mkWst c_fragmentingWriteWaitingForArgument 0 out true chunks room ck done).
  Proof.
    intros H. unfold w_close. cbn [ws_err ws_state ws_room ws_out ws_chunks ws_ck ws_done arg_state].
    change (0 =? 0) with true. change (is_writing c_fragmentingWriteInArgument) with true.
    change (c_fragmentingWriteInArgument =? c_fragmentingWriteInLastArgument) with false. cbn [negb].
    change c_chunkHeaderSize with 2. replace (room >? 2) with true by lia. reflexivity.
  Qed.

  Lemma close_last out chunks room ck done :
    w_close capf (mkWst (arg_state true) 0 out true chunks room ck done) =
    Some (0, mkWst c_fragmentingWriteComplete 0 (out ++ [mkFrag false (ck_typecode ck) (ck_sum ck) chunks]) false [] 0 ck true).
  Proof. reflexivity. Qed.

  (* the whole script: nine operations, all return nil, one fragment *)
  Lemma writer_single ck a1 a2 a3 : fits_one (capf true) a1 a2 a3 ->
    w_run capf (script3 [IWrite a1] [IWrite a2] [IWrite a3]) (Frag.w_init ck) [] =
    Some ([0;0;0; 0;0;0; 0;0;0],
          mkWst c_fragmentingWriteComplete 0
                [mkFrag false (ck_typecode ck) (ck_sum (ck_add ck (a1 ++ a2 ++ a3))) [a1; a2; a3]]
                false [] 0 (ck_add ck (a1 ++ a2 ++ a3)) true).
  Proof.
    intros [F1 F2]. pose proof (zlen_nonneg a1) as H1. pose proof (zlen_nonneg a2) as H2. pose proof (zlen_nonneg a3) as H3.
    unfold script3, arg_ops. cbn [map item_op app w_run w_step].
    rewrite begin_first by lia. cbn [app].
    rewrite (write_fits false [] []) by lia. cbn [app].
    rewrite close_keep by lia.
    rewrite begin_next by lia. cbn [app].
    rewrite (write_fits false [] [a1]) by lia. cbn [app].
    rewrite close_keep by lia.
    rewrite begin_next by lia. cbn [app].
    rewrite (write_fits true [] [a1; a2]) by lia. cbn [app].
    rewrite close_last. cbn [app].
    rewrite !ck_add_app, !ck_add_typecode. reflexivity.
  Qed.
End Single.

Lemma ops3_script a1 a2 a3 : ops3 a1 a2 a3 = script3 [IWrite a1] [IWrite a2] [IWrite a3].
Proof. reflexivity. Qed.

(* the second clause of [fits_one] is needed: exact fit with an empty arg3 gives two fragments *)
Example writer_exact_fit_two :
  (2 + zlen [7]) + (2 + zlen [8]) + (2 + zlen (@nil Z)) <= 8 /\
  option_map (fun p => map f_chunks (ws_out (snd p)))
    (w_run (fun _ => 8) (script3 [IWrite [7]] [IWrite [8]] [IWrite []]) (Frag.w_init (mkCk 0 0)) [])
  = Some [[[7]; [8]]; [[]; []]].
Proof. split; [vm_compute; discriminate|reflexivity]. Qed.

(* ------------------------------------------------------------------ *)
(* layout of the single fragment = the spec payload                     *)
(* ------------------------------------------------------------------ *)

(* checksum field value the protocol prescribes for the CRC types, from scratch over
   arg1 ++ arg2 ++ arg3 (0 for type none, where the field is absent) *)
Definition csum_value (kind : Z) (data : list Z) : Z :=
  if kind =? 1 then crc32_update poly_ieee 0 data
  else if kind =? 3 then crc32_update poly_castagnoli 0 data
  else 0.

Lemma ck_sum_fresh kind data : kind_ok kind ->
  ck_sum (ck_add (ck_fresh kind) data) = s_csum kind (csum_value kind data).
Proof. intros [-> | [-> | ->]]; reflexivity. Qed.

Lemma single_layout msghdr kind a1 a2 a3 : kind_ok kind ->
  enc_frag_payload msghdr
    (mkFrag false (ck_typecode (ck_fresh kind)) (ck_sum (ck_add (ck_fresh kind) (a1 ++ a2 ++ a3))) [a1; a2; a3])
  = [0] ++ msghdr ++ s_call_args kind (csum_value kind (s_csum_input a1 a2 a3)) a1 a2 a3.
Proof.
  intros Hk. unfold enc_frag_payload, s_call_args, s_csum_input. cbn [f_more f_ctype f_ck f_chunks].
  rewrite (ck_sum_fresh kind _ Hk). unfold enc_chunks. cbn [flat_map]. rewrite app_nil_r.
  unfold s_str2. rewrite <- !app_assoc. reflexivity.
Qed.

(* the frame of a fragment that fits *)
Lemma frag_frame_spec mt id payload : u_ok 1 mt -> zlen payload <= 65519 ->
  frag_frame mt id payload = s_frame mt id payload.
Proof.
  intros Ht Hp. pose proof (zlen_nonneg payload) as H0. unfold frag_frame.
  rewrite SetPayloadSize_ok by lia. apply frame_out_spec; assumption.
Qed.

Lemma zlen_s_frame mt id payload : zlen (s_frame mt id payload) = 16 + zlen payload.
Proof. unfold s_frame. rewrite !zlen_app, !zlen_be. unfold zlen. cbn [length]. lia. Qed.

(* ------------------------------------------------------------------ *)
(* main lemma, for any initial message                                  *)
(* ------------------------------------------------------------------ *)

Lemma call_single mt mtc id body msghdr kind a1 a2 a3 :
  writes body msghdr -> kind_ok kind -> u_ok 1 mt ->
  fits_one (frag_capacity msghdr (ck_fresh kind)) a1 a2 a3 ->
  let payload := [0] ++ msghdr ++ s_call_args kind (csum_value kind (s_csum_input a1 a2 a3)) a1 a2 a3 in
  call_frames mt mtc id body kind (script3 [IWrite a1] [IWrite a2] [IWrite a3]) = Some [s_frame mt id payload] /\
  zlen (s_frame mt id payload) <= 65535.
Proof.
  intros W Hk Ht Hfit payload.
  pose proof (zlen_nonneg a1) as H1. pose proof (zlen_nonneg a2) as H2. pose proof (zlen_nonneg a3) as H3.
  assert (Htc : 0 <= ck_typecode (ck_fresh kind) < 256) by (destruct Hk as [-> | [-> | ->]]; cbn; lia).
  assert (Hcap : 0 <= frag_capacity msghdr (ck_fresh kind)) by (destruct Hfit as [F _]; lia).
  set (f := mkFrag false (ck_typecode (ck_fresh kind)) (ck_sum (ck_add (ck_fresh kind) (a1 ++ a2 ++ a3))) [a1; a2; a3]).
  assert (Epl : enc_frag_payload msghdr f = payload) by (apply single_layout; exact Hk).
  assert (Hlen : c_FrameHeaderSize + zlen (enc_frag_payload msghdr f) <= c_MaxFrameSize).
  { apply (frame_bytes_bound msghdr (ck_fresh kind) f).
    - unfold f. cbn [f_chunks]. unfold chunks_size. cbn [fold_right]. destruct Hfit as [F _]. lia.
    - unfold f. cbn [f_ck]. destruct Hk as [-> | [-> | ->]]; reflexivity. }
  rewrite Epl in Hlen. unfold c_FrameHeaderSize, c_MaxFrameSize in Hlen.
  split; [|rewrite zlen_s_frame; lia].
  unfold call_frames. rewrite (ck_new_kind kind Hk).
  rewrite (new_fragment_ok body msghdr _ W Htc Hcap), (new_fragment_cont _ Htc).
  rewrite writer_single by exact Hfit.
  cbn [forallb Z.eqb andb ws_out map]. fold f. rewrite Epl.
  rewrite frag_frame_spec; [reflexivity|exact Ht|lia].
Qed.

(* ------------------------------------------------------------------ *)
(* call req and call res                                                *)
(* ------------------------------------------------------------------ *)

Theorem callreq_single_layout : forall m ttl_ms kind id a1 a2 a3,
  callreq_ok m ttl_ms -> kind_ok kind ->
  fits_one (frag_capacity (s_callreq ttl_ms (spec_span (cq_span m)) (cq_service m) (cq_headers m)) (ck_fresh kind)) a1 a2 a3 ->
  let payload := s_callreq_full 0 ttl_ms (spec_span (cq_span m)) (cq_service m) (cq_headers m)
                   kind (csum_value kind (s_csum_input a1 a2 a3)) a1 a2 a3 in
  call_frames c_messageTypeCallReq c_messageTypeCallReqContinue id (w_callreq m) kind
              (script3 [IWrite a1] [IWrite a2] [IWrite a3])
    = Some [s_frame t_call_req id payload] /\
  zlen (s_frame t_call_req id payload) <= 65535.
Proof.
  intros m ttl_ms kind id a1 a2 a3 OK Hk Hfit payload.
  assert (Ht : u_ok 1 c_messageTypeCallReq) by (apply u_ok_1; cbv; split; congruence).
  destruct (call_single c_messageTypeCallReq c_messageTypeCallReqContinue id (w_callreq m) _ kind a1 a2 a3
              (w_callreq_writes m ttl_ms OK) Hk Ht Hfit) as [A B].
  assert (E : payload = [0] ++ spec_callreq m ttl_ms ++ s_call_args kind (csum_value kind (s_csum_input a1 a2 a3)) a1 a2 a3).
  { unfold payload, s_callreq_full, spec_callreq, s_callreq. rewrite <- !app_assoc. reflexivity. }
  rewrite E. split; [exact A|exact B].
Qed.

Theorem callres_single_layout : forall m kind id a1 a2 a3,
  callres_ok m -> kind_ok kind ->
  fits_one (frag_capacity (s_callres (cs_code m) (spec_span (cs_span m)) (cs_headers m)) (ck_fresh kind)) a1 a2 a3 ->
  let payload := s_callres_full 0 (cs_code m) (spec_span (cs_span m)) (cs_headers m)
                   kind (csum_value kind (s_csum_input a1 a2 a3)) a1 a2 a3 in
  call_frames c_messageTypeCallRes c_messageTypeCallResContinue id (w_callres m) kind
              (script3 [IWrite a1] [IWrite a2] [IWrite a3])
    = Some [s_frame t_call_res id payload] /\
  zlen (s_frame t_call_res id payload) <= 65535.
Proof.
  intros m kind id a1 a2 a3 OK Hk Hfit payload.
  assert (Ht : u_ok 1 c_messageTypeCallRes) by (apply u_ok_1; cbv; split; congruence).
  destruct (call_single c_messageTypeCallRes c_messageTypeCallResContinue id (w_callres m) _ kind a1 a2 a3
              (w_callres_writes m OK) Hk Ht Hfit) as [A B].
  assert (E : payload = [0] ++ spec_callres m ++ s_call_args kind (csum_value kind (s_csum_input a1 a2 a3)) a1 a2 a3).
  { unfold payload, s_callres_full, spec_callres, s_callres. rewrite <- !app_assoc. reflexivity. }
  rewrite E. split; [exact A|exact B].
Qed.

Print Assumptions callreq_single_layout.
Print Assumptions callres_single_layout.
