(* POOL DISCIPLINE => EXCLUSIVE OWNERSHIP (property C04), and the correctness of the trace
   checker Model/PoolTrace.v against Spec/PoolTraceSpec.v.

     pool_discipline_exclusive   a disciplined trace (the pool hands out what it contains or a new
                                 object; every Put is matched by an open Get of that object by
                                 that holder) is exclusive after every prefix: no object is held
                                 twice, none is in the pool twice, none of the pool is held
     pool_discipline_no_sharing  ... so two holdings of one object are one holding
     double_put_shares           necessity of the users' half: after one unmatched Put the pool
                                 may, within its rights, hand the object to two holders
     pt_ok_iff_disciplined       the checker accepts exactly the disciplined traces
     pt_run_offence              the checker's (index, offence) names the first event that breaks
                                 the discipline, and says how
     run_pooltrace_accepts       an accepted harness trace is disciplined and exclusive after
                                 every prefix *)
From Coq Require Import ZArith List Bool Lia Permutation.
From Verif Require Import Base.Wrap Base.Wire Spec.PoolTraceSpec Model.PoolTrace.
Import ListNotations.
Local Open Scope Z_scope.

(* ------------------------------------------------------------------ list bookkeeping *)

Lemma pw_pair_eqb_eq : forall a b, pw_pair_eqb a b = true <-> a = b.
Proof.
  intros [a1 a2] [b1 b2]. unfold pw_pair_eqb. cbn [fst snd]. rewrite andb_true_iff, !Z.eqb_eq.
  split; [intros [-> ->]; reflexivity | intros H; inversion H; auto].
Qed.

Lemma pt_memz_in : forall x l, pt_memz x l = true <-> In x l.
Proof.
  intros x l. induction l as [|y r IH]; cbn [pt_memz In].
  - split; [discriminate | tauto].
  - rewrite orb_true_iff, Z.eqb_eq, IH. tauto.
Qed.

Lemma pt_memp_in : forall x l, pt_memp x l = true <-> In x l.
Proof.
  intros x l. induction l as [|y r IH]; cbn [pt_memp In].
  - split; [discriminate | tauto].
  - rewrite orb_true_iff, pw_pair_eqb_eq, IH. tauto.
Qed.

Lemma pw_rm1_perm : forall x l, In x l -> Permutation l (x :: pw_rm1 x l).
Proof.
  intros x l. induction l as [|y r IH]; cbn [pw_rm1 In]; [tauto|].
  intros Hin. destruct (Z.eqb_spec y x) as [->|Hne].
  - apply Permutation_refl.
  - destruct Hin as [Hyx|Hin]; [congruence|].
    eapply Permutation_trans; [apply perm_skip, (IH Hin)|apply perm_swap].
Qed.

Lemma pw_rm1_notin : forall x l, ~ In x l -> pw_rm1 x l = l.
Proof.
  intros x l. induction l as [|y r IH]; cbn [pw_rm1 In]; [reflexivity|].
  intros Hn. destruct (Z.eqb_spec y x) as [->|Hne]; [tauto|]. rewrite IH; tauto.
Qed.

Lemma pw_rm1p_perm : forall x l, In x l -> Permutation l (x :: pw_rm1p x l).
Proof.
  intros x l. induction l as [|y r IH]; cbn [pw_rm1p In]; [tauto|].
  intros Hin. destruct (pw_pair_eqb y x) eqn:E.
  - apply pw_pair_eqb_eq in E. subst y. apply Permutation_refl.
  - destruct Hin as [Hyx|Hin].
    + subst y. assert (pw_pair_eqb x x = true) by (apply pw_pair_eqb_eq; reflexivity). congruence.
    + eapply Permutation_trans; [apply perm_skip, (IH Hin)|apply perm_swap].
Qed.

Lemma nodup_fst_unique : forall (l : list (Z * Z)) o h1 h2,
  NoDup (map fst l) -> In (o, h1) l -> In (o, h2) l -> h1 = h2.
Proof.
  intros l o h1 h2. induction l as [|[a b] r IH]; cbn [map fst In]; [tauto|].
  intros Hnd H1 H2. inversion Hnd as [|? ? Hnot Hnd']; subst.
  destruct H1 as [H1|H1]; destruct H2 as [H2|H2].
  - congruence.
  - inversion H1; subst. exfalso. apply Hnot. apply (in_map fst) in H2. exact H2.
  - inversion H2; subst. exfalso. apply Hnot. apply (in_map fst) in H1. exact H1.
  - apply IH; assumption.
Qed.

Lemma nodup_app_r : forall (l1 l2 : list Z), NoDup (l1 ++ l2) -> NoDup l2.
Proof.
  induction l1 as [|x r IH]; intros l2 H; cbn [app] in H; [exact H|].
  inversion H; subst. apply IH. assumption.
Qed.

Lemma nodup_app_l : forall (l1 l2 : list Z), NoDup (l1 ++ l2) -> NoDup l1.
Proof.
  induction l1 as [|x r IH]; intros l2 H; cbn [app] in H; [constructor|].
  inversion H as [|? ? Hnot Hnd]; subst. constructor.
  - intros Hc. apply Hnot, in_or_app. left. exact Hc.
  - apply (IH l2 Hnd).
Qed.

Lemma nodup_app_disj : forall (l1 l2 : list Z) x, NoDup (l1 ++ l2) -> In x l1 -> In x l2 -> False.
Proof.
  induction l1 as [|y r IH]; intros l2 x H H1 H2; [destruct H1|].
  cbn [app] in H. inversion H as [|? ? Hnot Hnd]; subst. destruct H1 as [->|H1].
  - apply Hnot, in_or_app. right. exact H2.
  - apply (IH l2 x Hnd H1 H2).
Qed.

(* ------------------------------------------------------------------ the invariant *)

Definition pobjs (w : pworld) : list Z := pw_bag w ++ map fst (pw_held w).

Definition pinv (w : pworld) : Prop :=
  NoDup (pobjs w) /\ (forall o, In o (pobjs w) -> In o (pw_seen w)).

Lemma pinv_init : pinv pw_init.
Proof. split; [constructor | intros o []]. Qed.

Lemma pinv_step : forall w e, pinv w -> ev_ok w e -> pinv (pw_step w e).
Proof.
  intros w e [Hnd Hseen] Hok. destruct e as [o h|o h]; cbn [ev_ok] in Hok; unfold pinv, pobjs in *;
    cbn [pw_step pw_bag pw_held pw_seen map fst].
  - (* Get *)
    destruct Hok as [Hin|Hnew].
    + (* from the bag: the objects are permuted *)
      assert (HP : Permutation (pw_bag w ++ map fst (pw_held w))
                               (pw_rm1 o (pw_bag w) ++ o :: map fst (pw_held w))).
      { eapply Permutation_trans; [apply Permutation_app_tail, (pw_rm1_perm o _ Hin)|].
        cbn [app]. apply Permutation_middle. }
      split.
      * eapply Permutation_NoDup; [exact HP|exact Hnd].
      * intros x Hx. apply (Permutation_in _ (Permutation_sym HP)) in Hx.
        right. apply Hseen. exact Hx.
    + (* a new object *)
      assert (Hnotin : ~ In o (pw_bag w ++ map fst (pw_held w))) by (intro Hc; apply Hnew, Hseen, Hc).
      rewrite pw_rm1_notin by (intro Hc; apply Hnotin, in_or_app; left; exact Hc).
      split.
      * apply NoDup_Add with (a := o) (l := pw_bag w ++ map fst (pw_held w)).
        -- apply Add_app.
        -- split; assumption.
      * intros x Hx. apply in_app_or in Hx. destruct Hx as [Hx|[Hx|Hx]].
        -- right. apply Hseen, in_or_app. left. exact Hx.
        -- left. exact Hx.
        -- right. apply Hseen, in_or_app. right. exact Hx.
  - (* Put *)
    unfold put_matched in Hok.
    assert (HP : Permutation (pw_bag w ++ map fst (pw_held w))
                             ((o :: pw_bag w) ++ map fst (pw_rm1p (o, h) (pw_held w)))).
    { cbn [app]. eapply Permutation_trans.
      - apply Permutation_app_head. apply Permutation_map. apply (pw_rm1p_perm (o, h) _ Hok).
      - cbn [map fst]. apply Permutation_sym, Permutation_middle. }
    split.
    + eapply Permutation_NoDup; [exact HP|exact Hnd].
    + intros x Hx. apply (Permutation_in _ (Permutation_sym HP)) in Hx. apply Hseen. exact Hx.
Qed.

(* ------------------------------------------------------------------ disciplined, recursively *)

Fixpoint disc_from (w : pworld) (es : list pev) : Prop :=
  match es with
  | [] => True
  | e :: r => ev_ok w e /\ disc_from (pw_step w e) r
  end.

Lemma disc_from_iff : forall es w,
  disc_from w es <-> (forall pre e post, es = pre ++ e :: post -> ev_ok (pw_run w pre) e).
Proof.
  induction es as [|e r IH]; intros w; cbn [disc_from].
  - split; [intros _ pre e post H; destruct pre; discriminate | tauto].
  - rewrite IH. split.
    + intros [Hok Hr] pre e' post Heq. destruct pre as [|p pre]; cbn [app] in Heq.
      * inversion Heq; subst. exact Hok.
      * inversion Heq; subst. cbn [pw_run fold_left]. apply (Hr pre e' post). reflexivity.
    + intros H. split.
      * apply (H [] e r). reflexivity.
      * intros pre e' post Heq. apply (H (e :: pre) e' post). cbn [app]. rewrite Heq. reflexivity.
Qed.

Lemma disciplined_iff : forall es, disciplined es <-> disc_from pw_init es.
Proof. intros es. unfold disciplined. symmetry. apply disc_from_iff. Qed.

Lemma disc_from_app : forall pre post w, disc_from w (pre ++ post) -> disc_from w pre /\ disc_from (pw_run w pre) post.
Proof.
  induction pre as [|e r IH]; intros post w; cbn [app disc_from pw_run fold_left].
  - tauto.
  - intros [Hok Hr]. destruct (IH post _ Hr) as [H1 H2]. tauto.
Qed.

Lemma disciplined_prefix : forall pre post, disciplined (pre ++ post) -> disciplined pre.
Proof. intros pre post. rewrite !disciplined_iff. intros H. apply (disc_from_app pre post _ H). Qed.

Lemma pinv_run : forall es w, pinv w -> disc_from w es -> pinv (pw_run w es).
Proof.
  induction es as [|e r IH]; intros w Hinv; cbn [disc_from pw_run fold_left]; [tauto|].
  intros [Hok Hr]. apply IH; [apply pinv_step; assumption|exact Hr].
Qed.

(* ------------------------------------------------------------------ the theorem *)

Theorem pool_discipline_exclusive : forall es, disciplined es ->
  forall pre post, es = pre ++ post -> exclusive (pw_run pw_init pre).
Proof.
  intros es Hd pre post ->. apply disciplined_prefix in Hd. apply disciplined_iff in Hd.
  apply (pinv_run pre pw_init pinv_init Hd).
Qed.

Lemma exclusive_no_sharing : forall w, exclusive w -> no_sharing w.
Proof.
  intros w Hex o h1 h2 H1 H2. unfold exclusive in Hex. apply nodup_app_r in Hex.
  eapply nodup_fst_unique; eassumption.
Qed.

Theorem pool_discipline_no_sharing : forall es, disciplined es ->
  forall pre post, es = pre ++ post -> no_sharing (pw_run pw_init pre).
Proof. intros es Hd pre post Heq. apply exclusive_no_sharing. eapply pool_discipline_exclusive; eassumption. Qed.

(* every object the pool could hand out next is in the pool exactly once and held by nobody *)
Theorem pool_discipline_bag : forall es, disciplined es ->
  forall pre post, es = pre ++ post ->
  NoDup (pw_bag (pw_run pw_init pre)) /\
  forall o h, In o (pw_bag (pw_run pw_init pre)) -> ~ In (o, h) (pw_held (pw_run pw_init pre)).
Proof.
  intros es Hd pre post Heq. pose proof (pool_discipline_exclusive es Hd pre post Heq) as Hex.
  unfold exclusive in Hex. split.
  - apply nodup_app_l in Hex. exact Hex.
  - intros o h Hb Hh. apply (in_map fst) in Hh. cbn [fst] in Hh.
    apply (nodup_app_disj _ _ o Hex Hb Hh).
Qed.

(* NECESSITY of the users' half.  One Get, its Put, and the same Put once more: the pool now
   contains the object twice, and handing it to two different holders is within the pool's
   rights -- every Get of the trace is legal -- yet the two holders share the object. *)
Fixpoint legal_from (w : pworld) (es : list pev) : Prop :=
  match es with
  | [] => True
  | e :: r => match e with PGet o _ => get_legal w o | PPut _ _ => True end /\ legal_from (pw_step w e) r
  end.

Lemma legal_from_pool_legal : forall es w, legal_from w es ->
  forall pre o h post, es = pre ++ PGet o h :: post -> get_legal (pw_run w pre) o.
Proof.
  induction es as [|e r IH]; intros w Hl pre o h post Heq.
  - destruct pre; discriminate.
  - cbn [legal_from] in Hl. destruct Hl as [He Hr]. destruct pre as [|p pre]; cbn [app] in Heq.
    + inversion Heq; subst. exact He.
    + inversion Heq; subst. cbn [pw_run fold_left]. apply (IH _ Hr pre o h post). reflexivity.
Qed.

Lemma double_put_world : forall o h h1 h2,
  pw_run pw_init [PGet o h; PPut o h; PPut o h; PGet o h1; PGet o h2] =
  mkPw [] [(o, h2); (o, h1)] [o; o; o].
Proof.
  intros o h h1 h2.
  assert (Hpp : pw_pair_eqb (o, h) (o, h) = true) by (apply pw_pair_eqb_eq; reflexivity).
  cbn [pw_run fold_left pw_step pw_init pw_bag pw_held pw_seen pw_rm1 pw_rm1p].
  rewrite Hpp. cbn [pw_rm1p pw_rm1]. rewrite Z.eqb_refl. cbn [pw_rm1]. rewrite Z.eqb_refl. reflexivity.
Qed.

Theorem double_put_shares : forall o h h1 h2, h1 <> h2 ->
  let es := [PGet o h; PPut o h; PPut o h; PGet o h1; PGet o h2] in
  pool_legal es /\
  ~ disciplined es /\
  In (o, h1) (pw_held (pw_run pw_init es)) /\ In (o, h2) (pw_held (pw_run pw_init es)) /\
  ~ no_sharing (pw_run pw_init es).
Proof.
  intros o h h1 h2 Hne es. subst es.
  assert (Hpp : pw_pair_eqb (o, h) (o, h) = true) by (apply pw_pair_eqb_eq; reflexivity).
  rewrite double_put_world. cbn [pw_held].
  split; [|split; [|split; [|split]]].
  - unfold pool_legal. apply legal_from_pool_legal.
    cbn [legal_from pw_step pw_init pw_bag pw_held pw_seen pw_rm1 pw_rm1p]. rewrite Hpp.
    cbn [pw_rm1p pw_rm1]. rewrite Z.eqb_refl. unfold get_legal. cbn [pw_bag pw_seen In]. tauto.
  - intros Hd. specialize (Hd [PGet o h; PPut o h] (PPut o h) [PGet o h1; PGet o h2] eq_refl).
    cbn [pw_run fold_left pw_step pw_init pw_bag pw_held pw_seen pw_rm1p ev_ok put_matched] in Hd.
    rewrite Hpp in Hd. destruct Hd.
  - cbn [In]. auto.
  - cbn [In]. auto.
  - intros Hns. apply Hne. apply (Hns o h1 h2); cbn [pw_held In]; auto.
Qed.

(* ------------------------------------------------------------------ the checker *)

Lemma pt_step_sound : forall w e w', pt_step w e = inl w' -> ev_ok w e /\ w' = pw_step w e.
Proof.
  intros w e w'. destruct e as [o h|o h]; cbn [pt_step ev_ok].
  - destruct (pt_memz o (map fst (pw_held w))); [discriminate|].
    destruct (pt_memz o (pw_bag w)) eqn:Eb.
    + intros H; inversion H. split; [left; apply pt_memz_in; exact Eb|reflexivity].
    + destruct (pt_memz o (pw_seen w)) eqn:Es; [discriminate|].
      intros H; inversion H. split; [|reflexivity]. right. intros Hc. apply pt_memz_in in Hc. congruence.
  - destruct (pt_memp (o, h) (pw_held w)) eqn:Eh.
    + intros H; inversion H. split; [apply pt_memp_in; exact Eh|reflexivity].
    + destruct (pt_memz o (map fst (pw_held w))); discriminate.
Qed.

Lemma pt_step_complete : forall w e, pinv w -> ev_ok w e -> pt_step w e = inl (pw_step w e).
Proof.
  intros w e [Hnd Hseen] Hok. destruct e as [o h|o h]; cbn [pt_step ev_ok] in *.
  - assert (Hnh : In o (pw_bag w) \/ ~ In o (pw_seen w) -> ~ In o (map fst (pw_held w))).
    { intros [Hb|Hn] Hh.
      - unfold pobjs in Hnd. apply (nodup_app_disj _ _ o Hnd Hb Hh).
      - apply Hn, Hseen. unfold pobjs. apply in_or_app. right. exact Hh. }
    destruct (pt_memz o (map fst (pw_held w))) eqn:Eh.
    { exfalso. apply (Hnh Hok). apply pt_memz_in. exact Eh. }
    destruct Hok as [Hb|Hn].
    + apply pt_memz_in in Hb. rewrite Hb. reflexivity.
    + destruct (pt_memz o (pw_bag w)) eqn:Eb; [reflexivity|].
      destruct (pt_memz o (pw_seen w)) eqn:Es; [|reflexivity].
      exfalso. apply Hn. apply pt_memz_in. exact Es.
  - unfold put_matched in Hok. apply pt_memp_in in Hok. rewrite Hok. reflexivity.
Qed.

Lemma pt_run_sound : forall es w i w', pt_run w i es = inl w' -> disc_from w es /\ w' = pw_run w es.
Proof.
  induction es as [|e r IH]; intros w i w'; cbn [pt_run disc_from pw_run fold_left].
  - intros H; inversion H. tauto.
  - destruct (pt_step w e) as [w1|c] eqn:E; [|discriminate].
    apply pt_step_sound in E. destruct E as [Hok ->]. intros H. apply IH in H. tauto.
Qed.

Lemma pt_run_complete : forall es w i, pinv w -> disc_from w es -> pt_run w i es = inl (pw_run w es).
Proof.
  induction es as [|e r IH]; intros w i Hinv; cbn [pt_run disc_from pw_run fold_left]; [reflexivity|].
  intros [Hok Hr]. rewrite (pt_step_complete w e Hinv Hok). apply IH; [apply pinv_step; assumption|exact Hr].
Qed.

Theorem pt_ok_iff_disciplined : forall es, pt_ok es = true <-> disciplined es.
Proof.
  intros es. rewrite disciplined_iff. unfold pt_ok. split.
  - destruct (pt_run pw_init 0 es) as [w|p] eqn:E; [|discriminate]. intros _.
    apply (pt_run_sound es pw_init 0 w E).
  - intros Hd. rewrite (pt_run_complete es pw_init 0 pinv_init Hd). reflexivity.
Qed.

(* what an offence says *)
Definition offence_means (w : pworld) (e : pev) (c : Z) : Prop :=
  match e with
  | PGet o h =>
      (c = 3 /\ exists h', In (o, h') (pw_held w)) \/
      (c = 4 /\ ~ In o (pw_bag w) /\ In o (pw_seen w) /\ forall h', ~ In (o, h') (pw_held w))
  | PPut o h =>
      (c = 1 /\ forall h', ~ In (o, h') (pw_held w)) \/
      (c = 2 /\ ~ In (o, h) (pw_held w) /\ exists h', In (o, h') (pw_held w))
  end.

Lemma in_map_fst_iff : forall (l : list (Z * Z)) o, In o (map fst l) <-> exists h, In (o, h) l.
Proof.
  intros l o. rewrite in_map_iff. split.
  - intros [[a b] [Hf Hin]]. cbn [fst] in Hf. subst a. exists b. exact Hin.
  - intros [h Hin]. exists (o, h). split; [reflexivity|exact Hin].
Qed.

Lemma pt_step_offence : forall w e c, pinv w -> pt_step w e = inr c -> offence_means w e c /\ ~ ev_ok w e.
Proof.
  intros w e c [Hnd Hseen] H. destruct e as [o h|o h]; cbn [pt_step offence_means ev_ok] in *.
  - destruct (pt_memz o (map fst (pw_held w))) eqn:Eh.
    + inversion H; subst c. apply pt_memz_in in Eh. pose proof Eh as Eh'. apply in_map_fst_iff in Eh'. split.
      * left. split; [reflexivity|exact Eh'].
      * intros [Hb|Hn].
        -- unfold pobjs in Hnd. apply (nodup_app_disj _ _ o Hnd Hb Eh).
        -- apply Hn, Hseen. unfold pobjs. apply in_or_app. right. exact Eh.
    + destruct (pt_memz o (pw_bag w)) eqn:Eb; [discriminate|].
      destruct (pt_memz o (pw_seen w)) eqn:Es; [|discriminate]. inversion H; subst c.
      assert (Hnb : ~ In o (pw_bag w)) by (intro Hc; apply pt_memz_in in Hc; congruence).
      apply pt_memz_in in Es. split.
      * right. split; [reflexivity|]. split; [exact Hnb|]. split; [exact Es|].
        intros h' Hc. assert (In o (map fst (pw_held w))) by (apply in_map_fst_iff; eauto).
        apply pt_memz_in in H0. congruence.
      * intros [Hb|Hn]; tauto.
  - destruct (pt_memp (o, h) (pw_held w)) eqn:Ep; [discriminate|].
    assert (Hnp : ~ In (o, h) (pw_held w)) by (intro Hc; apply pt_memp_in in Hc; congruence).
    destruct (pt_memz o (map fst (pw_held w))) eqn:Eh; inversion H; subst c.
    + apply pt_memz_in, in_map_fst_iff in Eh. split; [right; tauto|exact Hnp].
    + split; [|exact Hnp]. left. split; [reflexivity|]. intros h' Hc.
      assert (In o (map fst (pw_held w))) by (apply in_map_fst_iff; eauto).
      apply pt_memz_in in H0. congruence.
Qed.

Theorem pt_run_offence : forall es w i j c, pinv w -> pt_run w i es = inr (j, c) ->
  exists pre e post, es = pre ++ e :: post /\ j = i + zlen pre /\ disc_from w pre /\
    offence_means (pw_run w pre) e c /\ ~ ev_ok (pw_run w pre) e.
Proof.
  induction es as [|e r IH]; intros w i j c Hinv; cbn [pt_run]; [discriminate|].
  destruct (pt_step w e) as [w1|c1] eqn:E.
  - apply pt_step_sound in E. destruct E as [Hok ->]. intros H.
    apply IH in H; [|apply pinv_step; assumption].
    destruct H as (pre & e' & post & Heq & Hj & Hd & Hm & Hn).
    exists (e :: pre), e', post. split; [cbn [app]; rewrite Heq; reflexivity|].
    split; [unfold zlen in *; cbn [length]; lia|]. split; [cbn [disc_from]; tauto|].
    cbn [pw_run fold_left]. tauto.
  - intros H. inversion H; subst j c1. apply (pt_step_offence w e c Hinv) in E.
    exists [], e, r. split; [reflexivity|]. split; [unfold zlen; cbn [length]; lia|].
    split; [exact I|]. cbn [pw_run fold_left]. exact E.
Qed.

(* ------------------------------------------------------------------ the harness entry point *)

Theorem run_pooltrace_accepts : forall n r out, run_pooltrace (n :: r) = 1 :: out ->
  exists es, pt_decode (Z.to_nat n) r = Some es /\ disciplined es /\
    forall pre post, es = pre ++ post ->
      exclusive (pw_run pw_init pre) /\ no_sharing (pw_run pw_init pre).
Proof.
  intros n r out. unfold run_pooltrace. destruct (n <? 0); [discriminate|].
  destruct (pt_decode (Z.to_nat n) r) as [es|]; [|discriminate].
  destruct (pt_run pw_init 0 es) as [w|[i c]] eqn:E; [|discriminate]. intros _.
  exists es. split; [reflexivity|].
  assert (Hd : disciplined es).
  { apply pt_ok_iff_disciplined. unfold pt_ok. rewrite E. reflexivity. }
  split; [exact Hd|]. intros pre post Heq. split.
  - eapply pool_discipline_exclusive; eassumption.
  - eapply pool_discipline_no_sharing; eassumption.
Qed.

Theorem run_pooltrace_rejects : forall n r i c, run_pooltrace (n :: r) = [0; i; c] ->
  exists es pre e post, pt_decode (Z.to_nat n) r = Some es /\ es = pre ++ e :: post /\ i = zlen pre /\
    disciplined pre /\ offence_means (pw_run pw_init pre) e c /\ ~ disciplined es.
Proof.
  intros n r i c. unfold run_pooltrace. destruct (n <? 0); [discriminate|].
  destruct (pt_decode (Z.to_nat n) r) as [es|]; [|discriminate].
  destruct (pt_run pw_init 0 es) as [w|[j c']] eqn:E; [discriminate|]. intros H. inversion H; subst j c'.
  destruct (pt_run_offence es pw_init 0 i c pinv_init E) as (pre & e & post & Heq & Hi & Hd & Hm & Hn).
  exists es, pre, e, post. split; [reflexivity|]. split; [exact Heq|]. split; [lia|].
  split; [apply disciplined_iff; exact Hd|]. split; [exact Hm|].
  intros Hdisc. apply Hn. apply (Hdisc pre e post Heq).
Qed.

(* non-vacuity: a trace with overlapping holders that the checker accepts, and the double Put *)
Example pooltrace_example_ok :
  run_pooltrace [6; 0; 7; 1;  0; 8; 2;  1; 7; 1;  0; 7; 3;  1; 8; 2;  1; 7; 3] = [1; 6; 0; 2].
Proof. vm_compute. reflexivity. Qed.

Example pooltrace_example_double_put :
  run_pooltrace [5; 0; 7; 1;  1; 7; 1;  1; 7; 1;  0; 7; 2;  0; 7; 3] = [0; 2; 1].
Proof. vm_compute. reflexivity. Qed.
