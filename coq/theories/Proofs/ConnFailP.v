(* Proofs about Model/ConnFail.v (property C14, clause d: a connection failure of ANY kind ends
   the context of every handler running on that connection and every wait of the calls made
   over it) and the tie to the source: Gen/GenCtxFlow.stop_sites / notify_sites / watch_sites. *)
From Coq Require Import ZArith List Bool Lia ZifyBool.
From Verif Require Import Base.Wrap Base.Wire Gen.GenCtxFlow Spec.CtxFlowSpec Model.ConnFail.
Import ListNotations.
Local Open Scope Z_scope.

(* ------------------------------------------------------------------ the tie to the source *)

(* one row of stop_sites as a stop statement of the model: the receiver names the set, the
   guard is the shared once-only CAS or nothing; anything else (a stop under some other
   condition, on some other set) has no counterpart in the model *)
Definition stmt_of_row (r : list Z * list Z * list Z * list Z) : option stop_stmt :=
  let '(_, rx, _, g) := r in
  let set := if lz_eqb rx rx_inbound then Some XIn else if lz_eqb rx rx_outbound then Some XOut else None in
  let cas := if lz_eqb g cas_guard then Some true else if lz_eqb g [] then Some false else None in
  match set, cas with
  | Some x, Some c => Some (mkStop c x)
  | _, _ => None
  end.

Definition row_fn (r : list Z * list Z * list Z * list Z) : list Z := let '(f, _, _, _) := r in f.

(* the stop program of function [fn]: its rows in source order *)
Definition prog_of (fn : list Z) (rows : list (list Z * list Z * list Z * list Z)) : list (option stop_stmt) :=
  map stmt_of_row (filter (fun r => lz_eqb (row_fn r) fn) rows).

(* connectionError and protocolError are the only callers of stopExchanges, and their stop
   statements are the programs of the model *)
Lemma stop_programs_generated :
  prog_of fn_connection_error stop_sites = map Some ce_prog /\
  prog_of fn_protocol_error stop_sites = map Some pe_prog /\
  forallb (fun r => lz_eqb (row_fn r) fn_connection_error || lz_eqb (row_fn r) fn_protocol_error) stop_sites = true.
Proof.
  first [ vm_compute; repeat split; reflexivity
        | fail 1 "the stopExchanges statements regenerated from the source (Gen/GenCtxFlow.stop_sites) are not the stop programs of Model/ConnFail.v: Connection.connectionError and Connection.protocolError must each stop the OUTBOUND and the INBOUND exchange set under the shared once-only guard c.stoppedExchanges.CAS(false, true), and nothing else may call stopExchanges" ].
Qed.

Lemma notify_statements_generated : notify_sites = model_notify_sites.
Proof.
  first [ vm_compute; reflexivity
        | fail 1 "messageExchangeSet.stopExchanges (mex.go) changed: its calls / assignments / returns with their guards (Gen/GenCtxFlow.notify_sites) differ from Spec/CtxFlowSpec.model_notify_sites (latch shutdown under the lock, return early when already shut down, notify every copied exchange once)" ].
Qed.

Lemma watcher_statements_generated : watch_sites = model_watch_sites.
Proof.
  first [ vm_compute; reflexivity
        | fail 1 "the goroutine Connection.dispatchInbound starts for a dispatched call changed: the calls in its select clauses (Gen/GenCtxFlow.watch_sites) differ from Spec/CtxFlowSpec.model_watch_sites (ctx.Done: inboundExpired; errCh: response.cancel() then inboundExpired)" ].
Qed.

(* ------------------------------------------------------------------ invariants *)

Definition has_set (x : xset) (p : prog) : bool := existsb (fun st => xset_eqb (ss_set st) x) p.
(* a stop program is complete when it stops both sets (under the CAS or not) *)
Definition prog_ok (p : prog) : Prop := has_set XIn p = true /\ has_set XOut p = true.

Lemma ce_prog_ok : prog_ok ce_prog. Proof. split; reflexivity. Qed.
Lemma pe_prog_ok : prog_ok pe_prog. Proof. split; reflexivity. Qed.

Definition notified_all (l : list exch) : Prop := Forall (fun e => x_notified e = true) l.
Definition cnt_ok (e : exch) : Prop := x_notifies e = if x_notified e then 1 else 0.

(* everything except the link between the failure flags and the shut-down sets *)
Definition base (s : cst) : Prop :=
  (in_shut s = true -> notified_all (inb s)) /\
  (out_shut s = true -> notified_all (outb s)) /\
  in_stops s = (if in_shut s then 1 else 0) /\
  out_stops s = (if out_shut s then 1 else 0) /\
  Forall cnt_ok (inb s) /\ Forall cnt_ok (outb s) /\
  Forall (fun p => snd p <> 0) (gone s) /\
  (failed s = true -> active s = false).

(* the link: once the shared flag is set, or a failure ran, BOTH sets are shut down *)
Definition linked (s : cst) : Prop :=
  (stopped s = true -> in_shut s = true /\ out_shut s = true) /\
  (failed s = true -> in_shut s = true /\ out_shut s = true).

Lemma notify_notified e : x_notified (notify e) = true.
Proof. unfold notify. destruct (x_notified e) eqn:N; [exact N|reflexivity]. Qed.
Lemma notify_cnt e : cnt_ok e -> cnt_ok (notify e).
Proof. unfold notify, cnt_ok. destruct (x_notified e) eqn:N; cbn; intros H; [rewrite N; exact H|lia]. Qed.
Lemma notify_id e : x_id (notify e) = x_id e.
Proof. unfold notify. destruct (x_notified e); reflexivity. Qed.
Lemma notify_ctx e : x_ctx (notify e) = x_ctx e.
Proof. unfold notify. destruct (x_notified e); reflexivity. Qed.

Lemma map_notify_all l : notified_all (map notify l).
Proof. induction l; constructor; [apply notify_notified|assumption]. Qed.
Lemma map_notify_cnt l : Forall cnt_ok l -> Forall cnt_ok (map notify l).
Proof. induction 1; constructor; [apply notify_cnt; assumption|assumption]. Qed.

Lemma stop_set_base x s : base s -> base (stop_set x s).
Proof.
  intros B. pose proof B as [B1 [B2 [B3 [B4 [B5 [B6 [B7 B8]]]]]]]. destruct x; unfold stop_set.
  - destruct (in_shut s) eqn:I; [exact B|].
    unfold base; cbn.
    repeat split; auto; try lia; [intros _; apply map_notify_all|apply map_notify_cnt; exact B5].
  - destruct (out_shut s) eqn:O; [exact B|].
    unfold base; cbn.
    repeat split; auto; try lia; [intros _; apply map_notify_all|apply map_notify_cnt; exact B6].
Qed.

Lemma stop_set_flags x s :
  active (stop_set x s) = active s /\ failed (stop_set x s) = failed s /\ stopped (stop_set x s) = stopped s /\
  (in_shut s = true -> in_shut (stop_set x s) = true) /\ (out_shut s = true -> out_shut (stop_set x s) = true) /\
  in_shut (stop_set XIn s) = true /\ out_shut (stop_set XOut s) = true.
Proof.
  destruct x; unfold stop_set; destruct (in_shut s) eqn:I; destruct (out_shut s) eqn:O; cbn; rewrite ?I, ?O; repeat split; auto.
Qed.

Definition exec (won : bool) (acc : cst) (st : stop_stmt) : cst :=
  if ss_cas st then (if won then stop_set (ss_set st) acc else acc) else stop_set (ss_set st) acc.

Lemma exec_base won acc st : base acc -> base (exec won acc st).
Proof. intros B. unfold exec. destruct (ss_cas st); [destruct won|]; auto using stop_set_base. Qed.

Lemma exec_flags won acc st :
  active (exec won acc st) = active acc /\ failed (exec won acc st) = failed acc /\ stopped (exec won acc st) = stopped acc /\
  (in_shut acc = true -> in_shut (exec won acc st) = true) /\ (out_shut acc = true -> out_shut (exec won acc st) = true).
Proof.
  unfold exec. destruct (stop_set_flags (ss_set st) acc) as [A [B [C [D [E _]]]]].
  destruct (ss_cas st); [destruct won|]; repeat split; auto.
Qed.

Lemma fold_exec_base won p : forall s, base s -> base (fold_left (exec won) p s).
Proof. induction p as [|st r IH]; intros s B; cbn [fold_left]; [exact B|]. apply IH, exec_base, B. Qed.

Lemma fold_exec_flags won p : forall s,
  let s' := fold_left (exec won) p s in
  active s' = active s /\ failed s' = failed s /\ stopped s' = stopped s /\
  (in_shut s = true -> in_shut s' = true) /\ (out_shut s = true -> out_shut s' = true).
Proof.
  induction p as [|st r IH]; intros s; cbn [fold_left]; [repeat split; auto|].
  destruct (exec_flags won s st) as [A [B [C [D E]]]].
  destruct (IH (exec won s st)) as [A' [B' [C' [D' E']]]]. cbv zeta in *.
  repeat split; try congruence; auto.
Qed.

(* with the CAS won (or for an unguarded statement) a statement on set x shuts x down *)
Lemma fold_exec_shuts p : forall s x,
  has_set x p = true ->
  match x with XIn => in_shut (fold_left (exec true) p s) = true | XOut => out_shut (fold_left (exec true) p s) = true end.
Proof.
  induction p as [|st r IH]; intros s x H; [discriminate|].
  cbn [has_set existsb] in H. cbn [fold_left].
  destruct (xset_eqb (ss_set st) x) eqn:E.
  - assert (X : ss_set st = x) by (destruct (ss_set st), x; try discriminate; reflexivity).
    destruct (stop_set_flags (ss_set st) s) as [_ [_ [_ [_ [_ [SI SO]]]]]].
    assert (Q : match x with XIn => in_shut (exec true s st) = true | XOut => out_shut (exec true s st) = true end).
    { unfold exec. rewrite X in *. destruct (ss_cas st); destruct x; assumption. }
    destruct (fold_exec_flags true r (exec true s st)) as [_ [_ [_ [D E']]]]. cbv zeta in *.
    destruct x; auto.
  - cbn [orb] in H. apply IH. exact H.
Qed.

Lemma fold_exec_keeps won p : forall s,
  gone (fold_left (exec won) p s) = gone s /\ out_res (fold_left (exec won) p s) = out_res s /\
  List.length (inb (fold_left (exec won) p s)) = List.length (inb s).
Proof.
  induction p as [|st r IH]; intros s; cbn [fold_left]; [repeat split; reflexivity|].
  destruct (IH (exec won s st)) as [A [B C]]. rewrite A, B, C.
  unfold exec. destruct (ss_cas st); try destruct won; try (repeat split; reflexivity);
    destruct (ss_set st); unfold stop_set; try destruct (in_shut s); try destruct (out_shut s); cbn; rewrite ?map_length; repeat split; reflexivity.
Qed.

Lemma set_failed_base s : base s -> base (set_failed s).
Proof. intros [B1 [B2 [B3 [B4 [B5 [B6 [B7 B8]]]]]]]. unfold base, set_failed; cbn. repeat split; auto. Qed.

Lemma set_stopped_base s : base s -> base (set_stopped s).
Proof. intros [B1 [B2 [B3 [B4 [B5 [B6 [B7 B8]]]]]]]. unfold base, set_stopped; cbn. repeat split; auto. Qed.

Lemma run_prog_eq p s :
  run_prog p s = fold_left (exec (negb (stopped s))) p (if existsb ss_cas p then set_stopped s else s).
Proof. reflexivity. Qed.

(* the failure tail: with a complete program both sets are shut down afterwards *)
Lemma run_prog_fail p s :
  prog_ok p -> base s -> (stopped s = true -> in_shut s = true /\ out_shut s = true) ->
  let s' := run_prog p (set_failed s) in
  base s' /\ linked s' /\ failed s' = true /\ active s' = false /\
  gone s' = gone s /\ out_res s' = out_res s.
Proof.
  intros [PI PO] B L. cbv zeta. rewrite run_prog_eq.
  set (s0 := set_failed s).
  assert (B0 : base s0) by (apply set_failed_base, B).
  set (s1 := if existsb ss_cas p then set_stopped s0 else s0).
  assert (B1 : base s1) by (unfold s1; destruct (existsb ss_cas p); [apply set_stopped_base|]; exact B0).
  assert (F1 : failed s1 = true /\ active s1 = false /\ in_shut s1 = in_shut s /\ out_shut s1 = out_shut s /\ gone s1 = gone s /\ out_res s1 = out_res s).
  { unfold s1, s0. destruct (existsb ss_cas p); cbn; repeat split; reflexivity. }
  destruct F1 as [Ff [Fa [Fi [Fo [Fg Fr]]]]].
  assert (S0 : stopped s0 = stopped s) by reflexivity. rewrite S0.
  pose proof (fold_exec_base (negb (stopped s)) p s1 B1) as BB.
  destruct (fold_exec_flags (negb (stopped s)) p s1) as [A' [F' [S' [I' O']]]]. cbv zeta in *.
  assert (SH : in_shut (fold_left (exec (negb (stopped s))) p s1) = true /\ out_shut (fold_left (exec (negb (stopped s))) p s1) = true).
  { destruct (stopped s) eqn:St.
    - destruct (L eq_refl) as [LI LO]. split; [apply I'|apply O']; congruence.
    - cbn [negb]. split; [exact (fold_exec_shuts p s1 XIn PI)|exact (fold_exec_shuts p s1 XOut PO)]. }
  split; [exact BB|]. split; [split; intros _; exact SH|].
  split; [congruence|]. split; [congruence|].
  destruct (fold_exec_keeps (negb (stopped s)) p s1) as [K1 [K2 _]]. split; congruence.
Qed.

(* ---- list helpers ---- *)
Lemma find_in id l e : find id l = Some e -> In e l /\ x_id e = id.
Proof.
  induction l as [|a r IH]; cbn [find]; [discriminate|].
  destruct (x_id a =? id) eqn:E; intros H.
  - inversion H; subst. split; [left; reflexivity|lia].
  - destruct (IH H) as [I X]. split; [right; exact I|exact X].
Qed.

Lemma forall_remove (P : exch -> Prop) id l : Forall P l -> Forall P (remove id l).
Proof.
  induction 1 as [|a r Ha Hr IH]; cbn [remove]; [constructor|].
  destruct (x_id a =? id); [exact Hr|constructor; assumption].
Qed.

Lemma forall_update (P : exch -> Prop) id f l : (forall e, P e -> P (f e)) -> Forall P l -> Forall P (update id f l).
Proof.
  intros Hf. induction 1 as [|a r Ha Hr IH]; cbn [update]; [constructor|].
  destruct (x_id a =? id); constructor; auto.
Qed.

Lemma forall_snoc {A} (P : A -> Prop) l a : Forall P l -> P a -> Forall P (l ++ [a]).
Proof. intros H Ha. apply Forall_app. split; [exact H|constructor; [exact Ha|constructor]]. Qed.

Section Inv.
Variable ce pe : prog.
Hypothesis CE : prog_ok ce.
Hypothesis PE : prog_ok pe.

Definition inv (s : cst) : Prop := base s /\ linked s.

Lemma inv_init : inv init.
Proof.
  unfold inv, base, linked, init; cbn.
  repeat split; try discriminate; try constructor; auto.
Qed.

Lemma fail_inv p s : prog_ok p -> inv s -> inv (run_prog p (set_failed s)).
Proof.
  intros P [B [L1 L2]]. destruct (run_prog_fail p s P B L1) as [B' [L' _]]. split; assumption.
Qed.

(* changing only the exchange lists / the bookkeeping lists keeps the link *)
Lemma linked_same s s' :
  stopped s' = stopped s -> failed s' = failed s -> in_shut s' = in_shut s -> out_shut s' = out_shut s ->
  linked s -> linked s'.
Proof. intros A B C D [L1 L2]. unfold linked. rewrite A, B, C, D. split; assumption. Qed.

Lemma step_inv s l : inv s -> inv (step ce pe s l).
Proof.
  intros I. pose proof I as [B L]. pose proof B as [B1 [B2 [B3 [B4 [B5 [B6 [B7 B8]]]]]]].
  destruct l as [id|id| | |id|id|id|id]; cbn [step].
  - (* FCallReq *)
    destruct (active s) eqn:A; cbn [negb]; [|exact I].
    destruct (in_shut s) eqn:IS; [apply fail_inv; assumption|].
    destruct (find id (inb s)) as [e|] eqn:F; [apply fail_inv; assumption|].
    split; [|apply (linked_same s); try reflexivity; exact L].
    unfold base, set_inb; cbn. rewrite ?IS, ?A.
    repeat split; auto; try discriminate; try (intros HF; apply B8 in HF; discriminate).
    apply forall_snoc; [exact B5|reflexivity].
  - (* FOutCall *)
    destruct (negb (active s) || out_shut s) eqn:G; [exact I|].
    destruct (find id (outb s)) as [e|] eqn:F; [exact I|].
    assert (OS : out_shut s = false) by (destruct (active s), (out_shut s); try discriminate; reflexivity).
    split; [|apply (linked_same s); try reflexivity; exact L].
    unfold base, set_outb; cbn. rewrite OS in *.
    repeat split; auto; try discriminate.
    apply forall_snoc; [exact B6|reflexivity].
  - apply fail_inv; assumption.
  - apply fail_inv; assumption.
  - (* FWatch *)
    destruct (find id (inb s)) as [e|] eqn:F; [|exact I].
    assert (EX : forall c, c <> 0 -> inv (expire id c s)).
    { intros c Hc. split; [|apply (linked_same s); try reflexivity; exact L].
      unfold base, expire, set_gone, set_inb; cbn.
      repeat split; auto.
      - intros H. apply forall_remove, B1, H.
      - apply forall_remove, B5.
      - apply forall_snoc; [exact B7|exact Hc]. }
    destruct (x_ctx e =? 0) eqn:C; cbn [negb].
    + destruct (x_notified e); [apply EX; lia|exact I].
    + apply EX. lia.
  - (* FDeadline *)
    split; [|apply (linked_same s); try reflexivity; exact L].
    unfold base, set_inb; cbn.
    repeat split; auto.
    + intros H. apply forall_update; [|apply B1, H]. intros e He. destruct (x_ctx e =? 0); [cbn; exact He|exact He].
    + apply forall_update; [|exact B5]. intros e He. unfold cnt_ok in *. destruct (x_ctx e =? 0); [cbn; exact He|exact He].
  - (* FComplete *)
    destruct (find id (inb s)) as [e|] eqn:F; [|exact I].
    split; [|apply (linked_same s); try reflexivity; exact L].
    unfold base, expire, set_gone, set_inb; cbn.
    repeat split; auto.
    + intros H. apply forall_remove, B1, H.
    + apply forall_remove, B5.
    + apply forall_snoc; [exact B7|]. cbn. destruct (x_ctx e =? 0) eqn:C; lia.
  - (* FOutWait *)
    destruct (find id (outb s)) as [e|] eqn:F; [|exact I].
    destruct (x_notified e); [|exact I].
    split; [|apply (linked_same s); try reflexivity; exact L].
    unfold base, set_out_res, set_outb; cbn.
    repeat split; auto.
    + intros H. apply forall_remove, B2, H.
    + apply forall_remove, B6.
Qed.

Lemma fold_inv ls : forall s, inv s -> inv (fold_left (step ce pe) ls s).
Proof. induction ls as [|l r IH]; intros s I; cbn [fold_left]; [exact I|]. apply IH, step_inv, I. Qed.

Lemma run_inv ls : inv (run ce pe ls).
Proof. apply fold_inv, inv_init. Qed.

(* ---- the statements ---- *)

(* after any connection failure both exchange sets are shut down and every registered
   exchange -- every handler still running, every call still waiting -- has been notified *)
Theorem failure_notifies_all ls :
  let s := run ce pe ls in
  failed s = true ->
  active s = false /\ in_shut s = true /\ out_shut s = true /\
  notified_all (inb s) /\ notified_all (outb s).
Proof.
  cbv zeta. intros F. destruct (run_inv ls) as [[B1 [B2 [_ [_ [_ [_ [_ B8]]]]]]] [_ L2]].
  destruct (L2 F) as [I O]. repeat split; auto.
Qed.

(* what counts as a failure: connectionError, protocolError, a call req whose id is still
   active, on a connection that has not failed before *)
Theorem failure_events ls l :
  let s := run ce pe ls in
  l = FConnErr \/ l = FProtoErr \/ (exists id e, l = FCallReq id /\ active s = true /\ find id (inb s) = Some e) ->
  failed (run ce pe (ls ++ [l])) = true.
Proof.
  cbv zeta. intros H. unfold run. rewrite fold_left_app. cbn [fold_left]. fold (run ce pe ls).
  pose proof (run_inv ls) as [B [L1 _]].
  destruct H as [H|[H|[id [e [H [A F]]]]]]; subst l; cbn [step].
  - destruct CE as [c1 c2]. destruct (run_prog_fail ce (run ce pe ls) (conj c1 c2) B L1) as [_ [_ [Ff _]]]. exact Ff.
  - destruct PE as [c1 c2]. destruct (run_prog_fail pe (run ce pe ls) (conj c1 c2) B L1) as [_ [_ [Ff _]]]. exact Ff.
  - rewrite A. cbn [negb].
    destruct PE as [c1 c2]. destruct (run_prog_fail pe (run ce pe ls) (conj c1 c2) B L1) as [_ [_ [Ff _]]].
    destruct (in_shut (run ce pe ls)); [exact Ff|]. rewrite F. exact Ff.
Qed.

(* ... and the goroutine watching a registered handler then cancels its context: the exchange
   leaves the map and the context reports Canceled (or keeps DeadlineExceeded if the deadline
   had passed before) *)
Lemma lookup_last_snoc id g acc c : lookup_last id (g ++ [(id, c)]) acc = Some c.
Proof. revert acc. induction g as [|p r IH]; intros acc; cbn [lookup_last app fst snd]; [rewrite Z.eqb_refl; reflexivity|apply IH]. Qed.

Lemma find_remove_first id l e : find id l = Some e -> (forall e', find id (remove id l) = Some e' -> In e' (remove id l)).
Proof. intros _ e' H. apply find_in in H. tauto. Qed.

Theorem failure_cancels_handler ls id e :
  let s := run ce pe ls in
  failed s = true -> find id (inb s) = Some e ->
  let s' := step ce pe s (FWatch id) in
  inb s' = remove id (inb s) /\
  lookup_last id (gone s') None = Some (if x_ctx e =? 0 then 2 else x_ctx e).
Proof.
  cbv zeta. intros F Hf.
  destruct (failure_notifies_all ls F) as [_ [_ [_ [NI _]]]].
  destruct (find_in _ _ _ Hf) as [Hin _].
  assert (N : x_notified e = true) by (unfold notified_all in NI; rewrite Forall_forall in NI; exact (NI e Hin)).
  cbn [step]. rewrite Hf, N.
  destruct (x_ctx e =? 0) eqn:C; cbn [negb]; unfold expire, set_gone, set_inb; cbn;
    (split; [reflexivity|apply lookup_last_snoc]).
Qed.

(* once every watcher and every blocked caller has run, nothing is left on the connection: no
   handler context is live, no outbound call is waiting *)
Lemma settle_in_empty n : forall s,
  inv s -> in_shut s = true -> (List.length (inb s) <= n)%nat ->
  let s' := settle_in ce pe n s in
  inb s' = [] /\ inv s' /\ failed s' = failed s /\ outb s' = outb s /\ out_shut s' = out_shut s.
Proof.
  induction n as [|k IH]; intros s I IS Len; cbn [settle_in].
  - destruct (inb s) eqn:E; [split; [try exact E; try reflexivity|split; [exact I|repeat split; reflexivity]]|cbn in Len; lia].
  - destruct (inb s) as [|e r] eqn:E; [split; [try exact E; try reflexivity|split; [exact I|repeat split; reflexivity]]|].
    pose proof I as [[B1 _] _].
    assert (N : x_notified e = true).
    { specialize (B1 IS). rewrite E in B1. inversion B1; assumption. }
    assert (ST : step ce pe s (FWatch (x_id e)) = expire (x_id e) (if x_ctx e =? 0 then 2 else x_ctx e) s).
    { cbn [step]. rewrite E. cbn [find]. rewrite Z.eqb_refl, N. destruct (x_ctx e =? 0); reflexivity. }
    pose proof (step_inv s (FWatch (x_id e)) I) as I'. rewrite ST in *.
    destruct (IH (expire (x_id e) (if x_ctx e =? 0 then 2 else x_ctx e) s) I') as [A [B [C [D G]]]].
    + exact IS.
    + unfold expire, set_gone, set_inb; cbn. rewrite E. cbn [remove]. rewrite Z.eqb_refl. cbn in Len. lia.
    + cbv zeta in *. split; [exact A|]. split; [exact B|]. repeat split; assumption.
Qed.

Lemma settle_out_empty n : forall s,
  inv s -> out_shut s = true -> (List.length (outb s) <= n)%nat ->
  let s' := settle_out ce pe n s in
  outb s' = [] /\ inv s' /\ inb s' = inb s /\ gone s' = gone s.
Proof.
  induction n as [|k IH]; intros s I OS Len; cbn [settle_out].
  - destruct (outb s) eqn:E; [split; [try exact E; try reflexivity|split; [exact I|split; reflexivity]]|cbn in Len; lia].
  - destruct (outb s) as [|e r] eqn:E; [split; [try exact E; try reflexivity|split; [exact I|split; reflexivity]]|].
    pose proof I as [[_ [B2 _]] _].
    assert (N : x_notified e = true).
    { specialize (B2 OS). rewrite E in B2. inversion B2; assumption. }
    assert (ST : step ce pe s (FOutWait (x_id e)) = set_out_res (out_res s ++ [(x_id e, 1)]) (set_outb (remove (x_id e) (outb s)) s)).
    { cbn [step]. rewrite E. cbn [find]. rewrite Z.eqb_refl, N. reflexivity. }
    pose proof (step_inv s (FOutWait (x_id e)) I) as I'. rewrite ST in *.
    destruct (IH _ I') as [A [B [C D]]].
    + exact OS.
    + unfold set_out_res, set_outb; cbn. rewrite E. cbn [remove]. rewrite Z.eqb_refl. cbn in Len. lia.
    + cbv zeta in *. split; [exact A|]. split; [exact B|]. split; assumption.
Qed.

Lemma lookup_last_nonzero id g : Forall (fun p : Z * Z => snd p <> 0) g ->
  forall acc, acc <> Some 0 -> lookup_last id g acc <> Some 0.
Proof.
  induction 1 as [|p r Hp Hr IH]; intros acc Ha; cbn [lookup_last]; [exact Ha|].
  apply IH. destruct (fst p =? id); [|exact Ha]. intros X. inversion X. contradiction.
Qed.

Theorem failure_settles ls :
  let s := run ce pe ls in
  failed s = true ->
  inb (settle ce pe s) = [] /\ outb (settle ce pe s) = [] /\
  forall id, hctx_of (settle ce pe s) id <> Some 0.
Proof.
  cbv zeta. intros F. pose proof (run_inv ls) as I.
  destruct (failure_notifies_all ls F) as [_ [IS [OS _]]].
  unfold settle.
  destruct (settle_in_empty (List.length (inb (run ce pe ls))) (run ce pe ls) I IS (le_n _)) as [A [I1 [_ [_ O1]]]].
  cbv zeta in *. set (s1 := settle_in ce pe (List.length (inb (run ce pe ls))) (run ce pe ls)) in *.
  destruct (settle_out_empty (List.length (outb s1)) s1 I1 ltac:(congruence) (le_n _)) as [B [I2 [C D]]].
  cbv zeta in *. split; [congruence|]. split; [exact B|].
  intros id. unfold hctx_of. rewrite C, A. cbn [find].
  destruct I2 as [[_ [_ [_ [_ [_ [_ [G _]]]]]]] _].
  apply lookup_last_nonzero; [exact G|discriminate].
Qed.

(* exactly once: each set is stopped at most once -- exactly once after a failure -- and no
   exchange is notified twice *)
Theorem stops_exactly_once ls :
  let s := run ce pe ls in
  0 <= in_stops s <= 1 /\ 0 <= out_stops s <= 1 /\
  (failed s = true -> in_stops s = 1 /\ out_stops s = 1) /\
  Forall (fun e => 0 <= x_notifies e <= 1) (inb s ++ outb s).
Proof.
  cbv zeta. destruct (run_inv ls) as [[_ [_ [B3 [B4 [B5 [B6 _]]]]]] [_ L2]].
  split; [destruct (in_shut (run ce pe ls)); lia|]. split; [destruct (out_shut (run ce pe ls)); lia|].
  split.
  - intros F. destruct (L2 F) as [I O]. rewrite I in B3. rewrite O in B4. split; assumption.
  - apply Forall_app. split; [eapply Forall_impl; [|exact B5]|eapply Forall_impl; [|exact B6]];
      intros e He; unfold cnt_ok in He; destruct (x_notified e); lia.
Qed.

(* a context that ended stays as it is; a live one changes only through the listed steps *)
End Inv.

(* ------------------------------------------------------------------ necessity *)

(* a protocolError that stops only the outbound set (the shared flag is consumed, so the
   connectionError that follows when the peer closes the socket stops nothing either): the
   handler's context stays live for good *)
Definition pe_outbound_only : prog := [mkStop true XOut].

Lemma inbound_stop_needed :
  let ls := [FCallReq 1; FCallReq 2; FCallReq 1; FConnErr] in
  let s := settle ce_prog pe_outbound_only (run ce_prog pe_outbound_only ls) in
  failed s = true /\ hctx_of s 1 = Some 0 /\ hctx_of s 2 = Some 0.
Proof. vm_compute. repeat split. Qed.

(* ... and the same schedule with the programs of the source *)
Lemma inbound_stop_example :
  let ls := [FCallReq 1; FCallReq 2; FCallReq 1; FConnErr] in
  let s := settle ce_prog pe_prog (run ce_prog pe_prog ls) in
  failed s = true /\ hctx_of s 1 = Some 2 /\ hctx_of s 2 = Some 2 /\
  run_connfail [0; 0; 4; 0; 1; 0; 2; 0; 1; 2] = [2; 1; 2; 2; 2; 0; 0].
Proof. vm_compute. repeat split. Qed.

(* ------------------------------------------------------------------ the harness entry point *)

(* the output of run_connfail after a failure: every dispatched handler is listed with an
   ENDED context (1 or 2, never 0) and no outbound call is left pending *)
Lemma dispatched_registered ce pe : forall ls s id,
  In id (dispatched ce pe s ls) -> exists pre post e, ls = pre ++ FCallReq id :: post /\
    find id (inb (step ce pe (fold_left (step ce pe) pre s) (FCallReq id))) = Some e.
Proof.
  induction ls as [|l r IH]; intros s id H; [contradiction|].
  cbn [dispatched] in H.
  assert (REC : In id (dispatched ce pe (step ce pe s l) r) ->
     exists pre post e, l :: r = pre ++ FCallReq id :: post /\
       find id (inb (step ce pe (fold_left (step ce pe) pre s) (FCallReq id))) = Some e).
  { intros H'. destruct (IH _ _ H') as [pre [post [e [E F]]]]. exists (l :: pre), post, e. split; [cbn; rewrite E; reflexivity|exact F]. }
  destruct l as [i|i| | |i|i|i|i]; try (apply REC; exact H).
  apply in_app_or in H. destruct H as [H|H]; [|apply REC; exact H].
  destruct ((List.length (inb s) <? List.length (inb (step ce pe s (FCallReq i))))%nat) eqn:G; [|contradiction].
  destruct H as [H|[]]. subst i.
  exists [], r. cbn [fold_left app].
  (* the list grew: the only branch of FCallReq that lengthens inb registers id *)
  cbn [step] in *. destruct (active s); cbn [negb] in *; [|apply Nat.ltb_lt in G; lia].
  destruct (in_shut s) eqn:IS.
  - exfalso. apply Nat.ltb_lt in G. unfold protocol_error in G.
    assert (X : forall p s0, List.length (inb (run_prog p s0)) = List.length (inb s0)).
    { intros p s0. rewrite run_prog_eq.
      assert (Y : forall q s1 w, List.length (inb (fold_left (exec w) q s1)) = List.length (inb s1)).
      { induction q as [|st q IHq]; intros s1 w; cbn [fold_left]; [reflexivity|]. rewrite IHq.
        unfold exec. destruct (ss_cas st); try destruct w; try reflexivity;
          destruct (ss_set st); unfold stop_set; try destruct (in_shut s1); try destruct (out_shut s1); cbn; rewrite ?map_length; reflexivity. }
      rewrite Y. destruct (existsb ss_cas p); reflexivity. }
    rewrite X in G. cbn in G. lia.
  - destruct (find id (inb s)) as [e0|] eqn:F.
    + exfalso. apply Nat.ltb_lt in G. unfold protocol_error in G.
      assert (X : forall p s0, List.length (inb (run_prog p s0)) = List.length (inb s0)).
      { intros p s0. rewrite run_prog_eq.
        assert (Y : forall q s1 w, List.length (inb (fold_left (exec w) q s1)) = List.length (inb s1)).
        { induction q as [|st q IHq]; intros s1 w; cbn [fold_left]; [reflexivity|]. rewrite IHq.
          unfold exec. destruct (ss_cas st); try destruct w; try reflexivity;
            destruct (ss_set st); unfold stop_set; try destruct (in_shut s1); try destruct (out_shut s1); cbn; rewrite ?map_length; reflexivity. }
        rewrite Y. destruct (existsb ss_cas p); reflexivity. }
      rewrite X in G. cbn in G. lia.
    + exists (mkEx id false 0 0). split; [reflexivity|].
      unfold set_inb; cbn.
      clear - F. induction (inb s) as [|a q IHq]; cbn [find app]; [rewrite Z.eqb_refl; reflexivity|].
      cbn [find] in F. destruct (x_id a =? id); [discriminate|]. apply IHq, F.
Qed.
