(* Per-call completeness for property C12: a call that has completed without a fault holds
   no frame.  Builds on the invariants of Proofs/FrameOwnP.v. *)
From Coq Require Import ZArith List Bool Lia.
From Verif Require Import Base.Wrap Base.Wire Gen.GenConsts Spec.FrameOwnSpec Model.FrameOwn Model.FrameOwnCall Proofs.FrameOwnP.
Import ListNotations.
Local Open Scope Z_scope.

(* ------------------------------------------------------------------ what completion leaves behind *)

(* per call: a writer that completed without error and not through SendSystemError has
   flushed its last fragment; a reader that completed has no initial fragment and its current
   fragment is done *)
Definition KInv (s : st) : Prop := forall k,
  (w_complete (s_wr s k) = true -> w_err (s_wr s k) = false -> r_quit (s_rdr s k) = false ->
     w_sent (s_wr s k) = true \/ w_cur (s_wr s k) = None) /\
  (r_complete (s_rdr s k) = true ->
     r_init (s_rdr s k) = None /\ forall t, r_cur (s_rdr s k) = Some t -> s_fdone s t = true) /\
  (forall t, r_prev (s_rdr s k) = Some t -> s_fdone s t = false -> r_cur (s_rdr s k) = Some t).

Lemma kinv_init cap : KInv (init cap).
Proof. intros k. cbn. split; [auto|]. split; intros; discriminate. Qed.

(* a step that leaves readers and writers alone and only adds done marks *)
Lemma kinv_keep s s' : KInv s -> s_rdr s' = s_rdr s -> s_wr s' = s_wr s ->
  (forall t, s_fdone s t = true -> s_fdone s' t = true) -> KInv s'.
Proof.
  intros K Er Ew Hd k. rewrite Er, Ew. destruct (K k) as (Kw & Kr & Ka). split; [exact Kw|]. split.
  - intros C. destruct (Kr C) as [A B]. split; [exact A|]. intros t Ht. apply Hd. apply B. exact Ht.
  - intros t P D. apply Ka; [exact P|]. destruct (s_fdone s t) eqn:E; [|reflexivity].
    rewrite (Hd t E) in D. discriminate.
Qed.

Lemma fdone_frag_done t s x : s_fdone s x = true -> s_fdone (frag_done t s) x = true.
Proof.
  intros H. unfold frag_done. destruct (s_fdone s t) eqn:D; [exact H|]. cbn. unfold fupd.
  destruct (x =? t); [reflexivity|exact H].
Qed.

Lemma fdone_frag_done_self t s : s_fdone (frag_done t s) t = true.
Proof.
  unfold frag_done. destruct (s_fdone s t) eqn:D; [exact D|]. cbn. unfold fupd. rewrite Z.eqb_refl. reflexivity.
Qed.

Ltac some H := injection H as <-.

Ltac split_step H :=
  repeat match type of H with
  | (if ?b then _ else _) = Some _ => destruct b eqn:?
  | match ?x with Some _ => _ | None => _ end = Some _ => destruct x eqn:?
  | match ?x with [] => _ | _ :: _ => _ end = Some _ => destruct x eqn:?
  | None = Some _ => discriminate H
  end.

Ltac kin_simpl := unfold rd_set, wr_set, rdr0, wr0 in *; cbn in *.

Definition Wk (s : st) (k : Z) : Prop :=
  w_complete (s_wr s k) = true -> w_err (s_wr s k) = false -> r_quit (s_rdr s k) = false ->
  w_sent (s_wr s k) = true \/ w_cur (s_wr s k) = None.
Definition Rk (s : st) (k : Z) : Prop :=
  r_complete (s_rdr s k) = true ->
  r_init (s_rdr s k) = None /\ forall t, r_cur (s_rdr s k) = Some t -> s_fdone s t = true.
Definition Ak (s : st) (k : Z) : Prop :=
  forall t, r_prev (s_rdr s k) = Some t -> s_fdone s t = false -> r_cur (s_rdr s k) = Some t.

(* a step that touches the reader / writer of call k only *)
Lemma kinv_upd s s' k : KInv s ->
  (forall k', k' <> k -> s_rdr s' k' = s_rdr s k' /\ s_wr s' k' = s_wr s k') ->
  (forall t, s_fdone s t = true -> s_fdone s' t = true) ->
  (Wk s k -> Wk s' k) -> (Rk s k -> Rk s' k) -> (Ak s k -> Ak s' k) -> KInv s'.
Proof.
  intros K Ho Hd Hw Hr Ha k0. destruct (Z.eq_dec k0 k) as [->|N].
  - destruct (K k) as (A & B & C). split; [apply Hw; exact A|]. split; [apply Hr; exact B|apply Ha; exact C].
  - destruct (Ho k0 N) as [Er Ew]. rewrite Er, Ew. destruct (K k0) as (A & B & Ka). split; [exact A|]. split.
    + intros C. destruct (B C) as [B1 B2]. split; [exact B1|]. intros t Ht. apply Hd. apply B2. exact Ht.
    + intros t P D. apply Ka; [exact P|]. destruct (s_fdone s t) eqn:E; [|reflexivity].
      rewrite (Hd t E) in D. discriminate.
Qed.

Ltac unf := unfold parse_chunks, fail_reader, release_prev, fetch_done, frag_done, mex_shutdown in *; cbv zeta in *.
Ltac brk :=
  repeat (kin_simpl; unfold fupd in *; rewrite ?Z.eqb_refl in *;
          match goal with
          | |- context [?a =? ?b] => destruct (Z.eqb_spec a b); [subst|]
          | |- context [match ?x with Some _ => _ | None => _ end] => destruct x eqn:?
          | |- context [if ?b then _ else _] => destruct b eqn:?
          end).
Ltac zc a b :=
  let q := fresh "q" in let E := fresh "E" in
  remember (a =? b) as q eqn:E; symmetry in E; destruct q;
  [apply Z.eqb_eq in E; subst | apply Z.eqb_neq in E].
Ltac zcase := match goal with
  | |- context [?a =? ?b] => zc a b
  | H : context [?a =? ?b] |- _ => zc a b
  end.
Ltac kspec :=
  repeat match goal with
  | H : forall t : Z, _ = Some t -> _, H' : _ = Some ?x |- _ => specialize (H x H')
  | H : ?A -> _, H' : ?A |- _ => match type of A with Prop => specialize (H H') end
  | H : _ /\ _ |- _ => destruct H
  end.
Ltac kfin := intros; unfold rdr0, wr0 in *; kin_simpl; unfold fupd in *; rewrite ?Z.eqb_refl in *;
  repeat zcase; kin_simpl; try contradiction; try congruence;
  repeat match goal with
  | H : _ || _ = false |- _ => apply orb_false_iff in H as [? ?]
  end;
  kspec;
  repeat match goal with
  | |- _ /\ _ => split
  | |- forall _, _ => intro
  end; repeat zcase; kspec; try congruence; auto;
  try match goal with
  | Hini : forall k t, r_init (s_rdr ?s k) = Some t -> _ |- r_init (s_rdr ?s ?k) = None =>
      let Ei := fresh "Ei" in let X := fresh "X" in
      destruct (r_init (s_rdr s k)) eqn:Ei; [destruct (Hini _ _ Ei) as (_ & _ & _ & X); congruence|reflexivity]
  end.

(* every step preserves it (faulty steps included; [app_ok] is not needed) *)
Lemma step_kinv s l s' : Inv s -> KInv s -> step false s l = Some s' -> KInv s'.
Proof.
  intros I K H. pose proof (i_init _ (proj2 I)) as Hini.
  destruct l; unfold step in H; cbv zeta in H; split_step H; try (some H).
  all: try match goal with |- KInv (if ?b then _ else _) => destruct b eqn:? end.
  all: try (apply (kinv_keep s); [exact K|reflexivity|reflexivity|auto]; fail).
  all: apply (kinv_upd s _ k K).
  all: unfold Wk, Rk, Ak; unf; brk; try (kfin; fail).
Qed.

Theorem run_kinv ls : forall s s', Inv s -> KInv s -> run false s ls = Some s' -> Inv s' /\ KInv s'.
Proof.
  induction ls as [|l r IH]; cbn; intros s s' I K H; [some H; split; assumption|].
  destruct (app_ok s l) eqn:A; [|discriminate].
  destruct (step false s l) as [s1|] eqn:E; [|discriminate].
  eapply IH; [| |exact H]; [eapply step_inv|eapply step_kinv]; eassumption.
Qed.

(* ------------------------------------------------------------------ a completed call holds no frame *)

Lemma done_holds_nothing s k : KInv s -> call_done s k ->
  forall t, ~ rdr_holds s k t /\ ~ wr_holds s k t.
Proof.
  intros K (Rc & Wc & We & Rq) t. destruct (K k) as (Kw & Kr & Ka). destruct (Kr Rc) as [Ri Rd]. split.
  - intros [H|[H D]]; [congruence|]. pose proof (Ka t H D) as C. rewrite (Rd t C) in D. discriminate.
  - intros [H S]. destruct (Kw Wc We Rq) as [X|X]; congruence.
Qed.

(* on EVERY run of the model -- any schedule, any fault history -- the reader and the writer
   of a call that completed without a fault refer to no frame *)
Theorem completed_call_rw_thm : forall cap ls s k,
  run false (init cap) ls = Some s -> call_done s k ->
  forall t, ~ rdr_holds s k t /\ ~ wr_holds s k t.
Proof.
  intros cap ls s k H D. destruct (run_kinv ls _ _ (init_inv cap) (kinv_init cap) H) as [_ K].
  apply done_holds_nothing; assumption.
Qed.

(* ... hence a completed call whose recvCh is drained holds no frame at all *)
Theorem completed_call_thm : forall cap ls s k,
  run false (init cap) ls = Some s -> call_settled s k -> forall t, ~ call_holds s k t.
Proof.
  intros cap ls s k H [D Q] t [Hq|[Hr|Hw]].
  - rewrite Q in Hq. contradiction.
  - exact (proj1 (completed_call_rw_thm cap ls s k H D t) Hr).
  - exact (proj2 (completed_call_rw_thm cap ls s k H D t) Hw).
Qed.

(* C12_faultfree_all_released without global quiescence: on a run without frame-dropping steps
   every frame ever obtained is released, or waits in a send queue for the writer loop, or is
   held by a call that has NOT completed (or whose recvCh the peer filled beyond the last
   fragment) *)
Theorem noloss_per_call : forall cap ls s,
  run_noloss (init cap) ls = Some s ->
  forall t, In t (gets (history s)) ->
    In t (rels (history s)) \/ (exists c, In t (s_send s c)) \/
    (exists k, call_holds s k t /\ ~ call_settled s k).
Proof.
  intros cap ls s H t G. pose proof (run_noloss_run ls _ _ H) as Hr.
  destruct (no_loss cap ls s H t G) as [R|[[k Hk]|Hc]]; [left; exact R| |right; left; exact Hc].
  right. right. exists k. split; [exact Hk|]. intros St. exact (completed_call_thm cap ls s k Hr St t Hk).
Qed.

(* so: when every call that still holds something ... is settled, i.e. no call holds anything,
   quiescence of the calls follows from their completion; the send queues are the writer loops' *)
Corollary noloss_calls_settled : forall cap ls s,
  run_noloss (init cap) ls = Some s -> (forall k, call_settled s k \/ forall t, ~ call_holds s k t) ->
  forall t, In t (gets (history s)) -> In t (rels (history s)) \/ exists c, In t (s_send s c).
Proof.
  intros cap ls s H All t G. destruct (noloss_per_call cap ls s H t G) as [R|[C|[k [Hk Ns]]]]; [left; exact R|right; exact C|].
  exfalso. destruct (All k) as [St|Nh]; [exact (Ns St)|exact (Nh t Hk)].
Qed.

(* ------------------------------------------------------------------ frames stay with their call *)

(* A frame that has ever been in a place of call k (its exchange queue, a local variable of
   its reader / writer, a fragment of its reader or writer) is afterwards only in places of
   the same call, in a send queue, with a writer loop, or released: no frame migrates from
   one call to another. *)
Definition tag (p : place) : option Z :=
  match p with PMex k | PLocal k | PFrag k | PWFrag k => Some k | _ => None end.
Definition cplace (k : Z) (p : place) : bool :=
  match p with
  | PReleased | PSend _ | PWriter _ => true
  | PMex k' | PLocal k' | PFrag k' | PWFrag k' => k' =? k
  | PFree | PReader _ => false
  end.
Definition ctoks (tr : list ev) (k : Z) : list Z :=
  flat_map (fun e => match e with
                     | EGet _ t p | EMov t p => match tag p with Some k' => if k' =? k then [t] else [] | None => [] end
                     | _ => [] end) tr.
Definition conf (tr : list ev) : Prop := forall t k, In t (ctoks tr k) -> cplace k (own_of tr t) = true.

(* allowed hand-overs *)
Definition mv_ok (p p' : place) : bool :=
  match p, p' with
  | PReader _, _ => true
  | _, (PSend _ | PWriter _ | PReleased) => true
  | (PMex a | PLocal a | PFrag a | PWFrag a), (PMex b | PLocal b | PFrag b | PWFrag b) => a =? b
  | _, _ => false
  end.

Lemma mv_ok_sound p p' : mv_ok p p' = true -> forall k, cplace k p = true -> cplace k p' = true.
Proof.
  destruct p, p'; cbn; intros H kk C; try discriminate; try reflexivity;
    apply Z.eqb_eq in H; subst; exact C.
Qed.

Lemma tag_cplace p k : tag p = Some k -> cplace k p = true.
Proof. destruct p; cbn; intros H; try discriminate; injection H as ->; apply Z.eqb_refl. Qed.

Lemma ctoks_toks tr k t : In t (ctoks tr k) -> In t (toks tr).
Proof.
  induction tr as [|e r IH]; cbn; [tauto|]. intros H. apply in_app_or in H as [H|H]; [|right; apply IH; exact H].
  left. destruct e as [s0 t' p|t' p|t'|s0 t']; cbn in *; try contradiction;
    (destruct (tag p) as [k'|]; [|contradiction]); (destruct (k' =? k); [|contradiction]);
    destruct H as [H|[]]; exact H.
Qed.

Lemma conf_acc t tr : conf tr -> conf (EAcc t :: tr).
Proof. intros C t' k H. cbn in *. apply C. exact H. Qed.

Lemma conf_rel site t tr : conf tr -> conf (ERel site t :: tr).
Proof.
  intros C t' k H. cbn in *. destruct (t' =? t); [reflexivity|]. apply C. exact H.
Qed.

Lemma conf_get site t p tr : conf tr -> ~ In t (toks tr) -> conf (EGet site t p :: tr).
Proof.
  intros C F t' k H. cbn in *. apply in_app_or in H as [H|H].
  - destruct (tag p) as [k'|] eqn:Tg; [|contradiction]. destruct (Z.eqb_spec k' k); [|contradiction].
    destruct H as [H|[]]. subst. rewrite Z.eqb_refl. apply tag_cplace. exact Tg.
  - destruct (Z.eqb_spec t' t); [subst; exfalso; apply F; eapply ctoks_toks; exact H|]. apply C. exact H.
Qed.

Lemma conf_mov t p tr : conf tr -> mv_ok (own_of tr t) p = true -> conf (EMov t p :: tr).
Proof.
  intros C M t' k H. cbn in *. apply in_app_or in H as [H|H].
  - destruct (tag p) as [k'|] eqn:Tg; [|contradiction]. destruct (Z.eqb_spec k' k); [|contradiction].
    destruct H as [H|[]]. subst. rewrite Z.eqb_refl. apply tag_cplace. exact Tg.
  - destruct (Z.eqb_spec t' t); [subst|apply C; exact H].
    apply (mv_ok_sound _ _ M). apply C. exact H.
Qed.

Definition Conf (s : st) : Prop := conf (s_trace s).

Lemma conf_init cap : Conf (init cap).
Proof. intros t k H. cbn in H. contradiction. Qed.

Ltac conf_go C :=
  repeat (cbn [s_trace emit p_get p_acc p_rel push_mex push_send pop_mex pop_send set_mex set_rdr set_wr set_send
               set_stop set_wexit set_fdone set_ty bump];
          match goal with
          | |- conf (s_trace ?s) => exact C
          | |- conf (EAcc _ :: _) => apply conf_acc
          | |- conf (ERel _ _ :: _) => apply conf_rel
          | |- conf (EGet _ _ _ :: _) => apply conf_get
          | |- conf (EMov _ _ :: _) => apply conf_mov
          end).

Lemma step_conf s l s' : Inv s -> Conf s -> step false s l = Some s' -> Conf s'.
Proof.
  intros [T S] C H. unfold Conf in *.
  assert (Fr : ~ In (s_next s) (toks (s_trace s))).
  { intros X. pose proof (t_toks _ _ T _ X). lia. }
  pose proof (i_q _ S) as Hq. pose proof (i_send _ S) as Hs. pose proof (i_w _ S) as Hw.
  pose proof (i_cur _ S) as Hcur. pose proof (i_prev _ S) as Hprev. pose proof (i_done _ S) as Hdone. unfold O in *.
  destruct l; unfold step in H; cbv zeta in H; split_step H; try (some H).
  all: try match goal with |- conf (s_trace (if ?b then _ else _)) => destruct b eqn:? end.
  all: unf; brk.
  all: conf_go C.
  all: try exact Fr.
  all: cbn [own_of]; rewrite ?Z.eqb_refl; try (cbn; rewrite ?Z.eqb_refl; reflexivity).
  all: cbn in *.
  all: repeat match goal with
       | H : _ || _ = false |- _ => apply orb_false_iff in H as [? ?]
       end.
  all: try match goal with
       | Hq : forall k t, In t (x_q (s_mex ?s0 k)) -> _, H : x_q (s_mex ?s0 ?k) = ?z :: _ |- _ =>
           assert (own_of (s_trace s0) z = PMex k) by (apply Hq; rewrite H; left; reflexivity)
       | Hs : forall c t, In t (s_send ?s0 c) -> _, H : s_send ?s0 ?c = ?z :: _ |- _ =>
           assert (own_of (s_trace s0) z = PSend c) by (apply Hs; rewrite H; left; reflexivity)
       | Hw : forall k t, w_cur (s_wr ?s0 k) = Some t -> _, H : w_cur (s_wr ?s0 ?k) = Some ?z |- _ =>
           assert (own_of (s_trace s0) z = PWFrag k) by (apply Hw; assumption)
       end.
  all: repeat zcase.
  all: try match goal with
       | Hcur : forall k t, r_cur (s_rdr ?s0 k) = Some t -> _, H : r_cur (s_rdr ?s0 ?k) = Some ?z, D : s_fdone ?s0 ?z = false |- _ =>
           destruct (Hcur k z H) as [X|X]; [congruence|]
       end.
  all: try congruence.
  all: try match goal with H : own_of (s_trace _) _ = _ |- _ => rewrite H end; cbn; rewrite ?Z.eqb_refl; try reflexivity.
Qed.

Theorem run_conf ls : forall s s', Inv s -> Conf s -> run false s ls = Some s' -> Conf s'.
Proof.
  induction ls as [|l r IH]; cbn; intros s s' I C H; [some H; exact C|].
  destruct (app_ok s l) eqn:A; [|discriminate].
  destruct (step false s l) as [s1|] eqn:E; [|discriminate].
  eapply IH; [| |exact H]; [eapply step_inv|eapply step_conf]; eassumption.
Qed.

Lemma call_toks_ctoks tr k t : In t (call_toks (rev tr) k) -> In t (ctoks tr k).
Proof.
  unfold call_toks, ctoks. rewrite !in_flat_map. intros (e & He & Ht). exists e. split; [apply in_rev; exact He|].
  destruct e as [s0 t' p|t' p|t'|s0 t']; try contradiction;
    (destruct p; cbn in *; try contradiction; exact Ht).
Qed.

(* C12_faultfree_all_released per completed call: on a run without frame-dropping steps, once
   call k has completed without a fault and its recvCh is drained, every frame the history
   attributes to the call -- every frame that ever waited in its exchange queue or was a
   fragment of its reader or of its writer -- has been released, except response / request
   fragments that still wait in a connection's send queue for the writer loop.  Other calls
   may be in any state. *)
Theorem call_frames_released : forall cap ls s k,
  run_noloss (init cap) ls = Some s -> call_settled s k ->
  forall t, In t (call_toks (history s) k) -> In t (rels (history s)) \/ exists c, In t (s_send s c).
Proof.
  intros cap ls s k H St t Ht. pose proof (run_noloss_run ls _ _ H) as Hr.
  destruct (run_noloss_inv ls _ _ (init_inv cap) (cinv_init cap) H) as [[T S] C].
  pose proof (run_conf ls _ _ (init_inv cap) (conf_init cap) Hr) as Cf.
  pose proof (Cf t k (call_toks_ctoks _ _ _ Ht)) as P. fold (O s t) in P.
  pose proof (c_acc _ _ C t) as A. unfold accounted in A.
  pose proof (completed_call_thm cap ls s k Hr St t) as Nh. unfold call_holds in Nh.
  destruct (O s t) eqn:E; cbn in P; try discriminate; try (apply Z.eqb_eq in P; subst).
  - left. unfold history. rewrite rels_rev. rewrite <- in_rev. apply own_released; [apply T|exact E].
  - exfalso. apply Nh. left. exact A.
  - exfalso. apply Nh. right. left. exact A.
  - right. exists c. exact A.
  - exfalso. apply Nh. right. right. exact A.
Qed.

(* ------------------------------------------------------------------ the side conditions are needed *)

(* the peer sends one frame more than the response has fragments: the frame is queued (recvCh
   has room), the application closes the last argument, the call is complete -- and the extra
   frame stays in recvCh for good.  No step of this run is in [loses]. *)
Definition extra_frame_witness : list label :=
  [LNewMex 9 1 2; LWNew 9 true; LWAcc 9; LWFlush 9 true; LWrite 1 false;
   LReadFwd 1 (Some 9) 0; LReadFwd 1 (Some 9) 0; LFetch 9 true true true; LAcc 9; LCloseLast 9].

Theorem drained_needed :
  exists s, run_noloss (init 8) extra_frame_witness = Some s /\ call_done s 9 /\
            exists t, In t (x_q (s_mex s 9)) /\ In t (gets (history s)) /\ ~ In t (rels (history s)).
Proof.
  eexists. split; [vm_compute; reflexivity|]. split; [repeat split|].
  exists 2. vm_compute. split; [left; reflexivity|]. split; [tauto|]. intros [H|[H|H]]; try discriminate; exact H.
Qed.

(* InboundCallResponse.SendSystemError after the handler began to write the response: the
   writer is complete without error, the response fragment it had obtained is never sent nor
   released -- why [call_done] asks for r_quit = false *)
Definition syserr_midwrite_witness : list label :=
  [LReadCallReq 1 7; LFetch 7 true true true; LAcc 7; LCloseLast 7; LWNew 7 true; LWAcc 7; LRespSysErr 7].

Theorem quit_needed :
  exists s, run_noloss (init 8) syserr_midwrite_witness = Some s /\
            r_complete (s_rdr s 7) = true /\ w_complete (s_wr s 7) = true /\ w_err (s_wr s 7) = false /\
            x_q (s_mex s 7) = [] /\ wr_holds s 7 1 /\ ~ In 1 (rels (history s)).
Proof.
  eexists. split; [vm_compute; reflexivity|]. vm_compute. repeat split. intros [H|H]; [discriminate|exact H].
Qed.

(* the deadline passes while the last response fragment is being flushed: the writer is
   complete WITH an error and keeps the fragment -- why [call_done] asks for w_err = false *)
Definition timeout_lastflush_witness : list label :=
  [LReadCallReq 1 7; LFetch 7 true true true; LAcc 7; LCloseLast 7; LWNew 7 true; LWAcc 7; LCtx 7; LWFlush 7 true].

Theorem werr_needed :
  exists s, run_noloss (init 8) timeout_lastflush_witness = Some s /\
            r_complete (s_rdr s 7) = true /\ w_complete (s_wr s 7) = true /\ r_quit (s_rdr s 7) = false /\
            x_q (s_mex s 7) = [] /\ wr_holds s 7 1 /\ ~ In 1 (rels (history s)).
Proof.
  eexists. split; [vm_compute; reflexivity|]. vm_compute. repeat split. intros [H|H]; [discriminate|exact H].
Qed.
