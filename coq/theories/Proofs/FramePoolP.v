(* C01: every frame any FramePool implementation of the repository hands out has
   len(Payload) = MaxFramePayloadSize (and a 16-byte header in front of it), so the room
   reqResWriter.newFragment gives the fragmenting writer is the one the size theorem
   (FragWireP.frame_bytes_bound) assumes -- for every pool, every schedule. *)
From Coq Require Import ZArith List Bool Lia ZifyBool.
From Verif Require Import Base.Wrap Base.Bytes Gen.GenConsts Gen.GenFrame Gen.GenFrameSites Model.TypedBuf Model.Messages
  Model.Crc Model.Frag Model.FragWire Model.FramePool Spec.FragSpec Spec.FragOk Proofs.FragWireP.
Import ListNotations.
Local Open Scope Z_scope.

(* THE TIE: the tables regenerated from the source on this run satisfy the obligations.
   A NewFrame call with another argument, a new way of making or re-slicing a Frame, a
   write buffer over part of a Payload, or a pool whose Get / Release does something the
   model has no class for makes this computation return false. *)
Lemma frame_sites_ok_holds : frame_sites_ok = true.
Proof. vm_compute. reflexivity. Qed.

Lemma pool_impls_known : map (fun p => fst (fst (fst p))) pool_impls = known_pools.
Proof. vm_compute. reflexivity. Qed.

Definition good (s : shape) : Prop :=
  sh_payload s = c_MaxFramePayloadSize /\ sh_poff s = c_FrameHeaderSize /\
  sh_header s = c_FrameHeaderSize /\ sh_hoff s = 0 /\ sh_buffer s = c_MaxFrameSize.

(* a frame that is only read into can hold every legal frame *)
Definition roomy (s : shape) : Prop :=
  c_MaxFramePayloadSize <= sh_payload s /\ sh_poff s = c_FrameHeaderSize /\ sh_poff s + sh_payload s <= sh_buffer s.

Definition shape_ok (s : shape) : Prop := if sh_recvonly s then roomy s else good s.

(* NewFrame(n) for the arguments the table allows *)
Lemma new_frame_exact ro : new_frame c_MaxFramePayloadSize ro
  = Some (mkShape c_MaxFrameSize c_FrameHeaderSize c_MaxFramePayloadSize 0 c_FrameHeaderSize ro).
Proof. vm_compute. reflexivity. Qed.

Lemma new_frame_big v s : c_MaxFramePayloadSize <= v < 2 ^ 62 -> new_frame v true = Some s -> roomy s /\ sh_recvonly s = true.
Proof.
  intros Hv. unfold new_frame, NewFrame_buffer_len, NewFrame_payload_lo, NewFrame_payload_hi, NewFrame_header_lo,
    NewFrame_header_hi, NewFrame_buffer_len, slice_ok, c_FrameHeaderSize.
  assert (W : wrapS 64 (v + 16) = v + 16).
  { unfold c_MaxFramePayloadSize, c_MaxFrameSize, c_FrameHeaderSize in Hv. apply wrapS_id; lia. }
  rewrite W.
  destruct (v + 16 <? 0); [discriminate|].
  destruct (negb _); [discriminate|]. destruct (negb _); [discriminate|].
  intros E. inversion E; subst s; clear E. unfold roomy; cbn [sh_payload sh_poff sh_buffer sh_recvonly].
  unfold c_MaxFramePayloadSize, c_MaxFrameSize, c_FrameHeaderSize in *. lia.
Qed.

Lemma site_frame_ok i s : site_frame i = Some s -> shape_ok s.
Proof.
  unfold site_frame. destruct (nth_error newframe_sites i) as [[[nm v] ro]|] eqn:E; [|discriminate].
  pose proof frame_sites_ok_holds as H. unfold frame_sites_ok in H.
  do 5 (apply andb_prop in H; destruct H as [H ?]).
  rewrite forallb_forall in H. specialize (H _ (nth_error_In _ _ E)). unfold site_ok in H.
  apply orb_prop in H. destruct H as [H|H].
  - apply Z.eqb_eq in H. subst v. rewrite new_frame_exact. intros E2. inversion E2; subst s.
    unfold shape_ok, roomy, good; cbn [sh_recvonly sh_payload sh_poff sh_header sh_hoff sh_buffer].
    destruct ro; unfold c_MaxFramePayloadSize, c_MaxFrameSize, c_FrameHeaderSize; lia.
  - apply andb_prop in H. destruct H as [H Hc]. apply andb_prop in H. destruct H as [Ha Hb].
    subst ro. intros E2. apply new_frame_big in E2; [|lia]. destruct E2 as [R Hro]. unfold shape_ok. rewrite Hro. exact R.
Qed.

Lemma pool_ok_of p nm gcls rcls mut : nth_error pool_impls p = Some (nm, gcls, rcls, mut) -> pool_ok (nm, gcls, rcls, mut) = true.
Proof.
  intros E. pose proof frame_sites_ok_holds as H. unfold frame_sites_ok in H.
  do 5 (apply andb_prop in H; destruct H as [H ?]).
  match goal with Hp : forallb pool_ok pool_impls = true |- _ => rewrite forallb_forall in Hp; exact (Hp _ (nth_error_In _ _ E)) end.
Qed.

(* invariant of the world *)
Definition winv (w : world) : Prop :=
  Forall shape_ok (w_live w) /\ Forall (fun qs => good (snd qs)) (w_store w) /\ Forall good (w_got w).

Lemma Forall_remove_nth {A} (P : A -> Prop) k l : Forall P l -> Forall P (remove_nth k l).
Proof.
  revert k. induction l as [|x r IH]; intros k H; [destruct k; exact H|].
  inversion H; subst. destruct k; cbn [remove_nth]; [assumption|]. constructor; [assumption|apply IH; assumption].
Qed.

Lemma Forall_nth_error {A} (P : A -> Prop) l k x : Forall P l -> nth_error l k = Some x -> P x.
Proof. intros H E. rewrite Forall_forall in H. exact (H _ (nth_error_In _ _ E)). Qed.

Lemma fresh_inv w k w' :
  winv w ->
  match site_frame k with
  | Some s => if sh_recvonly s then None else Some (mkWorld (s :: w_live w) (w_store w) (s :: w_got w))
  | None => None
  end = Some w' -> winv w'.
Proof.
  intros (Hl & Hs & Hg). destruct (site_frame k) as [s|] eqn:E; [|discriminate].
  pose proof (site_frame_ok _ _ E) as Hok. unfold shape_ok in Hok.
  destruct (sh_recvonly s) eqn:R; [discriminate|]. intros E2. inversion E2; subst w'; clear E2.
  unfold winv; cbn [w_live w_store w_got]. repeat split; [|assumption|]; constructor; try assumption.
  unfold shape_ok. rewrite R. exact Hok.
Qed.

Lemma pw_step_inv w e w' : winv w -> pw_step w e = Some w' -> winv w'.
Proof.
  intros Hinv. pose proof Hinv as (Hl & Hs & Hg). destruct e as [i|p cls k|p k kept]; cbn [pw_step].
  - destruct (site_frame i) as [s|] eqn:E; [|discriminate]. intros E2; inversion E2; subst w'; clear E2.
    unfold winv; cbn [w_live w_store w_got]. repeat split; try assumption. constructor; [exact (site_frame_ok _ _ E)|assumption].
  - destruct (nth_error pool_impls p) as [[[[nm gcls] rcls] mut]|] eqn:Ep; [|discriminate].
    destruct (cls =? 0).
    { destruct (zmem 0 gcls); [|discriminate]. apply fresh_inv; assumption. }
    destruct (cls =? 3).
    { destruct (zmem 2 gcls && _); [|discriminate]. apply fresh_inv; assumption. }
    destruct (((cls =? 1) || (cls =? 2)) && zmem cls gcls); [|discriminate].
    destruct (nth_error (w_store w) k) as [[q s]|] eqn:Es; [|discriminate].
    destruct (Nat.eqb q p); [|discriminate]. intros E2; inversion E2; subst w'; clear E2.
    pose proof (Forall_nth_error _ _ _ _ Hs Es) as Hgood. cbn [snd] in Hgood.
    unfold winv; cbn [w_live w_store w_got]. repeat split.
    + constructor; [|assumption]. unfold shape_ok. destruct (sh_recvonly s); [|exact Hgood].
      destruct Hgood as (A & B & C & D & E). unfold roomy. rewrite A, B, E.
      unfold c_MaxFramePayloadSize, c_MaxFrameSize, c_FrameHeaderSize. lia.
    + apply Forall_remove_nth; assumption.
    + constructor; assumption.
  - destruct (nth_error pool_impls p) as [[[[nm gcls] rcls] mut]|] eqn:Ep; [|discriminate].
    destruct (nth_error (w_live w) k) as [s|] eqn:El; [|discriminate].
    destruct (sh_recvonly s) eqn:R; [discriminate|].
    destruct (negb (forallb (Z.eqb 1) rcls)); [discriminate|].
    pose proof (pool_ok_of _ _ _ _ _ Ep) as Hp. unfold pool_ok in Hp.
    apply andb_prop in Hp. destruct Hp as [Hp Hmut].
    pose proof (Forall_nth_error _ _ _ _ Hl El) as Hok. unfold shape_ok in Hok. rewrite R in Hok.
    assert (Hlive : Forall shape_ok (if mut then remove_nth k (w_live w) else w_live w))
      by (destruct mut; [apply Forall_remove_nth|]; assumption).
    destruct (kept && negb match rcls with [] => true | _ :: _ => false end) eqn:K;
      intros E2; inversion E2; subst w'; clear E2; unfold winv; cbn [w_live w_store w_got]; repeat split; try assumption.
    constructor; [|assumption]. cbn [snd]. destruct mut; [|exact Hok].
    (* a pool whose Release clears the frame stores nothing *)
    exfalso. cbn [negb orb] in Hmut. destruct rcls; [|discriminate]. rewrite andb_false_r in K. discriminate.
Qed.

Lemma pw_run_inv evs : forall w w', winv w -> pw_run evs w = Some w' -> winv w'.
Proof.
  induction evs as [|e r IH]; intros w w' Hinv; cbn [pw_run].
  - intros E; inversion E; subst; assumption.
  - destruct (pw_step w e) as [w1|] eqn:E; [|discriminate]. apply IH. exact (pw_step_inv _ _ _ Hinv E).
Qed.

Lemma winv_init : winv pw_init.
Proof. unfold winv, pw_init; cbn; repeat split; constructor. Qed.

(* EVERY POOL, EVERY SCHEDULE: a frame returned by any FramePool.Get has a Payload of exactly
   MaxFramePayloadSize bytes behind a 16-byte header in a MaxFrameSize buffer *)
Theorem pool_frames_good : forall evs w s,
  pw_run evs pw_init = Some w -> In s (w_got w) ->
  sh_payload s = c_MaxFramePayloadSize /\ sh_poff s = c_FrameHeaderSize /\
  sh_header s = c_FrameHeaderSize /\ sh_hoff s = 0 /\ sh_buffer s = c_MaxFrameSize.
Proof.
  intros evs w s Hrun Hin. pose proof (pw_run_inv _ _ _ winv_init Hrun) as (_ & _ & Hg).
  rewrite Forall_forall in Hg. exact (Hg _ Hin).
Qed.

(* every frame anywhere in library code can hold a maximal legal frame *)
Theorem live_frames_roomy : forall evs w s,
  pw_run evs pw_init = Some w -> In s (w_live w) ->
  c_MaxFramePayloadSize <= sh_payload s /\ sh_poff s = c_FrameHeaderSize /\ sh_poff s + sh_payload s <= sh_buffer s.
Proof.
  intros evs w s Hrun Hin. pose proof (pw_run_inv _ _ _ winv_init Hrun) as (Hl & _ & _).
  rewrite Forall_forall in Hl. specialize (Hl _ Hin). unfold shape_ok in Hl.
  destruct (sh_recvonly s); [exact Hl|]. destruct Hl as (A & B & C & D & E). rewrite A, B, E.
  unfold c_MaxFramePayloadSize, c_MaxFrameSize, c_FrameHeaderSize. lia.
Qed.

(* the room newFragment leaves in such a frame is the capacity the size theorem is about *)
Lemma frame_room_capacity s msghdr ck :
  sh_payload s = c_MaxFramePayloadSize -> frame_room s (zlen msghdr) (ck_size ck) = frag_capacity msghdr ck.
Proof. intros H. unfold frame_room, frag_capacity. rewrite H. reflexivity. Qed.

(* CONNECTION TO THE SIZE THEOREM: whatever pool the frame came from, a fragment whose chunks
   fit the room of that frame is a frame of at most 65535 bytes; the 16-bit size that
   flushFragment stamps (Header.SetPayloadSize(uint16(BytesWritten))) is the number of bytes
   Frame.WriteOut writes (f.buffer[:size], inside the buffer), and the receiver's
   PayloadSize recovers the payload length *)
Theorem every_pool_frame_bytes : forall evs w s msghdr ck f,
  pw_run evs pw_init = Some w -> In s (w_got w) ->
  chunks_size (f_chunks f) <= frame_room s (zlen msghdr) (ck_size ck) -> zlen (f_ck f) = ck_size ck ->
  let n := zlen (enc_frag_payload msghdr f) in
  c_FrameHeaderSize + n <= c_MaxFrameSize /\
  SetPayloadSize (wrapU 16 n) = c_FrameHeaderSize + n /\
  SetPayloadSize (wrapU 16 n) <= sh_buffer s /\
  PayloadSize (SetPayloadSize (wrapU 16 n)) = n /\
  n <= sh_payload s.
Proof.
  intros evs w s msghdr ck f Hrun Hin Hroom Hck n.
  destruct (pool_frames_good _ _ _ Hrun Hin) as (A & B & C & D & E).
  rewrite (frame_room_capacity _ _ _ A) in Hroom.
  pose proof (frame_bytes_bound msghdr ck f Hroom Hck) as Hb. fold n in Hb.
  assert (Hn : 0 <= n) by (unfold n; apply zlen_nonneg).
  unfold SetPayloadSize, PayloadSize. rewrite A, E.
  unfold c_MaxFramePayloadSize, c_MaxFrameSize, c_FrameHeaderSize in *.
  rewrite (wrapU_id 16 n) by (change (2 ^ 16) with 65536; lia).
  rewrite (wrapU_id 16 (n + 16)) by (change (2 ^ 16) with 65536; lia).
  replace (n + 16 - 16) with n by lia.
  rewrite (wrapU_id 16 n) by (change (2 ^ 16) with 65536; lia). lia.
Qed.

(* why the tie matters: in a frame whose Payload were MaxFrameSize long (NewFrame(MaxFrameSize))
   a fragment that fills its room gets the size field 15 stamped for 65551 bytes *)
Lemma oversized_frame_wraps :
  new_frame c_MaxFrameSize false = Some (mkShape 65551 16 65535 0 16 false) /\
  SetPayloadSize (wrapU 16 65535) = 15.
Proof. vm_compute. split; reflexivity. Qed.
