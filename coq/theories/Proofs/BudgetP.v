(* Property C05 (b): the connect / handshake budget definitions against the generated code. *)
From Coq Require Import ZArith List Bool Lia ZifyBool.
From Verif Require Import Base.Wrap Gen.GenConsts Gen.GenBudget Model.CallPath Model.Budget.
Import ListNotations.
Local Open Scope Z_scope.

(* the hand-written handshake deadline IS the function go2v regenerates from setInitDeadline *)
Theorem init_deadline_generated : forall now od,
  init_deadline now od =
  setInitDeadline now (match od with Some _ => true | None => false end) (match od with Some d => d | None => 0 end).
Proof. intros now [d|]; reflexivity. Qed.

Theorem init_deadline_generated_none : forall now z, setInitDeadline now false z = init_deadline now None.
Proof. intros. reflexivity. Qed.

(* the hand-written connect budget is the context transformation of Channel.Connect on a context with a deadline *)
Theorem connect_ctx_deadline : forall now d ct, connect_ctx now (Some d) ct = Some (connect_deadline now d ct).
Proof. intros. unfold connect_ctx, connect_deadline. destruct (ct >? 0); reflexivity. Qed.

(* whatever the caller's context and connect timeout: the dialer's context ends no later than
   the caller's, and the handshake deadline is the dialer context's deadline; a context
   without deadline and without connect timeout gives the handshake 5 s *)
Theorem budget_bounds : forall now now' od ct,
  (forall d, od = Some d -> exists d', connect_ctx now od ct = Some d' /\ d' <= d /\ handshake_deadline now now' od ct = d') /\
  (0 < ct -> exists d', connect_ctx now od ct = Some d' /\ d' <= now + ct /\ handshake_deadline now now' od ct = d') /\
  (od = None -> ct <= 0 -> connect_ctx now od ct = None /\ handshake_deadline now now' od ct = now' + 5000000000).
Proof.
  intros now now' od ct. unfold handshake_deadline, connect_ctx. split; [|split].
  - intros d ->. destruct (ct >? 0); eexists; (split; [reflexivity|]); cbn [init_deadline]; split; try reflexivity; lia.
  - intros Hc. replace (ct >? 0) with true by lia. destruct od as [d|]; eexists; (split; [reflexivity|]); cbn [init_deadline]; split; try reflexivity; lia.
  - intros -> Hc. replace (ct >? 0) with false by lia. split; reflexivity.
Qed.

(* both budgets are monotone in the clock reading (the harness brackets the unobservable readings) *)
Theorem budget_monotone : forall a b od ct, a <= b ->
  (forall x y, connect_ctx a od ct = Some x -> connect_ctx b od ct = Some y -> x <= y) /\
  init_deadline a od <= init_deadline b od.
Proof.
  intros a b od ct Hab. split.
  - unfold connect_ctx. destruct (ct >? 0); destruct od as [d|]; intros x y H1 H2; inversion H1; inversion H2; lia.
  - destruct od; cbn [init_deadline]; lia.
Qed.
