(* Relay model: the admission and close decisions of the model are the functions regenerated from
   relay.go by go2v on every run (Gen/GenRelayFwd.v: relayCanHandleNewCall from
   Relayer.canHandleNewCall, relayCanClose from Relayer.canClose). *)
From Coq Require Import ZArith List Bool.
From Verif Require Import Base.Wrap Gen.GenConsts Gen.GenFrame Gen.GenRelayFwd Model.RelayItems.
Import ListNotations.
Local Open Scope Z_scope.

(* r.canHandleNewCall() of the source connection: ICanHandle *)
Lemma can_handle_tie : forall cf st k f e c room,
  exec cf st (ICanHandle k f e c) room =
  let cn := get_conn st k in
  if relayCanHandleNewCall (c_state cn)
  then (put_conn st k {| c_state := c_state cn; c_pending := wrapU 32 (c_pending cn + 1); c_nextid := c_nextid cn |}, [IGetDest k f e c])
  else (st, [ICb c (CbFailed reason_client_inactive); ICb c CbEnd; ISendErr k (f_id f) c_ErrCodeDeclined]).
Proof. reflexivity. Qed.

(* remoteConn.relay.canHandleNewCall() of the destination connection: IRemoteCan *)
Lemma remote_can_handle_tie : forall cf st k f e c d room,
  exec cf st (IRemoteCan k f e c d) room =
  let cn := get_conn st d in
  if relayCanHandleNewCall (c_state cn)
  then (put_conn st d {| c_state := c_state cn; c_pending := wrapU 32 (c_pending cn + 1); c_nextid := c_nextid cn |}, [IAddDest k f e c d])
  else (st, [ICb c (CbFailed reason_remote_inactive); ISendErr k (f_id f) c_ErrCodeDeclined; IDec k; ICb c CbEnd]).
Proof. reflexivity. Qed.

(* checkExchanges of a closing connection moves on exactly when relay.canClose() holds *)
Lemma can_close_tie : forall cf st k, panicked st = 0 ->
  let cn := get_conn st k in
  (c_state cn = c_connectionStartClose \/ c_state cn = c_connectionInboundClosed) ->
  (step cf st (LDrained k) <> None <-> relayCanClose false (c_pending cn) = true).
Proof.
  intros cf st k Hp cn Hs. unfold step. rewrite Hp. cbn [Z.eqb negb]. fold cn. unfold relayCanClose.
  destruct Hs as [-> | ->]; cbn; destruct (c_pending cn =? 0); split; intro H; try reflexivity; try discriminate; try congruence.
Qed.
