(* Proofs for property C05 (a): a receiver that gets only a proper prefix of a message
   never reports success and never hands out wrong data.
     Part 1  invariant MI (more-fragments flag still set): never Complete, never a panic
     Part 2  simulation of the cut run by the full run: data is a prefix of the right argument
     Part 3  byte level: a stream cut at byte offset n delivers exactly the frames that are
             completely contained in the first n bytes *)
From Coq Require Import ZArith List Bool Lia ZifyBool.
From Verif Require Import Base.Wrap Base.Bytes Base.Wire Gen.GenConsts Gen.GenFrame Model.TypedBuf Model.Messages
  Model.Crc Model.Frag Model.FragWire Model.Cut Spec.FragSpec Spec.FragOk Spec.Protocol
  Proofs.CodecP Proofs.FrameP Proofs.FragWireP Proofs.FragRP.
Import ListNotations.
Local Open Scope Z_scope.

Ltac prj := cbn [rs_state rs_err rs_rem rs_cur rs_more rs_in rs_ck rs_got rs_rel rs_fin].
Ltac prj_in H := cbn [rs_state rs_err rs_rem rs_cur rs_more rs_in rs_ck rs_got rs_rel rs_fin] in H.
Ltac prj_all := cbn [rs_state rs_err rs_rem rs_cur rs_more rs_in rs_ck rs_got rs_rel rs_fin] in *.

(* ================================================================== *)
(* Part 1: the invariant of a reader whose input is a proper prefix    *)
(* ================================================================== *)
Definition all_more (fs : list frag) : Prop := Forall (fun f => f_more f = true) fs.

(* ChecksumType.New() of the first fragment cannot panic *)
Definition ck_safe (st : rst) : Prop :=
  match rs_ck st with
  | Some _ => True
  | None => match rs_in st with f :: _ => ck_new (f_ctype f) <> None | [] => True end
  end.

Record MI (st : rst) : Prop := mkMI {
  mi_more : rs_more st = true;
  mi_in : all_more (rs_in st);
  mi_state : rs_state st <> c_fragmentingReadComplete;
  mi_ck : ck_safe st
}.

Lemma MI_set_err st e : MI st -> MI (rset_err st e).
Proof. intros [A B C D]. constructor; unfold rset_err; prj; assumption. Qed.

Ltac mi_tac :=
  constructor; prj;
  first [assumption | reflexivity | apply Forall_nil
        | (unfold ck_safe; prj; exact I)
        | (unfold ck_safe; prj; match goal with |- match ?k with _ => _ end => destruct k; exact I end)].

Lemma recv_MI st : MI st ->
  exists c st', r_recv st = Some (c, st') /\ MI st' /\ rs_state st' = rs_state st.
Proof.
  intros [Hm Hi Hs Hc]. destruct st as [s e rem cur more inn ck got rel fin]. prj_all. subst more.
  unfold r_recv. prj.
  destruct (negb (e =? 0)) eqn:Ee.
  { do 2 eexists. split; [reflexivity|]. split; [mi_tac|reflexivity]. }
  destruct inn as [|f rest].
  { do 2 eexists. split; [reflexivity|]. split; [mi_tac|reflexivity]. }
  pose proof (Forall_inv Hi) as Hf. pose proof (Forall_inv_tail Hi) as Hr. cbv beta in Hf.
  assert (E : exists c, match ck with Some c => Some c | None => ck_new (f_ctype f) end = Some c).
  { destruct ck as [c|]; [exists c; reflexivity|]. unfold ck_safe in Hc. prj_all.
    destruct (ck_new (f_ctype f)) as [c|]; [exists c; reflexivity|congruence]. }
  destruct E as [c E]. rewrite E.
  destruct (negb (ck_typecode c =? f_ctype f) && match ck with Some _ => true | None => false end).
  { do 2 eexists. split; [reflexivity|]. split; [|reflexivity]. apply MI_set_err. mi_tac. }
  destruct (negb (bytes_eqb (f_ck f) (ck_sum (fold_left ck_add (f_chunks f) c)))).
  { do 2 eexists. split; [reflexivity|]. split; [|reflexivity]. apply MI_set_err. mi_tac. }
  destruct (f_chunks f) as [|ch chs].
  { do 2 eexists. split; [reflexivity|]. split; [|reflexivity]. apply MI_set_err. mi_tac. }
  do 2 eexists. split; [reflexivity|]. split; [|reflexivity]. mi_tac.
Qed.

Lemma consts_distinct :
  c_fragmentingReadInArgument <> c_fragmentingReadComplete /\
  c_fragmentingReadInLastArgument <> c_fragmentingReadComplete /\
  c_fragmentingReadWaitingForArgument <> c_fragmentingReadComplete /\
  c_fragmentingReadStart <> c_fragmentingReadComplete.
Proof. repeat split; discriminate. Qed.

Lemma arg_state_not_complete last : arg_state last <> c_fragmentingReadComplete.
Proof. destruct last; cbn [arg_state]; apply consts_distinct. Qed.

Lemma begin_MI last st : MI st ->
  exists c st', r_begin last st = Some (c, st') /\ MI st' /\ (c = 0 -> rs_state st' = arg_state last).
Proof.
  intros M. unfold r_begin.
  destruct (negb (rs_err st =? 0)) eqn:Ee.
  { do 2 eexists. split; [reflexivity|]. split; [exact M|]. intros H. lia. }
  destruct (is_reading (rs_state st)).
  { do 2 eexists. split; [reflexivity|]. split; [apply MI_set_err, M|]. discriminate. }
  destruct (rs_state st =? c_fragmentingReadComplete).
  { do 2 eexists. split; [reflexivity|]. split; [apply MI_set_err, M|]. discriminate. }
  assert (G : forall s, MI s ->
     MI (mkRst (if last then c_fragmentingReadInLastArgument else c_fragmentingReadInArgument) 0
           (rs_rem s) (rs_cur s) (rs_more s) (rs_in s) (rs_ck s) (rs_got s) (rs_rel s) (rs_fin s))).
  { intros s [A B C D]. constructor; prj; try assumption. destruct last; apply consts_distinct. }
  destruct (rs_state st =? c_fragmentingReadStart).
  - destruct (recv_MI st M) as (c & st' & R & M' & _). rewrite R.
    destruct (c =? 0) eqn:Ec.
    + do 2 eexists. split; [reflexivity|]. split; [apply G, M'|]. intros _. prj. destruct last; reflexivity.
    + do 2 eexists. split; [reflexivity|]. split; [exact M'|]. intros H. lia.
  - do 2 eexists. split; [reflexivity|]. split; [apply G, M|]. intros _. prj. destruct last; reflexivity.
Qed.

Lemma read_loop_MI : forall fuel n acc st, MI st ->
  exists bs c st', r_read_loop fuel n acc st = Some (bs, c, st') /\ MI st' /\ rs_state st' = rs_state st.
Proof.
  induction fuel as [|fuel IH]; intros n acc st M.
  - cbn [r_read_loop]. set (k := Z.min n (zlen (rs_cur st))).
    assert (M1 : MI (mkRst (rs_state st) (rs_err st) (rs_rem st) (skipn (Z.to_nat k) (rs_cur st)) (rs_more st)
                           (rs_in st) (rs_ck st) (rs_got st) (rs_rel st) (rs_fin st))).
    { destruct M as [A B C D]. constructor; prj; assumption. }
    prj. destruct (n - k =? 0); [do 3 eexists; split; [reflexivity|split; [exact M1|reflexivity]]|].
    destruct (rs_rem st); [|do 3 eexists; split; [reflexivity|split; [exact M1|reflexivity]]].
    destruct (negb (rs_more st)); do 3 eexists; (split; [reflexivity|split; [exact M1|reflexivity]]).
  - cbn [r_read_loop]. set (k := Z.min n (zlen (rs_cur st))).
    set (st1 := mkRst (rs_state st) (rs_err st) (rs_rem st) (skipn (Z.to_nat k) (rs_cur st)) (rs_more st)
                      (rs_in st) (rs_ck st) (rs_got st) (rs_rel st) (rs_fin st)).
    assert (M1 : MI st1). { destruct M as [A B C D]. constructor; unfold st1; prj; assumption. }
    destruct (n - k =? 0); [do 3 eexists; split; [reflexivity|split; [exact M1|reflexivity]]|].
    destruct (rs_rem st1) eqn:Er; [|do 3 eexists; split; [reflexivity|split; [exact M1|reflexivity]]].
    destruct (negb (rs_more st1)); [do 3 eexists; split; [reflexivity|split; [exact M1|reflexivity]]|].
    destruct (recv_MI st1 M1) as (c & st2 & R & M2 & S2). rewrite R.
    destruct (c =? 0).
    + destruct (IH (n - k) (acc ++ firstn (Z.to_nat k) (rs_cur st)) st2 M2) as (bs & c' & st' & RL & M' & S').
      rewrite RL. do 3 eexists. split; [reflexivity|]. split; [exact M'|]. rewrite S', S2. reflexivity.
    + do 3 eexists. split; [reflexivity|]. split; [exact M2|]. rewrite S2. reflexivity.
Qed.

Lemma read_MI n st : MI st ->
  exists bs c st', r_read n st = Some (bs, c, st') /\ MI st' /\ rs_state st' = rs_state st.
Proof.
  intros M. unfold r_read.
  destruct (negb (rs_err st =? 0)); [do 3 eexists; split; [reflexivity|split; [exact M|reflexivity]]|].
  destruct (negb (is_reading (rs_state st))).
  { do 3 eexists. split; [reflexivity|]. split; [apply MI_set_err, M|reflexivity]. }
  apply read_loop_MI, M.
Qed.

Lemma reads_MI : forall ns st, MI st ->
  exists l st', reads ns st = Some (l, st') /\ MI st' /\ rs_state st' = rs_state st.
Proof.
  induction ns as [|n ns IH]; intros st M; cbn [reads].
  - do 2 eexists. split; [reflexivity|]. split; [exact M|reflexivity].
  - destruct (read_MI n st M) as (bs & c & st1 & R & M1 & S1). rewrite R.
    destruct (IH st1 M1) as (l & st' & RS & M' & S'). rewrite RS.
    do 2 eexists. split; [reflexivity|]. split; [exact M'|]. congruence.
Qed.

Lemma close_next_MI : forall fuel st, MI st ->
  exists c st', r_close_next fuel st = Some (c, st') /\ MI st' /\ rs_state st' = rs_state st.
Proof.
  induction fuel as [|fuel IH]; intros st M; cbn [r_close_next].
  - destruct (rs_rem st) eqn:Er.
    + destruct (negb (rs_more st)); do 2 eexists; (split; [reflexivity|split; [apply MI_set_err, M|reflexivity]]).
    + do 2 eexists. split; [reflexivity|]. split; [|reflexivity]. destruct M as [A B C D]. constructor; prj; assumption.
  - destruct (rs_rem st) eqn:Er.
    + destruct (negb (rs_more st)); [do 2 eexists; split; [reflexivity|split; [apply MI_set_err, M|reflexivity]]|].
      destruct (recv_MI st M) as (c & st1 & R & M1 & S1). rewrite R.
      destruct (negb (c =? 0)); [do 2 eexists; split; [reflexivity|split; [exact M1|exact S1]]|].
      destruct (zlen (rs_cur st1) >? 0); [do 2 eexists; split; [reflexivity|split; [apply MI_set_err, M1|exact S1]]|].
      destruct (IH st1 M1) as (c' & st' & RC & M' & S'). rewrite RC.
      do 2 eexists. split; [reflexivity|]. split; [exact M'|congruence].
    + do 2 eexists. split; [reflexivity|]. split; [|reflexivity]. destruct M as [A B C D]. constructor; prj; assumption.
Qed.

(* Close never succeeds on the last argument (the more-fragments flag is still set),
   and never makes the reader Complete *)
Lemma close_MI st : MI st ->
  exists c st', r_close st = Some (c, st') /\ MI st' /\
                (rs_state st = c_fragmentingReadInLastArgument -> c <> 0).
Proof.
  intros M. unfold r_close.
  destruct (negb (rs_err st =? 0)) eqn:Ee.
  { do 2 eexists. split; [reflexivity|]. split; [exact M|]. intros _. lia. }
  destruct (negb (is_reading (rs_state st))).
  { do 2 eexists. split; [reflexivity|]. split; [apply MI_set_err, M|]. intros _; discriminate. }
  destruct (zlen (rs_cur st) >? 0).
  { do 2 eexists. split; [reflexivity|]. split; [apply MI_set_err, M|]. intros _; discriminate. }
  destruct (rs_state st =? c_fragmentingReadInLastArgument) eqn:El.
  - destruct (rs_rem st).
    + rewrite (mi_more _ M). do 2 eexists. split; [reflexivity|]. split; [apply MI_set_err, M|]. intros _; discriminate.
    + do 2 eexists. split; [reflexivity|]. split; [apply MI_set_err, M|]. intros _; discriminate.
  - set (st1 := mkRst c_fragmentingReadWaitingForArgument 0 (rs_rem st) (rs_cur st) (rs_more st) (rs_in st) (rs_ck st)
                      (rs_got st) (rs_rel st) (rs_fin st)).
    assert (M1 : MI st1). { destruct M as [A B C D]. constructor; unfold st1; prj; try assumption. apply consts_distinct. }
    destruct (close_next_MI (S (length (rs_in st1))) st1 M1) as (c & st' & R & M' & _).
    rewrite R. do 2 eexists. split; [reflexivity|]. split; [exact M'|]. intros H. lia.
Qed.

Lemma readall_MI bufsz : forall fuel acc st, MI st ->
  exists bs c st', r_readall fuel bufsz acc st = Some (bs, c, st') /\ MI st' /\ rs_state st' = rs_state st.
Proof.
  induction fuel as [|fuel IH]; intros acc st M; cbn [r_readall].
  - do 3 eexists. split; [reflexivity|]. split; [exact M|reflexivity].
  - destruct (read_MI bufsz st M) as (bs & c & st1 & R & M1 & S1). rewrite R.
    destruct (c =? 0).
    + destruct (IH (acc ++ bs) st1 M1) as (bs' & c' & st' & RA & M' & S'). rewrite RA.
      do 3 eexists. split; [reflexivity|]. split; [exact M'|congruence].
    + destruct (c =? 12); do 3 eexists; (split; [reflexivity|split; [exact M1|exact S1]]).
Qed.

Lemma helper_MI bufsz st : MI st ->
  exists bs c st', r_helper_read bufsz st = Some (bs, c, st') /\ MI st' /\
                   (rs_state st = c_fragmentingReadInLastArgument -> c <> 0).
Proof.
  intros M. unfold r_helper_read.
  destruct (readall_MI bufsz (S (Z.to_nat (total_bytes st)) + length (rs_in st) + 2) [] st M) as (bs & c & st1 & R & M1 & S1).
  rewrite R. destruct (negb (c =? 0)) eqn:Ec.
  { do 3 eexists. split; [reflexivity|]. split; [exact M1|]. intros _. lia. }
  destruct (read_MI 128 st1 M1) as (extra & c2 & st2 & R2 & M2 & S2). rewrite R2.
  destruct (zlen extra >? 0).
  { do 3 eexists. split; [reflexivity|]. split; [exact M2|]. intros _; discriminate. }
  destruct (negb (c2 =? 12) && negb (c2 =? 0)) eqn:E2.
  { do 3 eexists. split; [reflexivity|]. split; [exact M2|]. intros _. lia. }
  destruct (close_MI st2 M2) as (c3 & st3 & R3 & M3 & H3). rewrite R3.
  do 3 eexists. split; [reflexivity|]. split; [exact M3|]. intros H. apply H3. congruence.
Qed.

(* one argument read with arbitrary read sizes *)
Lemma arg_read_MI last ns st : MI st ->
  exists cb l cc st', arg_read last ns st = Some (cb, l, cc, st') /\ MI st' /\
                      (last = true -> ~ (cb = 0 /\ cc = 0)).
Proof.
  intros M. unfold arg_read.
  destruct (begin_MI last st M) as (cb & st1 & B & M1 & S1). rewrite B.
  destruct (reads_MI ns st1 M1) as (l & st2 & RS & M2 & S2). rewrite RS.
  destruct (close_MI st2 M2) as (cc & st3 & C & M3 & H3). rewrite C.
  do 4 eexists. split; [reflexivity|]. split; [exact M3|].
  intros -> [E1 E2]. apply H3; [|exact E2]. rewrite S2, (S1 E1). reflexivity.
Qed.

(* the caller's three helper reads on such an input end in an error *)
Lemma call_outcome_MI n1 n2 n3 fs : MI (r_init fs) -> call_outcome n1 n2 n3 fs = OErr.
Proof.
  intros M. unfold call_outcome.
  destruct (begin_MI false _ M) as (cb1 & s0 & B1 & M0 & _). rewrite B1.
  destruct (negb (cb1 =? 0)); [reflexivity|].
  destruct (helper_MI n1 s0 M0) as (a1 & c1 & s1 & H1 & M1 & _). rewrite H1.
  destruct (negb (c1 =? 0)); [reflexivity|].
  destruct (begin_MI false _ M1) as (cb2 & s1' & B2 & M1' & _). rewrite B2.
  destruct (negb (cb2 =? 0)); [reflexivity|].
  destruct (helper_MI n2 s1' M1') as (a2 & c2 & s2 & H2 & M2 & _). rewrite H2.
  destruct (negb (c2 =? 0)); [reflexivity|].
  destruct (begin_MI true _ M2) as (cb3 & s2' & B3 & M2' & S3). rewrite B3.
  destruct (negb (cb3 =? 0)) eqn:E3; [reflexivity|].
  destruct (helper_MI n3 s2' M2') as (a3 & c3 & s3 & H3 & M3 & N3). rewrite H3.
  destruct (negb (c3 =? 0)) eqn:E4; [reflexivity|].
  exfalso. apply N3; [|lia]. apply S3. lia.
Qed.

(* a proper prefix of a well-formed fragment sequence has the flag set everywhere *)
Lemma fr_ok_prefix_more : forall fs k, fr_ok fs -> (k < length fs)%nat -> all_more (firstn k fs).
Proof.
  induction fs as [|f r IH]; intros k H Hk; [cbn in Hk; lia|].
  destruct k as [|k]; [constructor|]. cbn [firstn]. cbn [fr_ok] in H. destruct H as (_ & Hm & Hr).
  cbn [length] in Hk. constructor.
  - apply Hm. destruct r; [cbn in Hk; lia|discriminate].
  - apply IH; [exact Hr|lia].
Qed.

Lemma MI_init_prefix fs ck0 k :
  wf fs -> ck_new (first_ctype fs) = Some ck0 -> (k < length fs)%nat -> MI (r_init (firstn k fs)).
Proof.
  intros [capf [Hne Hfr]] Hck Hk. constructor; unfold r_init; prj.
  - reflexivity.
  - apply fr_ok_prefix_more; [exact (frames_ok_from_fr_ok _ _ _ Hfr)|exact Hk].
  - apply consts_distinct.
  - unfold ck_safe. prj. destruct fs as [|f r]; [congruence|]. destruct k; [exact I|]. cbn [firstn].
    cbn [first_ctype] in Hck. congruence.
Qed.

(* ================================================================== *)
(* Part 2: the run on a prefix is simulated by the run on the whole    *)
(* ================================================================== *)
(* the same reader state with [post] still to be delivered *)
Definition ext (post : list frag) (s : rst) : rst :=
  mkRst (rs_state s) (rs_err s) (rs_rem s) (rs_cur s) (rs_more s) (rs_in s ++ post) (rs_ck s) (rs_got s) (rs_rel s) (rs_fin s).

Definition lift2 (post : list frag) (r : option (Z * rst)) : option (Z * rst) :=
  match r with None => None | Some (c, s) => Some (c, ext post s) end.
Definition lift3 (post : list frag) (r : option (list Z * Z * rst)) : option (list Z * Z * rst) :=
  match r with None => None | Some (b, c, s) => Some (b, c, ext post s) end.

(* the prefix ran dry: receiver error 9, now sticky *)
Definition cut2 (r : option (Z * rst)) : Prop := exists s', r = Some (9, s') /\ rs_err s' = 9.

Lemma ext_set_err post s e : ext post (rset_err s e) = rset_err (ext post s) e.
Proof. reflexivity. Qed.

Lemma recv_ext post s : rs_err s <> 0 \/ rs_in s <> [] -> r_recv (ext post s) = lift2 post (r_recv s).
Proof.
  intros H. destruct s as [st e rem cur more inn ck got rel fin]. unfold ext, r_recv. prj_all.
  destruct (negb (e =? 0)) eqn:Ee; [reflexivity|].
  destruct inn as [|f rest]; [exfalso; destruct H as [H|H]; [lia|congruence]|].
  cbn [app].
  destruct (match ck with Some c => Some c | None => ck_new (f_ctype f) end) as [c|]; [|reflexivity].
  destruct (negb (ck_typecode c =? f_ctype f) && match ck with Some _ => true | None => false end); [reflexivity|].
  destruct (negb (bytes_eqb (f_ck f) (ck_sum (fold_left ck_add (f_chunks f) c)))); [reflexivity|].
  destruct (f_chunks f); reflexivity.
Qed.

Lemma recv_cut s : rs_err s = 0 -> rs_in s = [] -> cut2 (r_recv s).
Proof.
  intros He Hi. destruct s as [st e rem cur more inn ck got rel fin]. prj_all. subst e inn.
  unfold r_recv. prj. cbn [Z.eqb negb]. eexists. split; [reflexivity|reflexivity].
Qed.

(* a successful receive consumes one fragment *)
Lemma recv_in_len s s' : r_recv s = Some (0, s') -> (length (rs_in s') < length (rs_in s))%nat.
Proof.
  destruct s as [st e rem cur more inn ck got rel fin]. unfold r_recv. prj.
  destruct (negb (e =? 0)) eqn:Ee; [intros H; injection H as H1 _; lia|].
  destruct inn as [|f rest]; [intros H; discriminate H|].
  destruct (match ck with Some c => Some c | None => ck_new (f_ctype f) end) as [c|]; [|discriminate].
  destruct (negb (ck_typecode c =? f_ctype f) && match ck with Some _ => true | None => false end); [intros H; discriminate H|].
  destruct (negb (bytes_eqb (f_ck f) (ck_sum (fold_left ck_add (f_chunks f) c)))); [intros H; discriminate H|].
  destruct (f_chunks f); [intros H; discriminate H|].
  intros H. injection H as <-. prj. cbn [length]. lia.
Qed.

Lemma dec_in s : (rs_err s <> 0 \/ rs_in s <> []) \/ (rs_err s = 0 /\ rs_in s = []).
Proof. destruct (Z.eq_dec (rs_err s) 0); destruct (rs_in s); auto; left; right; discriminate. Qed.

Lemma begin_ext post last s :
  r_begin last (ext post s) = lift2 post (r_begin last s) \/ cut2 (r_begin last s).
Proof.
  unfold r_begin. change (rs_err (ext post s)) with (rs_err s). change (rs_state (ext post s)) with (rs_state s).
  destruct (negb (rs_err s =? 0)) eqn:Ee; [left; reflexivity|].
  destruct (is_reading (rs_state s)); [left; reflexivity|].
  destruct (rs_state s =? c_fragmentingReadComplete); [left; reflexivity|].
  destruct (rs_state s =? c_fragmentingReadStart); [|left; reflexivity].
  destruct (dec_in s) as [H|[He Hi]].
  - left. rewrite (recv_ext post s H). destruct (r_recv s) as [[c s']|]; [|reflexivity].
    cbn [lift2]. destruct (c =? 0); reflexivity.
  - right. destruct (recv_cut s He Hi) as (s' & R & E). rewrite R. cbn [Z.eqb]. exists s'. split; [reflexivity|exact E].
Qed.

(* the bytes returned by the read loop extend the accumulator *)
Lemma read_loop_acc : forall fuel n acc s bs c s',
  r_read_loop fuel n acc s = Some (bs, c, s') -> exists more, bs = acc ++ more.
Proof.
  induction fuel as [|fuel IH]; intros n acc s bs c s'; cbn [r_read_loop]; prj;
    set (k := Z.min n (zlen (rs_cur s))); set (got := firstn (Z.to_nat k) (rs_cur s)).
  - destruct (n - k =? 0); [intros H; injection H as <- _ _; eexists; reflexivity|].
    destruct (rs_rem s); [|intros H; injection H as <- _ _; eexists; reflexivity].
    destruct (negb (rs_more s)); intros H; injection H as <- _ _; eexists; reflexivity.
  - destruct (n - k =? 0); [intros H; injection H as <- _ _; eexists; reflexivity|].
    destruct (rs_rem s); [|intros H; injection H as <- _ _; eexists; reflexivity].
    destruct (negb (rs_more s)); [intros H; injection H as <- _ _; eexists; reflexivity|].
    match goal with |- match ?r with _ => _ end = _ -> _ => destruct r as [[c2 s2]|] end; [|discriminate].
    destruct (c2 =? 0).
    + intros H. destruct (IH _ _ _ _ _ _ H) as [more ->]. exists (got ++ more). rewrite app_assoc. reflexivity.
    + intros H; injection H as <- _ _; eexists; reflexivity.
Qed.

Definition cut3 (rC rF : option (list Z * Z * rst)) : Prop :=
  exists bs s', rC = Some (bs, 9, s') /\ rs_err s' = 9 /\
                forall bsF cF sF, rF = Some (bsF, cF, sF) -> exists more, bsF = bs ++ more.

Lemma read_loop_ext post : forall fuelC n acc s fuelF,
  (length (rs_in s) < fuelC)%nat -> (length (rs_in s ++ post) < fuelF)%nat ->
  r_read_loop fuelF n acc (ext post s) = lift3 post (r_read_loop fuelC n acc s) \/
  cut3 (r_read_loop fuelC n acc s) (r_read_loop fuelF n acc (ext post s)).
Proof.
  induction fuelC as [|fuelC IH]; intros n acc s fuelF HC HF; [lia|].
  destruct fuelF as [|fuelF]; [lia|].
  destruct s as [st e rem cur more inn ck got0 rel fin]. prj_all.
  unfold ext at 1 2. prj. cbn [r_read_loop]. prj.
  set (k := Z.min n (zlen cur)). set (got := firstn (Z.to_nat k) cur).
  destruct (n - k =? 0); [left; reflexivity|].
  destruct rem as [|rc rcs]; [|left; reflexivity].
  destruct (negb more); [left; reflexivity|].
  set (s1 := mkRst st e [] (skipn (Z.to_nat k) cur) more inn ck got0 rel fin).
  change (mkRst st e [] (skipn (Z.to_nat k) cur) more (inn ++ post) ck got0 rel fin) with (ext post s1).
  destruct (dec_in s1) as [H|[He Hi]].
  - rewrite (recv_ext post s1 H). destruct (r_recv s1) as [[c s2]|] eqn:R; [|left; reflexivity].
    cbn [lift2]. destruct (c =? 0) eqn:Ec; [|left; reflexivity].
    assert (c = 0) by lia. subst c. pose proof (recv_in_len _ _ R) as L. unfold s1 in L. prj_in L.
    destruct (IH (n - k) (acc ++ got) s2 fuelF) as [E|Cu].
    + lia.
    + rewrite app_length in *. lia.
    + left. exact E.
    + right. exact Cu.
  - right. destruct (recv_cut s1 He Hi) as (s' & R & E). rewrite R. cbn [Z.eqb].
    exists (acc ++ got), s'. split; [reflexivity|]. split; [exact E|].
    intros bsF cF sF. destruct (r_recv (ext post s1)) as [[c2 s2]|]; [|discriminate].
    destruct (c2 =? 0).
    + intros HL. apply read_loop_acc in HL. exact HL.
    + intros HL. injection HL as <- _ _. exists []. rewrite app_nil_r. reflexivity.
Qed.

Lemma read_ext post n s :
  r_read n (ext post s) = lift3 post (r_read n s) \/ cut3 (r_read n s) (r_read n (ext post s)).
Proof.
  unfold r_read. change (rs_err (ext post s)) with (rs_err s). change (rs_state (ext post s)) with (rs_state s).
  destruct (negb (rs_err s =? 0)); [left; reflexivity|].
  destruct (negb (is_reading (rs_state s))); [left; reflexivity|].
  change (rs_in (ext post s)) with (rs_in s ++ post).
  apply read_loop_ext; lia.
Qed.

Definition liftl (post : list frag) (r : option (list (list Z * Z) * rst)) : option (list (list Z * Z) * rst) :=
  match r with None => None | Some (l, s) => Some (l, ext post s) end.

Lemma data_of_cons bs c l : data_of ((bs, c) :: l) = bs ++ data_of l.
Proof. reflexivity. Qed.

Lemma data_of_err e ns : data_of (map (fun _ : Z => (@nil Z, e)) ns) = [].
Proof. induction ns as [|? ? IH]; [reflexivity|]. unfold data_of in *. cbn [map fst concat app]. exact IH. Qed.

Definition cutl (rC rF : option (list (list Z * Z) * rst)) : Prop :=
  exists l s', rC = Some (l, s') /\ rs_err s' = 9 /\ ~ Forall code_ok l /\
               forall lF sF, rF = Some (lF, sF) -> exists more, data_of lF = data_of l ++ more.

Lemma reads_ext post : forall ns s,
  reads ns (ext post s) = liftl post (reads ns s) \/ cutl (reads ns s) (reads ns (ext post s)).
Proof.
  induction ns as [|n ns IH]; intros s; cbn [reads]; [left; reflexivity|].
  destruct (read_ext post n s) as [E|(bs & s' & RC & Es & P)].
  - rewrite E. destruct (r_read n s) as [[[bs c] s1]|]; [|left; reflexivity]. cbn [lift3].
    destruct (IH s1) as [E1|(l & s' & RC & Es & Nl & P)].
    + left. rewrite E1. destruct (reads ns s1) as [[l s2]|]; reflexivity.
    + right. rewrite RC. exists ((bs, c) :: l), s'. split; [reflexivity|]. split; [exact Es|]. split.
      * intros F. apply Nl. exact (Forall_inv_tail F).
      * intros lF sF. destruct (reads ns (ext post s1)) as [[l2 s2]|]; [|discriminate].
        intros H. injection H as <- _. destruct (P l2 s2 eq_refl) as [more Hm].
        exists more. rewrite !data_of_cons, Hm, app_assoc. reflexivity.
  - right. rewrite RC. rewrite (reads_err 9 ns s' Es ltac:(lia)).
    eexists _, s'. split; [reflexivity|]. split; [exact Es|]. split.
    + intros F. pose proof (Forall_inv F) as [H|H]; cbn in H; discriminate.
    + intros lF sF. destruct (r_read n (ext post s)) as [[[bsF cF] s1F]|]; [|discriminate].
      destruct (P bsF cF s1F eq_refl) as [more ->].
      destruct (reads ns s1F) as [[l2 s2]|]; [|discriminate].
      intros H. injection H as <- _. exists (more ++ data_of l2).
      rewrite !data_of_cons, data_of_err, app_nil_r, app_assoc. reflexivity.
Qed.

Lemma close_next_ext post : forall fuelC s fuelF,
  (length (rs_in s) < fuelC)%nat -> (length (rs_in s ++ post) < fuelF)%nat ->
  r_close_next fuelF (ext post s) = lift2 post (r_close_next fuelC s) \/ cut2 (r_close_next fuelC s).
Proof.
  induction fuelC as [|fuelC IH]; intros s fuelF HC HF; [lia|].
  destruct fuelF as [|fuelF]; [lia|].
  cbn [r_close_next].
  change (rs_rem (ext post s)) with (rs_rem s). change (rs_more (ext post s)) with (rs_more s).
  destruct (rs_rem s); [|left; reflexivity].
  destruct (negb (rs_more s)); [left; reflexivity|].
  destruct (dec_in s) as [H|[He Hi]].
  - rewrite (recv_ext post s H). destruct (r_recv s) as [[c s2]|] eqn:R; [|left; reflexivity].
    cbn [lift2]. destruct (negb (c =? 0)) eqn:Ec; [left; reflexivity|].
    change (rs_cur (ext post s2)) with (rs_cur s2).
    destruct (zlen (rs_cur s2) >? 0); [left; reflexivity|].
    assert (c = 0) by lia. subst c. pose proof (recv_in_len _ _ R) as L.
    apply IH; [lia|]. change (rs_in (ext post s2)) with (rs_in s2 ++ post). rewrite app_length in *. lia.
  - right. destruct (recv_cut s He Hi) as (s' & R & E). rewrite R. cbn [Z.eqb negb]. exists s'. split; [reflexivity|exact E].
Qed.

Lemma close_ext post s : r_close (ext post s) = lift2 post (r_close s) \/ cut2 (r_close s).
Proof.
  unfold r_close. change (rs_err (ext post s)) with (rs_err s). change (rs_state (ext post s)) with (rs_state s).
  change (rs_cur (ext post s)) with (rs_cur s). change (rs_rem (ext post s)) with (rs_rem s).
  change (rs_more (ext post s)) with (rs_more s).
  destruct (negb (rs_err s =? 0)); [left; reflexivity|].
  destruct (negb (is_reading (rs_state s))); [left; reflexivity|].
  destruct (zlen (rs_cur s) >? 0); [left; reflexivity|].
  destruct (rs_state s =? c_fragmentingReadInLastArgument).
  - destruct (rs_rem s); [|left; reflexivity]. destruct (rs_more s); left; reflexivity.
  - change (rs_in (ext post s)) with (rs_in s ++ post). change (rs_ck (ext post s)) with (rs_ck s).
    change (rs_got (ext post s)) with (rs_got s). change (rs_rel (ext post s)) with (rs_rel s).
    change (rs_fin (ext post s)) with (rs_fin s).
    set (s1 := mkRst c_fragmentingReadWaitingForArgument 0 (rs_rem s) (rs_cur s) (rs_more s) (rs_in s) (rs_ck s)
                     (rs_got s) (rs_rel s) (rs_fin s)).
    change (mkRst c_fragmentingReadWaitingForArgument 0 (rs_rem s) (rs_cur s) (rs_more s) (rs_in s ++ post) (rs_ck s)
                  (rs_got s) (rs_rel s) (rs_fin s)) with (ext post s1).
    apply close_next_ext; [lia|]. change (rs_in (ext post s1)) with (rs_in s1 ++ post). lia.
Qed.

Definition lift4 (post : list frag) (r : option (Z * list (list Z * Z) * Z * rst)) :=
  match r with None => None | Some (cb, l, cc, s) => Some (cb, l, cc, ext post s) end.

Definition cut4 (rC rF : option (Z * list (list Z * Z) * Z * rst)) : Prop :=
  exists cb l cc s', rC = Some (cb, l, cc, s') /\ rs_err s' = 9 /\ ~ arg_ok cb l cc /\
     forall cbF lF ccF sF, rF = Some (cbF, lF, ccF, sF) -> exists more, data_of lF = data_of l ++ more.

Lemma close_err s e : rs_err s = e -> e <> 0 -> r_close s = Some (e, s).
Proof. intros He Hne. unfold r_close. rewrite He. replace (negb (e =? 0)) with true by lia. reflexivity. Qed.

Lemma arg_read_ext post last ns s :
  arg_read last ns (ext post s) = lift4 post (arg_read last ns s) \/
  cut4 (arg_read last ns s) (arg_read last ns (ext post s)).
Proof.
  unfold arg_read.
  destruct (begin_ext post last s) as [E|(s' & RC & Es)].
  2:{ right. rewrite RC. rewrite (reads_err 9 ns s' Es ltac:(lia)), (close_err s' 9 Es ltac:(lia)).
      do 4 eexists. split; [reflexivity|]. split; [exact Es|]. split; [intros (H & _); discriminate H|].
      intros cbF lF ccF sF _. exists (data_of lF). rewrite data_of_err. reflexivity. }
  rewrite E. destruct (r_begin last s) as [[cb s1]|]; [|left; reflexivity]. cbn [lift2].
  destruct (reads_ext post ns s1) as [E1|(l & s' & RC & Es & Nl & P)].
  2:{ right. rewrite RC, (close_err s' 9 Es ltac:(lia)).
      do 4 eexists. split; [reflexivity|]. split; [exact Es|]. split; [intros (_ & H & _); exact (Nl H)|].
      intros cbF lF ccF sF. destruct (reads ns (ext post s1)) as [[l2 s2]|]; [|discriminate].
      destruct (r_close s2) as [[c3 s3]|]; [|discriminate]. intros H. injection H as _ <- _ _. exact (P l2 s2 eq_refl). }
  rewrite E1. destruct (reads ns s1) as [[l s2]|]; [|left; reflexivity]. cbn [liftl].
  destruct (close_ext post s2) as [E2|(s' & RC & Es)].
  2:{ right. rewrite RC. do 4 eexists. split; [reflexivity|]. split; [exact Es|]. split; [intros (_ & _ & H); discriminate H|].
      intros cbF lF ccF sF. destruct (r_close (ext post s2)) as [[c3 s3]|]; [|discriminate].
      intros H. injection H as _ <- _ _. exists []. rewrite app_nil_r. reflexivity. }
  left. rewrite E2. destruct (r_close s2) as [[cc s3]|]; reflexivity.
Qed.

(* one argument of the cut run against the same argument of the full run *)
Lemma step_sim post last ns sC sF a cbF lF ccF sF' cb l cc sC' :
  sF = ext post sC ->
  arg_read last ns sF = Some (cbF, lF, ccF, sF') ->
  (exists r, a = data_of lF ++ r) -> (arg_ok cbF lF ccF -> data_of lF = a) ->
  arg_read last ns sC = Some (cb, l, cc, sC') ->
  (exists r, a = data_of l ++ r) /\ (arg_ok cb l cc -> data_of l = a) /\
  (sF' = ext post sC' \/ rs_err sC' = 9).
Proof.
  intros -> HF [r Hr] HokF HC.
  destruct (arg_read_ext post last ns sC) as [E|(cb' & l' & cc' & s' & RC & Es & Nok & P)].
  - rewrite HC in E. cbn [lift4] in E. rewrite E in HF. injection HF as <- <- <- <-.
    split; [exists r; exact Hr|]. split; [exact HokF|]. left; reflexivity.
  - rewrite HC in RC. injection RC as <- <- <- <-.
    destruct (P _ _ _ _ HF) as [more Hm].
    split; [exists (more ++ r); rewrite Hr, Hm, app_assoc; reflexivity|].
    split; [intros H; destruct (Nok H)|]. right; exact Es.
Qed.

Lemma after_cut last ns s a cb l cc s' :
  rs_err s = 9 -> arg_read last ns s = Some (cb, l, cc, s') ->
  (exists r, a = data_of l ++ r) /\ (arg_ok cb l cc -> data_of l = a) /\ rs_err s' = 9.
Proof.
  intros He H. rewrite (arg_read_err last ns s 9 He ltac:(lia)) in H. injection H as <- <- <- <-.
  rewrite data_of_err. split; [exists a; reflexivity|]. split; [intros (H & _); discriminate H|exact He].
Qed.

(* THE READER ON A PROPER PREFIX OF THE FRAGMENTS (any cut between two fragments), any read
   sizes: no panic; the three arguments are never all read successfully and the reader never
   becomes Complete; an argument read without error is exactly the argument that was sent;
   whatever data is handed out is a prefix of the right argument. *)
Theorem cut_reader_safe : forall fs ck0 a1 a2 a3,
  wf fs -> ck_new (first_ctype fs) = Some ck0 -> ck_chain ck0 fs ->
  denote (chunks_of fs) = [a1; a2; a3] ->
  forall k, (k < length fs)%nat ->
  forall ns1 ns2 ns3,
  Forall (fun n => 0 <= n) ns1 -> Forall (fun n => 0 <= n) ns2 -> Forall (fun n => 0 <= n) ns3 ->
  exists cb1 l1 cc1 st1 cb2 l2 cc2 st2 cb3 l3 cc3 st3,
    arg_read false ns1 (r_init (firstn k fs)) = Some (cb1, l1, cc1, st1) /\
    arg_read false ns2 st1 = Some (cb2, l2, cc2, st2) /\
    arg_read true ns3 st2 = Some (cb3, l3, cc3, st3) /\
    ~ (arg_ok cb1 l1 cc1 /\ arg_ok cb2 l2 cc2 /\ arg_ok cb3 l3 cc3) /\
    rs_state st3 <> c_fragmentingReadComplete /\
    (arg_ok cb1 l1 cc1 -> data_of l1 = a1) /\ (arg_ok cb2 l2 cc2 -> data_of l2 = a2) /\
    (exists r1, a1 = data_of l1 ++ r1) /\ (exists r2, a2 = data_of l2 ++ r2) /\ (exists r3, a3 = data_of l3 ++ r3).
Proof.
  intros fs ck0 a1 a2 a3 Hwf Hck Hchain Hden k Hk ns1 ns2 ns3 Hp1 Hp2 Hp3.
  pose proof (MI_init_prefix fs ck0 k Hwf Hck Hk) as M0.
  destruct (arg_read_MI false ns1 _ M0) as (cb1 & l1 & cc1 & st1 & A1 & M1 & _).
  destruct (arg_read_MI false ns2 _ M1) as (cb2 & l2 & cc2 & st2 & A2 & M2 & _).
  destruct (arg_read_MI true ns3 _ M2) as (cb3 & l3 & cc3 & st3 & A3 & M3 & N3).
  exists cb1, l1, cc1, st1, cb2, l2, cc2, st2, cb3, l3, cc3, st3.
  split; [exact A1|]. split; [exact A2|]. split; [exact A3|].
  split. { intros (_ & _ & (H1 & _ & H2)). exact (N3 eq_refl (conj H1 H2)). }
  split; [exact (mi_state _ M3)|].
  destruct (reader_safe fs ck0 a1 a2 a3 Hwf Hck Hchain Hden ns1 ns2 ns3 Hp1 Hp2 Hp3)
    as (fb1 & fl1 & fc1 & ft1 & fb2 & fl2 & fc2 & ft2 & fb3 & fl3 & fc3 & ft3 & F1 & F2 & F3 & O1 & O2 & O3 & P1 & P2 & P3 & _).
  set (post := skipn k fs).
  assert (E0 : r_init fs = ext post (r_init (firstn k fs))).
  { unfold ext, r_init, post. prj. rewrite firstn_skipn. reflexivity. }
  destruct (step_sim post false ns1 _ _ a1 _ _ _ _ _ _ _ _ E0 F1 P1 O1 A1) as (Q1 & R1 & [E1|C1]).
  - destruct (step_sim post false ns2 _ _ a2 _ _ _ _ _ _ _ _ E1 F2 P2 O2 A2) as (Q2 & R2 & [E2|C2]).
    + destruct (step_sim post true ns3 _ _ a3 _ _ _ _ _ _ _ _ E2 F3 P3 O3 A3) as (Q3 & R3 & _).
      split; [exact R1|]. split; [exact R2|]. split; [exact Q1|]. split; [exact Q2|exact Q3].
    + destruct (after_cut true ns3 st2 a3 _ _ _ _ C2 A3) as (Q3 & _ & _).
      split; [exact R1|]. split; [exact R2|]. split; [exact Q1|]. split; [exact Q2|exact Q3].
  - destruct (after_cut false ns2 st1 a2 _ _ _ _ C1 A2) as (Q2 & R2 & C2).
    destruct (after_cut true ns3 st2 a3 _ _ _ _ C2 A3) as (Q3 & _ & _).
    split; [exact R1|]. split; [exact R2|]. split; [exact Q1|]. split; [exact Q2|exact Q3].
Qed.

(* the caller's three helper reads (raw.Call / ReadArgsV2): error on every proper prefix,
   exactly the arguments on the whole sequence *)
Lemma call_outcome_helper n1 n2 n3 fs a1 a2 a3 st1 st2 st3 :
  arg_helper false n1 (r_init fs) = Some (0, a1, 0, st1) ->
  arg_helper false n2 st1 = Some (0, a2, 0, st2) ->
  arg_helper true n3 st2 = Some (0, a3, 0, st3) ->
  call_outcome n1 n2 n3 fs = OOk [a1; a2; a3].
Proof.
  unfold arg_helper, call_outcome. intros H1 H2 H3.
  destruct (r_begin false (r_init fs)) as [[cb1 s0]|]; [|discriminate].
  destruct (r_helper_read n1 s0) as [[[b1 c1] s1]|]; [|discriminate]. injection H1 as -> -> -> ->. cbn [Z.eqb negb].
  destruct (r_begin false st1) as [[cb2 s1']|]; [|discriminate].
  destruct (r_helper_read n2 s1') as [[[b2 c2] s2]|]; [|discriminate]. injection H2 as -> -> -> ->. cbn [Z.eqb negb].
  destruct (r_begin true st2) as [[cb3 s2']|]; [|discriminate].
  destruct (r_helper_read n3 s2') as [[[b3 c3] s3]|]; [|discriminate]. injection H3 as -> -> -> ->. reflexivity.
Qed.

Theorem cut_call_outcome : forall fs ck0 a1 a2 a3,
  wf fs -> ck_new (first_ctype fs) = Some ck0 -> ck_chain ck0 fs ->
  denote (chunks_of fs) = [a1; a2; a3] ->
  forall n1 n2 n3, 0 < n1 -> 0 < n2 -> 0 < n3 ->
  forall k, (k <= length fs)%nat ->
  call_outcome n1 n2 n3 (firstn k fs) = if (k <? length fs)%nat then OErr else OOk [a1; a2; a3].
Proof.
  intros fs ck0 a1 a2 a3 Hwf Hck Hchain Hden n1 n2 n3 H1 H2 H3 k Hk.
  destruct (k <? length fs)%nat eqn:E.
  - apply call_outcome_MI. apply (MI_init_prefix fs ck0 k Hwf Hck). apply Nat.ltb_lt, E.
  - apply Nat.ltb_ge in E. rewrite firstn_all2 by lia.
    destruct (reader_helper fs ck0 a1 a2 a3 Hwf Hck Hchain Hden n1 n2 n3 H1 H2 H3) as (st1 & st2 & st3 & A1 & A2 & A3 & _).
    exact (call_outcome_helper _ _ _ _ _ _ _ _ _ _ A1 A2 A3).
Qed.

(* ================================================================== *)
(* Part 3: the byte stream                                             *)
(* ================================================================== *)
(* a frame on the wire: type, id, payload *)
Definition wframe : Type := (Z * Z * list Z)%type.
Definition wframe_ok (f : wframe) : Prop :=
  let '(t, id, p) := f in u_ok 1 t /\ u_ok 4 id /\ zlen p <= 65519.
Definition wframe_bytes (f : wframe) : list Z := let '(t, id, p) := f in s_frame t id p.
Definition stream_of (frs : list wframe) : list Z := flat_map wframe_bytes frs.
Definition hp_of (f : wframe) : fheader * list Z := let '(t, id, p) := f in (mkFH (16 + zlen p) t 0 id, p).

Lemma s_frame_length t id p : length (s_frame t id p) = (16 + length p)%nat.
Proof. rewrite s_frame_split, app_length, hdr_length. reflexivity. Qed.

(* readFrames on the first n bytes of a stream of well-formed frames returns exactly the
   frames that lie completely inside those n bytes: all of them iff nothing was cut off *)
Lemma read_frames_cut : forall frs, Forall wframe_ok frs ->
  forall n fuel, (n <= length (stream_of frs))%nat -> (n < fuel)%nat ->
  exists k, (k <= length frs)%nat /\
            fst (read_frames fuel (firstn n (stream_of frs))) = map hp_of (firstn k frs) /\
            ((n < length (stream_of frs))%nat -> (k < length frs)%nat) /\
            (n = length (stream_of frs) -> k = length frs).
Proof.
  induction frs as [|f r IH]; intros Hok n fuel Hn Hf.
  - cbn in Hn. assert (n = O) by lia. subst n. destruct fuel; [lia|]. exists O. cbn. repeat split; lia.
  - destruct f as [[t id] p]. pose proof (Forall_inv Hok) as (Ht & Hid & Hp). pose proof (Forall_inv_tail Hok) as Hr.
    unfold stream_of in *. cbn [flat_map wframe_bytes] in *. fold (stream_of r) in *.
    set (A := s_frame t id p) in *. pose proof (s_frame_length t id p) as LA. fold A in LA.
    rewrite app_length in Hn. destruct fuel as [|fuel]; [lia|].
    destruct (le_lt_dec (length A) n) as [Hge|Hlt].
    + (* the first frame is complete *)
      rewrite firstn_app, (firstn_all2 A) by lia.
      destruct (IH Hr (n - length A)%nat fuel) as (k & Hk & E & Hl & He); [lia|lia|].
      exists (S k). cbn [read_frames].
      destruct (A ++ firstn (n - length A) (stream_of r)) as [|x xs] eqn:Es.
      { apply (f_equal (@length Z)) in Es. rewrite app_length in Es. cbn in Es. lia. }
      rewrite <- Es. unfold A. rewrite (frame_read_in_spec t id p _ Ht Hid Hp). cbn [Z.eqb].
      destruct (read_frames fuel (firstn (n - length (s_frame t id p)) (stream_of r))) as [l c] eqn:ER.
      fold A in ER. rewrite ER in E. cbn [fst] in *. cbn [length firstn map hp_of]. rewrite E.
      split; [lia|]. split; [reflexivity|]. rewrite app_length. fold A. split; intros H.
      * assert (H' : (n - length A < length (stream_of r))%nat) by lia. apply Hl in H'. lia.
      * rewrite He; lia.
    + (* the cut is inside the first frame *)
      exists O. replace (n - length A)%nat with O by lia.
      rewrite firstn_app. replace (n - length A)%nat with O by lia. cbn [firstn]. rewrite app_nil_r.
      cbn [length map firstn]. split; [lia|]. split; [|split; [intros _; lia|rewrite app_length; lia]].
      cbn [read_frames]. destruct (firstn n A) as [|x xs] eqn:Ep; [reflexivity|].
      rewrite <- Ep.
      assert (SP : strict_prefix (firstn n A) (s_frame t id p)).
      { exists (skipn n A). split; [|fold A; symmetry; apply firstn_skipn].
        intros H. apply (f_equal (@length Z)) in H. rewrite skipn_length in H. cbn [length] in H. lia. }
      pose proof (frame_read_in_prefix t id p _ Ht Hid Hp SP) as C.
      destruct (frame_read_in (firstn n A)) as [[[code h] p'] rest]. cbn [fst] in C. subst code. reflexivity.
Qed.

(* the frames of one message: the first with the initial message type and header, the
   others continuation frames *)
Fixpoint msg_frames (initial : bool) (mt0 mtc id : Z) (hdr0 : list Z) (fs : list frag) : list wframe :=
  match fs with
  | [] => []
  | f :: r => (if initial then mt0 else mtc, id, enc_frag_payload (if initial then hdr0 else []) f)
              :: msg_frames false mt0 mtc id hdr0 r
  end.

Lemma firstn_msg_frames mt0 mtc id hdr0 : forall k i fs,
  firstn k (msg_frames i mt0 mtc id hdr0 fs) = msg_frames i mt0 mtc id hdr0 (firstn k fs).
Proof.
  induction k as [|k IH]; intros i fs; [reflexivity|]. destruct fs as [|f r]; [reflexivity|].
  cbn [msg_frames firstn]. rewrite IH. reflexivity.
Qed.

Lemma msg_frames_length mt0 mtc id hdr0 : forall i fs, length (msg_frames i mt0 mtc id hdr0 fs) = length fs.
Proof. intros i fs; revert i. induction fs as [|f r IH]; intros i; [reflexivity|]. cbn [msg_frames length]. rewrite IH. reflexivity. Qed.

(* what parseInboundFragment needs of a fragment's fields *)
Definition frag_wire_ok (f : frag) : Prop :=
  0 <= f_ctype f < c_checksumCount /\ zlen (f_ck f) = ChecksumSize (f_ctype f) /\
  zlen (enc_chunks (f_chunks f)) <= 65535.

(* the message header [hdr] is what the message of type [mt] reads *)
Definition hdr_parses (mt : Z) (hdr : list Z) : Prop :=
  forall rest,
    (if mt =? c_messageTypeCallReq then snd (r_callreq (rb (hdr ++ rest)))
     else if mt =? c_messageTypeCallRes then snd (r_callres (rb (hdr ++ rest))) else rb (hdr ++ rest)) = rb rest.

Lemma hdr_parses_callres m : callres_ok m -> hdr_parses c_messageTypeCallRes (spec_callres m).
Proof.
  intros H rest. replace (c_messageTypeCallRes =? c_messageTypeCallReq) with false by reflexivity.
  rewrite Z.eqb_refl. destruct (r_callres_consumes m H) as [C _]. rewrite C. reflexivity.
Qed.

Lemma hdr_parses_callreq m ttl : callreq_ok m ttl -> hdr_parses c_messageTypeCallReq (spec_callreq m ttl).
Proof.
  intros H rest. rewrite Z.eqb_refl. destruct (r_callreq_consumes m ttl H) as [C _]. rewrite C. reflexivity.
Qed.

Lemma hdr_parses_cont mt : mt <> c_messageTypeCallReq -> mt <> c_messageTypeCallRes -> hdr_parses mt [].
Proof.
  intros H1 H2 rest. replace (mt =? c_messageTypeCallReq) with false by lia.
  replace (mt =? c_messageTypeCallRes) with false by lia. reflexivity.
Qed.

Lemma headers_parse :
  (forall m, callres_ok m -> hdr_parses c_messageTypeCallRes (spec_callres m)) /\
  (forall m ttl, callreq_ok m ttl -> hdr_parses c_messageTypeCallReq (spec_callreq m ttl)) /\
  hdr_parses c_messageTypeCallResContinue [] /\ hdr_parses c_messageTypeCallReqContinue [].
Proof.
  split; [exact hdr_parses_callres|]. split; [exact hdr_parses_callreq|].
  split; apply hdr_parses_cont; discriminate.
Qed.

Lemma parse_tail_ok f : frag_wire_ok f ->
  parse_frag_tail (if f_more f then c_hasMoreFragmentsFlag else 0)
                  (rb ([f_ctype f] ++ f_ck f ++ enc_chunks (f_chunks f))) = (0, f).
Proof.
  intros (Ht & Hck & Hsz).
  pose proof (parse_frag_roundtrip f (or_intror I) Ht Hck Hsz) as R.
  unfold parse_frag_payload, enc_frag_payload in R.
  set (fl := if f_more f then c_hasMoreFragmentsFlag else 0) in *.
  assert (Hfl : 0 <= fl < 256) by (unfold fl, c_hasMoreFragmentsFlag; destruct (f_more f); lia).
  cbn [app] in R. rewrite r_u8_byte' in R by exact Hfl.
  replace (c_messageTypeCallReqContinue =? c_messageTypeCallReq) with false in R by reflexivity.
  replace (c_messageTypeCallReqContinue =? c_messageTypeCallRes) with false in R by reflexivity.
  cbn [rerr rb] in R. exact R.
Qed.

Lemma parse_frag_roundtrip_hdr mt hdr f : hdr_parses mt hdr -> frag_wire_ok f ->
  parse_frag_payload mt (enc_frag_payload hdr f) = (0, f).
Proof.
  intros Hh Hf. unfold parse_frag_payload, enc_frag_payload.
  set (fl := if f_more f then c_hasMoreFragmentsFlag else 0).
  assert (Hfl : 0 <= fl < 256) by (unfold fl, c_hasMoreFragmentsFlag; destruct (f_more f); lia).
  cbn [app]. rewrite r_u8_byte' by exact Hfl.
  specialize (Hh ([f_ctype f] ++ f_ck f ++ enc_chunks (f_chunks f))).
  cbn [app] in Hh. rewrite Hh. cbn [rerr rb]. exact (parse_tail_ok f Hf).
Qed.

Section Wire.
  Variables (mt0 mtc id : Z) (hdr0 : list Z).
  Hypothesis Hmt0 : u_ok 1 mt0.
  Hypothesis Hmtc : u_ok 1 mtc.
  Hypothesis Hid : u_ok 4 id.
  Hypothesis Hh0 : hdr_parses mt0 hdr0.
  Hypothesis Hhc : hdr_parses mtc [].

  Definition fits (fs : list frag) : Prop :=
    Forall (fun f => frag_wire_ok f /\ zlen (enc_frag_payload hdr0 f) <= 65519 /\ zlen (enc_frag_payload [] f) <= 65519) fs.

  Lemma msg_frames_ok : forall i fs, fits fs -> Forall wframe_ok (msg_frames i mt0 mtc id hdr0 fs).
  Proof.
    intros i fs; revert i. induction fs as [|f r IH]; intros i H; cbn [msg_frames]; [constructor|].
    pose proof (Forall_inv H) as (_ & H1 & H2). constructor; [|exact (IH false (Forall_inv_tail H))].
    destruct i; cbn [wframe_ok]; auto.
  Qed.

  (* dispatch by id + recvNextFragment + parseInboundFragment recover the fragments *)
  Lemma recv_frags_msg : forall fs i, fits fs ->
    recv_frags i mt0 mtc (for_call id mt0 mtc (map hp_of (msg_frames i mt0 mtc id hdr0 fs))) = fs.
  Proof.
    induction fs as [|f r IH]; intros i H; [reflexivity|].
    pose proof (Forall_inv H) as (Hw & _ & _).
    cbn [msg_frames map hp_of for_call filter fst fh_id fh_type].
    rewrite Z.eqb_refl. cbn [andb].
    assert (T : ((if i then mt0 else mtc) =? mt0) || ((if i then mt0 else mtc) =? mtc) ||
                ((if i then mt0 else mtc) =? c_messageTypeError) = true).
    { destruct i; rewrite Z.eqb_refl; [reflexivity|]. rewrite orb_true_r. reflexivity. }
    rewrite T. cbn [recv_frags fst snd fh_type]. rewrite Z.eqb_refl.
    assert (P : parse_frag_payload (if i then mt0 else mtc) (enc_frag_payload (if i then hdr0 else []) f) = (0, f)).
    { destruct i; apply parse_frag_roundtrip_hdr; assumption. }
    rewrite P. cbn [Z.eqb]. fold (for_call id mt0 mtc (map hp_of (msg_frames false mt0 mtc id hdr0 r))).
    rewrite (IH false (Forall_inv_tail H)). reflexivity.
  Qed.

  Lemma fits_firstn k fs : fits fs -> fits (firstn k fs).
  Proof. unfold fits. revert fs. induction k; intros fs H; [constructor|]. destruct fs; [constructor|].
    cbn [firstn]. constructor; [exact (Forall_inv H)|apply IHk, (Forall_inv_tail H)]. Qed.

  (* THE BYTE STREAM OF A MESSAGE CUT AT ANY BYTE OFFSET n: the receiving side (frame loop,
     dispatch, fragment parser, reader, three helper reads) ends in an error for every
     n below the stream length and in exactly the three arguments for the whole stream *)
  Theorem cut_stream_outcome : forall fs ck0 a1 a2 a3,
    wf fs -> ck_new (first_ctype fs) = Some ck0 -> ck_chain ck0 fs ->
    denote (chunks_of fs) = [a1; a2; a3] -> fits fs ->
    forall n1 n2 n3, 0 < n1 -> 0 < n2 -> 0 < n3 ->
    let stream := stream_of (msg_frames true mt0 mtc id hdr0 fs) in
    forall n, 0 <= n <= zlen stream ->
    recv_outcome id mt0 mtc n1 n2 n3 (cut_at n stream) =
      if n <? zlen stream then OErr else OOk [a1; a2; a3].
  Proof.
    intros fs ck0 a1 a2 a3 Hwf Hck Hchain Hden Hfit n1 n2 n3 H1 H2 H3 stream n Hn.
    unfold recv_outcome, cut_at. unfold zlen in Hn.
    set (nn := Z.to_nat n). assert (Hnn : (nn <= length stream)%nat) by (unfold nn; lia).
    destruct (read_frames_cut _ (msg_frames_ok true fs Hfit) nn (S (length (firstn nn stream))) Hnn) as (k & Hk & E & Hl & He).
    { rewrite firstn_length. lia. }
    fold stream in E. destruct (read_frames (S (length (firstn nn stream))) (firstn nn stream)) as [frames c].
    cbn [fst] in E. subst frames. rewrite msg_frames_length in *.
    rewrite firstn_msg_frames, (recv_frags_msg _ true (fits_firstn k fs Hfit)).
    rewrite (cut_call_outcome fs ck0 a1 a2 a3 Hwf Hck Hchain Hden n1 n2 n3 H1 H2 H3 k Hk).
    fold stream in Hl, He. unfold zlen.
    destruct (n <? Z.of_nat (length stream)) eqn:En.
    - replace (k <? length fs)%nat with true; [reflexivity|]. symmetry. apply Nat.ltb_lt. apply Hl. unfold nn. lia.
    - replace (k <? length fs)%nat with false; [reflexivity|]. symmetry. apply Nat.ltb_ge. rewrite He; [lia|]. unfold nn. lia.
  Qed.
End Wire.
