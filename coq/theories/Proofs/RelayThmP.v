(* Relay model: the C09 theorems derived from the invariants Inv (RelayInv9P) and TInv (RelayTimerP). *)
From Coq Require Import ZArith List Bool Lia.
From Verif Require Import Base.Wrap Gen.GenConsts Gen.GenFrame Model.RelayItems Spec.RelayAccount
  Proofs.RelayAssocP Proofs.RelayCoreP Proofs.RelayInv9P Proofs.RelayTimerP.
Import ListNotations.
Local Open Scope Z_scope.

Definition cb_is_end (x : cb) : bool := match x with CbEnd => true | _ => false end.

Lemma ends_count_end : forall c log, ends c log = count_end cb_is_end c log.
Proof.
  intros c log. induction log as [|[c' x] r IH]; cbn; [reflexivity|]. rewrite IH. unfold is_end. cbn.
  destruct x; cbn; rewrite ?andb_false_r, ?andb_true_r; try reflexivity.
Qed.

Lemma tsum_nonneg : forall f ths, (forall i, 0 <= f i) -> 0 <= tsum f ths.
Proof. intros f ths Hf. unfold tsum. apply asum_nonneg. intros _ code. apply csum_nonneg. exact Hf. Qed.

(* End is reported at most once for every call, in every reachable state *)
Theorem end_at_most_once_thm : forall cf ls st, run_fresh cf init ls = Some st ->
  end_at_most_once cb_is_end (cblog st).
Proof.
  intros cf ls st H c. destruct (reach_both _ _ _ H) as [HI _].
  pose proof (inv_total _ HI c) as Ht. unfold total in Ht. rewrite <- ends_count_end.
  pose proof (tsum_nonneg (tok_i c) (threads st) (tok_i_nonneg c)) as H1.
  pose proof (asum_nonneg (item_tok c) (items st) (item_tok_nonneg c)) as H2.
  unfold started, b2z in Ht. destruct ((1 <=? c) && (c <? next_call st)); lia.
Qed.

(* no goroutine of the relay has anything left to do and no timeout timer is pending *)
Definition quiescent (st : state) : Prop :=
  threads st = [] /\ forall tm x, lookup Z.eqb tm (timers st) = Some x -> tm_armed x = false.

Lemma quiescent_no_live : forall st, Inv st -> TInv st -> quiescent st ->
  forall t it, In (t, it) (items st) -> it_tomb it = true.
Proof.
  intros st HI HT [Hth Harm] t it Hin. destruct (it_tomb it) eqn:Et; [reflexivity|].
  destruct (t_oblig _ HT _ _ Hin Et) as (x&Hx&[A|[(code&Hc&_)|(_&th&code&j&Hc&_)]]).
  - rewrite (Harm _ _ Hx) in A. discriminate.
  - rewrite Hth in Hc. contradiction.
  - rewrite Hth in Hc. contradiction.
Qed.

(* ... then every call the relay host started has ended exactly once *)
Theorem end_exactly_once_thm : forall cf ls st, run_fresh cf init ls = Some st -> quiescent st ->
  forall c, 1 <= c < next_call st -> end_exactly_once cb_is_end c (cblog st).
Proof.
  intros cf ls st H Hq c Hc. destruct (reach_both _ _ _ H) as [HI HT]. unfold end_exactly_once. rewrite <- ends_count_end.
  pose proof (inv_total _ HI c) as Ht. unfold total in Ht.
  assert (Hth : tsum (tok_i c) (threads st) = 0) by (destruct Hq as [-> _]; reflexivity).
  assert (Hit : asum (item_tok c) (items st) = 0).
  { assert (G : forall l, (forall t it, In (t, it) l -> it_tomb it = true) -> asum (item_tok c) l = 0).
    { induction l as [|[t it] r IH]; intro Hall; cbn; [reflexivity|].
      rewrite IH by (intros t' it' Hin; eapply Hall; right; exact Hin).
      unfold item_tok. rewrite (Hall t it (or_introl eq_refl)). rewrite andb_false_r. reflexivity. }
    apply G. apply (quiescent_no_live _ HI HT Hq). }
  unfold started, b2z in Ht.
  assert (E : (1 <=? c) && (c <? next_call st) = true).
  { apply andb_true_iff. split; [apply Z.leb_le|apply Z.ltb_lt]; lia. }
  rewrite E in Ht. lia.
Qed.

(* Relayer.pending is the number of live items of the connection plus the units held by
   goroutines that are between an increment and the Add, or between Entomb/Delete and the decrement *)
Theorem pending_exact_thm : forall cf ls st, run_fresh cf init ls = Some st -> forall k,
  c_pending (get_conn st k) = wrapU 32 (asum (live_i k) (items st) + tsum (hold_i k) (threads st)).
Proof. intros cf ls st H k. destruct (reach_both _ _ _ H) as [HI _]. apply (inv_pending _ HI k). Qed.

(* ... and forgotten: once nothing is left to run and the tombstone GC timers have fired, the
   relay holds no item, no tombstone and no pending count for any connection *)
Theorem forgotten_thm : forall cf ls st, run_fresh cf init ls = Some st -> quiescent st -> gcs st = [] ->
  items st = [] /\ forall k, c_pending (get_conn st k) = 0.
Proof.
  intros cf ls st H Hq Hg. destruct (reach_both _ _ _ H) as [HI HT].
  assert (Hit : items st = []).
  { destruct (items st) as [|[t it] r] eqn:E; [reflexivity|]. exfalso.
    assert (Hin : In (t, it) (items st)) by (rewrite E; left; reflexivity).
    pose proof (quiescent_no_live _ HI HT Hq _ _ Hin) as Ht. destruct (t_tomb _ HT _ _ Hin Ht) as [Hc _]. rewrite Hg in Hc. exact Hc. }
  split; [exact Hit|]. intro k. change (get_conn st k) with (getc (conns st) k). rewrite (inv_pending _ HI k), Hit.
  destruct Hq as [-> _]. reflexivity.
Qed.

(* so a graceful close can complete on every connection: after Close the relayer lets it drain *)
Corollary forgotten_can_close : forall cf ls st k, run_fresh cf init ls = Some st -> quiescent st -> gcs st = [] ->
  c_state (get_conn st k) = c_connectionStartClose ->
  exists st', step cf st (LDrained k) = Some st' /\ c_state (get_conn st' k) = c_connectionClosed.
Proof.
  intros cf ls st k H Hq Hg Hs. destruct (forgotten_thm _ _ _ H Hq Hg) as [_ Hp].
  destruct (reach_both _ _ _ H) as [_ HT].
  unfold step. rewrite (t_nopanic _ HT). cbn [Z.eqb negb]. rewrite Hs, (Hp k). cbn.
  eexists. split; [reflexivity|]. change (get_conn ?s k) with (getc (conns s) k).
  cbn [put_conn set_conns conns]. rewrite getc_insert, Z.eqb_refl. reflexivity.
Qed.

(* the timer pool protocol: no run reaches a Go panic of relay_timer_pool.go (use of a released
   timer, Release of an active timer), and Stop-returned-true excludes the timer firing *)
Theorem timer_protocol_thm : forall cf ls st, run_fresh cf init ls = Some st ->
  panicked st = 0 /\
  forall tm x, lookup Z.eqb tm (timers st) = Some x ->
    (tm_stopped x = true -> tm_armed x = false /\ tm_active x = false /\
       forall code, In (TT tm, code) (threads st) -> code <> [ITimerRun tm]) /\
    (tm_released x = true -> tm_active x = false /\ forall t it, In (t, it) (items st) -> it_tm it <> tm).
Proof.
  intros cf ls st H. destruct (reach_both _ _ _ H) as [HI HT]. split; [apply (t_nopanic _ HT)|].
  intros tm x Hx. destruct (t_phase _ HT _ _ Hx) as (P1&P2&P3&P4). split.
  - intro Hs. destruct (P2 Hs) as [A B]. split; [exact B|]. split; [exact A|].
    intros code Hin Hc. subst code. pose proof (t_code _ HT _ _ Hin) as Hcode. cbn in Hcode.
    destruct Hcode as (_&_&_&y&Hy&Hya&_). rewrite Hx in Hy. inversion Hy. subst y. congruence.
  - intro Hr. split; [apply P3; exact Hr|]. intros t it Hin Heq. destruct (t_item _ HT _ _ Hin) as (y&Hy&_&Hyr).
    rewrite Heq, Hx in Hy. inversion Hy. subst y. congruence.
Qed.
