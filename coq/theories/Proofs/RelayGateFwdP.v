(* C08: the forwarding decisions of the frame-level relay model (Model/RelayFwd.v: receive,
   handle_other) are the gates regenerated from relay.go (Gen/GenRelayGate.v).  At the
   granularity of that model (one frame handled atomically, timer expiry = a label of its own)
   Stop() succeeds on every live item (stopped = true); for a tombstone the gates do not depend
   on what Stop() reports (RelayGapP.tomb_swallows). *)
From Coq Require Import ZArith List Bool.
From Verif Require Import Base.Wrap Base.Bytes Gen.GenConsts Gen.GenFrame Gen.GenRelayFwd Gen.GenRelayGate
  Model.TypedBuf Model.Messages Model.Crc Model.Frag Model.RelayLazy Model.RelayAppend Model.RelayFwd.
Import ListNotations.
Local Open Scope Z_scope.

Definition fwd_found (o : option item) : bool := match o with Some _ => true | None => false end.
Definition fwd_tomb (o : option item) : bool := match o with Some it => it_tomb it | None => false end.

(* Relayer.Receive *)
Lemma fwd_receive_tie : forall st d h p ft,
  let outb := negb (ft =? c_requestFrame) in
  let finished := finishesCall (fh_type h) (flags_of p) in
  let o := get_items st outb d (fh_id h) in
  receive st d h p ft =
  let gate := relayReceiveGate (fwd_found o) (fwd_tomb o) finished true in
  if gate =? 0 then (false, [], st)
  else if gate =? 1 then (true, [], st)
  else (true, [OFrame d h p], if finished then set_item st outb d (fh_id h) None else st).
Proof.
  intros st d h p ft outb finished o. unfold receive. fold outb. fold finished. fold o.
  destruct o as [it|]; cbn [fwd_found fwd_tomb]; [|reflexivity].
  destruct (it_tomb it), finished; reflexivity.
Qed.

(* ... whatever Stop() reports for a tombstone *)
Lemma fwd_receive_tomb : forall st d h p ft it,
  get_items st (negb (ft =? c_requestFrame)) d (fh_id h) = Some it -> it_tomb it = true ->
  receive st d h p ft = (true, [], st) /\
  forall stopped, relayReceiveGate true true (finishesCall (fh_type h) (flags_of p)) stopped = 1.
Proof.
  intros st d h p ft it Hg Ht. split.
  - unfold receive. rewrite Hg, Ht. reflexivity.
  - intros []; destruct (finishesCall (fh_type h) (flags_of p)); reflexivity.
Qed.

(* Relayer.handleNonCallReq: unknown id / swallowed / handed to the destination's Receive *)
Lemma fwd_other_tie : forall st c h p ft,
  frameTypeFor (fh_type h) = Some ft ->
  let outb := (ft =? c_requestFrame) in
  let finished := finishesCall (fh_type h) (flags_of p) in
  let o := get_items st outb c (fh_id h) in
  let gate := relayNonCallGate (fwd_found o) (fwd_tomb o) finished true in
  (gate = 0 \/ gate = 1 -> handle_other st c h p = Some ([], st)) /\
  (gate = 2 -> exists it, o = Some it /\ it_tomb it = false).
Proof.
  intros st c h p ft Hft outb finished o gate. unfold gate. split.
  - intro Hg. unfold handle_other. rewrite Hft. fold outb. fold o.
    destruct o as [it|]; cbn [fwd_found fwd_tomb] in *; [|reflexivity].
    destruct (it_tomb it); [reflexivity|]. destruct finished; cbn in Hg; destruct Hg; discriminate.
  - intro Hg. destruct o as [it|]; cbn [fwd_found fwd_tomb] in *; [|cbn in Hg; discriminate].
    exists it. split; [reflexivity|]. destruct (it_tomb it); [|reflexivity]. destruct finished; cbn in Hg; discriminate.
Qed.

Lemma fwd_gates_model :
  (forall st d h p ft,
     receive st d h p ft =
     let outb := negb (ft =? c_requestFrame) in
     let finished := finishesCall (fh_type h) (flags_of p) in
     let o := get_items st outb d (fh_id h) in
     let gate := relayReceiveGate (fwd_found o) (fwd_tomb o) finished true in
     if gate =? 0 then (false, [], st)
     else if gate =? 1 then (true, [], st)
     else (true, [OFrame d h p], if finished then set_item st outb d (fh_id h) None else st)) /\
  (forall st c h p ft, frameTypeFor (fh_type h) = Some ft ->
     let o := get_items st (ft =? c_requestFrame) c (fh_id h) in
     let gate := relayNonCallGate (fwd_found o) (fwd_tomb o) (finishesCall (fh_type h) (flags_of p)) true in
     (gate = 0 \/ gate = 1 -> handle_other st c h p = Some ([], st)) /\
     (gate = 2 -> exists it, o = Some it /\ it_tomb it = false)) /\
  (forall finished stopped, relayReceiveGate true true finished stopped = 1 /\ relayNonCallGate true true finished stopped = 1).
Proof.
  split; [intros; apply fwd_receive_tie|]. split; [intros st c h p ft Hft; apply (fwd_other_tie st c h p ft Hft)|].
  intros [] []; split; reflexivity.
Qed.
